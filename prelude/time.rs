// ---- TRUSTED: model of std::time.  Instant is a point on an abstract line (nanoseconds), `Instant::now()` returns an
// arbitrary instant (not even monotone: every clock behaviour is covered), Duration arithmetic is exact, `Instant + Duration`
// does not overflow.
#[verifier::external_body]
#[verifier::external_type_specification]
pub struct ExInstant(Instant);
#[verifier::external_type_specification]
pub struct ExReverse<T>(std::cmp::Reverse<T>);
pub uninterp spec fn inst(i: Instant) -> int;
pub uninterp spec fn dur(d: Duration) -> int;
pub uninterp spec fn is_now(t: Instant) -> bool;
pub assume_specification [Instant::now] () -> (r: Instant) ensures is_now(r);
pub assume_specification [Duration::from_secs] (s: u64) -> (r: Duration) ensures dur(r) == s * 1_000_000_000;
pub assume_specification [Duration::as_secs] (d: &Duration) -> (r: u64) ensures r == dur(*d) / 1_000_000_000, dur(*d) >= 0;
pub assume_specification [Instant::saturating_duration_since] (a: &Instant, b: Instant) -> (r: Duration)
    ensures dur(r) == if inst(*a) >= inst(b) { inst(*a) - inst(b) } else { 0 };
pub assume_specification<T, E> [Result::<T, E>::unwrap_or] (r: Result<T, E>, d: T) -> (o: T)
    ensures o == (match r { Ok(t) => t, Err(_) => d });
pub broadcast axiom fn axiom_instant_add(a: Instant, d: Duration)
    ensures #[trigger] a.add_req(d), inst(a.add_spec(d)) == inst(a) + dur(d);
pub broadcast axiom fn axiom_instant_add_obeys() ensures #[trigger] <Instant as vstd::std_specs::ops::AddSpec<Duration>>::obeys_add_spec();
pub broadcast axiom fn axiom_instant_cmp(a: Instant, b: Instant)
    ensures #[trigger] a.partial_cmp_spec(&b) == (if inst(a) < inst(b) { Some(std::cmp::Ordering::Less) } else if inst(a) == inst(b) { Some(std::cmp::Ordering::Equal) } else { Some(std::cmp::Ordering::Greater) });
pub broadcast axiom fn axiom_instant_cmp_obeys() ensures #[trigger] <Instant as vstd::std_specs::cmp::PartialOrdSpec>::obeys_partial_cmp_spec();
pub broadcast axiom fn axiom_instant_eq(a: Instant, b: Instant)
    ensures #[trigger] a.eq_spec(&b) == (inst(a) == inst(b));
pub broadcast axiom fn axiom_instant_eq_obeys() ensures #[trigger] <Instant as vstd::std_specs::cmp::PartialEqSpec>::obeys_eq_spec();
pub broadcast group group_time {
    axiom_instant_add, axiom_instant_add_obeys, axiom_instant_cmp, axiom_instant_cmp_obeys, axiom_instant_eq, axiom_instant_eq_obeys,
}
