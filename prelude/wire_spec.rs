// ---- wire-level specification vocabulary shared by the decoder and encoder units (spec fns + proved lemmas)
pub open spec fn rr_names_wf(d: RecordTypeWithData) -> bool {
    match d {
        RecordTypeWithData::NS { nsdname } => nsdname.wf(),
        RecordTypeWithData::MD { madname } => madname.wf(),
        RecordTypeWithData::MF { madname } => madname.wf(),
        RecordTypeWithData::CNAME { cname } => cname.wf(),
        RecordTypeWithData::SOA { mname, rname, .. } => mname.wf() && rname.wf(),
        RecordTypeWithData::MB { madname } => madname.wf(),
        RecordTypeWithData::MG { mdmname } => mdmname.wf(),
        RecordTypeWithData::MR { newname } => newname.wf(),
        RecordTypeWithData::PTR { ptrdname } => ptrdname.wf(),
        RecordTypeWithData::MINFO { rmailbx, emailbx } => rmailbx.wf() && emailbx.wf(),
        RecordTypeWithData::MX { exchange, .. } => exchange.wf(),
        RecordTypeWithData::SRV { target, .. } => target.wf(),
        _ => true,
    }
}
pub open spec fn spec_rtype_of(d: RecordTypeWithData) -> RecordType {
    match d {
        RecordTypeWithData::A { .. } => RecordType::A,
        RecordTypeWithData::NS { .. } => RecordType::NS,
        RecordTypeWithData::MD { .. } => RecordType::MD,
        RecordTypeWithData::MF { .. } => RecordType::MF,
        RecordTypeWithData::CNAME { .. } => RecordType::CNAME,
        RecordTypeWithData::SOA { .. } => RecordType::SOA,
        RecordTypeWithData::MB { .. } => RecordType::MB,
        RecordTypeWithData::MG { .. } => RecordType::MG,
        RecordTypeWithData::MR { .. } => RecordType::MR,
        RecordTypeWithData::NULL { .. } => RecordType::NULL,
        RecordTypeWithData::WKS { .. } => RecordType::WKS,
        RecordTypeWithData::PTR { .. } => RecordType::PTR,
        RecordTypeWithData::HINFO { .. } => RecordType::HINFO,
        RecordTypeWithData::MINFO { .. } => RecordType::MINFO,
        RecordTypeWithData::MX { .. } => RecordType::MX,
        RecordTypeWithData::TXT { .. } => RecordType::TXT,
        RecordTypeWithData::AAAA { .. } => RecordType::AAAA,
        RecordTypeWithData::SRV { .. } => RecordType::SRV,
        RecordTypeWithData::Unknown { tag, .. } => RecordType::Unknown(tag),
    }
}

// RFC 1035 section 4.1.1 header layout, third and fourth octet:
//   |QR|   Opcode  |AA|TC|RD|     |RA|   Z    |   RCODE   |
//    7   6 5 4 3    2  1  0        7  6 5 4     3 2 1 0
pub open spec fn bit(b: bool, n: u8) -> u8 { if b { (1u8 << n) as u8 } else { 0u8 } }
pub open spec fn header_flags1(h: Header) -> u8 {
    bit(h.is_response, 7) | (((spec_opcode_to(h.opcode) & 0x0f) << 3) as u8) | bit(h.is_authoritative, 2) | bit(h.is_truncated, 1) | bit(h.recursion_desired, 0)
}
pub open spec fn header_flags2(h: Header) -> u8 {
    bit(h.recursion_available, 7) | (spec_rcode_to(h.rcode) & 0x0f)
}
pub open spec fn header_unpack(id: u16, f1: u8, f2: u8) -> Header {
    Header {
        id,
        is_response: f1 & 0x80 != 0,
        opcode: spec_opcode_from(((f1 >> 3) & 0x0f) as u8),
        is_authoritative: f1 & 0x04 != 0,
        is_truncated: f1 & 0x02 != 0,
        recursion_desired: f1 & 0x01 != 0,
        recursion_available: f2 & 0x80 != 0,
        rcode: spec_rcode_from(f2 & 0x0f),
    }
}
// private payloads of the Reserved/Unknown variants: the value is not one of the named codes
pub closed spec fn opcode_wf(o: Opcode) -> bool { match o { Opcode::Reserved(OpcodeReserved(x)) => 3 <= x < 16, _ => true } }
pub closed spec fn rcode_wf(c: Rcode) -> bool { match c { Rcode::Reserved(RcodeReserved(x)) => 6 <= x < 16, _ => true } }
pub closed spec fn rtype_wf(t: RecordType) -> bool {
    match t { RecordType::Unknown(RecordTypeUnknown(x)) => !(1 <= x <= 16) && x != 28 && x != 33, _ => true } }
pub closed spec fn rclass_wf(c: RecordClass) -> bool { match c { RecordClass::Unknown(RecordClassUnknown(x)) => x != 1, _ => true } }
pub closed spec fn qtype_wf(t: QueryType) -> bool { match t { QueryType::Record(r) => rtype_wf(r) && !(252 <= spec_rtype_to(r) <= 255), _ => true } }
pub closed spec fn qclass_wf(c: QueryClass) -> bool { match c { QueryClass::Record(r) => rclass_wf(r) && spec_rclass_to(r) != 255, _ => true } }
pub open spec fn header_wf(h: Header) -> bool { opcode_wf(h.opcode) && rcode_wf(h.rcode) }

// C04 clause 1: the flag and enum codecs are bijections (lemmas over the oracles the real conversions are verified against)
pub proof fn lemma_rtype_bijection(v: u16, t: RecordType)
    ensures spec_rtype_to(spec_rtype_from(v)) == v, rtype_wf(spec_rtype_from(v)), // [C04:rtype_codec_roundtrip]
            rtype_wf(t) ==> spec_rtype_from(spec_rtype_to(t)) == t, // [C04:rtype_codec_roundtrip]
{}
pub proof fn lemma_rclass_bijection(v: u16, t: RecordClass)
    ensures spec_rclass_to(spec_rclass_from(v)) == v, rclass_wf(spec_rclass_from(v)), // [C04:rclass_codec_roundtrip]
            rclass_wf(t) ==> spec_rclass_from(spec_rclass_to(t)) == t, // [C04:rclass_codec_roundtrip]
{}
pub proof fn lemma_qtype_bijection(v: u16, t: QueryType)
    ensures spec_qtype_to(spec_qtype_from(v)) == v, qtype_wf(spec_qtype_from(v)), // [C04:qtype_codec_roundtrip]
            qtype_wf(t) ==> spec_qtype_from(spec_qtype_to(t)) == t, // [C04:qtype_codec_roundtrip]
{ lemma_rtype_bijection(v, RecordType::A); if let QueryType::Record(r) = t { lemma_rtype_bijection(v, r); } }
pub proof fn lemma_qclass_bijection(v: u16, t: QueryClass)
    ensures spec_qclass_to(spec_qclass_from(v)) == v, qclass_wf(spec_qclass_from(v)), // [C04:qclass_codec_roundtrip]
            qclass_wf(t) ==> spec_qclass_from(spec_qclass_to(t)) == t, // [C04:qclass_codec_roundtrip]
{ lemma_rclass_bijection(v, RecordClass::IN); if let QueryClass::Record(r) = t { lemma_rclass_bijection(v, r); } }
pub proof fn lemma_opcode_bijection(v: u8, t: Opcode)
    ensures v < 16 ==> spec_opcode_to(spec_opcode_from(v)) == v, // [C04:opcode_codec_roundtrip]
            opcode_wf(spec_opcode_from(v)),
            opcode_wf(t) ==> spec_opcode_from(spec_opcode_to(t)) == t && spec_opcode_to(t) < 16, // [C04:opcode_codec_roundtrip]
{
    assert(v < 16 ==> v & 0x0f == v) by(bit_vector);
    assert(v & 0x0f < 16) by(bit_vector);
    let x = spec_opcode_to(t);
    assert(x < 16 ==> x & 0x0f == x) by(bit_vector);
}
pub proof fn lemma_rcode_bijection(v: u8, t: Rcode)
    ensures v < 16 ==> spec_rcode_to(spec_rcode_from(v)) == v, // [C04:rcode_codec_roundtrip]
            rcode_wf(spec_rcode_from(v)),
            rcode_wf(t) ==> spec_rcode_from(spec_rcode_to(t)) == t && spec_rcode_to(t) < 16, // [C04:rcode_codec_roundtrip]
{
    assert(v < 16 ==> v & 0x0f == v) by(bit_vector);
    assert(v & 0x0f < 16) by(bit_vector);
    let x = spec_rcode_to(t);
    assert(x < 16 ==> x & 0x0f == x) by(bit_vector);
}
pub proof fn lemma_flag_bits(qr: bool, op: u8, aa: bool, tc: bool, rd: bool, ra: bool, rc: u8)
    requires op < 16, rc < 16
    ensures ({
        let f1 = bit(qr, 7) | (((op & 0x0f) << 3) as u8) | bit(aa, 2) | bit(tc, 1) | bit(rd, 0);
        let f2 = bit(ra, 7) | (rc & 0x0f);
        &&& (f1 & 0x80 != 0) == qr &&& ((f1 >> 3) & 0x0f) as u8 == op &&& (f1 & 0x04 != 0) == aa &&& (f1 & 0x02 != 0) == tc &&& (f1 & 0x01 != 0) == rd
        &&& (f2 & 0x80 != 0) == ra &&& f2 & 0x0f == rc &&& f2 & 0x70 == 0
    })
{
    let b7 = bit(qr, 7); let b2 = bit(aa, 2); let b1 = bit(tc, 1); let b0 = bit(rd, 0); let a7 = bit(ra, 7);
    assert((1u8 << 7u8) == 0x80 && (1u8 << 2u8) == 4 && (1u8 << 1u8) == 2 && (1u8 << 0u8) == 1) by(bit_vector);
    assert(b7 == (if qr { 0x80u8 } else { 0u8 }));
    assert(b2 == (if aa { 4u8 } else { 0u8 }));
    lemma_f1_bits(b7, op, b2, b1, b0);
    lemma_f2_bits(a7, rc);
}
proof fn lemma_f1_bits(b7: u8, op: u8, b2: u8, b1: u8, b0: u8) by(bit_vector)
    requires (b7 == 0 || b7 == 0x80), op < 16, (b2 == 0 || b2 == 4), (b1 == 0 || b1 == 2), (b0 == 0 || b0 == 1)
    ensures ({
        let f1 = b7 | (((op & 0x0f) << 3) as u8) | b2 | b1 | b0;
        (f1 & 0x80 != 0) == (b7 != 0) && ((f1 >> 3) & 0x0f) as u8 == op && (f1 & 0x04 != 0) == (b2 != 0) && (f1 & 0x02 != 0) == (b1 != 0) && (f1 & 0x01 != 0) == (b0 != 0)
    })
{}
proof fn lemma_f2_bits(a7: u8, rc: u8) by(bit_vector)
    requires (a7 == 0 || a7 == 0x80), rc < 16
    ensures ({
        let f2 = a7 | (rc & 0x0f);
        (f2 & 0x80 != 0) == (a7 != 0) && f2 & 0x0f == rc && f2 & 0x70 == 0
    })
{}
// decoding the two flag octets an encoder wrote gives the header back
pub proof fn lemma_header_roundtrip(h: Header)
    requires header_wf(h)
    ensures header_unpack(h.id, header_flags1(h), header_flags2(h)) == h // [C04:header_flags_roundtrip]
{
    lemma_opcode_bijection(0, h.opcode);
    lemma_rcode_bijection(0, h.rcode);
    lemma_flag_bits(h.is_response, spec_opcode_to(h.opcode), h.is_authoritative, h.is_truncated, h.recursion_desired, h.recursion_available, spec_rcode_to(h.rcode));
}
pub broadcast proof fn lemma_be16_div_mod(v: u16)
    ensures #[trigger] be16((v / 256) as u8, (v % 256) as u8) == v
{}

// the decoder extracts the opcode / rcode fields with the mask constants; same values as the RFC-diagram form of header_unpack
pub proof fn lemma_header_decode_bits(f1: u8, f2: u8)
    ensures (((f1 & 0x78u8) >> 3usize) & 0x0f) == ((f1 >> 3) & 0x0f) & 0x0f,
            (((f2 & 0x0fu8) >> 0usize) & 0x0f) == (f2 & 0x0f) & 0x0f,
{
    assert((((f1 & 0x78u8) >> 3u8) & 0x0f) == ((f1 >> 3u8) & 0x0f) & 0x0f) by(bit_vector);
    assert((((f2 & 0x0fu8) >> 0u8) & 0x0f) == (f2 & 0x0f) & 0x0f) by(bit_vector);
    assert(((f1 & 0x78u8) >> 3usize) == ((f1 & 0x78u8) >> 3u8)) by(bit_vector);
    assert(((f2 & 0x0fu8) >> 0usize) == ((f2 & 0x0fu8) >> 0u8)) by(bit_vector);
}
