// ---- TRUSTED: element equality of Label is structural (derived PartialEq), so vstd's ends_with spec applies
pub broadcast axiom fn axiom_label_eq_structural(a: Label, b: Label)
    ensures #[trigger] a.eq_spec(&b) == (a == b);
pub broadcast axiom fn axiom_label_obeys_eq()
    ensures #[trigger] <Label as vstd::std_specs::cmp::PartialEqSpec>::obeys_eq_spec();

// proved: vstd's ends_with specification coincides with label-wise suffix
pub broadcast proof fn lemma_ends_with_is_suffix(s: &[Label], n: &[Label])
    ensures #[trigger] vstd::std_specs::slice::spec_slice_ends_with(s, n) == is_suffix(n@, s@)
{
    broadcast use axiom_label_eq_structural, axiom_label_obeys_eq;
    if vstd::std_specs::slice::spec_slice_ends_with(s, n) {
        assert(s@.subrange(s@.len() - n@.len(), s@.len() as int) =~= n@);
    }
    if is_suffix(n@, s@) {
        assert forall|i: int| 0 <= i < n@.len() implies #[trigger] n@[i] == s@[s@.len() - n@.len() + i] by {
            assert(s@.subrange(s@.len() - n@.len(), s@.len() as int)[i] == n@[i]);
        }
    }
}
// <[T]>::contains: membership up to the element type's equality (structural for the derived impls used here)
pub assume_specification<T: std::cmp::PartialEq> [<[T]>::contains] (s: &[T], x: &T) -> (r: bool)
    ensures <T as vstd::std_specs::cmp::PartialEqSpec>::obeys_eq_spec() ==> r == exists|i: int| 0 <= i < s@.len() && #[trigger] s@[i].eq_spec(x);
// std: <[u8]>::is_ascii - every octet below 128
pub assume_specification [<[u8]>::is_ascii] (s: &[u8]) -> (r: bool) ensures r == (forall|i: int| 0 <= i < s@.len() ==> (#[trigger] s@[i]) <= 127);
