// ---- TRUSTED: HashMap / HashSet beyond vstd.  Keys: derived Hash and Eq agree (obeys_key_model axioms).
pub broadcast axiom fn axiom_dn_key_model() ensures #[trigger] obeys_key_model::<DomainName>();
pub broadcast axiom fn axiom_label_key_model() ensures #[trigger] obeys_key_model::<Label>();
pub broadcast axiom fn axiom_rt_key_model() ensures #[trigger] obeys_key_model::<RecordType>();

pub uninterp spec fn borrowed_key_updated<K, V, Q: ?Sized>(old: Map<K, V>, new: Map<K, V>, k: &Q, v: V) -> bool;
pub broadcast axiom fn axiom_borrowed_key_updated<K, V>(old: Map<K, V>, new: Map<K, V>, k: &K, v: V)
    ensures #[trigger] borrowed_key_updated::<K, V, K>(old, new, k, v) <==> new == old.insert(*k, v);

// HashMap::get_mut: the returned borrow's final value is what the map holds under that key afterwards (prophecy)
pub assume_specification<'a, K, V, S, A, Q> [std::collections::HashMap::<K, V, S, A>::get_mut] (m: &'a mut std::collections::HashMap<K, V, S, A>, k: &Q) -> (r: std::option::Option<&'a mut V>)
          where
          A: std::alloc::Allocator,
          K: std::cmp::Eq + std::hash::Hash + std::borrow::Borrow<Q>,
          Q: std::marker::MetaSized + std::hash::Hash + std::cmp::Eq + ?Sized,
          S: std::hash::BuildHasher,
    ensures
        obeys_key_model::<K>() && builds_valid_hashers::<S>() ==> match r {
            Some(x) => contains_borrowed_key(old(m)@, k) && maps_borrowed_key_to_value(old(m)@, k, *x)
                 && borrowed_key_updated(old(m)@, final(m)@, k, *final(x)),
            None => final(m)@ == old(m)@ && !contains_borrowed_key(old(m)@, k),
        }
;

// R3: `for (k, v) in map` (consuming) iterates this vector instead: the same pairs, each key once, order unspecified
#[verifier::external_body]
pub fn shim_hashmap_into_vec<K: std::cmp::Eq + std::hash::Hash, V>(m: HashMap<K, V>) -> (r: Vec<(K, V)>)
    ensures
        obeys_key_model::<K>() ==> {
            &&& r@.len() == m@.dom().len()
            &&& forall|i: int| 0 <= i < r@.len() ==> m@.contains_key(#[trigger] r@[i].0) && m@[r@[i].0] == r@[i].1
            &&& forall|k: K| m@.contains_key(k) ==> exists|i: int| 0 <= i < r@.len() && #[trigger] r@[i].0 == k
            &&& forall|i: int, j: int| 0 <= i < j < r@.len() ==> r@[i].0 != r@[j].0
            &&& forall|i: int| 0 <= i < r@.len() ==> decreases_to!(m => #[trigger] r@[i].1)
        }
{ m.into_iter().collect() }

// R3b: `a.extend(b)` for two hash maps: every pair of b is inserted into a, b's value winning for a key both hold
#[verifier::external_body]
pub fn shim_hashmap_extend<K: std::cmp::Eq + std::hash::Hash, V>(a: &mut HashMap<K, V>, b: HashMap<K, V>)
    ensures obeys_key_model::<K>() ==> final(a)@ == old(a)@.union_prefer_right(b@)
{ a.extend(b) }

// R8: `xs.iter().any(|e| e == &y)`; element equality is structural (derived PartialEq)
#[verifier::external_body]
pub fn shim_vec_contains<T: PartialEq>(v: &Vec<T>, x: &T) -> (r: bool)
    ensures r == v@.contains(*x)
{ v.iter().any(|e| e == x) }

// R17
// opaque: its two clauses trigger each other; use the two lemmas below to instantiate
#[verifier::opaque]
pub open spec fn values_of<K, V>(m: Map<K, V>, vs: Seq<&V>) -> bool {
    &&& forall|k: K| m.contains_key(k) ==> exists|j: int| 0 <= j < vs.len() && *#[trigger] vs[j] == m[k]
    &&& forall|j: int| 0 <= j < vs.len() ==> exists|k: K| m.contains_key(k) && #[trigger] m[k] == *#[trigger] vs[j]
}
#[verifier::external_body]
pub fn shim_hashmap_values<'a, K, V>(m: &'a HashMap<K, V>) -> (r: Vec<&'a V>)
    ensures values_of(m@, r@), forall|k: K| m@.contains_key(k) ==> r@.len() > 0
{ m.values().collect() }

pub proof fn lemma_values_of_key<K, V>(m: Map<K, V>, vs: Seq<&V>, k: K) -> (j: int)
    requires values_of(m, vs), m.contains_key(k)
    ensures 0 <= j < vs.len(), *vs[j] == m[k]
{ reveal(values_of); choose|j: int| 0 <= j < vs.len() && *#[trigger] vs[j] == m[k] }
pub proof fn lemma_values_of_index<K, V>(m: Map<K, V>, vs: Seq<&V>, j: int) -> (k: K)
    requires values_of(m, vs), 0 <= j < vs.len()
    ensures m.contains_key(k), m[k] == *vs[j]
{ reveal(values_of); choose|k: K| m.contains_key(k) && #[trigger] m[k] == *vs[j] }
pub proof fn lemma_values_of_empty<K, V>(m: Map<K, V>, vs: Seq<&V>)
    requires values_of(m, vs), vs.len() == 0
    ensures forall|k: K| !m.contains_key(k)
{ reveal(values_of); }
