// ---- TRUSTED: std::net::SocketAddr as an (ip, port) pair; included after the unit's type specifications for SocketAddr / IpAddr
pub uninterp spec fn addr_port(a: SocketAddr) -> u16;
pub uninterp spec fn addr_ip(a: SocketAddr) -> IpAddr;
pub assume_specification [std::net::SocketAddr::new] (ip: std::net::IpAddr, port: u16) -> (r: std::net::SocketAddr) ensures addr_ip(r) == ip, addr_port(r) == port;
pub assume_specification [std::net::SocketAddr::ip] (a: &std::net::SocketAddr) -> (r: std::net::IpAddr) ensures r == addr_ip(*a);
pub assume_specification [std::net::SocketAddr::port] (a: &std::net::SocketAddr) -> (r: u16) ensures r == addr_port(*a);
