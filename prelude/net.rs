// ---- TRUSTED: std::net constructors are total (no contract needed: addresses are opaque values here)
pub uninterp spec fn ipv4_of(v: u32) -> Ipv4Addr;
pub assume_specification [<std::net::Ipv4Addr as From<u32>>::from] (v: u32) -> (r: std::net::Ipv4Addr) ensures r == ipv4_of(v);
pub uninterp spec fn ipv6_of(a: u16, b: u16, c: u16, d: u16, e: u16, f: u16, g: u16, h: u16) -> Ipv6Addr;
pub assume_specification [std::net::Ipv6Addr::new] (a: u16, b: u16, c: u16, d: u16, e: u16, f: u16, g: u16, h: u16) -> (r: std::net::Ipv6Addr) ensures r == ipv6_of(a, b, c, d, e, f, g, h);

