// ---- finite sums over map values (spec fn + proved lemmas; nothing assumed)
pub open spec fn map_sum<K, V>(m: Map<K, V>, f: spec_fn(V) -> nat) -> nat
    decreases m.dom().len()
{
    if m.dom().len() == 0 { 0 } else { let k = m.dom().choose(); f(m[k]) + map_sum(m.remove(k), f) }
}
pub proof fn lemma_map_sum_remove<K, V>(m: Map<K, V>, f: spec_fn(V) -> nat, k: K)
    requires m.contains_key(k)
    ensures map_sum(m, f) == f(m[k]) + map_sum(m.remove(k), f)
    decreases m.dom().len()
{
    let c = m.dom().choose();
    assert(m.dom().len() > 0) by { if m.dom().len() == 0 { assert(m.dom() =~= Set::<K>::empty()); } }
    if c == k {
    } else {
        assert(m.dom().contains(c)) by { vstd::set_lib::lemma_set_empty_equivalency_len(m.dom()); }
        let mc = m.remove(c);
        assert(mc.dom() =~= m.dom().remove(c));
        lemma_map_sum_remove(mc, f, k);
        let mk = m.remove(k);
        assert(mk.dom() =~= m.dom().remove(k));
        lemma_map_sum_remove(mk, f, c);
        assert(mc.remove(k) =~= mk.remove(c));
    }
}
pub proof fn lemma_map_sum_insert<K, V>(m: Map<K, V>, f: spec_fn(V) -> nat, k: K, v: V)
    ensures map_sum(m.insert(k, v), f) == f(v) + (if m.contains_key(k) { map_sum(m, f) - f(m[k]) } else { map_sum(m, f) as int }),
            m.contains_key(k) ==> map_sum(m, f) >= f(m[k])
{
    let mi = m.insert(k, v);
    lemma_map_sum_remove(mi, f, k);
    if m.contains_key(k) {
        lemma_map_sum_remove(m, f, k);
        assert(mi.remove(k) =~= m.remove(k));
    } else {
        assert(mi.remove(k) =~= m);
    }
}
pub proof fn lemma_map_sum_empty<K, V>(f: spec_fn(V) -> nat)
    ensures map_sum(Map::<K, V>::empty(), f) == 0
{}
pub proof fn lemma_map_sum_zero<K, V>(m: Map<K, V>, f: spec_fn(V) -> nat)
    requires map_sum(m, f) == 0
    ensures forall|k: K| m.contains_key(k) ==> f(#[trigger] m[k]) == 0
{
    assert forall|k: K| m.contains_key(k) implies f(#[trigger] m[k]) == 0 by { lemma_map_sum_remove(m, f, k); }
}
pub proof fn lemma_map_sum_all_zero<K, V>(m: Map<K, V>, f: spec_fn(V) -> nat)
    requires forall|k: K| m.contains_key(k) ==> f(#[trigger] m[k]) == 0
    ensures map_sum(m, f) == 0
    decreases m.dom().len()
{
    if m.dom().len() > 0 {
        let c = m.dom().choose();
        assert(m.dom().contains(c)) by { vstd::set_lib::lemma_set_empty_equivalency_len(m.dom()); }
        assert(m.remove(c).dom() =~= m.dom().remove(c));
        assert forall|k: K| m.remove(c).contains_key(k) implies f(#[trigger] m.remove(c)[k]) == 0 by { assert(m.contains_key(k)); assert(m.remove(c)[k] == m[k]); }
        lemma_map_sum_all_zero(m.remove(c), f);
    }
}
pub proof fn lemma_map_sum_le<K, V>(a: Map<K, V>, b: Map<K, V>, f: spec_fn(V) -> nat)
    requires forall|k: K| a.contains_key(k) <==> b.contains_key(k), forall|k: K| a.contains_key(k) ==> f(#[trigger] b[k]) <= f(a[k])
    ensures map_sum(b, f) <= map_sum(a, f)
    decreases a.dom().len()
{
    if a.dom().len() == 0 {
        assert(a.dom() =~= Set::<K>::empty());
        assert(b.dom() =~= Set::<K>::empty());
    } else {
        let c = a.dom().choose();
        assert(a.dom().contains(c)) by { vstd::set_lib::lemma_set_empty_equivalency_len(a.dom()); }
        lemma_map_sum_remove(a, f, c);
        lemma_map_sum_remove(b, f, c);
        assert(a.remove(c).dom() =~= a.dom().remove(c));
        assert forall|k: K| a.remove(c).contains_key(k) implies f(#[trigger] b.remove(c)[k]) <= f(a.remove(c)[k]) by { assert(a.contains_key(k)); assert(b.remove(c)[k] == b[k]); assert(a.remove(c)[k] == a[k]); }
        lemma_map_sum_le(a.remove(c), b.remove(c), f);
    }
}
// filtering out at least one element makes a sequence strictly shorter
pub proof fn lemma_filter_strict<T>(s: Seq<T>, pred: spec_fn(T) -> bool, i: int)
    requires 0 <= i < s.len(), !pred(s[i])
    ensures s.filter(pred).len() < s.len()
    decreases s.len()
{
    reveal(Seq::filter);
    s.drop_last().filter_lemma(pred);
    if i == s.len() - 1 {
    } else {
        assert(s.drop_last()[i] == s[i]);
        lemma_filter_strict(s.drop_last(), pred, i);
    }
}
