// ---- specification vocabulary for domain names (spec fns and *proved* lemmas; nothing here is assumed)
pub open spec fn labels_sum(labels: Seq<Label>) -> nat
    decreases labels.len()
{ if labels.len() == 0 { 0 } else { labels_sum(labels.drop_last()) + 1 + labels.last().v().len() } }

pub broadcast proof fn lemma_labels_sum_push(labels: Seq<Label>, l: Label)
    ensures #[trigger] labels_sum(labels.push(l)) == labels_sum(labels) + 1 + l.v().len()
{ assert(labels.push(l).drop_last() =~= labels); }

pub proof fn lemma_labels_sum_lower(labels: Seq<Label>)
    ensures labels_sum(labels) >= labels.len()
    decreases labels.len()
{ if labels.len() > 0 { lemma_labels_sum_lower(labels.drop_last()); } }

pub broadcast proof fn lemma_labels_sum_concat(a: Seq<Label>, b: Seq<Label>)
    ensures #[trigger] labels_sum(a + b) == labels_sum(a) + labels_sum(b)
    decreases b.len()
{
    if b.len() == 0 { assert(a + b =~= a); }
    else {
        assert((a + b).drop_last() =~= a + b.drop_last());
        lemma_labels_sum_concat(a, b.drop_last());
    }
}

pub broadcast proof fn lemma_labels_sum_one(s: Seq<Label>)
    requires s.len() == 1
    ensures #[trigger] labels_sum(s) == 1 + s[0].v().len()
{ assert(s.drop_last() =~= Seq::<Label>::empty()); assert(labels_sum(Seq::<Label>::empty()) == 0); }

pub proof fn lemma_labels_sum_upper(labels: Seq<Label>)
    requires all_labels_wf(labels)
    ensures labels_sum(labels) <= 64 * labels.len()
    decreases labels.len()
{ if labels.len() > 0 { assert(labels.last().wf()); lemma_labels_sum_upper(labels.drop_last()); } }

pub broadcast proof fn lemma_take_full(s: Seq<Label>)
    ensures #[trigger] s.take(s.len() as int) == s
{ assert(s.take(s.len() as int) =~= s); }

// "absolute, no empty label other than the final root label"
pub open spec fn shape_ok(ls: Seq<Label>) -> bool {
    ls.len() > 0 && ls.last().v().len() == 0 && forall|i: int| 0 <= i < ls.len() - 1 ==> (#[trigger] ls[i]).v().len() > 0
}
pub open spec fn all_labels_wf(ls: Seq<Label>) -> bool {
    forall|i: int| 0 <= i < ls.len() ==> (#[trigger] ls[i]).wf()
}
pub open spec fn is_suffix<T>(s: Seq<T>, of: Seq<T>) -> bool {
    s.len() <= of.len() && of.subrange(of.len() - s.len(), of.len() as int) == s
}

impl Label {
    pub closed spec fn v(&self) -> Seq<u8> { bv(&self.octets) }
    // "labels of at most 63 octets", stored lower-cased (the mechanism behind case-insensitive comparison)
    pub open spec fn wf(&self) -> bool {
        self.v().len() <= 63 && forall|i: int| 0 <= i < self.v().len() ==> !(65 <= #[trigger] self.v()[i] <= 90)
    }
}
impl DomainName {
    // C16: absolute, one empty label (the last), labels <= 63, total <= 255, recorded length == encoded length
    pub open spec fn wf(&self) -> bool {
        &&& shape_ok(self.labels@)
        &&& all_labels_wf(self.labels@)
        &&& self.len == labels_sum(self.labels@)
        &&& self.len <= 255
    }
}

// C16 "compares ... without regard to ASCII letter case": a lemma over Label::try_from's postcondition
// (r.v() == map(lower, input)): inputs that differ only in letter case give labels with equal octets.
pub open spec fn eq_ignore_case(a: Seq<u8>, b: Seq<u8>) -> bool {
    a.len() == b.len() && forall|i: int| 0 <= i < a.len() ==> lower(#[trigger] a[i]) == lower(b[i])
}
pub proof fn lemma_case_insensitive(a: Seq<u8>, b: Seq<u8>)
    ensures eq_ignore_case(a, b) <==> a.map_values(|x: u8| lower(x)) == b.map_values(|x: u8| lower(x)) // [C16:case_insensitive]
{
    let la = a.map_values(|x: u8| lower(x));
    let lb = b.map_values(|x: u8| lower(x));
    if eq_ignore_case(a, b) { assert(la =~= lb); }
    if la == lb {
        assert(a.len() == la.len() && b.len() == lb.len());
        assert forall|i: int| 0 <= i < a.len() implies lower(#[trigger] a[i]) == lower(b[i]) by { assert(la[i] == lower(a[i])); assert(lb[i] == lower(b[i])); }
    }
}
// lower-casing is idempotent and produces no upper-case octet (so a wf label is a fixed point)
pub proof fn lemma_lower_no_upper(b: u8)
    ensures !(65 <= lower(b) <= 90), lower(lower(b)) == lower(b)
{}
