// ---- TRUSTED: std functions for which vstd has no (or too weak a) specification
pub open spec fn lower(b: u8) -> u8 { if 65 <= b && b <= 90 { (b + 32) as u8 } else { b } }
pub assume_specification [<[u8]>::to_ascii_lowercase] (s: &[u8]) -> (r: std::vec::Vec<u8>)
    ensures r@ == s@.map_values(|b: u8| lower(b));

pub open spec fn be16(hi: u8, lo: u8) -> u16 { ((hi as u16) * 256 + (lo as u16)) as u16 }
pub open spec fn be32(a: u8, b: u8, c: u8, d: u8) -> u32 { ((a as u32) * 16777216 + (b as u32) * 65536 + (c as u32) * 256 + (d as u32)) as u32 }
// R2 shims: body is the std call the source makes
#[verifier::external_body]
pub fn shim_u16_from_be_bytes(b: [u8; 2]) -> (r: u16) ensures r == be16(b[0], b[1]) { u16::from_be_bytes(b) }
#[verifier::external_body]
pub fn shim_u32_from_be_bytes(b: [u8; 4]) -> (r: u32) ensures r == be32(b[0], b[1], b[2], b[3]) { u32::from_be_bytes(b) }
#[verifier::external_body]
pub fn shim_to_be_bytes_u16(v: u16) -> (r: [u8; 2]) ensures be16(r[0], r[1]) == v, r[0] == (v / 256) as u8, r[1] == (v % 256) as u8 { v.to_be_bytes() }
#[verifier::external_body]
pub fn shim_max_u32(a: u32, b: u32) -> (r: u32) ensures r == if a >= b { a } else { b } { std::cmp::max(a, b) }

pub assume_specification<'a, T> [std::option::Option::<&T>::copied] (o: std::option::Option<&'a T>) -> (r: std::option::Option<T>)
    where T: std::marker::Copy,
    ensures r == (match o { Some(x) => Some(*x), None => None });
pub broadcast proof fn lemma_seq_take_full<T>(s: Seq<T>)
    ensures #[trigger] s.take(s.len() as int) == s
{ assert(s.take(s.len() as int) =~= s); }

// std: Option::or / Option::and (no closure involved; the documented behaviour)
pub assume_specification<T> [std::option::Option::<T>::or] (o: std::option::Option<T>, optb: std::option::Option<T>) -> (r: std::option::Option<T>)
    ensures r == (if o is Some { o } else { optb });
pub assume_specification<T, U> [std::option::Option::<T>::and] (o: std::option::Option<T>, optb: std::option::Option<U>) -> (r: std::option::Option<U>)
    ensures r == (if o is Some { optb } else { None::<U> });

// std::mem::take: hands back the old value; what is left behind is T::default() - not specified here (any value)
pub assume_specification<T: std::default::Default> [std::mem::take::<T>] (dest: &mut T) -> (r: T)
    ensures r == *old(dest);
