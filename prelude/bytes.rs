// ---- TRUSTED: model of the `bytes` crate (Bytes / BytesMut as byte sequences) and std::net address types
#[verifier::external_body]
#[verifier::external_type_specification]
pub struct ExBytes(bytes::Bytes);
#[verifier::external_body]
#[verifier::external_type_specification]
pub struct ExIpv4Addr(std::net::Ipv4Addr);
#[verifier::external_body]
#[verifier::external_type_specification]
pub struct ExIpv6Addr(std::net::Ipv6Addr);

pub uninterp spec fn bv(b: &Bytes) -> Seq<u8>;

pub assume_specification [bytes::Bytes::new] () -> (r: bytes::Bytes)
    ensures bv(&r) == Seq::<u8>::empty();
pub assume_specification [bytes::Bytes::len] (b: &bytes::Bytes) -> (r: usize)
    ensures r == bv(b).len();
pub assume_specification [bytes::Bytes::is_empty] (b: &bytes::Bytes) -> (r: bool)
    ensures r == (bv(b).len() == 0);
pub assume_specification [bytes::Bytes::copy_from_slice] (s: &[u8]) -> (r: bytes::Bytes)
    ensures bv(&r) == s@;
pub assume_specification [<bytes::Bytes as Clone>::clone] (b: &bytes::Bytes) -> (r: bytes::Bytes)
    ensures bv(&r) == bv(b);
