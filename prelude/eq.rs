// ---- TRUSTED: the derived PartialEq impls of the protocol types are structural (PartialEqSpec axioms)
pub broadcast axiom fn axiom_eq_dn(a: DomainName, b: DomainName) ensures #[trigger] a.eq_spec(&b) == (a == b);
pub broadcast axiom fn axiom_eq_dn_obeys() ensures #[trigger] <DomainName as vstd::std_specs::cmp::PartialEqSpec>::obeys_eq_spec();
pub broadcast axiom fn axiom_eq_rt(a: RecordType, b: RecordType) ensures #[trigger] a.eq_spec(&b) == (a == b);
pub broadcast axiom fn axiom_eq_rt_obeys() ensures #[trigger] <RecordType as vstd::std_specs::cmp::PartialEqSpec>::obeys_eq_spec();
pub broadcast axiom fn axiom_eq_qt(a: QueryType, b: QueryType) ensures #[trigger] a.eq_spec(&b) == (a == b);
pub broadcast axiom fn axiom_eq_qt_obeys() ensures #[trigger] <QueryType as vstd::std_specs::cmp::PartialEqSpec>::obeys_eq_spec();
pub broadcast axiom fn axiom_eq_rcode(a: Rcode, b: Rcode) ensures #[trigger] a.eq_spec(&b) == (a == b);
pub broadcast axiom fn axiom_eq_rcode_obeys() ensures #[trigger] <Rcode as vstd::std_specs::cmp::PartialEqSpec>::obeys_eq_spec();
pub broadcast axiom fn axiom_eq_opcode(a: Opcode, b: Opcode) ensures #[trigger] a.eq_spec(&b) == (a == b);
pub broadcast axiom fn axiom_eq_opcode_obeys() ensures #[trigger] <Opcode as vstd::std_specs::cmp::PartialEqSpec>::obeys_eq_spec();
pub broadcast axiom fn axiom_eq_question(a: Question, b: Question) ensures #[trigger] a.eq_spec(&b) == (a == b);
pub broadcast axiom fn axiom_eq_question_obeys() ensures #[trigger] <Question as vstd::std_specs::cmp::PartialEqSpec>::obeys_eq_spec();
pub broadcast axiom fn axiom_eq_ordering(a: std::cmp::Ordering, b: std::cmp::Ordering) ensures #[trigger] a.eq_spec(&b) == (a == b);
pub broadcast axiom fn axiom_eq_ordering_obeys() ensures #[trigger] <std::cmp::Ordering as vstd::std_specs::cmp::PartialEqSpec>::obeys_eq_spec();
pub broadcast group group_eq_axioms {
    axiom_eq_ordering, axiom_eq_ordering_obeys,
    axiom_eq_dn, axiom_eq_dn_obeys, axiom_eq_rt, axiom_eq_rt_obeys, axiom_eq_qt, axiom_eq_qt_obeys,
    axiom_eq_rcode, axiom_eq_rcode_obeys, axiom_eq_opcode, axiom_eq_opcode_obeys, axiom_eq_question, axiom_eq_question_obeys,
}
