#![feature(allocator_api)]
#![feature(sized_hierarchy)]
#![allow(unused_imports, unused_variables, dead_code, unused_mut, unused_parens, unused_braces, non_snake_case)]
#![verifier::allow(autoderive_clone_without_spec)]
use vstd::prelude::*;
use bytes::{Bytes, BytesMut, BufMut};
use std::collections::{HashMap, HashSet};
use std::net::{Ipv4Addr, Ipv6Addr, IpAddr, SocketAddr};
use std::time::{Duration, Instant};
use vstd::std_specs::hash::*;
use vstd::std_specs::cmp::{PartialEqSpec, PartialOrdSpec, OrdSpec};
use vstd::std_specs::ops::AddSpec;
