// ---- TRUSTED: model of bytes::BytesMut as a growable byte sequence; put_u8/put_slice via R13 shims (provided trait
// methods cannot take assume_specification), index assignment through DerefMut with a prophecy on the returned slice.
#[verifier::external_body]
#[verifier::external_type_specification]
pub struct ExBytesMut(bytes::BytesMut);
pub uninterp spec fn bmv(b: &BytesMut) -> Seq<u8>;
pub assume_specification [bytes::BytesMut::len] (b: &bytes::BytesMut) -> (r: usize) ensures r == bmv(b).len();
// bm_cap: the allocated capacity (BytesMut::with_capacity(c) is BytesMut::from_vec(Vec::with_capacity(c)), whose capacity is exactly c for u8)
pub uninterp spec fn bm_cap(b: &BytesMut) -> nat;
pub assume_specification [bytes::BytesMut::with_capacity] (c: usize) -> (r: bytes::BytesMut) ensures bmv(&r) == Seq::<u8>::empty(), bm_cap(&r) == c;
pub assume_specification<'a> [<bytes::BytesMut as std::convert::AsRef<[u8]>>::as_ref] (b: &'a bytes::BytesMut) -> (r: &'a [u8])
    ensures r@ == bmv(b);
// BytesMut::truncate: keeps the first len octets (nothing happens when there are no more than that)
pub assume_specification [bytes::BytesMut::truncate] (b: &mut bytes::BytesMut, len: usize)
    ensures bmv(final(b)) == (if len < bmv(old(b)).len() { bmv(old(b)).take(len as int) } else { bmv(old(b)) });
pub assume_specification [bytes::BytesMut::new] () -> (r: bytes::BytesMut) ensures bmv(&r) == Seq::<u8>::empty();
#[verifier::external_body]
pub fn shim_put_u8(b: &mut bytes::BytesMut, v: u8) ensures bmv(final(b)) == bmv(old(b)).push(v) { b.put_u8(v) }
#[verifier::external_body]
pub fn shim_put_slice(b: &mut bytes::BytesMut, s: &[u8]) ensures bmv(final(b)) == bmv(old(b)) + s@ { b.put_slice(s) }
pub assume_specification<'a> [<bytes::BytesMut as std::ops::DerefMut>::deref_mut] (b: &'a mut bytes::BytesMut) -> (r: &'a mut [u8])
    ensures r@ == bmv(old(b)), bmv(final(b)) == final(r)@;
pub assume_specification<'a> [<bytes::BytesMut as std::ops::Deref>::deref] (b: &'a bytes::BytesMut) -> (r: &'a [u8])
    ensures r@ == bmv(b);
pub assume_specification<'a> [<bytes::Bytes as std::ops::Deref>::deref] (b: &'a bytes::Bytes) -> (r: &'a [u8])
    ensures r@ == bv(b);
#[verifier::external_body]
pub fn shim_to_be_bytes_u32(v: u32) -> (r: [u8; 4]) ensures be32(r[0], r[1], r[2], r[3]) == v, r[0] == (v / 16777216) as u8, r[1] == ((v / 65536) % 256) as u8, r[2] == ((v / 256) % 256) as u8, r[3] == (v % 256) as u8 { v.to_be_bytes() }
// the octets of an address, most significant first: what Ipv4Addr::from(u32) / Ipv6Addr::new(8 x u16) are built from (std: both are
// big-endian views of the same 4 / 16 octets)
pub uninterp spec fn v4_octets(a: Ipv4Addr) -> Seq<u8>;
pub uninterp spec fn v6_octets(a: Ipv6Addr) -> Seq<u8>;
pub broadcast axiom fn axiom_v4_octets(a: Ipv4Addr)
    ensures (#[trigger] v4_octets(a)).len() == 4, ipv4_of(be32(v4_octets(a)[0], v4_octets(a)[1], v4_octets(a)[2], v4_octets(a)[3])) == a;
pub broadcast axiom fn axiom_v6_octets(a: Ipv6Addr)
    ensures (#[trigger] v6_octets(a)).len() == 16,
        ipv6_of(be16(v6_octets(a)[0], v6_octets(a)[1]), be16(v6_octets(a)[2], v6_octets(a)[3]), be16(v6_octets(a)[4], v6_octets(a)[5]), be16(v6_octets(a)[6], v6_octets(a)[7]),
                be16(v6_octets(a)[8], v6_octets(a)[9]), be16(v6_octets(a)[10], v6_octets(a)[11]), be16(v6_octets(a)[12], v6_octets(a)[13]), be16(v6_octets(a)[14], v6_octets(a)[15])) == a;
pub assume_specification [std::net::Ipv4Addr::octets] (a: &std::net::Ipv4Addr) -> (r: [u8; 4]) ensures r@ == v4_octets(*a);
pub assume_specification [std::net::Ipv6Addr::octets] (a: &std::net::Ipv6Addr) -> (r: [u8; 16]) ensures r@ == v6_octets(*a);
