// ---- TRUSTED: model of priority_queue::PriorityQueue<K, Reverse<Instant>> as a finite map K -> Instant; `pop` returns an
// entry whose priority is maximal, i.e. (priorities are Reverse<Instant>) whose instant is minimal.  R18 routes the five
// methods the cache uses through shims whose bodies are the same calls.
#[verifier::external_body]
#[verifier::external_type_specification]
#[verifier::accept_recursive_types(I)]
#[verifier::accept_recursive_types(P)]
#[verifier::reject_recursive_types(H)]
pub struct ExPQ<I, P, H>(priority_queue::PriorityQueue<I, P, H>);
pub uninterp spec fn pqv<K>(q: &priority_queue::PriorityQueue<K, std::cmp::Reverse<Instant>>) -> Map<K, Instant>;
#[verifier::external_body]
pub fn shim_pq_with_capacity<K: std::hash::Hash + Eq>(n: usize) -> (q: priority_queue::PriorityQueue<K, std::cmp::Reverse<Instant>>)
    ensures pqv(&q) == Map::<K, Instant>::empty()
{ priority_queue::PriorityQueue::with_capacity(n) }
#[verifier::external_body]
pub fn shim_pq_push<K: std::hash::Hash + Eq>(q: &mut priority_queue::PriorityQueue<K, std::cmp::Reverse<Instant>>, k: K, p: std::cmp::Reverse<Instant>) -> (r: Option<std::cmp::Reverse<Instant>>)
    ensures pqv(final(q)) == pqv(old(q)).insert(k, p.0)
{ q.push(k, p) }
#[verifier::external_body]
pub fn shim_pq_pop<K: std::hash::Hash + Eq>(q: &mut priority_queue::PriorityQueue<K, std::cmp::Reverse<Instant>>) -> (r: Option<(K, std::cmp::Reverse<Instant>)>)
    ensures
        r is None ==> pqv(old(q)).dom().len() == 0 && pqv(final(q)) == pqv(old(q)),
        r is None ==> forall|k: K| !pqv(old(q)).contains_key(k),
        r is Some ==> pqv(old(q)).contains_key(r->Some_0.0) && pqv(old(q))[r->Some_0.0] == r->Some_0.1.0 && pqv(final(q)) == pqv(old(q)).remove(r->Some_0.0),
        r is Some ==> forall|k: K| #[trigger] pqv(old(q)).contains_key(k) ==> inst(r->Some_0.1.0) <= inst(pqv(old(q))[k]),
{ q.pop() }
#[verifier::external_body]
pub fn shim_pq_remove<K: std::hash::Hash + Eq>(q: &mut priority_queue::PriorityQueue<K, std::cmp::Reverse<Instant>>, k: &K) -> (r: Option<(K, std::cmp::Reverse<Instant>)>)
    ensures pqv(final(q)) == pqv(old(q)).remove(*k)
{ q.remove(k) }
#[verifier::external_body]
pub fn shim_pq_change_priority<K: std::hash::Hash + Eq>(q: &mut priority_queue::PriorityQueue<K, std::cmp::Reverse<Instant>>, k: &K, p: std::cmp::Reverse<Instant>) -> (r: Option<std::cmp::Reverse<Instant>>)
    ensures pqv(final(q)) == (if pqv(old(q)).contains_key(*k) { pqv(old(q)).insert(*k, p.0) } else { pqv(old(q)) })
{ q.change_priority(k, p) }
