"""Witness templates: concrete inputs tied to contract obligations.  When an obligation fails, the matching witnesses are
run against the real code in /repo (replay crate, rebuilt from the working tree); a witness that shows the property
statement violated is attached to the replay file.  Verus itself never produces a counterexample."""
import os, re, subprocess

VERIF = os.path.dirname(os.path.abspath(__file__))

# (property, obligation regex, witness name, kind)   kind: "public" (replay crate) | "private" (scratch copy + cfg(test) module)
WITNESSES = [
    ("C13", r"zone_names/Zone::serialise_domain/", "c13_label_at_sign_round_trip", "public"),
    ("C14", r"hosts_text/parse_line/(inv:a_comment_starts_wherever_the_hash_appears_and_ends_the_field_before_it|post:a_line_maps_its_address)", "c14_name_directly_followed_by_comment", "public"),
    ("C03", r"wire_decode/(Message::deserialise|Message::from_octets)/post:accepts_exactly_the_well_formed_messages|wire_decode/ResourceRecord::deserialise/post:accepts_exactly_the_well_formed_records", "c03_minimal_records_accepted", "public"),
    ("C16", r"names/DomainName::from_relative_dotted_string/post:name_joined_to_an_origin_is_well_formed_or_rejected", "c16_relative_join_over_255", "public"),
    ("C12", r"zone_merge/ZoneRecords::merge/(inv:child_on_both_sides_merged_node_by_node|post:every_node_of_the_merged_tree_holds_the_union)", "c12_wildcard_only_node_merge", "public"),
    ("C03", r"wire_decode/DomainName::deserialise/(decreases:|inv:name_read_as_an_independent_decoder_does|post:accepts_exactly_the_well_formed_names)", "c03_pointer_into_own_name", "public"),
    ("C09", r"local/From::from/post:referral_records_are_not_answer_records", "c09_referral_in_answer_section", "public"),
    ("C10", r"local/From::from/post:referral_records_are_not_answer_records", "c09_referral_in_answer_section", "public"),
    ("C06", r"upstream_filter/validate_nameserver_response/", "c06_offpath_cname_foreign_ns", "private"),
    ("C15", r"cache/PartitionedCache::upsert/(assert:next_expiry_is_lower_bound|post:cache_invariants_kept_by_upsert)", "c15_prune_after_reinsert", "public"),
    ("C02", r"zone_lookup/Zone::resolve/post:lookup_algorithm_at_apex", "c02_apex_ns_referral", "public"),
    ("C12", r"zone_merge/Zone::merge/post:exactly_one_soa", "c12_two_soas_after_merge", "public"),
    ("C12", r"zone_merge/ZoneRecords::merge/post:wildcard_records_(kept|are_union)", "c12_wildcard_merge_dropped", "public"),
    ("C03", r"wire_decode/DomainName::deserialise/post:decoded_name_wf", "c03_compressed_name_over_255", "public"),
    ("C16", r"wire_decode/DomainName::deserialise/post:decoded_name_wf", "c03_compressed_name_over_255", "public"),
    ("C04", r"wire_codec/WritableBuffer::memoise_name/post:pointer_addresses_offset_of_name", "c04_pointer_beyond_16k", "public"),
]


def for_obligation(prop, obligation):
    return [w for w in WITNESSES if w[0] == prop and re.search(w[1], obligation)]


_built = {}


def build_replay():
    if "ok" in _built:
        return _built["ok"]
    env = dict(os.environ, CARGO_NET_OFFLINE="true", CARGO_TARGET_DIR=os.path.join(VERIF, "build", "replay"))
    p = subprocess.run(["cargo", "build", "--offline", "--quiet"], cwd=os.path.join(VERIF, "replay"), env=env, capture_output=True, text=True, timeout=900)
    _built["ok"] = (p.returncode == 0)
    _built["err"] = p.stderr[-2000:]
    return _built["ok"]


def run(w, repo):
    prop, _, name, kind = w
    if kind == "public":
        if not build_replay():
            return {"witness": name, "fails": False, "error": "replay crate does not build: " + _built.get("err", "")}
        exe = os.path.join(VERIF, "build", "replay", "debug", "replay")
        p = subprocess.run([exe, name], capture_output=True, text=True, timeout=120)
        return {"witness": name, "fails": p.returncode == 1, "exit": p.returncode, "output": p.stdout[-3000:],
                "cmd": f"cd /verif/replay && CARGO_TARGET_DIR=/verif/build/replay cargo build --offline && /verif/build/replay/debug/replay {name}"}
    if kind == "private":
        import tools_private
        return tools_private.run(name, repo)
    return None
