#!/bin/bash
# Builds the dependency rlibs (bytes, priority-queue) with the Verus toolchain so that
# single-file `verus unit.rs --extern ...` can name the real external types.  Offline.
set -e
cd "$(dirname "$0")"
export CARGO_NET_OFFLINE=true
mkdir -p build evidence replays
( cd vdeps && CARGO_TARGET_DIR=../build/vdeps cargo +1.98.1 build --offline --release 2>&1 | tail -3 )
ls build/vdeps/release/deps/libbytes-*.rlib build/vdeps/release/deps/libpriority_queue-*.rlib >/dev/null
echo setup-ok
