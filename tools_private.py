"""Witnesses that need private functions: a scratch copy of /repo (outside /repo and /verif, deleted afterwards) gets a
`#[cfg(test)] mod verif_witness` appended to the module file; `cargo test --offline` runs it."""
import os, subprocess, shutil, tempfile

VERIF = os.path.dirname(os.path.abspath(__file__))
# witness name -> (file the module is appended to, package)
TARGETS = {
    "c06_offpath_cname_foreign_ns": ("crates/dns-resolver/src/recursive.rs", "dns-resolver"),
}


def run(name, repo):
    rel, pkg = TARGETS[name]
    tmp = tempfile.mkdtemp(prefix="verif-wit-", dir="/tmp")
    try:
        dst = os.path.join(tmp, "repo")
        shutil.copytree(repo, dst, ignore=shutil.ignore_patterns("target", ".git"))
        with open(os.path.join(dst, rel), "a") as f:
            f.write("\n" + open(os.path.join(VERIF, "witness_private", name + ".rs")).read())
        env = dict(os.environ, CARGO_NET_OFFLINE="true", CARGO_TARGET_DIR=os.path.join(VERIF, "build", "witness-target"))
        p = subprocess.run(["cargo", "test", "--offline", "-p", pkg, name, "--", "--nocapture", "--test-threads=1"], cwd=dst, env=env,
                           capture_output=True, text=True, timeout=1800)
        out = p.stdout + p.stderr
        ran = "test result:" in out and ("1 passed" in out or "1 failed" in out)
        lines = [l for l in out.splitlines() if l.startswith(("input", "required", "observed"))]
        return {"witness": name, "fails": ran and "VERIF-WITNESS-FAILS" in out, "ran": ran, "output": "\n".join(lines)[-3000:],
                "cmd": f"python3 -c \"import tools_private; print(tools_private.run('{name}', '/repo'))\"   (cwd /verif)"}
    finally:
        shutil.rmtree(tmp, ignore_errors=True)


if __name__ == "__main__":
    import sys, json
    print(json.dumps(run(sys.argv[1], sys.argv[2] if len(sys.argv) > 2 else "/repo"), indent=1))
