//! Witness runner: concrete inputs tied to contract obligations, run against the real crates in /repo.
//! `replay <witness>` prints observed vs required and exits 1 when the property statement is violated,
//! 0 when it holds on this input, 2 for an unknown witness.
use bytes::Bytes;
use dns_types::protocol::types::*;
use dns_types::zones::types::*;
use std::process::exit;

fn dn(s: &str) -> DomainName {
    DomainName::from_dotted_string(s).unwrap()
}

fn a_rr(name: &str, ip: &str) -> ResourceRecord {
    ResourceRecord {
        name: dn(name),
        rtype_with_data: RecordTypeWithData::A { address: ip.parse().unwrap() },
        rclass: RecordClass::IN,
        ttl: 300,
    }
}

/// C04: a name first written at an offset >= 16384 must still round-trip (pointer offsets have 14 bits).
fn c04_pointer_beyond_16k() -> bool {
    let big = ResourceRecord {
        name: dn("a."),
        rtype_with_data: RecordTypeWithData::NULL { octets: Bytes::from(vec![0u8; 16400]) },
        rclass: RecordClass::IN,
        ttl: 1,
    };
    let mut m = Message::from_question(
        7,
        Question { name: dn("q."), qtype: QueryType::Wildcard, qclass: QueryClass::Wildcard },
    );
    m.answers = vec![big, a_rr("late.example.", "1.2.3.4"), a_rr("late.example.", "1.2.3.5")];
    let bytes = m.to_octets().unwrap();
    let back = Message::from_octets(&bytes);
    println!("input: NULL record of 16400 octets, then two A records owned by late.example. ({} bytes encoded)", bytes.len());
    println!("required: decode(encode(m)) == m");
    match &back {
        Ok(b) if *b == m => {
            println!("observed: round trip ok");
            true
        }
        Ok(b) => {
            println!("observed: third answer owner decodes as `{}` (expected `late.example.`)", b.answers[2].name);
            false
        }
        Err(e) => {
            println!("observed: decode error {e:?}");
            false
        }
    }
}

/// C03/C16: a name that exceeds 255 octets only after following a compression pointer must be rejected.
fn c03_compressed_name_over_255() -> bool {
    let mut ok = true;
    for extra in [62usize, 63] {
        let mut m: Vec<u8> = vec![0xbe, 0xef, 0, 0, 0, 2, 0, 0, 0, 0, 0, 0];
        for n in [63u8, 63, 63] {
            m.push(n);
            m.extend(std::iter::repeat(b'a').take(n as usize));
        }
        m.extend([0, 0, 1, 0, 1]); // root, QTYPE A, QCLASS IN   (first name: 193 octets at offset 12)
        m.push(extra as u8);
        m.extend(std::iter::repeat(b'b').take(extra));
        m.extend([0xc0, 0x0c, 0, 1, 0, 1]); // pointer to offset 12: 1 + extra + 193 octets in all
        let total = 1 + extra + 193;
        let r = Message::from_octets(&m);
        println!("input: question name of 193 octets, second name = one {extra}-octet label + pointer to it ({total} octets in all)");
        println!("required: {}", if total > 255 { "Err (name longer than 255 octets)" } else { "Ok" });
        match &r {
            Ok(msg) => {
                let l = msg.questions[1].name.len;
                println!("observed: Ok, second name has len {l}");
                if l > 255 { ok = false; }
            }
            Err(e) => println!("observed: Err({e:?})"),
        }
    }
    ok
}

fn a_data(ip: &str) -> RecordTypeWithData {
    RecordTypeWithData::A { address: ip.parse().unwrap() }
}

/// C12: wildcard records of a later file must survive the merge when the earlier file has none at that node.
fn c12_wildcard_merge_dropped() -> bool {
    let apex = dn("example.");
    let mut first = Zone::new(apex.clone(), None);
    first.insert(&dn("a.example."), a_data("10.0.0.1"), 300);
    let mut second = Zone::new(apex.clone(), None);
    second.insert_wildcard(&dn("a.example."), a_data("10.0.0.2"), 300);
    let q = dn("x.a.example.");
    let alone = second.resolve(&q, QueryType::Record(RecordType::A));
    first.merge(second).unwrap();
    let merged = first.resolve(&q, QueryType::Record(RecordType::A));
    println!("input: file 1 = `a.example. A 10.0.0.1`, file 2 = `*.a.example. A 10.0.0.2`, question x.a.example. A");
    println!("required: the merged zone answers with the union of what the files define (the wildcard record)");
    println!("observed: file 2 alone -> {alone:?}");
    println!("observed: merged       -> {merged:?}");
    matches!(merged, Some(ZoneResult::Answer { ref rrs }) if rrs.len() == 1)
}

fn soa(serial: u32) -> SOA {
    SOA { mname: dn("ns.example."), rname: dn("admin.example."), serial, refresh: 1, retry: 1, expire: 1, minimum: 60 }
}

/// C12: after merging two files that both carry a SOA the zone has exactly one SOA, that of the last file.
fn c12_two_soas_after_merge() -> bool {
    let apex = dn("example.");
    let mut first = Zone::new(apex.clone(), Some(soa(1)));
    let second = Zone::new(apex.clone(), Some(soa(2)));
    first.merge(second).unwrap();
    let r = first.resolve(&apex, QueryType::Record(RecordType::SOA));
    println!("input: two zone files for example., SOA serial 1 then SOA serial 2; question example. SOA");
    println!("required: exactly one SOA record, serial 2");
    println!("observed: {r:?}");
    match r {
        Some(ZoneResult::Answer { rrs }) => {
            rrs.len() == 1 && matches!(rrs[0].rtype_with_data, RecordTypeWithData::SOA { serial: 2, .. })
        }
        _ => false,
    }
}

/// C02: an existing name (the apex, whatever NS records it carries) never yields a referral or a name error,
/// and a missing name under an apex that carries NS records is a name error, not a referral.
fn c02_apex_ns_referral() -> bool {
    let apex = dn("example.");
    let mut z = Zone::new(apex.clone(), Some(soa(1)));
    z.insert(&apex, RecordTypeWithData::NS { nsdname: dn("ns.example.") }, 300);
    z.insert(&dn("ns.example."), a_data("10.0.0.53"), 300);
    let mut ok = true;
    println!("input: zone example. with SOA, `example. NS ns.example.`, `ns.example. A 10.0.0.53`");
    for (q, t, want) in [
        ("example.", RecordType::A, "empty answer"),
        ("example.", RecordType::SOA, "answer with the SOA"),
        ("nope.example.", RecordType::A, "name error"),
    ] {
        let r = z.resolve(&dn(q), QueryType::Record(t));
        let good = match (&r, want) {
            (Some(ZoneResult::Answer { rrs }), "empty answer") => rrs.is_empty(),
            (Some(ZoneResult::Answer { rrs }), "answer with the SOA") => rrs.len() == 1,
            (Some(ZoneResult::NameError), "name error") => true,
            _ => false,
        };
        let shown = match &r {
            Some(ZoneResult::Delegation { ns_rrs }) => format!("Delegation ({} NS)", ns_rrs.len()),
            Some(ZoneResult::Answer { rrs }) => format!("Answer ({} records)", rrs.len()),
            Some(ZoneResult::NameError) => "NameError".to_string(),
            other => format!("{other:?}"),
        };
        println!("question {q} {t}: required {want}; observed {shown}");
        ok &= good;
    }
    ok
}

/// C15/C05: a prune leaves no expired record behind, also after the record that was next to expire has been re-inserted.
fn c15_prune_after_reinsert() -> bool {
    use dns_resolver::cache::Cache;
    let mut cache = Cache::new();
    let mut a = a_rr("x.example.", "1.1.1.1");
    a.ttl = 1;
    let ns = ResourceRecord {
        name: dn("x.example."),
        rtype_with_data: RecordTypeWithData::NS { nsdname: dn("ns.example.") },
        rclass: RecordClass::IN,
        ttl: 2,
    };
    cache.insert(&a);
    cache.insert(&ns);
    a.ttl = 100;
    cache.insert(&a);
    std::thread::sleep(std::time::Duration::from_millis(2500));
    let res = cache.prune();
    let left = cache.get_without_checking_expiration(&dn("x.example."), QueryType::Wildcard);
    let left: Vec<_> = left.iter().map(|r| (r.rtype_with_data.rtype(), r.ttl)).collect();
    println!("input: insert x.example. A ttl 1, x.example. NS ttl 2, re-insert the A record with ttl 100, wait 2.5 s, prune");
    println!("required: the NS record (expired 0.5 s ago) is removed: prune reports 1 expired, 1 record remains");
    println!("observed: prune() = {res:?}, remaining = {left:?}");
    res.2 == 1 && left.len() == 1
}

/// C12: a node that holds only wildcard records in the first file keeps them when a later file defines the node itself.
fn c12_wildcard_only_node_merge() -> bool {
    let apex = dn("example.com.");
    let mut z1 = Zone::new(apex.clone(), None);
    z1.insert_wildcard(&dn("lan.example.com."), a_data("10.0.0.1"), 300);
    let mut z2 = Zone::new(apex.clone(), None);
    z2.insert(&dn("lan.example.com."), a_data("10.0.0.2"), 300);
    let mut zones = Zones::new();
    zones.insert_merge(z1);
    zones.insert_merge(z2);
    let r = zones.get(&apex).unwrap().resolve(&dn("printer.lan.example.com."), QueryType::Record(RecordType::A));
    println!("input: file 1 `*.lan.example.com. A 10.0.0.1`, file 2 `lan.example.com. A 10.0.0.2`, merged; question printer.lan.example.com. A");
    println!("required: the wildcard of file 1 still answers (one A record)");
    println!("observed: {r:?}");
    matches!(r, Some(ZoneResult::Answer { rrs }) if rrs.len() == 1)
}

/// C16: joining a relative name to an origin must reject a result longer than 255 octets.
fn c16_relative_join_over_255() -> bool {
    let l63 = "a".repeat(63);
    let origin = dn(&format!("{l63}.{l63}.{l63}."));
    let rel = "b".repeat(62);
    let r = DomainName::from_relative_dotted_string(&origin, &rel);
    println!("input: origin of three 63-octet labels (193 octets), relative name of one 62-octet label: 256 octets in all");
    println!("required: rejected (None)");
    println!("observed: {}", if r.is_some() { "accepted" } else { "None" });
    r.is_none()
}

/// C13: writing a zone and reading the text back gives an equal zone, also for a label that is the single character `@`.
fn c13_label_at_sign_round_trip() -> bool {
    let apex = dn("example.");
    let mut z = Zone::new(apex.clone(), Some(soa(1)));
    let owner = dn("@.example.");
    z.insert(&owner, a_data("10.0.0.7"), 300);
    let text = z.serialise();
    let back = Zone::deserialise(&text);
    println!("input: authoritative zone example. holding `\\@.example. 300 IN A 10.0.0.7` (first label: the single character @)");
    println!("written as:\n{text}");
    println!("required: reading the text back gives a zone that holds the same record under the same owner");
    match &back {
        Ok(b) => {
            let owners: Vec<String> = b.all_records().keys().map(|k| k.to_dotted_string()).collect();
            println!("observed: owners after reading back: {owners:?}; equal zones: {}", *b == z);
        }
        Err(e) => println!("observed: Err({e:?})"),
    }
    matches!(back, Ok(b) if b == z)
}

/// C14: `#` starts a comment wherever it appears: a name directly followed by a comment is still mapped.
fn c14_name_directly_followed_by_comment() -> bool {
    use dns_types::hosts::types::Hosts;
    let text = "1.2.3.4 foo#a comment\n";
    let r = Hosts::deserialise(text);
    println!("input: hosts file {text:?}");
    println!("required: foo. -> 1.2.3.4 (hosts(5): text from a `#` to the end of the line is a comment)");
    match &r {
        Ok(h) => println!("observed: {} IPv4 mapping(s): {:?}", h.v4.len(), h.v4.iter().map(|(k, v)| format!("{} -> {v}", k.to_dotted_string())).collect::<Vec<_>>()),
        Err(e) => println!("observed: Err({e:?})"),
    }
    matches!(r, Ok(h) if h.v4.get(&dn("foo.")) == Some(&std::net::Ipv4Addr::new(1, 2, 3, 4)))
}

/// C03: the decoder accepts exactly the well-formed messages: a root question followed by one 11-octet record (root owner, empty RDATA)
/// is well-formed - this is what `dig +edns . NS` sends - and must be accepted.
fn c03_minimal_records_accepted() -> bool {
    let mut m: Vec<u8> = vec![0xab, 0xcd, 0x00, 0x00, 0x00, 0x01, 0x00, 0x00, 0x00, 0x00, 0x00, 0x01];
    m.extend_from_slice(&[0x00, 0x00, 0x02, 0x00, 0x01]); // question: root, NS, IN
    m.extend_from_slice(&[0x00, 0x00, 0x29, 0x10, 0x00, 0x00, 0x00, 0x00, 0x00, 0x00, 0x00]); // OPT: root, type 41, class 4096, ttl 0, rdlength 0
    let r = Message::from_octets(&m);
    println!("input: 28-octet query: root question + one additional record of 11 octets (root owner, RDLENGTH 0)");
    println!("required: accepted (1 question, 1 additional record)");
    match &r {
        Ok(msg) => println!("observed: accepted, {} question(s), {} additional", msg.questions.len(), msg.additional.len()),
        Err(e) => println!("observed: Err({e:?})"),
    }
    matches!(r, Ok(msg) if msg.questions.len() == 1 && msg.additional.len() == 1)
}

/// C09 (answer section holds only records for the question name or its CNAME chain) / C10: a question beneath a delegation point of an
/// authoritative zone, resolved without recursion (RD clear or authoritative-only mode), is a referral: the NS records of the
/// delegation point are not records for the question name and must not be handed to the server as answer records.
fn c09_referral_in_answer_section() -> bool {
    use dns_resolver::cache::SharedCache;
    use dns_resolver::context::Context;
    use dns_resolver::local::resolve_local;
    use dns_resolver::util::types::ResolvedRecord;
    let apex = dn("example.");
    let mut z = Zone::new(apex.clone(), Some(soa(1)));
    z.insert(&dn("sub.example."), RecordTypeWithData::NS { nsdname: dn("ns.elsewhere.") }, 300);
    let mut zones = Zones::new();
    zones.insert(z);
    let cache = SharedCache::new();
    let question = Question { name: dn("www.sub.example."), qtype: QueryType::Record(RecordType::A), qclass: QueryClass::Record(RecordClass::IN) };
    let mut context = Context::new((), &zones, &cache, 32);
    // exactly what dns_resolver::resolve does when recursion is not requested or not offered
    let result = resolve_local(&mut context, &question).map(ResolvedRecord::from);
    println!("input: authoritative zone example. with `sub.example. NS ns.elsewhere.`; question www.sub.example. A, no recursion");
    println!("required: every record handed over for the ANSWER section is owned by www.sub.example. (or follows its CNAME chain)");
    match result {
        Ok(resolved) => {
            let answer = resolved.rrs();
            let shown: Vec<_> = answer.iter().map(|r| format!("{} {}", r.name, r.rtype_with_data.rtype())).collect();
            println!("observed: answer records = {shown:?}");
            answer.iter().all(|r| r.name == question.name)
        }
        Err(e) => {
            println!("observed: Err({e:?})");
            true
        }
    }
}

/// C03: compression pointers must point strictly before the start of the name being read (RFC 1035 4.1.4); a pointer into the
/// earlier labels of its own name is not a well-formed message and must be rejected.
fn c03_pointer_into_own_name() -> bool {
    let mut m: Vec<u8> = vec![0x12, 0x34, 0x00, 0x00, 0x00, 0x01, 0x00, 0x00, 0x00, 0x00, 0x00, 0x00];
    // question name at offset 12: label of two octets (0x00 0x00), then a pointer to offset 13 (inside this very name)
    m.extend_from_slice(&[0x02, 0x00, 0x00, 0xc0, 0x0d]);
    m.extend_from_slice(&[0x00, 0x01, 0x00, 0x01]);
    let r = Message::from_octets(&m);
    println!("input: query whose name is `02 00 00 c0 0d` at offset 12 (pointer to offset 13, inside the name itself)");
    println!("required: rejected (pointer does not point before the start of the name)");
    match &r {
        Ok(msg) => println!("observed: accepted, question name = {}", msg.questions[0].name),
        Err(e) => println!("observed: Err({e:?})"),
    }
    r.is_err()
}

fn main() {
    let w = std::env::args().nth(1).unwrap_or_default();
    let ok = match w.as_str() {
        "c04_pointer_beyond_16k" => c04_pointer_beyond_16k(),
        "c03_compressed_name_over_255" => c03_compressed_name_over_255(),
        "c12_wildcard_merge_dropped" => c12_wildcard_merge_dropped(),
        "c12_two_soas_after_merge" => c12_two_soas_after_merge(),
        "c02_apex_ns_referral" => c02_apex_ns_referral(),
        "c15_prune_after_reinsert" => c15_prune_after_reinsert(),
        "c09_referral_in_answer_section" => c09_referral_in_answer_section(),
        "c03_pointer_into_own_name" => c03_pointer_into_own_name(),
        "c03_minimal_records_accepted" => c03_minimal_records_accepted(),
        "c16_relative_join_over_255" => c16_relative_join_over_255(),
        "c14_name_directly_followed_by_comment" => c14_name_directly_followed_by_comment(),
        "c13_label_at_sign_round_trip" => c13_label_at_sign_round_trip(),
        "c12_wildcard_only_node_merge" => c12_wildcard_only_node_merge(),
        _ => {
            eprintln!("unknown witness `{w}`");
            exit(2)
        }
    };
    exit(if ok { 0 } else { 1 })
}
