//! Witness runner: concrete inputs tied to contract obligations, run against the real crates in /repo.
//! `replay <witness>` prints observed vs required and exits 1 when the property statement is violated,
//! 0 when it holds on this input, 2 for an unknown witness.
use bytes::Bytes;
use dns_types::protocol::types::*;
use std::process::exit;

fn dn(s: &str) -> DomainName {
    DomainName::from_dotted_string(s).unwrap()
}

fn a_rr(name: &str, ip: &str) -> ResourceRecord {
    ResourceRecord {
        name: dn(name),
        rtype_with_data: RecordTypeWithData::A { address: ip.parse().unwrap() },
        rclass: RecordClass::IN,
        ttl: 300,
    }
}

/// C04: a name first written at an offset >= 16384 must still round-trip (pointer offsets have 14 bits).
fn c04_pointer_beyond_16k() -> bool {
    let big = ResourceRecord {
        name: dn("a."),
        rtype_with_data: RecordTypeWithData::NULL { octets: Bytes::from(vec![0u8; 16400]) },
        rclass: RecordClass::IN,
        ttl: 1,
    };
    let mut m = Message::from_question(
        7,
        Question { name: dn("q."), qtype: QueryType::Wildcard, qclass: QueryClass::Wildcard },
    );
    m.answers = vec![big, a_rr("late.example.", "1.2.3.4"), a_rr("late.example.", "1.2.3.5")];
    let bytes = m.to_octets().unwrap();
    let back = Message::from_octets(&bytes);
    println!("input: NULL record of 16400 octets, then two A records owned by late.example. ({} bytes encoded)", bytes.len());
    println!("required: decode(encode(m)) == m");
    match &back {
        Ok(b) if *b == m => {
            println!("observed: round trip ok");
            true
        }
        Ok(b) => {
            println!("observed: third answer owner decodes as `{}` (expected `late.example.`)", b.answers[2].name);
            false
        }
        Err(e) => {
            println!("observed: decode error {e:?}");
            false
        }
    }
}

/// C03/C16: a name that exceeds 255 octets only after following a compression pointer must be rejected.
fn c03_compressed_name_over_255() -> bool {
    let mut ok = true;
    for extra in [62usize, 63] {
        let mut m: Vec<u8> = vec![0xbe, 0xef, 0, 0, 0, 2, 0, 0, 0, 0, 0, 0];
        for n in [63u8, 63, 63] {
            m.push(n);
            m.extend(std::iter::repeat(b'a').take(n as usize));
        }
        m.extend([0, 0, 1, 0, 1]); // root, QTYPE A, QCLASS IN   (first name: 193 octets at offset 12)
        m.push(extra as u8);
        m.extend(std::iter::repeat(b'b').take(extra));
        m.extend([0xc0, 0x0c, 0, 1, 0, 1]); // pointer to offset 12: 1 + extra + 193 octets in all
        let total = 1 + extra + 193;
        let r = Message::from_octets(&m);
        println!("input: question name of 193 octets, second name = one {extra}-octet label + pointer to it ({total} octets in all)");
        println!("required: {}", if total > 255 { "Err (name longer than 255 octets)" } else { "Ok" });
        match &r {
            Ok(msg) => {
                let l = msg.questions[1].name.len;
                println!("observed: Ok, second name has len {l}");
                if l > 255 { ok = false; }
            }
            Err(e) => println!("observed: Err({e:?})"),
        }
    }
    ok
}

fn main() {
    let w = std::env::args().nth(1).unwrap_or_default();
    let ok = match w.as_str() {
        "c04_pointer_beyond_16k" => c04_pointer_beyond_16k(),
        "c03_compressed_name_over_255" => c03_compressed_name_over_255(),
        _ => {
            eprintln!("unknown witness `{w}`");
            exit(2)
        }
    };
    exit(if ok { 0 } else { 1 })
}
