//! Witness runner: concrete inputs tied to contract obligations, run against the real crates in /repo.
//! `replay <witness>` prints observed vs required and exits 1 when the property statement is violated,
//! 0 when it holds on this input, 2 for an unknown witness.
use bytes::Bytes;
use dns_types::protocol::types::*;
use std::process::exit;

fn dn(s: &str) -> DomainName {
    DomainName::from_dotted_string(s).unwrap()
}

fn a_rr(name: &str, ip: &str) -> ResourceRecord {
    ResourceRecord {
        name: dn(name),
        rtype_with_data: RecordTypeWithData::A { address: ip.parse().unwrap() },
        rclass: RecordClass::IN,
        ttl: 300,
    }
}

/// C04: a name first written at an offset >= 16384 must still round-trip (pointer offsets have 14 bits).
fn c04_pointer_beyond_16k() -> bool {
    let big = ResourceRecord {
        name: dn("a."),
        rtype_with_data: RecordTypeWithData::NULL { octets: Bytes::from(vec![0u8; 16400]) },
        rclass: RecordClass::IN,
        ttl: 1,
    };
    let mut m = Message::from_question(
        7,
        Question { name: dn("q."), qtype: QueryType::Wildcard, qclass: QueryClass::Wildcard },
    );
    m.answers = vec![big, a_rr("late.example.", "1.2.3.4"), a_rr("late.example.", "1.2.3.5")];
    let bytes = m.to_octets().unwrap();
    let back = Message::from_octets(&bytes);
    println!("input: NULL record of 16400 octets, then two A records owned by late.example. ({} bytes encoded)", bytes.len());
    println!("required: decode(encode(m)) == m");
    match &back {
        Ok(b) if *b == m => {
            println!("observed: round trip ok");
            true
        }
        Ok(b) => {
            println!("observed: third answer owner decodes as `{}` (expected `late.example.`)", b.answers[2].name);
            false
        }
        Err(e) => {
            println!("observed: decode error {e:?}");
            false
        }
    }
}

fn main() {
    let w = std::env::args().nth(1).unwrap_or_default();
    let ok = match w.as_str() {
        "c04_pointer_beyond_16k" => c04_pointer_beyond_16k(),
        _ => {
            eprintln!("unknown witness `{w}`");
            exit(2)
        }
    };
    exit(if ok { 0 } else { 1 })
}
