// appended (in a scratch copy only) to crates/dns-resolver/src/recursive.rs
#[cfg(test)]
mod verif_witness {
    use std::net::Ipv4Addr;

    use dns_types::protocol::types::test_util::*;

    use super::*;
    use crate::util::nameserver::test_util::*;

    /// C06: an off-path CNAME in the answer section and an NS record with a foreign owner must not be used.
    #[test]
    fn c06_offpath_cname_foreign_ns() {
        let (request, response) = nameserver_response(
            "www.example.com.",
            &[
                a_record("www.example.com.", Ipv4Addr::LOCALHOST),
                cname_record("victim.net.", "evil.org."),
            ],
            &[],
            &[],
        );
        let r1 = validate_nameserver_response(&request.questions[0], &response, 0);
        println!("input 1: question www.example.com. A; answer section: www.example.com. A 127.0.0.1, victim.net. CNAME evil.org.");
        println!("required: only the A record is used");
        let n1 = match &r1 {
            Some(NameserverResponse::Answer { rrs, .. }) => rrs.len(),
            _ => 0,
        };
        println!("observed: {n1} record(s) accepted: {r1:?}");

        let (request, response) = nameserver_response(
            "www.example.com.",
            &[],
            &[
                ns_record("example.com.", "ns1.example.com."),
                ns_record("victim.net.", "ns1.example.com."),
            ],
            &[a_record("ns1.example.com.", Ipv4Addr::LOCALHOST)],
        );
        let r2 = validate_nameserver_response(&request.questions[0], &response, 0);
        println!("input 2: question www.example.com. A; authority: example.com. NS ns1.example.com., victim.net. NS ns1.example.com.; additional: ns1.example.com. A");
        println!("required: only the NS record owned by example.com. and the glue record are used (2 records)");
        let n2 = match &r2 {
            Some(NameserverResponse::Delegation { rrs, .. }) => rrs.len(),
            _ => 0,
        };
        println!("observed: {n2} record(s) accepted: {r2:?}");
        assert_eq!((n1, n2), (1, 2), "VERIF-WITNESS-FAILS");
    }
}
