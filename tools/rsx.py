#!/usr/bin/env python3
"""Design-phase prototype: mechanical extraction of Rust items from the real
source, with contract splicing.  (Feasibility prototype only.)

API:
  items = parse_items(text)            -> list of Item(kind, name, text, start, end, header_end, body_start, body_end)
  impl items have .children (fns)
"""
import re, sys

class Tok:
    __slots__ = ("kind", "text", "pos", "end")
    def __init__(self, kind, text, pos, end):
        self.kind, self.text, self.pos, self.end = kind, text, pos, end
    def __repr__(self):
        return f"{self.kind}:{self.text!r}@{self.pos}"

IDENT = re.compile(r"[A-Za-z_][A-Za-z0-9_]*")
NUM = re.compile(r"[0-9][0-9A-Za-z_\.]*")

def lex(s):
    i, n = 0, len(s)
    out = []
    while i < n:
        c = s[i]
        if c.isspace():
            i += 1; continue
        if s.startswith("//", i):
            j = s.find("\n", i)
            j = n if j < 0 else j
            kind = "doc" if (s.startswith("///", i) and not s.startswith("////", i)) or s.startswith("//!", i) else "comment"
            out.append(Tok(kind, s[i:j], i, j)); i = j; continue
        if s.startswith("/*", i):
            depth, j = 1, i + 2
            while j < n and depth:
                if s.startswith("/*", j): depth += 1; j += 2
                elif s.startswith("*/", j): depth -= 1; j += 2
                else: j += 1
            out.append(Tok("comment", s[i:j], i, j)); i = j; continue
        # raw strings
        m = re.match(r'b?r(#*)"', s[i:])
        if m:
            hashes = m.group(1)
            endpat = '"' + hashes
            j = s.index(endpat, i + len(m.group(0))) + len(endpat)
            out.append(Tok("str", s[i:j], i, j)); i = j; continue
        if c == '"' or (c == 'b' and i + 1 < n and s[i+1] == '"'):
            j = i + (2 if c == 'b' else 1)
            while s[j] != '"':
                j += 2 if s[j] == '\\' else 1
            j += 1
            out.append(Tok("str", s[i:j], i, j)); i = j; continue
        if c == "'" or (c == 'b' and i + 1 < n and s[i+1] == "'"):
            k = i + (1 if c == 'b' else 0)
            # char literal or lifetime?
            if s[k+1] == '\\':
                j = k + 2
                while s[j] != "'": j += 1
                j += 1
                out.append(Tok("char", s[i:j], i, j)); i = j; continue
            if k + 2 < n and s[k+2] == "'":
                j = k + 3
                out.append(Tok("char", s[i:j], i, j)); i = j; continue
            # lifetime / label
            m = IDENT.match(s, k + 1)
            j = m.end()
            out.append(Tok("lifetime", s[i:j], i, j)); i = j; continue
        m = IDENT.match(s, i)
        if m:
            out.append(Tok("ident", m.group(0), i, m.end())); i = m.end(); continue
        m = NUM.match(s, i)
        if m:
            # avoid swallowing range `0..n`
            txt = m.group(0)
            if ".." in txt:
                txt = txt[:txt.index("..")]
            out.append(Tok("num", txt, i, i + len(txt))); i += len(txt); continue
        out.append(Tok("punct", c, i, i + 1)); i += 1
    return out

OPEN = {"(": ")", "[": "]", "{": "}"}
CLOSE = {")", "]", "}"}

def match_close(toks, k):
    """toks[k] is an opening bracket; return index of matching close."""
    depth = 0
    for j in range(k, len(toks)):
        t = toks[j]
        if t.kind == "punct":
            if t.text in OPEN: depth += 1
            elif t.text in CLOSE:
                depth -= 1
                if depth == 0: return j
    raise ValueError("unbalanced")

class Item:
    def __init__(self):
        self.kind = self.name = None
        self.start = self.end = None       # char span incl. attrs/docs
        self.sig_start = None               # first non-attr token
        self.body_open = self.body_close = None  # char pos of { and }
        self.attrs = []                     # attribute texts
        self.children = []
        self.toks = None
    def __repr__(self):
        return f"<{self.kind} {self.name}>"

KW_ITEM = {"fn", "struct", "enum", "impl", "const", "static", "type", "trait", "mod", "use", "macro_rules"}

def parse_items(s, toks=None, lo=0, hi=None):
    """Split token range [lo,hi) (at one nesting level) into items."""
    if toks is None:
        toks = lex(s)
    if hi is None:
        hi = len(toks)
    items = []
    k = lo
    while k < hi:
        it = Item()
        it.start = toks[k].pos
        # attrs / docs / comments
        while k < hi and (toks[k].kind in ("doc", "comment") or (toks[k].kind == "punct" and toks[k].text == "#")):
            if toks[k].kind in ("doc", "comment"):
                k += 1; continue
            # attribute: # [ ... ]  or #![...]
            j = k + 1
            if toks[j].text == "!": j += 1
            e = match_close(toks, j)
            it.attrs.append(s[toks[k].pos:toks[e].end])
            k = e + 1
        if k >= hi:
            break
        it.sig_start = toks[k].pos
        # scan header to find kind/name
        j = k
        kind = None
        while j < hi:
            t = toks[j]
            if t.kind == "ident" and t.text in KW_ITEM:
                kind = t.text; break
            j += 1
        if kind is None:
            break
        it.kind = kind
        # find end: first `;` or `{...}` at depth 0 after j
        m = j + 1
        depth = 0
        end_tok = None
        while m < hi:
            t = toks[m]
            if t.kind == "punct":
                if t.text in ("(", "["):
                    m = match_close(toks, m) + 1; continue
                if t.text == "{" and kind in ("use", "const", "static", "type"):
                    m = match_close(toks, m) + 1; continue   # braces inside a `;`-terminated item (use lists, struct expressions)
                if t.text == "{":
                    e = match_close(toks, m)
                    it.body_open, it.body_close = toks[m].pos, toks[e].pos
                    it._body_tok = (m, e)
                    end_tok = e
                    break
                if t.text == ";":
                    end_tok = m; break
            m += 1
        if end_tok is None:
            raise ValueError("no end for item at %d" % toks[k].pos)
        # struct Foo(...);  tuple struct: ends with ;
        it.end = toks[end_tok].end
        # name
        if kind == "impl":
            hdr_end = it.body_open if it.body_open else it.end
            it.name = " ".join(s[toks[j].end:hdr_end].split())
            # strip leading generics for convenience key too
            a, b = it._body_tok
            it.children = parse_items(s, toks, a + 1, b)
        elif kind in ("fn", "struct", "enum", "const", "static", "type", "trait", "mod"):
            it.name = toks[j + 1].text if toks[j + 1].kind == "ident" else toks[j + 2].text
            if kind == "mod" and it.body_open:
                a, b = it._body_tok
                it.children = parse_items(s, toks, a + 1, b)
        elif kind == "use":
            it.name = s[toks[j].end:toks[end_tok].pos].strip()
        else:
            it.name = "?"
        it.tok_range = (k, end_tok)
        it.toks = toks
        items.append(it)
        k = end_tok + 1
    return items

def find(items, kind, name):
    r = [i for i in items if i.kind == kind and i.name == name]
    if len(r) != 1:
        raise KeyError(f"{kind} {name}: {len(r)} matches; have {[ (i.kind,i.name) for i in items]}")
    return r[0]

def strip_comments(s, toks, a, b):
    """Return source text of char range [a,b) with comment/doc tokens removed."""
    out = []
    pos = a
    for t in toks:
        if t.pos < a or t.end > b: continue
        if t.kind in ("doc", "comment"):
            out.append(s[pos:t.pos]); pos = t.end
    out.append(s[pos:b])
    txt = "".join(out)
    return re.sub(r"\n\s*\n+", "\n", txt)

def loops_in_fn(s, it):
    """Return list of (kw, header_start_char, body_open_char) for each loop (for/while/loop) in fn body, in source order."""
    toks = it.toks
    a, b = it._body_tok
    res = []
    k = a + 1
    while k < b:
        t = toks[k]
        if t.kind == "ident" and t.text in ("for", "while", "loop"):
            # `for` in `impl<..> for`, HRTB `for<'a>` can't occur inside fn bodies normally
            m = k + 1
            while m < b:
                u = toks[m]
                if u.kind == "punct" and u.text in ("(", "["):
                    m = match_close(toks, m) + 1; continue
                if u.kind == "punct" and u.text == "{":
                    # struct-literal ambiguity is not allowed in loop headers by rustc, so first { is body
                    break
                m += 1
            res.append((t.text, t.pos, toks[m].pos))
            k += 1
            continue
        k += 1
    return res

if __name__ == "__main__":
    s = open(sys.argv[1]).read()
    for it in parse_items(s):
        print(it.kind, "|", it.name)
        for c in it.children:
            print("    ", c.kind, "|", c.name)
