#!/usr/bin/env python3
"""Driver:  run.py check <Cxx> quick|thorough      (the MANIFEST commands go through ./check)
            run.py unit <unit> [--probe] [--keep]   (development: build one unit and print diagnostics)
            run.py replay <file>

exit 0  every obligation tagged with the property discharged (or a listed known finding)
exit 1  VIOLATION property=<id> replay=<path> [no-failing-input-found]
exit 2  UNDECIDED (lost item, unsupported construct, rlimit, tool crash) - never an alarm
"""
import sys, os, re, json, time, subprocess, hashlib, glob, importlib, concurrent.futures, shutil

VERIF = os.path.dirname(os.path.dirname(os.path.abspath(__file__)))
sys.path.insert(0, os.path.join(VERIF, "tools"))
sys.path.insert(0, VERIF)
from gen import Gen, GenError

REPO = os.environ.get("VERIF_REPO", "/repo")
BUILD = os.path.join(VERIF, "build")
UNITDIR = os.path.join(BUILD, "units")

VERIFY_MSG = [
    (re.compile(r"postcondition not satisfied"), "post"),
    (re.compile(r"precondition not satisfied|split precondition failure"), "pre"),
    (re.compile(r"precondition not met: index in bounds|index out of bounds|index in bounds"), "index"),
    (re.compile(r"precondition not met|not met"), "pre"),
    (re.compile(r"invariant not satisfied"), "inv"),
    (re.compile(r"decreases not satisfied|could not prove termination|termination"), "decreases"),
    (re.compile(r"assertion failed|assertion not satisfied|assertion failure"), "assert"),
    (re.compile(r"possible arithmetic underflow/overflow|possible .*overflow"), "overflow"),
    (re.compile(r"possible division by zero"), "divzero"),
    (re.compile(r"possible bit shift"), "shift"),
    (re.compile(r"ensures not satisfied|loop ensures|loop postcondition"), "loop_ensures"),
    (re.compile(r"unreachable"), "panic"),
    (re.compile(r"type invariant"), "inv"),
    (re.compile(r"not satisfied|could not prove|cannot prove|unable to prove|might fail|may fail"), "other"),
]
RLIMIT_MSG = re.compile(r"[Rr]esource limit|rlimit")
CLAUSE_LABELS = ("failed this postcondition", "failed precondition", "failed this invariant", "failed this loop invariant")
TAG = re.compile(r"//\s*\[([A-Z0-9,]+)(?::([A-Za-z0-9_\-\.]+))?\]")


def vdeps():
    d = os.path.join(BUILD, "vdeps", "release", "deps")
    b = sorted(glob.glob(os.path.join(d, "libbytes-*.rlib")))
    p = sorted(glob.glob(os.path.join(d, "libpriority_queue-*.rlib")))
    if not b or not p:
        raise GenError("vdeps rlibs missing: run ./setup.sh")
    return d, b[0], p[0]


def tool_versions():
    try:
        v = subprocess.run(["verus", "--version"], capture_output=True, text=True).stdout
        m = re.search(r"Version: (\S+)", v)
        return {"verus": m.group(1) if m else "?"}
    except Exception:
        return {"verus": "?"}


class Diag:
    def __init__(self, d, ur):
        self.msg = d["message"]
        self.kind = None
        for pat, k in VERIFY_MSG:
            if pat.search(self.msg):
                self.kind = k
                break
        self.rlimit = bool(RLIMIT_MSG.search(self.msg))
        self.rendered = d.get("rendered") or self.msg
        spans = d.get("spans", [])
        foreign = [s for s in spans if os.path.abspath(s.get("file_name", "")) != os.path.abspath(ur.path)]
        spans = [s for s in spans if s not in foreign]
        clause = [s for s in spans if (s.get("label") or "").startswith("failed")]
        site = [s for s in spans if s not in clause]
        self.clause_line = clause[0]["line_start"] if clause else None
        self.clause_text = None
        self.tags, self.label = None, None
        lines = ur.lines
        if clause:
            a, b = clause[0]["line_start"], clause[0]["line_end"]
            self.clause_text = " ".join(l.strip() for l in lines[a - 1:b])
            m = TAG.search(self.clause_text)
            if m:
                self.tags = m.group(1).split(",")
                self.label = m.group(2)
            self.clause_text = TAG.sub("", self.clause_text).strip()
        self.site_line = (site[0]["line_start"] if site else (spans[0]["line_start"] if spans else None))
        self.site_text = lines[self.site_line - 1].strip() if self.site_line else ""
        if not clause and self.site_line:
            # assertion / invariant lines can carry a tag themselves
            m = TAG.search(lines[self.site_line - 1])
            if m:
                self.tags = m.group(1).split(",")
                self.label = m.group(2)
        # function attribution: range containing the site line (else clause line)
        self.fn = None
        for ln in (self.site_line, self.clause_line):
            if ln is None:
                continue
            for key, (a, b) in ur.ranges.items():
                if a <= ln <= b:
                    self.fn = key
                    break
            if self.fn:
                break
        # for invariants the primary span *is* the clause
        if self.kind in ("inv", "loop_ensures") and not clause and spans:
            a, b = spans[0]["line_start"], spans[0]["line_end"]
            self.clause_text = TAG.sub("", " ".join(l.strip() for l in lines[a - 1:b])).strip()
        self.src = None
        if self.site_line and self.site_line - 1 < len(ur.linemap):
            o = ur.linemap[self.site_line - 1]
            if o and o[0] != "spec":
                self.src = f"{o[0]}:{o[1]}"
            elif o:
                self.src = f"contract {o[1]}"
        if foreign and not clause and self.kind == "post":
            # contract clause lives in vstd (e.g. FromSpecImpl: `ensures r == from_spec(v)`)
            self.label = "vstd:" + os.path.basename(foreign[0].get("file_name", "")) + ":" + str(foreign[0].get("line_start"))
        self.is_probe = "@probe" in self.site_text

    def obligation(self, unit):
        lab = self.label or (re.sub(r"\s+", " ", self.clause_text)[:80] if self.clause_text else re.sub(r"\s+", " ", self.site_text)[:80])
        return f"{unit}/{self.fn or '?'}/{self.kind or 'tool'}:{lab}"

    def props(self, ur):
        if self.tags:
            return self.tags
        f = ur.fnmeta.get(self.fn)
        if f:
            return f["props"]
        # a failing lemma / spec item outside any extracted function and without a tag: charged to every property of the unit
        return list(getattr(ur, "unit_props", []))

    def to_json(self, unit, ur):
        return {"obligation": self.obligation(unit), "kind": self.kind, "function": self.fn, "message": self.msg,
                "clause": self.clause_text, "site": self.site_text, "repo_location": self.src,
                "properties": self.props(ur), "verus": self.rendered}


class UnitResult:
    pass


def load_unit(name):
    return importlib.import_module(f"units.{name}")


def run_unit(name, overlay=None, probe=False, rlimit=None, seed=None, tag="", timeout=1800, multiple_errors=20):
    """Generate the unit from REPO (or overlay) and run Verus.  Never raises for verification failures."""
    ur = UnitResult()
    ur.name, ur.status, ur.reason = name, "ok", ""
    ur.diags, ur.verified, ur.errors, ur.smt_ms, ur.total_ms = [], 0, 0, 0, 0
    ur.lines, ur.linemap, ur.ranges, ur.fnmeta, ur.fired = [], [], {}, {}, {}
    ur.text_sha, ur.src_shas, ur.path, ur.cmd = "", {}, "", ""
    t0 = time.time()
    try:
        mod = load_unit(name)
        G = Gen(REPO, name, overlay=overlay, probe=probe)
        mod.build(G)
        text, linemap, ranges = G.render()
        depdir, bytes_rlib, pq_rlib = vdeps()
    except GenError as e:
        ur.status, ur.reason = "undecided", f"generator: {e}"
        ur.wall = time.time() - t0
        return ur
    ur.lines = text.split("\n")
    ur.linemap, ur.ranges = linemap, ranges
    ur.fnmeta = {f["key"]: f for f in G.functions}
    ur.fired = G.fired
    ur.dropped = G.dropped
    ur.text_sha = hashlib.sha256(text.encode()).hexdigest()[:16]
    ur.src_shas = {rel: s.sha for rel, s in G.srcs.items()}
    ur.trusted = getattr(mod, "TRUSTED", [])
    try:
        from units import registry as _R
        ur.unit_props = _R.UNITS.get(name, [])
    except Exception:
        ur.unit_props = []
    ur.assumed_fns = sorted(k for k, f in ur.fnmeta.items() if f["mode"] == "assume")
    ur.proved_fns = sorted(k for k, f in ur.fnmeta.items() if f["mode"] == "prove")
    ur.plain_fns = sorted(k for k, f in ur.fnmeta.items() if f["mode"] == "plain")
    os.makedirs(UNITDIR, exist_ok=True)
    tag = tag or os.environ.get("VERIF_TAG", "")  # development: a second session on another tree (VERIF_REPO) writes to its own files
    suffix = ("." + tag if tag else "") + (".probe" if probe else "")
    ur.path = os.path.join(UNITDIR, f"{name}{suffix}.rs")
    with open(ur.path, "w") as f:
        f.write(text)
    # cheat scan
    ur.cheats = {}
    for kw in ("assume(", "admit(", "external_body", "assume_specification", "axiom fn", "#[verifier::external]", "external_fn_specification", "external_type_specification", "exec_allows_no_decreases_clause", "verifier::rlimit", "verifier::spinoff_prover"):
        n = sum(l.count(kw) for l in ur.lines)
        if n:
            ur.cheats[kw] = n
    cmd = ["verus", ur.path, "--crate-name", "unit_" + name, "--extern", f"bytes={bytes_rlib}", "--extern", f"priority_queue={pq_rlib}",
           "-L", f"dependency={depdir}", "--triggers-mode", "silent", "--error-format=json", "--output-json", "--time",
           "--multiple-errors", str(multiple_errors), "--no-report-long-running"]
    if not rlimit:
        rlimit = getattr(mod, "RLIMIT", None)
    if rlimit:
        cmd += ["--rlimit", str(rlimit)]
    if seed is not None:
        cmd += ["--smt-option", f"smt.random_seed={seed}"]
    extra = getattr(mod, "VERUS_ARGS", [])
    cmd += extra
    ur.cmd = " ".join(cmd)
    wd = os.path.join(BUILD, "wd", f"{name}{suffix}")
    os.makedirs(wd, exist_ok=True)
    try:
        p = subprocess.run(cmd, capture_output=True, text=True, timeout=timeout, cwd=wd)
    except subprocess.TimeoutExpired:
        ur.status, ur.reason = "undecided", f"verus timeout after {timeout}s"
        ur.wall = time.time() - t0
        return ur
    ur.stdout, ur.stderr, ur.rc = p.stdout, p.stderr, p.returncode
    # stdout: JSON object
    out = None
    try:
        i = p.stdout.index("{")
        out = json.loads(p.stdout[i:])
    except Exception:
        pass
    tool_errors = []
    for l in p.stderr.splitlines():
        l = l.strip()
        if not l.startswith("{"):
            continue
        try:
            d = json.loads(l)
        except Exception:
            continue
        if d.get("level") != "error":
            continue
        if d["message"].startswith("aborting due to"):
            continue
        dg = Diag(d, ur)
        if dg.kind is None and not dg.rlimit:
            tool_errors.append(dg)
        ur.diags.append(dg)
    if out and "verification-results" in out:
        vr = out["verification-results"]
        ur.verified, ur.errors = vr.get("verified", 0), vr.get("errors", 0)
        tm = out.get("times-ms", {})
        ur.smt_ms = tm.get("smt", {}).get("total", 0)
        ur.total_ms = tm.get("total", 0)
        if vr.get("encountered-vir-error"):
            ur.status, ur.reason = "undecided", "verus front-end error: " + "; ".join(d.msg for d in tool_errors[:3])
    else:
        ur.status = "undecided"
        ur.reason = "verus produced no result: " + ("; ".join(d.msg for d in tool_errors[:3]) or p.stderr[-400:])
    if ur.status == "ok" and tool_errors:
        ur.status, ur.reason = "undecided", "unclassified verus error: " + "; ".join(d.msg for d in tool_errors[:3])
    unspec = getattr(G, "unspecified", {})
    if ur.status == "ok" and unspec:
        hit = sorted(set(d.fn for d in ur.diags if d.fn in unspec))
        if hit:
            ur.status, ur.reason = "undecided", "generator: " + "; ".join(f"{k}: unsupported construct {unspec[k]}" for k in hit)
    if ur.status == "ok" and any(d.rlimit for d in ur.diags):
        ur.status, ur.reason = "rlimit", "; ".join(f"{d.fn}: {d.msg}" for d in ur.diags if d.rlimit)[:300]
    ur.wall = time.time() - t0
    return ur


def run_unit_retry(name, **kw):
    ur = run_unit(name, **kw)
    if ur.status == "rlimit":
        kw2 = dict(kw)
        kw2["rlimit"] = (kw.get("rlimit") or getattr(load_unit(name), "RLIMIT", 10)) * 4
        ur2 = run_unit(name, **kw2)
        ur2.retried = True
        if ur2.status == "rlimit" and not kw.get("seed"):
            # the solver still gives up: the same query under other random seeds.  A run that completes is as good as any - a
            # proof is a proof, a refuted obligation is refuted - only "gave up" carries no information
            base = kw.get("rlimit") or getattr(load_unit(name), "RLIMIT", 10)
            with concurrent.futures.ThreadPoolExecutor(max_workers=3) as ex:
                futs = [ex.submit(run_unit, name, **dict(kw, seed=sd, rlimit=base * 2, tag=(kw.get("tag") or "") + f"retry{sd}")) for sd in (11, 12, 13)]
                for f in futs:
                    r = f.result()
                    if r.status == "ok":
                        r.retried = True
                        return r
        return ur2
    return ur


# ---------------------------------------------------------------------------
def registry():
    from units import registry as R
    return R


def known_findings():
    p = os.path.join(VERIF, "known-findings.json")
    if not os.path.exists(p):
        return []
    return json.load(open(p)).get("findings", [])


def finding_for(prop, obligation, kfs):
    for k in kfs:
        if k.get("status") == "finding" and k["property"] == prop and k["obligation"] == obligation:
            return k
    return None


def check(prop, tier):
    t0 = time.time()
    seed = int(os.environ.get("VERIF_SEED", "0") or 0)
    R = registry()
    units = [u for u, ps in R.UNITS.items() if prop in ps]
    if not units:
        print(f"UNDECIDED property={prop} reason=no unit serves this property")
        return 2
    results, probes = {}, {}
    with concurrent.futures.ThreadPoolExecutor(max_workers=8) as ex:
        fut = {ex.submit(run_unit_retry, u, seed=(seed or None)): ("main", u) for u in units}
        for u in units:
            fut[ex.submit(run_unit, u, probe=True, multiple_errors=1)] = ("probe", u)
        for f in concurrent.futures.as_completed(fut):
            k, u = fut[f]
            (results if k == "main" else probes)[u] = f.result()
    undecided = []
    violations, known = [], []
    kfs = known_findings()
    n_obl = n_ok = 0
    samples, per_unit = [], {}
    trusted, assumed_fns, proved_fns = set(), set(), set()
    probe_info = {}
    for u in units:
        ur = results[u]
        if ur.status != "ok":
            undecided.append(f"{u}: {ur.status}: {ur.reason}")
            if ur.status == "rlimit":
                # the solver gave up on some function; obligations it definitely refuted in other functions still count
                for d in ur.diags:
                    if d.rlimit or d.kind is None or prop not in d.props(ur):
                        continue
                    ob = d.obligation(u)
                    kf = finding_for(prop, ob, kfs)
                    (known if kf else violations).append((u, d, ob, kf))
            continue
        # vacuity (i): something was verified, and at least every prove-mode function
        mine = [k for k, f in ur.fnmeta.items() if prop in f["props"] and f["mode"] == "prove"]
        if ur.verified + ur.errors < len(ur.proved_fns) or ur.verified + ur.errors == 0:
            undecided.append(f"{u}: vacuity: verus reports {ur.verified}+{ur.errors} proof units for {len(ur.proved_fns)} functions under contract")
            continue
        # vacuity (ii): probes
        pr = probes[u]
        if pr.status not in ("ok",):
            undecided.append(f"{u}: probe run {pr.status}: {pr.reason}")
            continue
        hit = set(d.fn for d in pr.diags if d.kind == "assert" and d.is_probe)
        missed = [k for k in ur.proved_fns if k not in hit]
        probe_info[u] = {"probes": len(ur.proved_fns), "failed_as_expected": len(hit), "unreachable": missed}
        if missed:
            undecided.append(f"{u}: vacuous precondition (probe `assert(false)` verified) in {missed}")
            continue
        n_obl += ur.verified + ur.errors
        n_ok += ur.verified
        fails_here = 0
        for d in ur.diags:
            if prop not in d.props(ur):
                continue
            fails_here += 1
            ob = d.obligation(u)
            kf = finding_for(prop, ob, kfs)
            (known if kf else violations).append((u, d, ob, kf))
        trusted.update(ur.trusted)
        assumed_fns.update(f"{u}:{k}" for k in ur.assumed_fns)
        proved_fns.update(f"{u}:{k}" for k in ur.proved_fns)
        per_unit[u] = {"verified": ur.verified, "errors": ur.errors, "smt_ms": ur.smt_ms, "total_ms": ur.total_ms,
                       "generated_sha": ur.text_sha, "repo_sources": ur.src_shas, "rewrites_fired": ur.fired,
                       "dropped_tracing_statements": ur.dropped.get("tracing", 0),
                       "functions_proved": ur.proved_fns, "functions_assumed_contract": ur.assumed_fns,
                       "functions_verified_without_contract": ur.plain_fns,
                       "cheat_scan": ur.cheats, "probes": probe_info[u], "checker_cmd": ur.cmd,
                       "retried_with_4x_rlimit": bool(getattr(ur, "retried", False))}
        for k in ur.proved_fns:
            f = ur.fnmeta[k]
            if prop in f["props"] and f.get("contract"):
                samples.append({"unit": u, "function": k, "repo": f"{f['file']}:{f['line']}",
                                "contract": [c.strip() for c in f["contract"].strip().split("\n")][:40]})
    # thorough extras
    extra = {}
    if tier == "thorough" and not undecided:
        extra = thorough(prop, units, results)
        if extra.get("unstable"):
            undecided.append("unstable under seeds: " + ", ".join(extra["unstable"]))
    wall = time.time() - t0
    ev = {
        "property_id": prop, "tier": tier, "seed": seed, "level": "proof",
        "coverage": {
            "obligations": n_obl, "discharged": n_ok,
            "checker_cmd": "; ".join(per_unit[u]["checker_cmd"] for u in per_unit) or "verus (not run)",
            "trusted_base": sorted(trusted) + [f"assumed contract (external_body): {x}" for x in sorted(assumed_fns)],
            "samples": samples[:60] or [{"note": "no contract evaluated"}],
            "explanation": "obligations = function-level proof units Verus reports (verified+failed) over the units serving this property; "
                           "each unit is regenerated from /repo's working tree on this run; known findings are counted as not discharged",
            "units": per_unit,
            "functions_under_contract": sorted(proved_fns),
            "known_findings_reported": [ob for (_, _, ob, _) in known],
            "undecided": undecided,
            "tool_versions": tool_versions(),
            **extra,
        },
        "assumptions": sorted(trusted),
        "wall_s": round(wall, 2),
        "violations": len(violations),
    }
    clauses = getattr(R, "UNDECIDED_CLAUSES", {}).get(prop)
    if clauses:
        ev["coverage"]["clauses_not_decided"] = clauses
    os.makedirs(os.path.join(VERIF, "evidence"), exist_ok=True)
    if undecided and not violations:
        # evidence is still written (what was covered), but the run is undecided
        write_evidence(prop, ev)
        for r in undecided:
            print(f"UNDECIDED property={prop} reason={r}")
        return 2
    write_evidence(prop, ev)
    seen = set()
    for (u, d, ob, kf) in known:
        if ob in seen:
            continue
        seen.add(ob)
        print(f"KNOWN-FINDING: property={prop} {kf.get('text', ob)}")
    if violations:
        path = write_replay(prop, violations, results)
        w = run_witnesses(prop, violations, path)
        tail = "" if w else " no-failing-input-found"
        for (u, d, ob, _) in violations:
            print(f"  failed obligation {ob}  [{d.src}]  {d.msg}")
        print(f"VIOLATION property={prop} replay={path}{tail}")
        return 1
    print(f"OK property={prop} tier={tier} units={','.join(units)} obligations={n_obl} discharged={n_ok} known_findings={len(seen)} wall={wall:.1f}s")
    return 0


def write_evidence(prop, ev):
    p = os.path.join(VERIF, "evidence", f"{prop}.json")
    with open(p, "w") as f:
        json.dump(ev, f, indent=1, sort_keys=False)


def write_replay(prop, violations, results):
    os.makedirs(os.path.join(VERIF, "replays"), exist_ok=True)
    body = {"property": prop, "tool_versions": tool_versions(), "failed_obligations": [], "units": {}}
    for (u, d, ob, _) in violations:
        ur = results[u]
        j = d.to_json(u, ur)
        a = max(0, (d.site_line or 1) - 6)
        j["generated_excerpt"] = ur.lines[a:(d.site_line or 1) + 3]
        body["failed_obligations"].append(j)
        body["units"][u] = {"generated_file": ur.path, "generated_sha": ur.text_sha, "cmd": ur.cmd, "repo_sources": ur.src_shas}
    h = hashlib.sha256(json.dumps([x["obligation"] for x in body["failed_obligations"]]).encode()).hexdigest()[:10]
    path = os.path.join(VERIF, "replays", f"{prop}-{h}.json")
    body["how_to_replay"] = f"cd /verif && ./check {prop} quick   # regenerates the unit from /repo and re-runs the verifier; the obligation(s) above fail again while the code is unchanged"
    with open(path, "w") as f:
        json.dump(body, f, indent=1)
    return path


def run_witnesses(prop, violations, replay_path):
    """Concrete inputs tied to obligations (witness templates): run against the real code; returns True when one fails."""
    try:
        import witnesses
    except Exception:
        return False
    found = []
    for (u, d, ob, _) in violations:
        for w in witnesses.for_obligation(prop, ob):
            r = witnesses.run(w, REPO)
            if r and r.get("fails"):
                found.append(r)
    if found:
        body = json.load(open(replay_path))
        body["failing_inputs"] = found
        with open(replay_path, "w") as f:
            json.dump(body, f, indent=1)
    return bool(found)


def thorough(prop, units, results):
    """Seeds (stability), canaries (sensitivity), all in parallel."""
    extra = {"seeds": {}, "canaries": {}, "unstable": []}
    jobs = {}
    with concurrent.futures.ThreadPoolExecutor(max_workers=12) as ex:
        for u in units:
            for s in (1, 2, 3, 4, 5):
                jobs[ex.submit(run_unit, u, seed=s, tag=f"seed{s}", rlimit=40)] = ("seed", u, s)
            mod = load_unit(u)
            for c in getattr(mod, "CANARIES", []):
                if prop not in c.get("props", [prop]):
                    continue
                rel = c["file"]
                src = open(os.path.join(REPO, rel)).read()
                if src.count(c["old"]) < 1:
                    extra["canaries"][f"{u}:{c['name']}"] = "not-applicable (pattern absent)"
                    continue
                new = src.replace(c["old"], c["new"], 1)
                jobs[ex.submit(run_unit, u, overlay={rel: new}, tag="canary_" + c["name"], multiple_errors=5)] = ("canary", u, c)
        for f in concurrent.futures.as_completed(jobs):
            k = jobs[f]
            r = f.result()
            if k[0] == "seed":
                base = results[k[1]]
                same = (r.status == base.status and sorted(set(d.obligation(k[1]) for d in r.diags)) == sorted(set(d.obligation(k[1]) for d in base.diags)))
                extra["seeds"][f"{k[1]}:seed{k[2]}"] = "same" if same else f"differs ({r.status}, {r.verified}/{r.errors})"
                if not same:
                    extra["unstable"].append(f"{k[1]}:seed{k[2]}")
            else:
                u, c = k[1], k[2]
                base_obs = set(d.obligation(u) for d in results[u].diags)
                new_fail = [d for d in r.diags if d.obligation(u) not in base_obs and d.kind]
                if r.status == "undecided":
                    extra["canaries"][f"{u}:{c['name']}"] = "undecided: " + r.reason[:100]
                elif new_fail:
                    extra["canaries"][f"{u}:{c['name']}"] = "killed by " + new_fail[0].obligation(u)
                else:
                    extra["canaries"][f"{u}:{c['name']}"] = "SURVIVED"
    surv = [k for k, v in extra["canaries"].items() if v == "SURVIVED"]
    extra["sensitivity"] = "degraded: " + ", ".join(surv) if surv else "all canaries killed"
    return extra


def dev_unit(name, probe=False, seed=None, rlimit=None, only_fn=None):
    if only_fn:
        mod = load_unit(name)
        mod.VERUS_ARGS = list(getattr(mod, "VERUS_ARGS", [])) + ["--verify-root", "--verify-function", only_fn]
    ur = run_unit(name, probe=probe, seed=seed, rlimit=rlimit)
    print(f"unit {name}: status={ur.status} {ur.reason}")
    print(f"  file {ur.path}  verified={ur.verified} errors={ur.errors} smt={ur.smt_ms}ms total={ur.total_ms}ms wall={ur.wall:.1f}s")
    print(f"  rewrites fired: {ur.fired}")
    full = os.environ.get("VERIF_FULL")
    if ur.status == "undecided" and not full:
        ur.diags = [d for d in ur.diags if d.kind is None][:3]
    for d in (ur.diags if full else ur.diags[:10]):
        print(f"- [{d.kind}] {d.obligation(name)}  props={d.props(ur)} src={d.src}")
        r = d.rendered if full else "\n".join(l[:230] for l in d.rendered.split("\n")[:14])
        print("    " + r.replace("\n", "\n    "))
    if len(ur.diags) > 10 and not full:
        print(f"... {len(ur.diags) - 10} more diagnostics (VERIF_FULL=1 to see all)")
    if ur.status != "ok":
        print(getattr(ur, "stderr", "")[-3000:] if not ur.diags else "")
    return 0 if ur.status == "ok" and not ur.diags else 1


def main():
    a = sys.argv[1:]
    if not a:
        print(__doc__)
        return 2
    if a[0] == "check":
        prop, tier = a[1], (a[2] if len(a) > 2 else os.environ.get("VERIF_TIER", "quick"))
        try:
            return check(prop, tier)
        except GenError as e:
            print(f"UNDECIDED property={prop} reason={e}")
            return 2
    if a[0] == "unit":
        seed = None
        rl = None
        for x in a[2:]:
            if x.startswith("--seed="):
                seed = int(x[7:])
            if x.startswith("--rlimit="):
                rl = float(x[9:])
        only = None
        for x in a[2:]:
            if x.startswith("--fn="):
                only = x[5:]
        return dev_unit(a[1], probe="--probe" in a, seed=seed, rlimit=rl, only_fn=only)
    if a[0] == "canaries":
        mod = load_unit(a[1])
        base = run_unit(a[1])
        base_obs = set(d.obligation(a[1]) for d in base.diags)
        rc = 0
        def one(c):
            src = open(os.path.join(REPO, c["file"])).read()
            if c["old"] not in src:
                return c, None
            return c, run_unit(a[1], overlay={c["file"]: src.replace(c["old"], c["new"], 1)}, tag="canary_" + c["name"], multiple_errors=5)
        with concurrent.futures.ThreadPoolExecutor(max_workers=8) as ex:
            for c, r in ex.map(one, [c for c in getattr(mod, "CANARIES", []) if len(a) < 3 or c["name"] in a[2:]]):
                if r is None:
                    print(f"{c['name']}: pattern absent"); continue
                new = [d for d in r.diags if d.obligation(a[1]) not in base_obs and d.kind]
                if r.status == "undecided":
                    print(f"{c['name']}: UNDECIDED {r.reason[:200]}")
                elif new:
                    print(f"{c['name']}: killed by {len(new)}: " + "; ".join(sorted(set(d.obligation(a[1]) for d in new))[:4]))
                else:
                    print(f"{c['name']}: SURVIVED"); rc = 1
        return rc
    if a[0] == "replay":
        body = json.load(open(a[1]))
        print(json.dumps(body.get("failed_obligations"), indent=1)[:4000])
        print(body.get("how_to_replay"))
        return 0
    print(__doc__)
    return 2


if __name__ == "__main__":
    sys.exit(main())
