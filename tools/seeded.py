#!/usr/bin/env python3
"""Seeded-change bookkeeping.

  seeded.py confirm <src_dir_with_patch.diff,demo.diff> <property> <name>
        confirms in a scratch worktree (outside /repo and /verif, removed afterwards) that
          (a) demo alone passes together with the whole suite,
          (b) patch + demo: only demo tests fail,
        then copies patch.diff, demo.diff, notes.md to /verif/seeded/<name>/ and writes meta.json.
  seeded.py run <name> [tier]
        applies /verif/seeded/<name>/patch.diff to /repo, runs the property's check, reverts /repo, records the outcome in meta.json.
  seeded.py runall
"""
import sys, os, subprocess, json, shutil, re, tempfile

VERIF = os.path.dirname(os.path.dirname(os.path.abspath(__file__)))
REPO = "/repo"


def sh(cmd, cwd=None, timeout=3600):
    p = subprocess.run(cmd, shell=True, cwd=cwd, capture_output=True, text=True, timeout=timeout)
    return p.returncode, p.stdout + p.stderr


def cargo_test(wt):
    rc, out = sh("CARGO_NET_OFFLINE=true cargo test --workspace --offline --no-fail-fast 2>&1", cwd=wt)
    failed = sorted(set(re.findall(r"^test (\S+) \.\.\. FAILED", out, re.M)))
    passed = len(re.findall(r"^test \S+ \.\.\. ok", out, re.M))
    compiled = "error: could not compile" not in out and "error[E" not in out
    return compiled, passed, failed, out


# pre-existing flaky test of the pinned suite (random zone may contain an NS record => Delegation); ignored when confirming
FLAKY = {"zones::types::tests::zone_insert_resolve"}


def demo_test_names(src):
    return set(re.findall(r"^\+\s*(?:async\s+)?fn\s+(\w+)", open(os.path.join(src, "demo.diff")).read(), re.M))


def confirm(src, prop, name):
    wt = tempfile.mkdtemp(prefix="seedchk-", dir="/tmp")
    os.rmdir(wt)
    rc, out = sh(f"git -C {REPO} worktree add -q --detach {wt} HEAD")
    assert rc == 0, out
    res = {"property": prop, "name": name}
    try:
        env_target = f"CARGO_TARGET_DIR={wt}/target"
        rc, out = sh(f"git apply {src}/demo.diff", cwd=wt)
        assert rc == 0, "demo.diff does not apply on the unchanged tree: " + out
        demo_names = demo_test_names(src)
        c, p, f, out = cargo_test(wt)
        f = [x for x in f if x not in FLAKY]
        res["demo_only"] = {"compiles": c, "passed": p, "failed": f}
        rc, out = sh(f"git apply {src}/patch.diff", cwd=wt)
        assert rc == 0, "patch.diff does not apply on top of demo: " + out
        c2, p2, f2, out2 = cargo_test(wt)
        f2 = [x for x in f2 if x not in FLAKY]
        res["patch_and_demo"] = {"compiles": c2, "passed": p2, "failed": f2}
        ok = c and not f and c2 and f2 and all("seeded" in x or "demo" in x or x.split("::")[-1] in demo_names for x in f2)
        res["confirmed"] = bool(ok)
    finally:
        sh(f"git -C {REPO} worktree remove --force {wt}")
        shutil.rmtree(wt, ignore_errors=True)
    if res.get("confirmed"):
        dst = os.path.join(VERIF, "seeded", name)
        os.makedirs(dst, exist_ok=True)
        for fn in ("patch.diff", "demo.diff", "notes.md"):
            if os.path.exists(os.path.join(src, fn)):
                shutil.copy(os.path.join(src, fn), os.path.join(dst, fn))
        meta = {"property": prop, "name": name,
                "needs_to_manifest": "see notes.md",
                "confirmation": {"ran": "git worktree add (scratch); git apply demo.diff; cargo test --workspace --offline --no-fail-fast; git apply patch.diff; cargo test ... again",
                                 "demo_only": res["demo_only"], "patch_and_demo": res["patch_and_demo"]},
                "checks": {}}
        json.dump(meta, open(os.path.join(dst, "meta.json"), "w"), indent=1)
    print(json.dumps(res, indent=1))
    return 0 if res.get("confirmed") else 1


def run(name, tier="quick", props=None):
    d = os.path.join(VERIF, "seeded", name)
    meta = json.load(open(os.path.join(d, "meta.json")))
    rc, out = sh(f"git -C {REPO} status --porcelain --untracked-files=no")
    assert out.strip() == "", "/repo has uncommitted changes: " + out
    rc, out = sh(f"git -C {REPO} apply {d}/patch.diff")
    assert rc == 0, "patch does not apply: " + out
    try:
        for prop in (props or [meta["property"]]):
            ev = os.path.join(VERIF, "evidence", f"{prop}.json")
            saved = open(ev).read() if os.path.exists(ev) else None
            rc, out = sh(f"./check {prop} {tier}", cwd=VERIF, timeout=3600)
            # the evidence file belongs to runs on the unchanged tree: put it back
            if saved is not None:
                open(ev, "w").write(saved)
            lines = [l for l in out.splitlines() if l.startswith(("VIOLATION", "UNDECIDED", "OK", "KNOWN-FINDING", "  failed obligation"))]
            verdict = "detected" if rc == 1 and any(l.startswith("VIOLATION") for l in lines) else ("undecided" if rc == 2 else "missed")
            meta["checks"][f"{prop}:{tier}"] = {"exit": rc, "verdict": verdict, "lines": lines[:12]}
            print(f"{name} {prop} {tier}: {verdict} (exit {rc})")
            for l in lines[:8]:
                print("   ", l)
    finally:
        sh(f"git -C {REPO} checkout -- .")
    json.dump(meta, open(os.path.join(d, "meta.json"), "w"), indent=1)
    return 0


def main():
    a = sys.argv[1:]
    if a[0] == "confirm":
        return confirm(a[1], a[2], a[3])
    if a[0] == "run":
        return run(a[1], a[2] if len(a) > 2 else "quick", a[3:] or None)
    if a[0] == "runall":
        for n in sorted(os.listdir(os.path.join(VERIF, "seeded"))):
            if os.path.exists(os.path.join(VERIF, "seeded", n, "meta.json")):
                run(n, a[1] if len(a) > 1 else "quick")
        return 0


if __name__ == "__main__":
    sys.exit(main())
