#!/usr/bin/env python3
"""Benign edits (behaviour-preserving): every unit must still verify (or at worst be UNDECIDED), never report a failed obligation.
usage: benign.py   -> prints one line per edit"""
import sys, os
sys.path.insert(0, os.path.dirname(os.path.abspath(__file__)))
sys.path.insert(0, os.path.dirname(os.path.dirname(os.path.abspath(__file__))))
import run
from concurrent.futures import ThreadPoolExecutor

BENIGN = [
    ("zone_build", "crates/dns-types/src/zones/types.rs", "            self.records\n                .insert(relative_domain, rtype_with_data, self.actual_ttl(ttl));", "            let raised = self.actual_ttl(ttl);\n            self.records\n                .insert(relative_domain, rtype_with_data, raised);", "introduced a local"),
    ("zone_build", "crates/dns-types/src/zones/types.rs", "            if let Some(entries) = self.this.get_mut(&rtype) {\n                if entries.iter().any(|e| e == &new) {\n                    return;\n                }\n\n                entries.push(new);", "            if let Some(entries) = self.this.get_mut(&rtype) {\n                if !entries.iter().any(|e| e == &new) {\n                    entries.push(new);\n                }", "early return as a negated condition"),
    ("zone_build", "crates/dns-types/src/zones/types.rs", "            if let Some(entries) = self.this.get_mut(&rtype) {\n                if entries.iter().any(|e| e == &new) {", "            if let Some(entries) = self.this.get_mut(&rtype) {\n                if entries.contains(&new) {", "any(==) as contains"),
    ("zone_merge", "crates/dns-types/src/hosts/types.rs", "        for (name, address) in other.v4 {\n            self.v4.insert(name, address);\n        }\n        for (name, address) in other.v6 {\n            self.v6.insert(name, address);\n        }", "        self.v4.extend(other.v4);\n        self.v6.extend(other.v6);", "insert loops as extend"),
    ("local", "crates/dns-resolver/src/local.rs", "    let mut rrs_from_zone = Vec::new();", "    let mut rrs_from_zone = Vec::with_capacity(4);", "capacity hint"),
    ("local", "crates/dns-resolver/src/local.rs", "        tracing::debug!(\"hit recursion limit\");", "        tracing::warn!(\"hit recursion limit\");", "log level"),
    ("recursive", "crates/dns-resolver/src/recursive.rs", "    let mut candidates = None;\n    let mut combined_rrs = Vec::new();", "    let mut combined_rrs = Vec::new();\n    let mut candidates = None;", "swap two independent lets"),
    ("wire_decode", "crates/dns-types/src/protocol/deserialise.rs", "        let mut labels = Vec::<Label>::with_capacity(5);", "        let mut labels = Vec::<Label>::with_capacity(8);", "capacity hint"),
    ("wire_codec", "crates/dns-types/src/protocol/serialise.rs", "        self.rclass.serialise(buffer);\n        buffer.write_u32(self.ttl);", "        self.rclass.serialise(buffer);\n        // time to live\n        buffer.write_u32(self.ttl);", "added comment"),
    ("cache", "crates/dns-resolver/src/cache.rs", "        let has_overflowed = self.current_size > self.desired_size;", "        let has_overflowed = self.desired_size < self.current_size;", "flipped comparison"),
    ("zone_lookup", "crates/dns-types/src/zones/types.rs", "        if let Some(zone) = self.get(name) {", "        if let Some(zone) = self.get(name) {\n            tracing::trace!(\"zone found\");", "added log line"),
    ("zone_merge", "crates/dns-types/src/zones/types.rs", "        if self.apex != other.apex {\n            return Err((self.apex.clone(), other.apex));\n        }", "        if other.apex != self.apex {\n            return Err((self.apex.clone(), other.apex));\n        }", "flipped inequality"),
    ("upstream_filter", "crates/dns-resolver/src/util/nameserver.rs", "    if request.header.id != response.header.id {\n        return false;\n    }", "    if response.header.id != request.header.id {\n        return false;\n    }", "flipped inequality"),
    ("server", "crates/resolved/src/main.rs", "    response.header.recursion_available = !args.authoritative_only;", "    let offered = !args.authoritative_only;\n    response.header.recursion_available = offered;", "introduced a local"),
    ("names", "crates/dns-types/src/protocol/types.rs", "        if labels.is_empty() {\n            return None;\n        }", "        if labels.len() == 0 {\n            return None;\n        }", "is_empty as len == 0"),
    ("zone_text", "crates/dns-types/src/zones/serialise.rs", "    let mut out = String::with_capacity(2 + octets.len());", "    let mut out = String::new();", "no capacity hint"),
    ("zone_text", "crates/dns-types/src/zones/serialise.rs", "        } else if *octet < 32 || *octet > 126 || (*octet == 32 && !quoted) {", "        } else if *octet > 126 || *octet < 32 || (!quoted && *octet == 32) {", "reordered disjuncts"),
    ("zone_text", "crates/dns-types/src/zones/deserialise.rs", "            (State::Initial, ';') => State::SkipToEndOfComment,\n            (State::Initial, '(') => {", "            (State::Initial, ';') => {\n                // a comment\n                State::SkipToEndOfComment\n            }\n            (State::Initial, '(') => {", "arm body as a block with a comment"),
    ("zone_file", "crates/dns-types/src/zones/deserialise.rs", "        let mut rrs = Vec::new();\n        let mut wildcard_rrs = Vec::new();", "        let mut wildcard_rrs = Vec::new();\n        let mut rrs = Vec::with_capacity(16);", "swapped lets, capacity hint"),
    ("zone_file", "crates/dns-types/src/zones/deserialise.rs", "                        if apex_and_soa.is_some() {\n                            return Err(Error::MultipleSOA);\n                        }", "                        if let Some(_) = apex_and_soa {\n                            return Err(Error::MultipleSOA);\n                        }", "is_some as if-let"),
    ("zone_rr", "crates/dns-types/src/zones/deserialise.rs", "    if tokens.is_empty() {\n        return Err(Error::WrongLen { tokens });\n    }\n\n    if tokens.len() >= 4 {", "    if tokens.len() == 0 {\n        return Err(Error::WrongLen { tokens });\n    }\n\n    if tokens.len() > 3 {", "is_empty as len == 0, >= 4 as > 3"),
    ("zone_rr", "crates/dns-types/src/zones/deserialise.rs", "    if dotted_string == \"@\" {\n        if let Some(name) = origin {\n            Ok(name.clone())\n        } else {\n            Err(Error::ExpectedOrigin)\n        }", "    if dotted_string == \"@\" {\n        match origin {\n            Some(name) => Ok(name.clone()),\n            None => Err(Error::ExpectedOrigin),\n        }", "if-let as match"),
    ("names_text", "crates/dns-types/src/protocol/types.rs", "            if label_chars.is_empty() && i != chunks.len() - 1 {", "            if label_chars.is_empty() && i != chunks.len() - 1 && i != 0 {", "early rejection relaxed where from_labels rejects anyway"),
    ("zone_names", "crates/dns-types/src/zones/serialise.rs", "                let labels_to_keep = name.labels.len() - apex.labels.len();", "                let kept = name.labels.len() - apex.labels.len();\n                let labels_to_keep = kept;", "introduced a local"),
    ("zone_names", "crates/dns-types/src/protocol/types.rs", "        let mut out = String::with_capacity(self.len);\n        let mut first = true;", "        let mut first = true;\n        let mut out = String::new();", "swapped lets, no capacity hint"),
    ("names_text", "crates/dns-types/src/protocol/types.rs", "        let mut labels = Vec::with_capacity(chunks.len());\n\n        for (i, label_chars) in chunks.iter().enumerate() {", "        let mut labels = Vec::new();\n\n        for (i, label_chars) in chunks.iter().enumerate() {", "no capacity hint"),
    ("recursive", "crates/dns-resolver/src/recursive.rs", "        let mut resolve_candidates_locally = true;\n", "        // fast candidates first\n        let mut resolve_candidates_locally = true;\n", "added comment"),
    ("recursive", "crates/dns-resolver/src/recursive.rs", "            let soa_rr = resolved.soa_rr().cloned();\n            rrs.append(&mut resolved.rrs());", "            let soa_rr = resolved.soa_rr().cloned();\n            let mut inner = resolved.rrs();\n            rrs.append(&mut inner);", "introduced a local"),
    ("family", "crates/dns-resolver/src/recursive.rs", "                if address.is_some() {\n                    return address;\n                }\n            }\n        } else if let Ok(result)", "                if let Some(found) = address {\n                    return Some(found);\n                }\n            }\n        } else if let Ok(result)", "is_some as if-let"),
    ("server", "crates/resolved/src/main.rs", "                            let id = match error {\n                                TcpError::TooShort { id, .. } => id,\n                                TcpError::IO { id, .. } => id,\n                            };", "                            let id = match error {\n                                TcpError::IO { id, .. } => id,\n                                TcpError::TooShort { id, .. } => id,\n                            };", "reordered match arms"),
    ("hosts_conv", "crates/dns-types/src/hosts/types.rs", "        for (name, address) in hosts.v4 {\n            zone.insert(&name, RecordTypeWithData::A { address }, TTL);", "        for (name, address) in hosts.v4 {\n            let data = RecordTypeWithData::A { address };\n            zone.insert(&name, data, TTL);", "introduced a local"),
    ("wire_decode", "crates/dns-types/src/protocol/deserialise.rs", "        let rdata_stop = buffer.position;\n\n        if rdata_stop == rdata_start + (rdlength as usize) {", "        let rdata_stop = buffer.position;\n\n        if rdata_start + (rdlength as usize) == rdata_stop {", "flipped equality"),
    ("wire_codec", "crates/dns-types/src/protocol/serialise.rs", "        for rr in &self.answers {\n            rr.serialise(buffer)?;\n        }", "        for record in &self.answers {\n            record.serialise(buffer)?;\n        }", "renamed loop variable"),
    ("wire_decode", "crates/dns-types/src/protocol/deserialise.rs", "        let mut questions = Vec::with_capacity(qdcount.into());\n        let mut answers = Vec::with_capacity(ancount.into());", "        let mut answers = Vec::with_capacity(ancount.into());\n        let mut questions = Vec::with_capacity(qdcount.into());", "swapped lets"),
    ("hosts_text", "crates/dns-types/src/hosts/deserialise.rs", "    if new_names.is_empty() {\n        Ok(None)\n    } else {\n        Ok(Some((address, new_names)))\n    }", "    if !new_names.is_empty() {\n        Ok(Some((address, new_names)))\n    } else {\n        Ok(None)\n    }", "negated condition, swapped branches"),
    ("hosts_text", "crates/dns-types/src/hosts/deserialise.rs", "        let mut hosts = Self::new();\n        for line in data.lines() {", "        let mut hosts = Self::new();\n        // one mapping line at a time\n        for line in data.lines() {", "added comment"),
    ("hosts_conv", "crates/dns-types/src/hosts/types.rs", "        let mut zone = Self::default();\n        for (name, address) in hosts.v4 {", "        let mut zone = Zone::default();\n        for (name, address) in hosts.v4 {", "Self as Zone"),
    ("server", "crates/dns-resolver/src/util/net.rs", "            let expected = size as usize;\n            let mut bytes = BytesMut::with_capacity(expected);", "            let expected = usize::from(size);\n            let mut bytes = BytesMut::with_capacity(expected);", "cast as From"),
    ("config", "crates/resolved/src/fs.rs", "    let mut is_error = false;\n    let mut hosts_file_paths = Vec::from(hosts_files);\n    let mut zone_file_paths = Vec::from(zone_files);", "    let mut hosts_file_paths = Vec::from(hosts_files);\n    let mut zone_file_paths = Vec::from(zone_files);\n    let mut is_error = false;", "reordered lets"),
]

def one(b):
    unit, rel, old, new, what = b
    src = open(os.path.join("/repo", rel)).read()
    if old not in src:
        return f"{unit}: {what}: pattern absent"
    r = run.run_unit(unit, overlay={rel: src.replace(old, new, 1)}, tag="benign%d" % BENIGN.index(b), multiple_errors=5)
    if r.status != "ok":
        return f"{unit}: {what}: UNDECIDED ({r.reason[:80]})"
    return f"{unit}: {what}: " + ("ok" if r.errors == 0 else f"FALSE ALARM {r.errors} errors")

with ThreadPoolExecutor(4) as ex:
    for line in ex.map(one, BENIGN):
        print(line)
