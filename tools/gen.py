#!/usr/bin/env python3
"""Unit generator: builds one single-file Verus crate from the *current* text of
functions in /repo plus spliced contracts.

What is taken from /repo is the token stream of each selected item, minus
comments and the attribute / logging classes listed in DESIGN.md section 3.2; what is
added is contracts (between signature and body), entry blocks, loop spec
blocks and loop entry blocks; what is changed is the closed list of rewrite rules
(DESIGN.md section 3.3), each recorded when it fires.

The generated text carries a line map (generated line -> origin) so that a Verus
diagnostic can be reported against /repo file:line or a contract clause.
"""
import os, re, hashlib
from rsx import lex, parse_items, match_close


UNSPECIFIED_ADAPTER = re.compile(r"\.(iter|iter_mut|into_iter|chars|keys|values|bytes|lines|split_whitespace)\(\)\s*\.\s*(any|all|find|find_map|position|map|filter|filter_map|fold|count|sum|max|min|last|nth|skip_while|take_while|flat_map|for_each)\(")


class GenError(Exception):
    """Lost item / anchor / unsupported shape: the check is UNDECIDED (exit 2), never a violation."""


DROP_ATTR = re.compile(r"#\[(cfg_attr|allow|warn|doc|must_use|rustfmt|inline|async_recursion|cfg\()")


class Src:
    def __init__(self, repo, rel, text=None):
        self.rel = rel
        self.path = os.path.join(repo, rel)
        self.s = text if text is not None else open(self.path).read()
        self.sha = hashlib.sha256(self.s.encode()).hexdigest()[:16]
        try:
            self.toks = lex(self.s)
            self.items = parse_items(self.s, self.toks)
        except Exception as e:  # unbalanced source etc.
            raise GenError(f"cannot parse {rel}: {e}")
        # line starts
        self.nl = [0]
        for i, c in enumerate(self.s):
            if c == "\n":
                self.nl.append(i + 1)

    def line_of(self, pos):
        import bisect
        return bisect.bisect_right(self.nl, pos)

    def find(self, kind, name, within=None):
        items = within.children if within is not None else self.items
        r = [i for i in items if i.kind == kind and i.name == name and not is_cfg_test(i)]
        if len(r) != 1:
            raise GenError(f"{self.rel}: {kind} `{name}`: {len(r)} matches")
        return r[0]

    def find_impl(self, name):
        return self.find("impl", name)


def is_cfg_test(it):
    return any(a.startswith("#[cfg(") for a in it.attrs)


def clean_attrs(it, drop_derive=()):
    out = []
    for a in it.attrs:
        if DROP_ATTR.match(a):
            continue
        if a.startswith("#[derive") and drop_derive:
            inner = a[a.index("(") + 1:a.rindex(")")]
            names = [x.strip() for x in inner.split(",") if x.strip()]
            names = [n for n in names if n not in drop_derive]
            if not names:
                continue
            a = "#[derive(" + ", ".join(names) + ")]"
        out.append(a)
    return out


def blank_comments(src, a, b, extra_drop=()):
    """Source text [a,b) with comment/doc tokens (and extra (x,y) char ranges) removed; newlines kept."""
    s = src.s
    cuts = []
    # binary search over tokens would be nicer; the files are small
    for t in src.toks:
        if t.end <= a:
            continue
        if t.pos >= b:
            break
        if t.kind in ("doc", "comment"):
            cuts.append((t.pos, t.end))
    for (x, y) in extra_drop:
        if x >= a and y <= b:
            cuts.append((x, y))
    cuts.sort()
    out = []
    pos = a
    for (x, y) in cuts:
        if x < pos:
            continue
        out.append(s[pos:x])
        out.append("\n" * s[x:y].count("\n"))
        pos = y
    out.append(s[pos:b])
    return "".join(out)


def tracing_ranges(src, it):
    """Char ranges of `tracing::xxx!(...);` statement macros and `let _span = tracing::...;` inside item."""
    toks = src.toks
    a, b = it._body_tok
    res = []
    k = a + 1
    while k < b:
        t = toks[k]
        if t.kind == "ident" and t.text == "tracing" and toks[k + 1].text == ":" and toks[k + 2].text == ":":
            # statement start: previous token must be `;`, `{` or `}`  (expression statement) or `let _span =`
            start = k
            p = k - 1
            if toks[p].text == "=" and toks[p - 1].kind == "ident" and toks[p - 1].text.startswith("_") and toks[p - 2].text == "let":
                start = p - 2
                p = p - 3
            while toks[p].kind in ("comment", "doc"):
                p -= 1
            if toks[p].text not in (";", "{", "}"):
                k += 1
                continue
            # find terminating `;` at depth 0
            m = k
            while m < b:
                u = toks[m]
                if u.kind == "punct" and u.text in ("(", "[", "{"):
                    m = match_close(toks, m) + 1
                    continue
                if u.kind == "punct" and u.text == ";":
                    break
                m += 1
            res.append((toks[start].pos, toks[m].end))
            k = m + 1
            continue
        k += 1
    return res


def loops_in_fn(src, it):
    """[(kw, kw_pos, body_open_pos)] for each for/while/loop in the fn body in source order."""
    toks = src.toks
    a, b = it._body_tok
    res = []
    k = a + 1
    while k < b:
        t = toks[k]
        if t.kind == "ident" and t.text in ("for", "while", "loop"):
            m = k + 1
            while m < b:
                u = toks[m]
                if u.kind == "punct" and u.text in ("(", "["):
                    m = match_close(toks, m) + 1
                    continue
                if u.kind == "punct" and u.text == "{":
                    break
                m += 1
            res.append((t.text, t.pos, toks[m].pos))
        k += 1
    return res


def name_return(hdr, rname="r"):
    """`-> T` at depth 0 of a fn header becomes `-> (r: T)`."""
    depth = 0
    idx = None
    i = 0
    while i < len(hdr):
        c = hdr[i]
        if hdr.startswith("->", i):
            if depth == 0:
                idx = i
            i += 2
            continue
        if c in "([<":
            depth += 1
        elif c in ")]>":
            depth -= 1
        i += 1
    if idx is None:
        return hdr
    rest = hdr[idx + 2:]
    m = re.search(r"\bwhere\b", rest)
    ty = rest[:m.start()] if m else rest
    tail = rest[m.start():] if m else ""
    if ty.strip().startswith("("+rname+":"):
        return hdr
    return hdr[:idx] + f"-> ({rname}: {ty.strip()})\n" + tail


# ---------------------------------------------------------------------------
# closed list of rewrite rules (DESIGN.md section 3.3).  Each: name -> (regex, replacement)
REWRITES = {
    # R1: `x |= e;` on bool
    "R1": (re.compile(r"\b([A-Za-z_][A-Za-z0-9_]*) \|= ([^;]+);"),
           r"{ let t__: bool = \2; \1 = \1 || t__; }"),
    # R2: be-bytes / max shims
    "R2a": (re.compile(r"\bu16::from_be_bytes\("), "shim_u16_from_be_bytes("),
    "R2b": (re.compile(r"\bu32::from_be_bytes\("), "shim_u32_from_be_bytes("),
    "R2c": (re.compile(r"\b([A-Za-z_][A-Za-z0-9_\.]*)\.to_be_bytes\(\)"), r"shim_to_be_bytes_u16(\1)"),
    "R2d": (re.compile(r"\bstd::cmp::max\("), "shim_max_u32("),
    "R2e": (re.compile(r"\b([A-Za-z_][A-Za-z0-9_\.]*)\.to_be_bytes\(\)"), r"shim_to_be_bytes_u32(\1)"),
    # R13: BufMut provided methods -> shims whose body is the same call
    "R13a": (re.compile(r"\b([A-Za-z_][A-Za-z0-9_\.]*)\.put_u8\("), r"shim_put_u8(&mut \1, "),
    "R13b": (re.compile(r"\b([A-Za-z_][A-Za-z0-9_\.]*)\.put_slice\("), r"shim_put_slice(&mut \1, "),
    # R10: array pattern
    "R10": (re.compile(r"let \[([a-z_0-9]+), ([a-z_0-9]+)\] = ([^;]+);"),
            r"let t__ = \3; let \1 = t__[0]; let \2 = t__[1];"),
}


def r6_inline_closure(txt):
    """R6: `let mut NAME = || BLOCK;` capturing `&mut` state, called as `NAME()`: the closure is inlined at its call
    sites (`NAME()` -> `(BLOCK)`).  Behaviour-preserving: a zero-argument, non-escaping closure."""
    m = re.search(r"let mut ([a-z_][a-z_0-9]*) = \|\| \{", txt)
    if not m:
        return txt, 0
    name = m.group(1)
    i = m.end() - 1
    depth, j = 0, i
    while True:
        if txt[j] == "{":
            depth += 1
        elif txt[j] == "}":
            depth -= 1
            if depth == 0:
                break
        j += 1
    block = txt[i:j + 1]
    k = j + 1
    while txt[k].isspace():
        k += 1
    if txt[k] != ";":
        return txt, 0
    rest = txt[:m.start()] + "\n" * txt[m.start():k + 1].count("\n") + txt[k + 1:]
    flat = " ".join(block.split())
    new, n = re.subn(r"\b" + name + r"\(\)", "(" + flat.replace("\\", "\\\\") + ")", rest)
    return new, n


class Gen:
    def __init__(self, repo, unit, overlay=None, probe=False):
        self.repo = repo
        self.unit = unit
        self.overlay = overlay or {}
        self.probe = probe
        self.srcs = {}
        self.chunks = []          # (text, origin) ; origin = None | (rel, first_line) | ("spec", label)
        self.fired = {}           # rule -> count
        self.functions = []       # dicts: key, mode, props, file, line
        self.dropped = {"tracing": 0, "comments": True}
        self.unspecified = {}
        self.crate_consts = set()

    # -- sources
    def src(self, rel):
        if rel not in self.srcs:
            self.srcs[rel] = Src(self.repo, rel, self.overlay.get(rel))
        return self.srcs[rel]

    # -- emission
    def raw(self, text, origin=None):
        if not text.endswith("\n"):
            text += "\n"
        self.chunks.append((text, origin))

    def file(self, path, origin=None):
        self.raw(open(path).read(), origin or ("spec", os.path.basename(path)))

    def item(self, src, kind, name, drop_derive=(), pre_attrs="", within=None, rewrites=()):
        it = src.find(kind, name, within)
        attrs = clean_attrs(it, drop_derive)
        txt = blank_comments(src, it.sig_start, it.end)
        txt = self._rewrite(txt, rewrites)
        head = (pre_attrs + "\n" if pre_attrs else "") + "".join(a + "\n" for a in attrs)
        if head:
            self.raw(head)
        self.raw(txt, (src.rel, src.line_of(it.sig_start)))

    def _rewrite(self, txt, rules):
        for r in rules:
            if isinstance(r, str):
                pat, rep = REWRITES[r]
                name = r
            elif len(r) == 2 and callable(r[1]):
                name = r[0]
                new, n = r[1](txt)
                if n:
                    self.fired[name] = self.fired.get(name, 0) + n
                    txt = new
                continue
            else:
                name, pat, rep = r
                if isinstance(pat, str):
                    pat = re.compile(pat, re.S)
            def _pad(m, rep=rep):
                out = m.expand(rep) if isinstance(rep, str) else rep(m)
                lost = m.group(0).count("\n") - out.count("\n")
                return out + ("\n" * lost if lost > 0 else "")
            new, n = pat.subn(_pad, txt)
            if n:
                self.fired[name] = self.fired.get(name, 0) + n
                txt = new
        return txt

    def fn(self, src, it, key, spec=None, prefix_attrs=""):
        """Emit one function.  spec keys:
           contract, ret, entry, loops{ord:{spec,entry,rename_for}}, anchors[], props[], mode('prove'|'assume'|'plain'),
           rewrites[], header_rewrites[]"""
        spec = spec or {}
        mode = spec.get("mode", "prove" if spec.get("contract") is not None else "plain")
        s = src.s
        drops = tracing_ranges(src, it)
        self.dropped["tracing"] += len(drops)
        hdr = blank_comments(src, it.sig_start, it.body_open)
        hdr = self._rewrite(hdr, spec.get("header_rewrites", ()))
        if spec.get("depub"):
            # R14: visibility only -- a `pub fn` of a crate-private type is given `pub(crate)` so that its contract may
            # mention the type's private fields (Verus checks public contracts against a wider scope)
            hdr2 = re.sub(r"^(\s*)pub fn ", r"\1pub(crate) fn ", hdr, count=1)
            if hdr2 != hdr:
                self.fired["R14"] = self.fired.get("R14", 0) + 1
                hdr = hdr2
        attrs = clean_attrs(it)
        start_line = src.line_of(it.sig_start)
        # R49: a constant of the crate root that the function names as `crate::NAME` is taken along (once per unit)
        m_crate = re.match(r"(crates/[^/]+/src)/", src.rel)
        if m_crate and mode != "assume":
            for cname in sorted(set(re.findall(r"\bcrate::([A-Z][A-Z0-9_]*)\b", blank_comments(src, it.body_open, it.end)))):
                if cname in self.crate_consts:
                    continue
                try:
                    lib = self.src(m_crate.group(1) + "/lib.rs")
                    self.item(lib, "const", cname)
                    self.crate_consts.add(cname)
                    self.fired["R49"] = self.fired.get("R49", 0) + 1
                except (GenError, OSError):
                    pass   # not a root constant: left to the compiler
        self.raw(f"// @fn {key} mode={mode} props={','.join(spec.get('props', []))} src={src.rel}:{start_line}")
        if spec.get("attrs"):
            self.raw(spec["attrs"])
        if prefix_attrs:
            self.raw(prefix_attrs)
        for a in attrs:
            self.raw(a)
        if mode == "assume":
            self.raw("#[verifier::external_body]")
        if spec.get("contract") is not None:
            hdr = name_return(hdr.rstrip(), spec.get("ret", "r"))
            self.raw(hdr, (src.rel, start_line))
            if spec["contract"].strip():
                self.raw(spec["contract"].rstrip("\n"), ("spec", f"{key}/contract"))
        else:
            self.raw(hdr.rstrip(), (src.rel, start_line))
        if mode == "assume":
            # assumed contract: signature + contract only (the body is proved in the unit named in the evidence, or trusted)
            self.raw("{ unimplemented!() }")
            self.raw(f"// @endfn {key}")
            self.functions.append({"key": key, "mode": mode, "props": spec.get("props", []), "file": src.rel, "line": start_line,
                                   "contract": spec.get("contract", None)})
            return
        # body with splices
        inserts = []
        if mode != "assume":
            entry = spec.get("entry", "")
            if self.probe and mode == "prove":
                # reachability probe: must FAIL; what follows it is cut off (assume(false) in the probe copy only) so that the
                # query stays small - the probe asks one thing: is the entry reachable under the precondition
                entry = "assert(false); // @probe " + key + "\nassume(false);\n" + entry
            if entry:
                inserts.append((it.body_open + 1, "\n" + entry.rstrip("\n") + "\n", ("spec", f"{key}/entry")))
            lps = loops_in_fn(src, it)
            loop_specs = spec.get("loops") or {}
            if not lps and spec.get("loops_if_present"):
                # the function was rewritten without loops (e.g. `for .. insert` as `extend`): its contract is then checked
                # against the specifications of what it calls instead; loop-entry proof text has nowhere to go
                loop_specs = {}
            for k, ls in loop_specs.items():
                k = int(k)
                if k >= len(lps):
                    raise GenError(f"{key}: loop #{k} not found (function has {len(lps)} loops)")
                kw, hpos, bopen = lps[k]
                if ls.get("kw") and ls["kw"] != kw:
                    raise GenError(f"{key}: loop #{k} is `{kw}`, contract expects `{ls['kw']}`")
                if ls.get("iter_name") and kw == "for":
                    # R11: name Verus' ghost iterator:  for PAT in EXPR  ->  for PAT in it: EXPR
                    m = re.compile(r"\bin\b").search(s, hpos, bopen)
                    if not m:
                        raise GenError(f"{key}: loop #{k}: no `in`")
                    inserts.append((m.end(), f" {ls['iter_name']}:", None))
                    self.fired["R11"] = self.fired.get("R11", 0) + 1
                if ls.get("spec"):
                    inserts.append((bopen, "\n" + ls["spec"].rstrip("\n") + "\n", ("spec", f"{key}/loop{k}")))
                if ls.get("entry"):
                    inserts.append((bopen + 1, "\n" + ls["entry"].rstrip("\n") + "\n", ("spec", f"{key}/loop{k}/entry")))
            for anc in (spec.get("anchors") or []):
                if anc.get("with_loops") and not lps and spec.get("loops_if_present"):
                    continue  # proof text that prepares a loop invariant: goes with the loops
                if anc.get("optional") and not (re.search(anc["after_re"], s[it.body_open:it.end]) if anc.get("after_re") else anc["after"] in s[it.body_open:it.end]):
                    continue  # proof text for an exit the function may not have (an early `return`)
                body_txt = s[it.body_open:it.end]
                pos, startp = -1, 0
                if anc.get("after_re"):
                    # anchor given as a regular expression (tolerates renamed operands); `after` is set to the matched text
                    ms = list(re.finditer(anc["after_re"], body_txt))
                    if len(ms) <= anc.get("nth", 0):
                        raise GenError(f"{key}: lost anchor /{anc['after_re']}/")
                    anc = dict(anc, after=ms[anc.get("nth", 0)].group(0))
                    pos = ms[anc.get("nth", 0)].start()
                elif anc.get("nth", 0) < 0:
                    # counted from the end (-1: last occurrence): robust against the same statement being added earlier in the function
                    occ, sp = [], 0
                    while True:
                        q = body_txt.find(anc["after"], sp)
                        if q < 0:
                            break
                        occ.append(q)
                        sp = q + 1
                    if len(occ) < -anc["nth"]:
                        raise GenError(f"{key}: lost anchor {anc['after']!r}")
                    pos = occ[anc["nth"]]
                else:
                  for _ in range(anc.get("nth", 0) + 1):
                    pos = body_txt.find(anc["after"], startp)
                    if pos < 0:
                        raise GenError(f"{key}: lost anchor {anc['after']!r}")
                    startp = pos + 1
                if anc.get("at") == "before":
                    ip = it.body_open + pos
                else:
                    semi = body_txt.find(";", pos + len(anc["after"]) - 1)
                    if anc["after"].rstrip().endswith(("{", ";", "}")):
                        semi = pos + len(anc["after"].rstrip()) - 1
                    ip = it.body_open + semi + 1
                inserts.append((ip, "\n" + anc["proof"].rstrip("\n") + "\n", ("spec", f"{key}/anchor")))
        inserts.sort(key=lambda x: x[0])
        pos = it.body_open
        rules = spec.get("rewrites", ())
        pieces = []
        for p, txt, origin in inserts:
            pieces.append((blank_comments(src, pos, p, drops), (src.rel, src.line_of(pos))))
            pieces.append((txt, origin))
            pos = p
        pieces.append((blank_comments(src, pos, it.end, drops), (src.rel, src.line_of(pos))))
        # per-line origins of the assembled body, then the rewrite rules on the whole body (newline count preserved)
        origins, cur = [], None
        for txt, origin in pieces:
            parts = txt.split("\n")
            for i, part in enumerate(parts):
                if i > 0:
                    origins.append(cur)
                    cur = None
                if part.strip() and cur is None and origin is not None:
                    cur = origin if origin[0] == "spec" else (origin[0], origin[1] + i)
        origins.append(cur)
        body = "".join(t for t, _ in pieces)
        body2 = self._rewrite(body, rules)
        if mode == "prove":
            # Verus accepts closure-taking iterator adapters but leaves their result unspecified: a body that still holds one
            # after the rewrite rules cannot be decided - neither a pass nor a failure would mean anything
            code_only = "\n".join(l for l in body2.split("\n") if not re.match(r"\s*(//|proof \{|assert|let ghost|invariant|requires|ensures)", l))
            for pat in spec.get("forbid", ()):
                # calls this function is known to make that Verus accepts without a specification once the rewrite rule misses them
                fm = re.search(pat, code_only)
                if fm:
                    raise GenError(f"{key}: unsupported construct `{fm.group(0)}`: accepted by the verifier without a specification, its result would be unconstrained")
            m = UNSPECIFIED_ADAPTER.search(code_only)
            if m:
                # the verifier treats the result as an arbitrary value: a proof that goes through holds for the real value too,
                # a failure in this function may be an artefact - it is reported as UNDECIDED by the runner
                self.unspecified[key] = f"`{m.group(0)}...)`: an iterator adapter over a closure, whose result the verifier leaves unspecified"
        if body2.count("\n") != body.count("\n"):
            origins = origins + [None] * (body2.count("\n") - body.count("\n"))
        if not body2.endswith("\n"):
            body2 += "\n"
            origins.append(None)
        self.chunks.append((body2, ("lines", origins)))
        self.raw(f"// @endfn {key}")
        self.functions.append({"key": key, "mode": mode, "props": spec.get("props", []),
                               "file": src.rel, "line": start_line,
                               "contract": spec.get("contract", None)})

    def raw_nonl(self, text, origin):
        self.chunks.append((text, origin))

    def impl(self, src, implname, fns, prefix, specs, extra="", header=None, others=True, pre_attrs=""):
        """Emit `impl` block restricted to fns (None = all non-test fns); contracts from specs[prefix+name]."""
        it = src.find_impl(implname)
        hdr = header or blank_comments(src, it.sig_start, it.body_open)
        if pre_attrs:
            self.raw(pre_attrs)
        self.raw(hdr.rstrip() + " {", (src.rel, src.line_of(it.sig_start)))
        if extra:
            self.raw(extra, ("spec", f"{prefix}extra"))
        seen = set()
        for c in it.children:
            if is_cfg_test(c):
                continue
            if c.kind == "fn":
                if fns is not None and c.name not in fns:
                    continue
                seen.add(c.name)
                self.fn(src, c, prefix + c.name, specs.get(prefix + c.name))
            elif others:
                self.raw(blank_comments(src, c.sig_start, c.end), (src.rel, src.line_of(c.sig_start)))
        if fns is not None:
            missing = [f for f in fns if f not in seen]
            if missing:
                raise GenError(f"{src.rel}: impl {implname}: missing fn {missing}")
        self.raw("}")

    def top_fn(self, src, name, specs, key=None):
        it = src.find("fn", name)
        key = key or name
        self.fn(src, it, key, specs.get(key))

    def block_fn(self, src, fn_name, opener_re, header, key, specs, tail=""):
        """R45: a block handed to a spawner inside function `fn_name` (found by the regular expression `opener_re`, which must end
        at the block's `{`) is read as the body of a function with the given header over the variables the block captures.  The
        block text is taken verbatim and keeps its line numbers; `tail` (an expression naming a captured variable) is put before
        the closing brace when the contract has to speak about that variable's final state."""
        it = src.find("fn", fn_name)
        ms = list(re.compile(opener_re).finditer(src.s, it.body_open, it.end))
        if len(ms) != 1:
            raise GenError(f"{fn_name}: {len(ms)} blocks match /{opener_re}/")
        open_pos = ms[0].end() - 1
        k = [i for i, t in enumerate(src.toks) if t.pos == open_pos and t.text == "{"]
        if not k:
            raise GenError(f"{fn_name}: block opener is not a token")
        close_pos = src.toks[match_close(src.toks, k[0])].pos
        text = "\n" * (src.line_of(open_pos) - 1) + header + " " + src.s[open_pos:close_pos] + tail + "}\n"
        syn = Src(self.repo, src.rel, text)
        self.fired["R45"] = self.fired.get("R45", 0) + 1
        self.top_fn(syn, key, specs)

    # -- result
    def render(self):
        """Returns (text, linemap[list of origin per generated line (1-based index-1)], fn_ranges)."""
        text_parts = []
        linemap = []
        for txt, origin in self.chunks:
            text_parts.append(txt)
        text = "".join(text_parts)
        # line map: walk chunks again, tracking line numbers (chunks may end mid-line)
        linemap = []
        cur_has_origin = None
        line_origin = None
        for txt, origin in self.chunks:
            parts = txt.split("\n")
            for i, p in enumerate(parts):
                if i > 0:
                    linemap.append(line_origin)
                    line_origin = None
                if origin is not None and origin[0] == "lines":
                    if p.strip() and line_origin is None and i < len(origin[1]):
                        line_origin = origin[1][i]
                    continue
                if p.strip() and line_origin is None:
                    if origin is None:
                        line_origin = None
                    elif origin[0] == "spec":
                        line_origin = origin
                    else:
                        line_origin = (origin[0], origin[1] + i)
        linemap.append(line_origin)
        # function ranges from markers
        ranges = {}
        cur = None
        for n, l in enumerate(text.split("\n"), 1):
            m = re.match(r"\s*// @fn (\S+) ", l)
            if m:
                cur = (m.group(1), n)
            m = re.match(r"\s*// @endfn (\S+)", l)
            if m and cur:
                ranges[cur[0]] = (cur[1], n)
                cur = None
        return text, linemap, ranges
