#!/usr/bin/env python3
"""Development aid (not part of any check): vstd ships without source here, so to see the
specification vstd gives a std function, verify a snippet that calls it with --log-all and
pretty-print the function's requires/ensures/body from the SST log.

usage: vstd_spec.py <file.rs> <name-substring> [...]
"""
import sys, re, subprocess, os, tempfile, glob

def tokenize(s):
    i, n = 0, len(s)
    while i < n:
        c = s[i]
        if c.isspace():
            i += 1
        elif c in "()":
            yield c; i += 1
        elif c == '"':
            j = i + 1
            while s[j] != '"':
                j += 2 if s[j] == "\\" else 1
            yield s[i:j + 1]; i = j + 1
        else:
            j = i
            while j < n and not s[j].isspace() and s[j] not in '()':
                j += 1
            yield s[i:j]; i = j

def parse(tokens):
    stack = [[]]
    for t in tokens:
        if t == "(":
            stack.append([])
        elif t == ")":
            x = stack.pop()
            stack[-1].append(x)
        else:
            stack[-1].append(t)
    return stack[0]

def kw(node, key):
    for i, x in enumerate(node):
        if x == key and i + 1 < len(node):
            return node[i + 1]
    return None

def short(p):
    return p.split("::")[-1] if isinstance(p, str) else str(p)

def funname(f):
    # (Fun :path a::b::c)
    if isinstance(f, list) and f and f[0] == "Fun":
        return kw(f, ":path")
    return str(f)

def show(e):
    if isinstance(e, str):
        return e
    if not e:
        return "()"
    if e[0] in ("@@", "@"):
        return show(e[2])
    if e[0] == "Exp":
        return show(e[1:])
    h = e[0]
    if h == "Var":
        v = e[1]
        return v[1].strip('"') if isinstance(v, list) else str(v)
    if h == "Const":
        return show(e[1])
    if h in ("Bool", "Int", "Nat"):
        return " ".join(map(str, e[1:]))
    if h == "Binary":
        op = e[1]
        opn = op[1] if isinstance(op, list) and len(op) > 1 else op
        if isinstance(opn, list):
            opn = " ".join(map(str, opn))
        return f"({show(e[2])} <{opn}> {show(e[3])})"
    if h == "BinaryOpr":
        return f"({show(e[2])} <{e[1][0] if isinstance(e[1], list) else e[1]}> {show(e[3])})"
    if h == "Unary":
        op = e[1]
        return f"{op[1] if isinstance(op, list) and len(op) > 1 else op}({show(e[2])})"
    if h == "UnaryOpr":
        op = e[1]
        return f"{' '.join(map(str, flatten(op)))[:80]}({show(e[2])})"
    if h == "Call":
        f = e[1]
        name = "?"
        if isinstance(f, list):
            for x in f:
                if isinstance(x, list) and x and x[0] == "Fun":
                    name = funname(x)
                    break
        args = e[3] if len(e) > 3 else []
        # args list is the last list of lists
        for cand in reversed(e[2:]):
            if isinstance(cand, list) and (not cand or isinstance(cand[0], list)):
                args = cand
                break
        return f"{'::'.join(name.split('::')[-2:])}({', '.join(show(a) for a in args)})"
    if h == "Bind":
        b = e[1]
        return f"[{' '.join(map(str, flatten(b)))[:200]}] {show(e[2])}"
    if h == "If":
        return f"if {show(e[1])} {{ {show(e[2])} }} else {{ {show(e[3])} }}"
    if h == "Ctor":
        return "Ctor " + " ".join(map(str, flatten(e[1:])))[:300]
    if h == "Old":
        return "old(" + " ".join(map(str, flatten(e[1:]))) + ")"
    return "<" + " ".join(map(str, flatten(e)))[:300] + ">"

def flatten(x):
    if isinstance(x, str):
        return [x]
    out = []
    for y in x:
        if isinstance(y, list) and y and y[0] in ("@@", "@"):
            out += flatten(y[2])
        elif isinstance(y, list) and y and y[0] == "Typ":
            continue
        else:
            out += flatten(y)
    return out

def main():
    f, pats = sys.argv[1], sys.argv[2:]
    wd = tempfile.mkdtemp(prefix="vstdspec")
    extra = []
    d = "/verif/build/vdeps/release/deps"
    b = glob.glob(d + "/libbytes-*.rlib"); p = glob.glob(d + "/libpriority_queue-*.rlib")
    if b and p:
        extra = ["--extern", "bytes=" + b[0], "--extern", "priority_queue=" + p[0], "-L", "dependency=" + d]
    subprocess.run(["verus", os.path.abspath(f), "--log-all", "--log-dir", wd + "/log"] + extra, cwd=wd, capture_output=True)
    s = open(wd + "/log/root-sst.vir").read()
    tree = parse(tokenize(s))
    for node in tree:
        if not (isinstance(node, list) and node and node[0] == "@"):
            continue
        fs = node[2]
        if not (isinstance(fs, list) and fs and fs[0] == "FunctionSst"):
            continue
        name = funname(kw(fs, ":name"))
        if not any(p in name for p in pats):
            continue
        print("=====", name, "mode", kw(fs, ":mode"))
        decl = kw(fs, ":decl")
        if decl:
            pars = kw(fs, ":pars") or []
            print("  params:", ", ".join(show(kw(p[2], ":name")) if isinstance(p, list) and len(p) > 2 else "?" for p in pars))
            for r in kw(decl, ":reqs") or []:
                print("  requires", show(r))
            enss = kw(decl, ":enss")
            if enss and enss[0] == "tuple":
                for grp in enss[1:]:
                    for r in grp:
                        print("  ensures ", show(r))
        ax = kw(fs, ":axioms")
        if ax:
            sb = kw(ax, ":spec_axioms")
            if isinstance(sb, list):
                be = kw(sb, ":body_exp")
                if be:
                    print("  body    ", show(be))

main()
