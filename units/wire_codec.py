"""Unit `wire_codec` (C04): the wire encoder under contract.

Decided clauses (DESIGN.md section 6 C04):
 1. flag and enum codecs are bijections (conversion bodies against RFC-table oracles + round-trip lemmas; header pack/unpack)
 2. every compression pointer recorded addresses the offset its name is written at (14-bit representable)
 3. RDLENGTH equals the RDATA written; names are written as their label encoding or a 2-byte pointer from the table
"""
from units.base import *
import re
from units import wire_decode as WD

TRUSTED = TRUSTED_COMMON + [
    "bytes::BytesMut modelled as Seq<u8>; put_u8/put_slice shims (R13); DerefMut index assignment (prelude/bytesmut.rs)",
    "HashMap<DomainName, u16>: vstd HashMap specs + obeys_key_model::<DomainName>() (derived Hash/Eq agree)",
    "Ipv4Addr::octets / Ipv6Addr::octets return the 4 / 16 octets that Ipv4Addr::from(u32) / Ipv6Addr::new(8 x u16) read big-endian (axiom_v4_octets / axiom_v6_octets: std facts, trusted)",
]

EXT = "bytes_extend(*old(buffer), *final(buffer)),"

SPECS = {
    "WritableBuffer::default": {"props": ["C04"], "contract": "    ensures r.bytes() == Seq::<u8>::empty(), r.ptrs() == Map::<DomainName, u16>::empty(), r.table_ok(), r.table_good(),"},
    "WritableBuffer::index": {"props": ["C04"], "contract": "    ensures r == self.bytes().len(),"},
    "WritableBuffer::write_u8": {"props": ["C04"], "rewrites": ["R13a"], "contract": """    ensures final(self).bytes() == old(self).bytes().push(octet), final(self).name_pointers == old(self).name_pointers, old(self).table_good() ==> final(self).table_good(),""",
        "anchors": [{"after": "self.octets.put_u8(octet);", "proof": "proof { if old(self).table_good() { assert(is_prefix(old(self).bytes(), self.bytes())); lemma_codec_table_prefix(*old(self), *self); } }"}]},
    "WritableBuffer::write_u16": {"props": ["C04"], "rewrites": ["R2c"], "contract": """    ensures final(self).bytes() == old(self).bytes() + seq![(value / 256) as u8, (value % 256) as u8], // [C04:u16_big_endian]
        final(self).name_pointers == old(self).name_pointers, old(self).table_good() ==> final(self).table_good(),"""},
    "WritableBuffer::write_u32": {"props": ["C04"], "rewrites": ["R2e"], "contract": """    ensures final(self).bytes() == old(self).bytes() + seq![(value / 16777216) as u8, ((value / 65536) % 256) as u8, ((value / 256) % 256) as u8, (value % 256) as u8], // [C04:u32_big_endian]
        final(self).name_pointers == old(self).name_pointers, old(self).table_good() ==> final(self).table_good(),"""},
    "WritableBuffer::write_octets": {"props": ["C04"], "rewrites": ["R13b"], "contract": """    ensures final(self).bytes() == old(self).bytes() + octets@, final(self).name_pointers == old(self).name_pointers, old(self).table_good() ==> final(self).table_good(),""",
        "anchors": [{"after": "self.octets.put_slice(octets);", "proof": "proof { if old(self).table_good() { assert(is_prefix(old(self).bytes(), self.bytes())); lemma_codec_table_prefix(*old(self), *self); } }"}]},
    "WritableBuffer::memoise_name": {"props": ["C04"], "rewrites": ["R10", "R2c", "R2a"], "contract": """    requires name.wf(), old(self).table_ok(),
    ensures final(self).octets == old(self).octets,
        forall|n: DomainName| #[trigger] final(self).name_pointers@.contains_key(n) ==>
            (old(self).name_pointers@.contains_key(n) && final(self).name_pointers@[n] == old(self).name_pointers@[n]) || n == *name, // [C04:table_frame]
        forall|n: DomainName| #[trigger] old(self).name_pointers@.contains_key(n) ==> final(self).name_pointers@.contains_key(n) && final(self).name_pointers@[n] == old(self).name_pointers@[n], // [C04:table_keeps_entries]
        !old(self).name_pointers@.contains_key(*name) && final(self).name_pointers@.contains_key(*name)
            ==> ptr_ok(final(self).name_pointers@[*name], old(self).bytes().len()), // [C04:pointer_addresses_offset_of_name]
        final(self).name_pointers@.contains_key(*name) ==> !name_is_root(*name), // [C04:root_never_memoised]""",
        "entry": "broadcast use vstd::std_specs::hash::group_hash_axioms, axiom_dn_key_model, lemma_ptr_14bit;"},
    "WritableBuffer::name_pointer": {"props": ["C04"], "contract": """    ensures r is Some <==> self.name_pointers@.contains_key(*name),
        r is Some ==> r->Some_0 == self.name_pointers@[*name], // [C04:pointer_lookup]""",
        "entry": "broadcast use vstd::std_specs::hash::group_hash_axioms, axiom_dn_key_model;"},
    "usize_to_u16": {"props": ["C04"], "contract": """    ensures r is Ok <==> counter <= 0xffff, r is Ok ==> r->Ok_0 == counter,"""},
    "DomainName::serialise": {"props": ["C04"], "contract": """    requires self.wf(), old(buffer).table_good(),
    ensures """ + EXT + """
        final(buffer).table_good(), // [C04:pointer_table_addresses_names_written_earlier]
        name_at(final(buffer).bytes(), old(buffer).bytes().len() as int) == Some((vals(self.labels@), final(buffer).bytes().len() as int)), // [C04:written_name_reads_back_as_the_same_name]
        forall|n: DomainName| #[trigger] final(buffer).name_pointers@.contains_key(n) ==> old(buffer).name_pointers@.contains_key(n) || ptr_off(final(buffer).name_pointers@[n]) >= old(buffer).bytes().len(), // [C04:pointers_address_earlier_offsets]
        compress && old(buffer).name_pointers@.contains_key(*self) ==>
            final(buffer).bytes() == old(buffer).bytes() + seq![(old(buffer).name_pointers@[*self] / 256) as u8, (old(buffer).name_pointers@[*self] % 256) as u8]
            && final(buffer).name_pointers == old(buffer).name_pointers, // [C04:compressed_name_is_table_pointer]
        !(compress && old(buffer).name_pointers@.contains_key(*self)) ==>
            final(buffer).bytes() == old(buffer).bytes() + enc_labels(self.labels@), // [C04:plain_name_is_label_encoding]
        final(buffer).bytes().len() == old(buffer).bytes().len() + name_wire_len(*old(buffer), *self, compress), // [C04:name_wire_length]
        forall|n: DomainName| #[trigger] old(buffer).name_pointers@.contains_key(n) ==> final(buffer).name_pointers@.contains_key(n) && final(buffer).name_pointers@[n] == old(buffer).name_pointers@[n],""",
        "entry": "broadcast use vstd::std_specs::hash::group_hash_axioms, axiom_dn_key_model, lemma_enc_labels_push, lemma_enc_labels_len, lemma_take_full;",
        "loops": {"0": {"kw": "for", "iter_name": "it__", "spec": """            invariant
                self.wf(), buffer.name_pointers == mid_ptrs__@, old(buffer).table_good(),
                buffer.bytes() == old(buffer).bytes() + enc_labels(self.labels@.take(it__.index@ as int)),""",
            "entry": "broadcast use lemma_enc_labels_push; assert(self.labels@.take(it__.index@ as int + 1) =~= self.labels@.take(it__.index@ as int).push(*label)); assert(label.wf());"}},
        "anchors": [{"after": "buffer.memoise_name(self);", "proof": "let ghost mid_ptrs__ = Ghost(buffer.name_pointers); proof { assert(self.labels@.take(0) =~= Seq::<Label>::empty()); }"},
                    {"after_re": r"buffer\.write_u16\([^;]*\);", "proof": """proof {
    let b0 = old(buffer).bytes(); let b1 = buffer.bytes(); let pos = b0.len() as int;
    assert(is_prefix(b0, b1));
    lemma_codec_table_prefix(*old(buffer), *buffer);
    assert(enc_at(b0, ptr_off(ptr), *self)) by { lemma_codec_table_entry(*old(buffer), *self); }
    lemma_enc_at_prefix(b0, b1, ptr_off(ptr), *self);
    assert(ptr_tagged(ptr)) by { lemma_codec_table_entry(*old(buffer), *self); }
    lemma_decode_pointer(b1, pos, ptr, *self);
    lemma_vsum_vals(self.labels@);
}"""},
                    {"after": "buffer.write_octets(label.octets());\n        }", "proof": """proof {
    let b0 = old(buffer).bytes(); let b1 = buffer.bytes(); let pos = b0.len() as int;
    assert(self.labels@.take(self.labels@.len() as int) =~= self.labels@);
    lemma_enc_labels_len(self.labels@);
    assert(b1.subrange(pos, pos + labels_sum(self.labels@)) =~= enc_labels(self.labels@));
    lemma_decode_plain(b1, pos, pos, self.labels@);
    lemma_vsum_vals(self.labels@);
    assert(is_prefix(b0, b1));
    lemma_codec_table_extend(*old(buffer), *buffer, *self);
}"""},
                    {"after": "buffer.write_octets(label.octets());", "proof": "assert(buffer.bytes() =~= old(buffer).bytes() + enc_labels(self.labels@.take(it__.index@ as int + 1)));"},
                    ]},
    "Header::serialise": {"props": ["C04"], "contract": """    ensures final(buffer).bytes() == old(buffer).bytes() + seq![(self.id / 256) as u8, (self.id % 256) as u8, header_flags1(*self), header_flags2(*self)], // [C04:header_layout]
        final(buffer).name_pointers == old(buffer).name_pointers, old(buffer).table_good() ==> final(buffer).table_good(),""",
        "entry": "broadcast use lemma_flags_or;"},
    "Question::serialise": {"props": ["C04"], "contract": """    requires self.name.wf(), old(buffer).table_good(),
    ensures """ + EXT + """ final(buffer).table_good(),
        final(buffer).bytes().len() == old(buffer).bytes().len() + name_wire_len(*old(buffer), self.name, true) + 4,
        question_at(final(buffer).bytes(), old(buffer).bytes().len() as int) == Some(final(buffer).bytes().len() as int), // [C04:written_question_reads_back_as_the_same_question]
        // (type and class in their canonical form: Unknown(x) only for codes without a name of their own)
        qtype_wf(self.qtype) && qclass_wf(self.qclass) ==> question_is(*self, final(buffer).bytes(), old(buffer).bytes().len() as int), // [C04:written_question_reads_back_as_the_same_question]""",
        "anchors": [{"after": "self.name.serialise(buffer, true);", "proof": "let ghost w1__ = *buffer;"},
                    {"after": "self.qclass.serialise(buffer);", "proof": """proof {
    let p0 = old(buffer).bytes().len() as int;
    assert(is_prefix(w1__.bytes(), buffer.bytes()));
    lemma_name_at_prefix(w1__.bytes(), buffer.bytes(), p0);
    lemma_qtype_bijection(spec_qtype_to(self.qtype), self.qtype);
    lemma_qclass_bijection(spec_qclass_to(self.qclass), self.qclass);
    broadcast use lemma_be16_div_mod;
    let e = w1__.bytes().len() as int;
    assert(buffer.bytes()[e] == (spec_qtype_to(self.qtype) / 256) as u8 && buffer.bytes()[e + 1] == (spec_qtype_to(self.qtype) % 256) as u8);
    assert(buffer.bytes()[e + 2] == (spec_qclass_to(self.qclass) / 256) as u8 && buffer.bytes()[e + 3] == (spec_qclass_to(self.qclass) % 256) as u8);
}"""}]},
    "ResourceRecord::serialise": {"props": ["C04"], "rewrites": ["R10", "R2c"], "contract": """    requires self.name.wf(), rr_names_wf(self.rtype_with_data), old(buffer).table_good(),
    ensures """ + EXT + """ final(buffer).table_good(),
        r is Ok ==> ({
            let ri = (old(buffer).bytes().len() + name_wire_len(*old(buffer), self.name, true) + 8) as int;
            ri + 2 <= final(buffer).bytes().len()
            && be16(final(buffer).bytes()[ri], final(buffer).bytes()[ri + 1]) == final(buffer).bytes().len() - ri - 2 }), // [C04:rdlength_equals_rdata_written]
        r is Err ==> final(buffer).bytes().len() - (old(buffer).bytes().len() + name_wire_len(*old(buffer), self.name, true) + 10) > 0xffff, // [C04:error_only_if_rdata_too_long]
        // the record's owner, TYPE, CLASS, TTL read back as written and RDLENGTH leads to the end of the record (type and class canonical)
        r is Ok && rtype_wf(spec_rtype_of(self.rtype_with_data)) && rclass_wf(self.rclass) ==>
            rr_prefix_at(final(buffer).bytes(), old(buffer).bytes().len() as int) is Some
            && rr_header_is(*self, final(buffer).bytes(), old(buffer).bytes().len() as int)
            && rr_end(final(buffer).bytes(), old(buffer).bytes().len() as int) == final(buffer).bytes().len(), // [C04:written_record_header_reads_back_and_rdlength_spans_the_rdata]
        // ... and so does its RDATA: the whole record is well-formed for an independent decoder and reads back as the same record
        r is Ok && rtype_wf(spec_rtype_of(self.rtype_with_data)) && rclass_wf(self.rclass) ==>
            rr_at(final(buffer).bytes(), old(buffer).bytes().len() as int) == Some(final(buffer).bytes().len() as int)
            && rr_rdata_is(*self, final(buffer).bytes(), old(buffer).bytes().len() as int), // [C04:written_record_reads_back_as_the_same_record]""",
        "attrs": "#[verifier::rlimit(2000)] #[verifier::spinoff_prover] // 20 match arms",
        "entry": "broadcast use lemma_be16_div_mod;",
        "anchors": [{"after": "self.name.serialise(buffer, true);", "proof": "let ghost w1__ = *buffer;"},
                    {"after": "let rdlength_index = buffer.index();", "at": "before", "proof": "let ghost w_mid__ = *buffer;"},
                    {"after_re": r"buffer\.write_u16\(0\);", "proof": "let ghost w_rs__ = *buffer;"},
                    {"after": "let rdlength = usize_to_u16(", "at": "before", "proof": """let ghost w_pre__ = *buffer;
assert(buffer.bytes() =~= w_rs__.bytes() + rdata_enc(self.rtype_with_data)); // [C04:rdata_is_written_in_the_layout_of_its_type]
assert(forall|n: DomainName| #[trigger] buffer.name_pointers@.contains_key(n) ==>
    (w_mid__.name_pointers@.contains_key(n) && buffer.name_pointers@[n] == w_mid__.name_pointers@[n]) || ptr_off(buffer.name_pointers@[n]) >= w_mid__.bytes().len() + 2);"""},
                    {"after": "buffer.octets[rdlength_index + 1] = lo;", "proof": """proof {
    lemma_codec_table_patch(w_mid__, w_pre__, *buffer);
    let p0 = old(buffer).bytes().len() as int; let e = w1__.bytes().len() as int;
    assert(is_prefix(w1__.bytes(), buffer.bytes()));
    lemma_name_at_prefix(w1__.bytes(), buffer.bytes(), p0);
    lemma_rtype_bijection(spec_rtype_to(spec_rtype_of(self.rtype_with_data)), spec_rtype_of(self.rtype_with_data));
    lemma_rclass_bijection(spec_rclass_to(self.rclass), self.rclass);
    lemma_be32_div_mod(self.ttl);
    assert(is_prefix(w_mid__.bytes(), buffer.bytes()));
    assert(buffer.bytes()[e] == w_mid__.bytes()[e] && buffer.bytes()[e + 1] == w_mid__.bytes()[e + 1] && buffer.bytes()[e + 2] == w_mid__.bytes()[e + 2] && buffer.bytes()[e + 3] == w_mid__.bytes()[e + 3]);
    assert(buffer.bytes()[e + 4] == w_mid__.bytes()[e + 4] && buffer.bytes()[e + 5] == w_mid__.bytes()[e + 5] && buffer.bytes()[e + 6] == w_mid__.bytes()[e + 6] && buffer.bytes()[e + 7] == w_mid__.bytes()[e + 7]);
    if rtype_wf(spec_rtype_of(self.rtype_with_data)) && rclass_wf(self.rclass) {
        let rs = w_rs__.bytes().len() as int; let l = rdata_enc(self.rtype_with_data).len() as int;
        assert(rs == e + 10 && buffer.bytes().len() == rs + l);
        assert(buffer.bytes().subrange(rs, rs + l) =~= rdata_enc(self.rtype_with_data));
        lemma_rdata_reads_back(buffer.bytes(), rs, self.rtype_with_data);
        reveal(rr_at);
    }
}"""}]},
}
for t in ("QueryType", "QueryClass", "RecordType", "RecordClass"):
    f = {"QueryType": "spec_qtype_to", "QueryClass": "spec_qclass_to", "RecordType": "spec_rtype_to", "RecordClass": "spec_rclass_to"}[t]
    SPECS[f"{t}::serialise"] = {"props": ["C04"], "contract": f"""    ensures final(buffer).bytes() == old(buffer).bytes() + seq![({f}(self) / 256) as u8, ({f}(self) % 256) as u8], // [C04:code_written_big_endian]
        final(buffer).name_pointers == old(buffer).name_pointers, old(buffer).table_good() ==> final(buffer).table_good(),"""}
SPECS["Message::serialise"] = {"props": ["C04"], "contract": """    requires msg_names_wf(*self), old(buffer).table_good(), old(buffer).bytes().len() == 0,
    ensures final(buffer).table_good(),
        r is Ok ==> final(buffer).bytes().len() >= 12, // [C04:at_least_header]
        r is Ok ==> header_written(final(buffer).bytes(), self.header), // [C04:header_layout]
        r is Ok ==> counts_written(final(buffer).bytes(), *self), // [C04:counts_are_section_lengths]
        self.questions@.len() <= 0xffff && self.answers@.len() == 0 && self.authority@.len() == 0 && self.additional@.len() == 0 ==> r is Ok, // [C04:a_message_without_records_always_serialises]
        // every question and every record of every section reads back, at its place, as the one that was written (type and class codes canonical)
        r is Ok && msg_canonical(*self) ==> msg_end(final(buffer).bytes()) == Some(final(buffer).bytes().len() as int), // [C04:a_written_message_is_accepted_as_a_whole_by_the_independent_decoder]
        r is Ok && msg_canonical(*self) ==> msg_is(*self, final(buffer).bytes()), // [C04:a_written_message_reads_back_as_the_same_message_section_by_section]
""",
    "entry": "let ghost mut a0__: int = 0; let ghost mut n0__: int = 0; let ghost mut x0__: int = 0;",
}
# loop contracts and proof anchors per SECTION; build() attaches them to the loops in the order the source has them, so that
# reordered loops fail an invariant instead of losing an anchor
_BASE = "msg_names_wf(*self), buffer.table_good(), buffer.bytes().len() >= 12, is_prefix(hdr12__@, buffer.bytes()), hdr12__@.len() == 12, header_written(hdr12__@, self.header), counts_written(hdr12__@, *self),"
_ITER = lambda sec: f"it__.seq().len() == self.{sec}@.len(), forall|j: int| 0 <= j < it__.seq().len() ==> *it__.seq()[j] == self.{sec}@[j],"
MSG_LOOPS = {
    "questions": {"kw": "for", "iter_name": "it__", "spec": "            invariant " + _BASE + "\n                " + _ITER("questions") + """
                msg_canonical(*self) ==> qs_written(self.questions@, it__.index@ as int, buffer.bytes()) && q_off(buffer.bytes(), it__.index@ as nat) == buffer.bytes().len(), // [C04:a_written_message_reads_back_as_the_same_message_section_by_section]""",
        "entry": "let ghost idx__ = it__.index@ as int; let ghost b1__ = buffer.bytes(); proof { assert(*question == self.questions@[idx__]); }"},
    "answers": {"kw": "for", "iter_name": "it__", "spec": "            invariant " + _BASE + "\n                " + _ITER("answers") + """
                msg_canonical(*self) ==> qs_written(self.questions@, self.questions@.len() as int, buffer.bytes()) && q_off(buffer.bytes(), self.questions@.len()) == a0__ && rrs_written(self.answers@, it__.index@ as int, buffer.bytes(), a0__) && rr_off(buffer.bytes(), a0__, it__.index@ as nat) == buffer.bytes().len(), // [C04:a_written_message_reads_back_as_the_same_message_section_by_section]""",
        "entry": "let ghost idx__ = it__.index@ as int; let ghost b1__ = buffer.bytes(); proof { assert(*rr == self.answers@[idx__]); }"},
    "authority": {"kw": "for", "iter_name": "it__", "spec": "            invariant " + _BASE + "\n                " + _ITER("authority") + """
                msg_canonical(*self) ==> qs_written(self.questions@, self.questions@.len() as int, buffer.bytes()) && q_off(buffer.bytes(), self.questions@.len()) == a0__ && rrs_written(self.answers@, self.answers@.len() as int, buffer.bytes(), a0__) && rr_off(buffer.bytes(), a0__, self.answers@.len()) == n0__ && rrs_written(self.authority@, it__.index@ as int, buffer.bytes(), n0__) && rr_off(buffer.bytes(), n0__, it__.index@ as nat) == buffer.bytes().len(), // [C04:a_written_message_reads_back_as_the_same_message_section_by_section]""",
        "entry": "let ghost idx__ = it__.index@ as int; let ghost b1__ = buffer.bytes(); proof { assert(*rr == self.authority@[idx__]); }"},
    "additional": {"kw": "for", "iter_name": "it__", "spec": "            invariant " + _BASE + "\n                " + _ITER("additional") + """
                msg_canonical(*self) ==> qs_written(self.questions@, self.questions@.len() as int, buffer.bytes()) && q_off(buffer.bytes(), self.questions@.len()) == a0__ && rrs_written(self.answers@, self.answers@.len() as int, buffer.bytes(), a0__) && rr_off(buffer.bytes(), a0__, self.answers@.len()) == n0__ && rrs_written(self.authority@, self.authority@.len() as int, buffer.bytes(), n0__) && rr_off(buffer.bytes(), n0__, self.authority@.len()) == x0__ && rrs_written(self.additional@, it__.index@ as int, buffer.bytes(), x0__) && rr_off(buffer.bytes(), x0__, it__.index@ as nat) == buffer.bytes().len(), // [C04:a_written_message_reads_back_as_the_same_message_section_by_section]""",
        "entry": "let ghost idx__ = it__.index@ as int; let ghost b1__ = buffer.bytes(); proof { assert(*rr == self.additional@[idx__]); }"},
}
_KEEP_Q = "lemma_qs_written_keep(self.questions@, self.questions@.len() as int, b1__, buffer.bytes());"
_KEEP_A = "lemma_rrs_written_keep(self.answers@, self.answers@.len() as int, b1__, buffer.bytes(), a0__);"
_KEEP_N = "lemma_rrs_written_keep(self.authority@, self.authority@.len() as int, b1__, buffer.bytes(), n0__);"
MSG_START = {"answers": "proof { a0__ = buffer.bytes().len() as int; }", "authority": "proof { n0__ = buffer.bytes().len() as int; }", "additional": "proof { x0__ = buffer.bytes().len() as int; }"}
MSG_STEP = {
    "questions": "proof { if msg_canonical(*self) { lemma_qs_written_extend(self.questions@, idx__, b1__, buffer.bytes()); } }",
    "answers": "proof { if msg_canonical(*self) { " + _KEEP_Q + " lemma_rrs_written_extend(self.answers@, idx__, b1__, buffer.bytes(), a0__); } }",
    "authority": "proof { if msg_canonical(*self) { " + _KEEP_Q + " " + _KEEP_A + " lemma_rrs_written_extend(self.authority@, idx__, b1__, buffer.bytes(), n0__); } }",
    "additional": "proof { if msg_canonical(*self) { " + _KEEP_Q + " " + _KEEP_A + " " + _KEEP_N + " lemma_rrs_written_extend(self.additional@, idx__, b1__, buffer.bytes(), x0__); } }",
}


def _message_serialise_spec(src_text):
    """Attach the per-section loop contracts / anchors to Message::serialise's loops in source order."""
    i = src_text.index("fn serialise(&self, buffer: &mut WritableBuffer) -> Result<(), Error> {")
    body = src_text[i:src_text.index("\nimpl Header", i)]
    found = re.findall(r"for (\w+) in &self\.(questions|answers|authority|additional) \{", body)
    order = [sec for (_, sec) in found]
    var = {sec: v for (v, sec) in found}
    n_loops = len(re.findall(r"\bfor\s+[^{;]*?\bin\b", body))
    if len(order) != n_loops or sorted(order) != sorted(set(order)):
        # a loop this unit does not recognise (renamed variable, other shape): no contract to attach - UNDECIDED, not an alarm
        from gen import GenError
        raise GenError(f"Message::serialise: {n_loops} loops, {len(order)} recognised section loops {order}")
    spec = dict(SPECS["Message::serialise"])
    spec["loops"] = {str(k): dict(MSG_LOOPS[sec], entry=MSG_LOOPS[sec]["entry"].replace("*question ==", "*" + var[sec] + " ==").replace("*rr ==", "*" + var[sec] + " ==")) for k, sec in enumerate(order)}
    anchors = [{"after": "buffer.write_u16(arcount);", "proof": "let ghost hdr12__ = Ghost(buffer.bytes()); proof { broadcast use lemma_be16_div_mod; assert(buffer.bytes().len() == 12); }"}]
    k = 0
    for sec in order:
        if sec == "questions":
            anchors.append({"after_re": r"\b" + var[sec] + r"\.serialise\(buffer\);", "proof": MSG_STEP[sec]})
        else:
            anchors.append({"after_re": r"for \w+ in &self\." + sec + r" \{", "at": "before", "proof": MSG_START[sec]})
            anchors.append({"after_re": r"\.serialise\(buffer\)\?;", "nth": k, "proof": MSG_STEP[sec]})
            k += 1
    anchors.append({"after": "Ok(())", "nth": -1, "at": "before", "proof": """proof {
    if msg_canonical(*self) {
        let b = buffer.bytes();
        let qd = self.questions@.len(); let an = self.answers@.len(); let ns = self.authority@.len(); let ar = self.additional@.len();
        assert forall|j: nat| j < qd implies question_at(b, #[trigger] q_from(b, 12, j)) is Some by { lemma_q_from_12(b, j); let ji = j as int; assert(question_at(b, q_off(b, ji as nat)) is Some); }
        lemma_questions_end_chain(b, 12, qd); lemma_q_from_12(b, qd);
        assert forall|j: nat| j < an implies rr_at(b, #[trigger] rr_off(b, a0__, j)) is Some by { let ji = j as int; assert(rr_at(b, rr_off(b, a0__, ji as nat)) is Some); }
        lemma_rrs_end_chain(b, a0__, an);
        assert forall|j: nat| j < ns implies rr_at(b, #[trigger] rr_off(b, n0__, j)) is Some by { let ji = j as int; assert(rr_at(b, rr_off(b, n0__, ji as nat)) is Some); }
        lemma_rrs_end_chain(b, n0__, ns);
        assert forall|j: nat| j < ar implies rr_at(b, #[trigger] rr_off(b, x0__, j)) is Some by { let ji = j as int; assert(rr_at(b, rr_off(b, x0__, ji as nat)) is Some); }
        lemma_rrs_end_chain(b, x0__, ar);
        assert(b[4] == hdr12__@[4] && b[5] == hdr12__@[5] && b[6] == hdr12__@[6] && b[7] == hdr12__@[7] && b[8] == hdr12__@[8] && b[9] == hdr12__@[9] && b[10] == hdr12__@[10] && b[11] == hdr12__@[11]);
    }
}"""})
    spec["anchors"] = anchors
    return spec


SPECS["Message::to_octets"] = {"props": ["C04"], "contract": """    requires msg_names_wf(*self),
    ensures r is Ok ==> bmv(&r->Ok_0).len() >= 12, // [C04:at_least_header]
        r is Ok ==> header_written(bmv(&r->Ok_0), self.header), // [C04:header_layout]
        r is Ok ==> counts_written(bmv(&r->Ok_0), *self), // [C04:counts_are_section_lengths]
        self.questions@.len() <= 0xffff && self.answers@.len() == 0 && self.authority@.len() == 0 && self.additional@.len() == 0 ==> r is Ok, // [C04:a_message_without_records_always_serialises]
        r is Ok && msg_canonical(*self) ==> msg_end(bmv(&r->Ok_0)) == Some(bmv(&r->Ok_0).len() as int), // [C04:a_written_message_is_accepted_as_a_whole_by_the_independent_decoder]
        r is Ok && msg_canonical(*self) ==> msg_is(*self, bmv(&r->Ok_0)), // [C04:a_written_message_reads_back_as_the_same_message_section_by_section]"""}


def build(G):
    begin(G, preludes=("bytes.rs", "std.rs", "net.rs", "bytesmut.rs"))
    name_types(G, tryfrom=False)
    wire_types(G, conv_props=["C04"])
    T, S = G.src(TYPES), G.src(SER)
    G.item(S, "enum", "Error")
    G.item(S, "struct", "WritableBuffer")
    G.file(os.path.join(PRELUDE, "wire_spec.rs"))
    # the independent decoder's reading of names, questions, records and whole messages (shared with unit wire_decode)
    nd = WD.SPEC_RS[WD.SPEC_RS.index("// ---- C03 stage 2"):WD.SPEC_RS.index("pub open spec fn msg_counts_ok(")]
    G.raw(nd, ("spec", "name spec decoder (shared with wire_decode)"))
    G.file(os.path.join(VERIF, "units", "wire_codec.spec.rs"))
    specs = dict(SPECS)
    specs.update(as_assumed(NAME_SPECS, ["Label::len", "Label::is_empty", "DomainName::is_root"]))
    specs["Label::octets"] = {"mode": "prove", "props": ["C04"], "contract": "    ensures bv(r) == self.v(),"}
    specs["RecordTypeWithData::rtype"] = {"mode": "prove", "props": ["C04"], "contract": "    ensures r == spec_rtype_of(*self), // [C04:rtype_of_data]"}
    G.impl(T, "Label", ["len", "is_empty", "octets"], "Label::", specs)
    G.impl(T, "DomainName", ["is_root"], "DomainName::", specs)
    G.impl(T, "RecordTypeWithData", ["rtype"], "RecordTypeWithData::", specs)
    G.impl(S, "Default for WritableBuffer", ["default"], "WritableBuffer::", specs)
    G.impl(S, "WritableBuffer", ["index", "memoise_name", "name_pointer", "write_u8", "write_u16", "write_u32", "write_octets"], "WritableBuffer::", specs)
    G.top_fn(S, "usize_to_u16", specs)
    G.impl(S, "DomainName", ["serialise"], "DomainName::", specs)
    for t in ("QueryType", "QueryClass", "RecordType", "RecordClass"):
        G.impl(S, t, ["serialise"], t + "::", specs)
    G.impl(S, "Header", ["serialise"], "Header::", specs)
    G.impl(S, "Question", ["serialise"], "Question::", specs)
    G.impl(S, "ResourceRecord", ["serialise"], "ResourceRecord::", specs)
    specs["Message::serialise"] = _message_serialise_spec(S.s)
    G.impl(S, "Message", ["to_octets", "serialise"], "Message::", specs)
    end(G)


CANARIES = [
    {"name": "authority_and_additional_sections_written_in_the_wrong_order", "file": SER, "old": "        for rr in &self.authority {\n            rr.serialise(buffer)?;\n        }\n        for rr in &self.additional {\n            rr.serialise(buffer)?;\n        }", "new": "        for rr in &self.additional {\n            rr.serialise(buffer)?;\n        }\n        for rr in &self.authority {\n            rr.serialise(buffer)?;\n        }"},
    {"name": "first_answer_written_twice", "file": SER, "old": "        for rr in &self.answers {\n            rr.serialise(buffer)?;\n        }", "new": "        for rr in &self.answers {\n            self.answers[0].serialise(buffer)?;\n        }"},
    {"name": "questions_written_after_the_answers", "file": SER, "old": "        for question in &self.questions {\n            question.serialise(buffer);\n        }\n        for rr in &self.answers {\n            rr.serialise(buffer)?;\n        }", "new": "        for rr in &self.answers {\n            rr.serialise(buffer)?;\n        }\n        for question in &self.questions {\n            question.serialise(buffer);\n        }"},
    {"name": "pointer_written_without_its_tag_bits", "file": SER, "old": "                buffer.write_u16(ptr);\n                return;", "new": "                buffer.write_u16(ptr & 0b0011_1111_1111_1111);\n                return;"},
    {"name": "name_memoised_after_it_is_written", "file": SER, "old": "        buffer.memoise_name(self);\n        for label in &self.labels {\n            buffer.write_u8(label.len());\n            buffer.write_octets(label.octets());\n        }", "new": "        for label in &self.labels {\n            buffer.write_u8(label.len());\n            buffer.write_octets(label.octets());\n        }\n        buffer.memoise_name(self);"},
    {"name": "question_class_written_before_type", "file": SER, "old": "        self.qtype.serialise(buffer);\n        self.qclass.serialise(buffer);", "new": "        self.qclass.serialise(buffer);\n        self.qtype.serialise(buffer);"},
    {"name": "record_ttl_written_as_u16", "file": SER, "old": "        buffer.write_u32(self.ttl);", "new": "        buffer.write_u16(self.ttl as u16);\n        buffer.write_u16(0);"},
    {"name": "ptr_mask_wrong", "file": SER, "old": "hi | 0b1100_0000", "new": "hi | 0b1000_0000"},
    {"name": "rdlength_off_by_two", "file": SER, "old": "usize_to_u16(buffer.index() - rdlength_index - 2)?", "new": "usize_to_u16(buffer.index() - rdlength_index)?"},
    {"name": "opcode_shift", "file": SER, "old": "(u8::from(self.opcode) << HEADER_OFFSET_OPCODE)", "new": "(u8::from(self.opcode) << 2)"},
    {"name": "rtype_code_swap", "file": TYPES, "old": "RecordType::MX => 15,", "new": "RecordType::MX => 16,"},
    {"name": "memoise_root", "file": SER, "old": "if !name.is_root() && !self.name_pointers.contains_key(name) {", "new": "if !self.name_pointers.contains_key(name) {"},
    {"name": "label_len_missing", "file": SER, "old": "            buffer.write_u8(label.len());\n", "new": ""},
]
