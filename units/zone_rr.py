"""Unit `zone_rr` (C11, C17 - each in part): the inside of one zone-file entry, as far as it is control logic: `parse_rr` (which of
the ten shapes of a record line the tokens have), `to_rr`, `parse_domain_or_wildcard`, `parse_domain`, `parse_u32`, `parse_origin`,
`parse_include` (zones/deserialise.rs).

Proved against a reading of RFC 1035 section 5.1: a record line is `[owner] [ttl] [class] type rdata` with TTL and class in either
order; an omitted owner or TTL is the previous record's; the class must be IN; `@` is the origin, a name ending in a dot is
absolute, any other name is relative to the origin and needs one; `*` or `*.name` as owner makes a wildcard record; a SOA record's
TTL is its MINIMUM field.  `try_parse_rtype_with_data`: the type mnemonic followed by the RDATA fields of that type (names, decimal numbers, addresses, or the
octets of one token for uninterpreted data).  The text-level leaves are oracles: `RecordType::from_str`, `u32 / u16::from_str`,
`Ipv4Addr / Ipv6Addr::from_str`, `DomainName::from_dotted_string` / `from_relative_dotted_string`, string comparisons with literals."""
from units.base import *
import re

ZDESER = "crates/dns-types/src/zones/deserialise.rs"

TRUSTED = TRUSTED_COMMON + [
    "oracles: RecordType::from_str as `rtype_of_text`, u16::from_str as `num16_of`, Ipv4Addr / Ipv6Addr::from_str as `v4_of_text` / `v6_of_text`, u32::from_str as `num_of(text)`, DomainName::from_dotted_string as `abs_name(text)`, DomainName::from_relative_dotted_string as `rel_name(origin, text)` (well-formedness of the names they build: unit names)",
    "string shims (R33): `s == \"lit\"` as equality of the character sequences (string literals revealed with reveal_strlit), `s.chars().all(|c| c.is_ascii_digit())` as all_digits, `s.chars().collect::<Vec<char>>()` as the characters of s, `v[2..].iter().collect::<String>()` as the characters from index 2 on, `v.iter().all(char::is_ascii)`, `to_string()` without postcondition",
    "axiom_bytes_ext: a Bytes value is determined by its octets (so a clone is the same value)",
    "R48: `&tokens[k..]` as a shim that REQUIRES k <= tokens.len() and returns the tokens from k on",
]

STANDINS = """
pub open spec fn ascii(c: char) -> bool { (c as u32) <= 127 }
pub open spec fn all_ascii(s: Seq<char>) -> bool { forall|i: int| 0 <= i < s.len() ==> ascii(#[trigger] s[i]) }
pub open spec fn all_digits(s: Seq<char>) -> bool { forall|i: int| 0 <= i < s.len() ==> '0' <= #[trigger] s[i] && s[i] <= '9' }
pub open spec fn texts(v: Seq<(String, Bytes)>) -> Seq<Seq<char>> { Seq::new(v.len(), |i: int| v[i].0@) }
// oracles
pub uninterp spec fn num_of(s: Seq<char>) -> Option<u32>;
pub uninterp spec fn abs_name(s: Seq<char>) -> Option<DomainName>;
pub uninterp spec fn rel_name(origin: DomainName, s: Seq<char>) -> Option<DomainName>;
pub open spec fn opt_dn(o: Option<&DomainName>) -> Option<DomainName> { match o { Some(n) => Some(*n), None => None } }
// a Bytes value is its octets (a clone is the same value)
pub broadcast axiom fn axiom_bytes_ext(a: Bytes, b: Bytes) requires #[trigger] bv(&a) == #[trigger] bv(&b) ensures a == b;
pub uninterp spec fn num16_of(s: Seq<char>) -> Option<u16>;
pub uninterp spec fn rtype_of_text(s: Seq<char>) -> Option<RecordType>;
pub uninterp spec fn v4_of_text(s: Seq<char>) -> Option<Ipv4Addr>;
pub uninterp spec fn v6_of_text(s: Seq<char>) -> Option<Ipv6Addr>;
#[derive(Debug)]
pub struct ParseIntError { e: u8 }
#[verifier::external_body]
fn shim_u16_from_str(s: &str) -> (r: Result<u16, ParseIntError>) ensures r is Ok <==> num16_of(s@) is Some, r is Ok ==> r->Ok_0 == num16_of(s@)->Some_0 { unimplemented!() }
#[verifier::external_body]
fn shim_rtype_from_str(s: &str) -> (r: Result<RecordType, ParseIntError>) ensures r is Ok <==> rtype_of_text(s@) is Some, r is Ok ==> r->Ok_0 == rtype_of_text(s@)->Some_0 { unimplemented!() }
#[verifier::external_body]
fn shim_v4_from_str(s: &str) -> (r: Result<Ipv4Addr, ParseIntError>) ensures r is Ok <==> v4_of_text(s@) is Some, r is Ok ==> r->Ok_0 == v4_of_text(s@)->Some_0 { unimplemented!() }
#[verifier::external_body]
fn shim_v6_from_str(s: &str) -> (r: Result<Ipv6Addr, ParseIntError>) ensures r is Ok <==> v6_of_text(s@) is Some, r is Ok ==> r->Ok_0 == v6_of_text(s@)->Some_0 { unimplemented!() }
#[verifier::external_body]
fn shim_u32_from_str(s: &str) -> (r: Result<u32, ParseIntError>) ensures r is Ok <==> num_of(s@) is Some, r is Ok ==> r->Ok_0 == num_of(s@)->Some_0 { unimplemented!() }
// R33 string shims
#[verifier::external_body]
fn shim_str_is(a: &str, b: &str) -> (r: bool) ensures r == (a@ == b@) { a == b }
#[verifier::external_body]
fn shim_string_is(a: &str, b: &str) -> (r: bool) ensures r == (a@ == b@) { a == b }
#[verifier::external_body]
fn shim_all_digits(a: &str) -> (r: bool) ensures r == all_digits(a@) { a.chars().all(|c| c.is_ascii_digit()) }
#[verifier::external_body]
fn shim_chars_vec(a: &str) -> (r: Vec<char>) ensures r@ == a@ { a.chars().collect() }
#[verifier::external_body]
fn shim_all_ascii(v: &Vec<char>) -> (r: bool) ensures r == all_ascii(v@) { v.iter().all(char::is_ascii) }
#[verifier::external_body]
fn shim_string_from(v: &Vec<char>, k: usize) -> (r: String) requires k <= v@.len(), ensures r@ == v@.skip(k as int) { v[k..].iter().collect() }
#[verifier::external_body]
fn shim_to_string(a: &str) -> (r: String) { a.to_string() }
#[verifier::external_body]
fn shim_string_clone(a: &str) -> (r: String) ensures r@ == a@ { a.to_string() }
// R48
#[verifier::external_body]
fn shim_tail<'a>(v: &'a Vec<(String, Bytes)>, k: usize) -> (r: &'a [(String, Bytes)])
    requires k <= v@.len(), // [C17:token_slices_stay_within_the_token_list]
    ensures r@ == v@.skip(k as int),
{ &v[k..] }
"""

SPEC_RS = """
// ---- what a name token denotes (RFC 1035 5.1: `@` denotes the current origin; domain names that end in a dot are absolute, those
// that do not are relative and the origin is appended)
enum NameDen { Name(DomainName), NeedsOrigin, Bad }
spec fn name_den(origin: Option<DomainName>, s: Seq<char>) -> NameDen {
    if s.len() == 0 || !all_ascii(s) { NameDen::Bad }
    else if s == seq!['@'] { match origin { Some(o) => NameDen::Name(o), None => NameDen::NeedsOrigin } }
    else if s.last() == '.' { match abs_name(s) { Some(n) => NameDen::Name(n), None => NameDen::Bad } }
    else { match origin { Some(o) => match rel_name(o, s) { Some(n) => NameDen::Name(n), None => NameDen::Bad }, None => NameDen::NeedsOrigin } }
}
// ... and an owner token: `*` alone or as the first label makes the record a wildcard record of the rest of the name
enum OwnerDen { Owner(MaybeWildcard), NeedsOrigin, Bad }
spec fn lift(d: NameDen, wild: bool) -> OwnerDen {
    match d { NameDen::Name(n) => OwnerDen::Owner(if wild { MaybeWildcard::Wildcard { name: n } } else { MaybeWildcard::Normal { name: n } }), NameDen::NeedsOrigin => OwnerDen::NeedsOrigin, NameDen::Bad => OwnerDen::Bad }
}
pub uninterp spec fn root_dn() -> DomainName;   // DomainName::root_domain()
spec fn owner_den(origin: Option<DomainName>, s: Seq<char>) -> OwnerDen {
    if s.len() == 0 { OwnerDen::Bad }
    else if s == seq!['*'] { match origin { Some(o) => OwnerDen::Owner(MaybeWildcard::Wildcard { name: o }), None => OwnerDen::NeedsOrigin } }
    else if s.len() >= 2 && s[0] == '*' && s[1] == '.' {
        if s.len() == 2 { OwnerDen::Owner(MaybeWildcard::Wildcard { name: root_dn() }) } else { lift(name_den(origin, s.skip(2)), true) }
    }
    else { lift(name_den(origin, s), false) }
}
// ---- the type and RDATA of a record (RFC 1035 3.3 / 5.1, RFC 3596, RFC 2782): the type mnemonic, then the RDATA fields of that type
// as tokens: names as name tokens, numbers in decimal, addresses in their text form, uninterpreted data as the octets of one token
spec fn nm(origin: Option<DomainName>, s: Seq<char>) -> Option<DomainName> { match name_den(origin, s) { NameDen::Name(n) => Some(n), _ => None } }
#[verifier::opaque]
spec fn rdata_of(origin: Option<DomainName>, toks: Seq<(String, Bytes)>) -> Option<RecordTypeWithData> {
    if toks.len() == 0 { None } else {
        let n = toks.len();
        let t = |i: int| toks[i].0@;
        match rtype_of_text(t(0)) {
            Some(RecordType::A) => if n == 2 && v4_of_text(t(1)) is Some { Some(RecordTypeWithData::A { address: v4_of_text(t(1))->Some_0 }) } else { None },
            Some(RecordType::AAAA) => if n == 2 && v6_of_text(t(1)) is Some { Some(RecordTypeWithData::AAAA { address: v6_of_text(t(1))->Some_0 }) } else { None },
            Some(RecordType::NS) => if n == 2 && nm(origin, t(1)) is Some { Some(RecordTypeWithData::NS { nsdname: nm(origin, t(1))->Some_0 }) } else { None },
            Some(RecordType::MD) => if n == 2 && nm(origin, t(1)) is Some { Some(RecordTypeWithData::MD { madname: nm(origin, t(1))->Some_0 }) } else { None },
            Some(RecordType::MF) => if n == 2 && nm(origin, t(1)) is Some { Some(RecordTypeWithData::MF { madname: nm(origin, t(1))->Some_0 }) } else { None },
            Some(RecordType::CNAME) => if n == 2 && nm(origin, t(1)) is Some { Some(RecordTypeWithData::CNAME { cname: nm(origin, t(1))->Some_0 }) } else { None },
            Some(RecordType::MB) => if n == 2 && nm(origin, t(1)) is Some { Some(RecordTypeWithData::MB { madname: nm(origin, t(1))->Some_0 }) } else { None },
            Some(RecordType::MG) => if n == 2 && nm(origin, t(1)) is Some { Some(RecordTypeWithData::MG { mdmname: nm(origin, t(1))->Some_0 }) } else { None },
            Some(RecordType::MR) => if n == 2 && nm(origin, t(1)) is Some { Some(RecordTypeWithData::MR { newname: nm(origin, t(1))->Some_0 }) } else { None },
            Some(RecordType::PTR) => if n == 2 && nm(origin, t(1)) is Some { Some(RecordTypeWithData::PTR { ptrdname: nm(origin, t(1))->Some_0 }) } else { None },
            Some(RecordType::NULL) => if n == 2 { Some(RecordTypeWithData::NULL { octets: toks[1].1 }) } else { None },
            Some(RecordType::WKS) => if n == 2 { Some(RecordTypeWithData::WKS { octets: toks[1].1 }) } else { None },
            Some(RecordType::HINFO) => if n == 2 { Some(RecordTypeWithData::HINFO { octets: toks[1].1 }) } else { None },
            Some(RecordType::TXT) => if n == 2 { Some(RecordTypeWithData::TXT { octets: toks[1].1 }) } else { None },
            Some(RecordType::MINFO) => if n == 3 && nm(origin, t(1)) is Some && nm(origin, t(2)) is Some { Some(RecordTypeWithData::MINFO { rmailbx: nm(origin, t(1))->Some_0, emailbx: nm(origin, t(2))->Some_0 }) } else { None },
            Some(RecordType::MX) => if n == 3 && num16_of(t(1)) is Some && nm(origin, t(2)) is Some { Some(RecordTypeWithData::MX { preference: num16_of(t(1))->Some_0, exchange: nm(origin, t(2))->Some_0 }) } else { None },
            Some(RecordType::SRV) => if n == 5 && num16_of(t(1)) is Some && num16_of(t(2)) is Some && num16_of(t(3)) is Some && nm(origin, t(4)) is Some {
                Some(RecordTypeWithData::SRV { priority: num16_of(t(1))->Some_0, weight: num16_of(t(2))->Some_0, port: num16_of(t(3))->Some_0, target: nm(origin, t(4))->Some_0 }) } else { None },
            Some(RecordType::SOA) => if n == 8 && nm(origin, t(1)) is Some && nm(origin, t(2)) is Some && num_of(t(3)) is Some && num_of(t(4)) is Some && num_of(t(5)) is Some && num_of(t(6)) is Some && num_of(t(7)) is Some {
                Some(RecordTypeWithData::SOA { mname: nm(origin, t(1))->Some_0, rname: nm(origin, t(2))->Some_0, serial: num_of(t(3))->Some_0, refresh: num_of(t(4))->Some_0,
                    retry: num_of(t(5))->Some_0, expire: num_of(t(6))->Some_0, minimum: num_of(t(7))->Some_0 }) } else { None },
            _ => None,
        }
    }
}
// ---- a record line: `[owner] [ttl] [class] type rdata`, TTL and class in either order, class IN; the type and RDATA are the
// longest tail of at most ... tokens that is one (the three optional fields come first, so at most three tokens precede it)
spec fn in_class(s: Seq<char>) -> bool { s == seq!['I', 'N'] }
enum RrDen { Rr(MaybeWildcard, RecordTypeWithData, u32), Reject, Open }
// the TTL a record gets: its own, else the previous record's; a SOA without either is given its MINIMUM anyway (see to_rr): open
spec fn ttl_or_prev(own: Option<u32>, prev: Option<u32>, d: RecordTypeWithData) -> Option<u32> {
    match own { Some(t) => Some(t), None => match prev { Some(t) => Some(t), None => if d is SOA { Some(0u32) } else { None } } }
}
// the fields before the type, for each of the four possible counts k of tokens before it: (owner, TTL before the SOA rule)
spec fn prev_o(po: Option<MaybeWildcard>) -> OwnerDen { match po { Some(o) => OwnerDen::Owner(o), None => OwnerDen::Bad } }
spec fn fields(origin: Option<DomainName>, po: Option<MaybeWildcard>, pt: Option<u32>, t: Seq<Seq<char>>, k: int, d: RecordTypeWithData) -> (OwnerDen, Option<u32>) {
    if k == 0 { (prev_o(po), ttl_or_prev(None, pt, d)) }
    else if k == 1 {
        if in_class(t[0]) { (prev_o(po), ttl_or_prev(None, pt, d)) }
        else if all_digits(t[0]) { (prev_o(po), num_of(t[0])) }
        else { (owner_den(origin, t[0]), ttl_or_prev(None, pt, d)) }
    } else if k == 2 {
        if in_class(t[1]) { if all_digits(t[0]) { (prev_o(po), num_of(t[0])) } else { (owner_den(origin, t[0]), ttl_or_prev(None, pt, d)) } }
        else if in_class(t[0]) { (prev_o(po), num_of(t[1])) }
        else { (owner_den(origin, t[0]), num_of(t[1])) }
    } else {
        (owner_den(origin, t[0]), if in_class(t[2]) { num_of(t[1]) } else if in_class(t[1]) { num_of(t[2]) } else { None })
    }
}
// how many tokens precede the type: the largest count up to three that leaves a type and RDATA
spec fn first_split(origin: Option<DomainName>, toks: Seq<(String, Bytes)>) -> Option<int> {
    if toks.len() >= 4 && rdata_of(origin, toks.skip(3)) is Some { Some(3int) }
    else if toks.len() >= 3 && rdata_of(origin, toks.skip(2)) is Some { Some(2int) }
    else if toks.len() >= 2 && rdata_of(origin, toks.skip(1)) is Some { Some(1int) }
    else if toks.len() >= 1 && rdata_of(origin, toks.skip(0)) is Some { Some(0int) }
    else { None }
}
// the entry a record line denotes: owner, data, TTL (a SOA's TTL is its MINIMUM); wildcard owners give wildcard records
spec fn entry_of_rr(o: MaybeWildcard, d: RecordTypeWithData, ttl: u32) -> Entry {
    let t = if d is SOA { d->SOA_minimum } else { ttl };
    match o {
        MaybeWildcard::Normal { name } => Entry::RR { rr: ResourceRecord { name, rtype_with_data: d, rclass: RecordClass::IN, ttl: t } },
        MaybeWildcard::Wildcard { name } => Entry::WildcardRR { rr: ResourceRecord { name, rtype_with_data: d, rclass: RecordClass::IN, ttl: t } },
    }
}
"""

SPEC2_RS = """
// what a record line denotes; None: rejected
spec fn rr_den(origin: Option<DomainName>, po: Option<MaybeWildcard>, pt: Option<u32>, toks: Seq<(String, Bytes)>) -> Option<Entry> {
    match first_split(origin, toks) {
        None => None,
        Some(k) => {
            let d = rdata_of(origin, toks.skip(k))->Some_0;
            let f = fields(origin, po, pt, texts(toks), k, d);
            match f { (OwnerDen::Owner(o), Some(ttl)) => Some(entry_of_rr(o, d, ttl)), _ => None }
        }
    }
}
spec fn opt_mw(o: Option<&MaybeWildcard>) -> Option<MaybeWildcard> { match o { Some(n) => Some(*n), None => None } }
"""

TOK_RW = [("R2", r"u32::from_str\(", "shim_u32_from_str("), ("R2", r"u16::from_str\(", "shim_u16_from_str("),
          ("R48", r"&tokens\[(\d)\.\.\]", r"shim_tail(&tokens, \1)"),
          ("R33", r"tokens\[(\d)\]\.0 == \"IN\"", r'shim_string_is(&tokens[\1].0, "IN")'),
          ("R33", r"tokens\[0\]\.0 != \"(\$[A-Z]+)\"", r'!shim_string_is(&tokens[0].0, "\1")'),
          ("R33", r"tokens\[(\d)\]\.0\.chars\(\)\.all\(\|c\| c\.is_ascii_digit\(\)\)", r"shim_all_digits(&tokens[\1].0)"),
          ("R33", r"\"(\$?[A-Z]+)\"\.to_string\(\)", r'shim_to_string("\1")'),
          ("R33", r"tokens\[1\]\.0\.clone\(\)", "shim_string_clone(&tokens[1].0)"),
          ("R33", r"&tokens\[(\d)\]\.0\b(?!\.)", r"tokens[\1].0.as_str()")]

WRITE_RS = """
// ---- the writing side of uninterpreted RDATA (zones/serialise.rs): one quoted string
pub struct Zone { z: u8 }
impl Zone {
    #[verifier::external_body]
    fn serialise_domain(&self, name: &DomainName) -> (r: String) { unimplemented!() }
}
pub assume_specification<'a> [<bytes::Bytes as std::ops::Deref>::deref] (b: &'a bytes::Bytes) -> (r: &'a [u8]) ensures r@ == bv(b);
// serialise_octets: contract proved in unit zone_text
#[verifier::external_body]
fn serialise_octets(octets: &[u8], quoted: bool) -> (out: String) ensures out@ == esc(octets@, quoted) { unimplemented!() }
// R27: format!(..) of addresses, numbers and names: text without postcondition
#[verifier::external_body] fn shim_fmt_v4(a: &Ipv4Addr) -> (r: String) { format!("{a}") }
#[verifier::external_body] fn shim_fmt_v6(a: &Ipv6Addr) -> (r: String) { format!("{a}") }
#[verifier::external_body] fn shim_fmt_any() -> (r: String) { String::new() }
"""

def _fmt(txt):
    """R27: every `format!(...)` in serialise_rdata is text built from Display of addresses, numbers and names: replaced by a shim
    without postcondition (what is written for those is not decided here)."""
    import re
    n = 0
    out, i = [], 0
    while True:
        m = re.search(r"format!\(", txt[i:])
        if not m:
            out.append(txt[i:]); break
        a = i + m.start(); b = i + m.end(); depth = 1
        while depth:
            c = txt[b]
            if c == "(": depth += 1
            elif c == ")": depth -= 1
            b += 1
        seg = txt[a:b]
        out.append(txt[i:a] + "shim_fmt_any()" + "\n" * seg.count("\n"))
        i = b; n += 1
    return "".join(out), n

SPECS = {
    "Zone::serialise_rdata": {"props": ["C13"], "rewrites": [("R27", _fmt)],
        "contract": """    ensures
        rtype_with_data is NULL ==> r@ == esc(bv(&rtype_with_data->NULL_octets), true),
        rtype_with_data is WKS ==> r@ == esc(bv(&rtype_with_data->WKS_octets), true),
        rtype_with_data is HINFO ==> r@ == esc(bv(&rtype_with_data->HINFO_octets), true),
        rtype_with_data is TXT ==> r@ == esc(bv(&rtype_with_data->TXT_octets), true),
        rtype_with_data is Unknown ==> r@ == esc(bv(&rtype_with_data->Unknown_octets), true), // [C13:uninterpreted_rdata_is_written_as_one_quoted_string_of_its_octets]"""},
    "try_parse_rtype_with_data": {"props": ["C11", "C13", "C17"],
        "rewrites": [("R2", r"RecordType::from_str\(", "shim_rtype_from_str("), ("R2", r"Ipv4Addr::from_str\(", "shim_v4_from_str("), ("R2", r"Ipv6Addr::from_str\(", "shim_v6_from_str("),
                     ("R2", r"u32::from_str\(", "shim_u32_from_str("), ("R2", r"u16::from_str\(", "shim_u16_from_str("),
                     ("R33", r"&tokens\[(\d)\]\.0\b(?!\.)", r"tokens[\1].0.as_str()")],
        "contract": """    ensures r == rdata_of(opt_dn(origin), tokens@), // [C11,C13:type_and_rdata_tokens_denote_the_record_data_of_that_type]""",
        "entry": "reveal(rdata_of); broadcast use axiom_bytes_ext, group_eq_axioms;"},
    "parse_rr": {"props": ["C11", "C17"], "rewrites": TOK_RW,
        "contract": """    ensures
        match rr_den(opt_dn(origin), opt_mw(previous_domain), previous_ttl, tokens@) { Some(e) => r is Ok && r->Ok_0 == e, None => r is Err }, // [C11:a_record_line_is_owner_ttl_class_type_rdata_in_either_order_with_omissions_inherited_and_class_in]""",
        "entry": "broadcast use group_eq_axioms; proof { reveal_strlit(\"IN\"); assert(\"IN\"@ == seq!['I', 'N']); assert(tokens@.skip(0) =~= tokens@); } let ghost t__ = texts(tokens@);"},
    "parse_origin": {"props": ["C11", "C17"], "rewrites": TOK_RW,
        "contract": """    ensures
        r is Ok <==> tokens@.len() == 2 && tokens@[0].0@ == "$ORIGIN"@ && name_den(opt_dn(origin), tokens@[1].0@) is Name,
        r is Ok ==> r->Ok_0 == (Entry::Origin { name: name_den(opt_dn(origin), tokens@[1].0@)->Name_0 }), // [C11:an_origin_directive_names_the_new_origin_relative_to_the_current_one]"""},
    "parse_include": {"props": ["C11", "C17"], "rewrites": TOK_RW,
        "contract": """    ensures
        r is Ok ==> r->Ok_0 is Include, // [C11:an_include_directive_is_recognised_as_such]"""},
    "parse_u32": {"props": ["C11"], "rewrites": [("R2", r"u32::from_str\(", "shim_u32_from_str("), ("R33", r"digits\.to_string\(\)", "shim_to_string(digits)")],
        "contract": """    ensures r is Ok <==> num_of(digits@) is Some, r is Ok ==> r->Ok_0 == num_of(digits@)->Some_0,"""},
    "to_rr": {"props": ["C11"],
        "contract": """    ensures r == entry_of_rr(wname, rtype_with_data, ttl), // [C11:a_soa_record_takes_its_minimum_as_ttl_and_a_wildcard_owner_makes_a_wildcard_record]"""},
    "parse_domain": {"props": ["C11", "C17"],
        "rewrites": [("R33", r"dotted_string\.chars\(\)\.collect::<Vec<char>>\(\)", "shim_chars_vec(dotted_string)"),
                     ("R33", r"dotted_string_vec\.iter\(\)\.all\(char::is_ascii\)", "shim_all_ascii(&dotted_string_vec)"),
                     ("R33", r"dotted_string == \"@\"", "shim_str_is(dotted_string, \"@\")"),
                     ("R33", r"dotted_string\.to_string\(\)", "shim_to_string(dotted_string)")],
        "contract": """    ensures
        match name_den(opt_dn(origin), dotted_string@) {
            NameDen::Name(n) => r is Ok && r->Ok_0 == n,
            _ => r is Err,
        }, // [C11:at_sign_absolute_and_origin_relative_names_denote_what_rfc1035_says]""",
        "entry": "proof { reveal_strlit(\"@\"); assert(\"@\"@ == seq!['@']); }"},
    "parse_domain_or_wildcard": {"props": ["C11", "C17"],
        "rewrites": [("R33", r"dotted_string\.chars\(\)\.collect::<Vec<char>>\(\)", "shim_chars_vec(dotted_string)"),
                     ("R33", r"dotted_string == \"\*\"", "shim_str_is(dotted_string, \"*\")"),
                     ("R33", r"&dotted_string_vec\[2\.\.\]\.iter\(\)\.collect::<String>\(\)", "shim_string_from(&dotted_string_vec, 2).as_str()"),
                     ("R33", r"dotted_string\.to_string\(\)", "shim_to_string(dotted_string)")],
        "contract": """    ensures
        match owner_den(opt_dn(origin), dotted_string@) { OwnerDen::Owner(o) => r is Ok && r->Ok_0 == o, _ => r is Err }, // [C11:an_owner_of_star_or_star_dot_name_makes_a_wildcard_record]""",
        "entry": "proof { reveal_strlit(\"*\"); assert(\"*\"@ == seq!['*']); }"},
}

CANARIES = [
    {"name": "txt_rdata_written_unquoted", "file": "crates/dns-types/src/zones/serialise.rs", "old": "            RecordTypeWithData::TXT { octets } => serialise_octets(octets, true),", "new": "            RecordTypeWithData::TXT { octets } => serialise_octets(octets, false),"},
    {"name": "mx_fields_swapped", "file": ZDESER, "old": "                u16::from_str(&tokens[1].0),\n                parse_domain(origin, &tokens[2].0),\n            ) {\n                (Ok(preference), Ok(exchange))", "new": "                u16::from_str(&tokens[2].0),\n                parse_domain(origin, &tokens[1].0),\n            ) {\n                (Ok(preference), Ok(exchange))"},
    {"name": "soa_expire_and_minimum_swapped", "file": ZDESER, "old": "            (Ok(mname), Ok(rname), Ok(serial), Ok(refresh), Ok(retry), Ok(expire), Ok(minimum)) => {", "new": "            (Ok(mname), Ok(rname), Ok(serial), Ok(refresh), Ok(retry), Ok(minimum), Ok(expire)) => {"},
    {"name": "txt_with_extra_tokens_accepted", "file": ZDESER, "old": "        Ok(RecordType::TXT) if tokens.len() == 2 => Some(RecordTypeWithData::TXT {", "new": "        Ok(RecordType::TXT) if tokens.len() >= 2 => Some(RecordTypeWithData::TXT {"},
    {"name": "srv_indexes_a_token_that_is_not_there", "file": ZDESER, "old": "        Ok(RecordType::SRV) if tokens.len() == 5 => match (", "new": "        Ok(RecordType::SRV) if tokens.len() >= 4 => match ("},
    {"name": "hinfo_takes_the_type_token_as_data", "file": ZDESER, "old": "        Ok(RecordType::HINFO) if tokens.len() == 2 => Some(RecordTypeWithData::HINFO {\n            octets: tokens[1].1.clone(),", "new": "        Ok(RecordType::HINFO) if tokens.len() == 2 => Some(RecordTypeWithData::HINFO {\n            octets: tokens[0].1.clone(),"},
    {"name": "ttl_taken_from_the_class_position", "file": ZDESER, "old": "            let ttl = if tokens[2].0 == \"IN\" {\n                parse_u32(&tokens[1].0)?", "new": "            let ttl = if tokens[2].0 == \"IN\" {\n                parse_u32(&tokens[2].0)?"},
    {"name": "class_other_than_in_accepted", "file": ZDESER, "old": "            } else {\n                return Err(Error::Unexpected {\n                    expected: \"IN\".to_string(),\n                    tokens,\n                });\n            };", "new": "            } else {\n                parse_u32(&tokens[1].0)?\n            };"},
    {"name": "missing_ttl_defaults_to_zero", "file": ZDESER, "old": "                    } else if rtype_with_data.rtype() == RecordType::SOA {\n                        Ok(to_rr(wname, rtype_with_data, 0))\n                    } else {\n                        Err(Error::MissingTTL { tokens })\n                    }\n                }\n            } else if tokens[0].0 == \"IN\" {", "new": "                    } else {\n                        Ok(to_rr(wname, rtype_with_data, 0))\n                    }\n                }\n            } else if tokens[0].0 == \"IN\" {"},
    {"name": "omitted_owner_taken_from_the_origin", "file": ZDESER, "old": "            return if let Some(wname) = previous_domain {\n                if let Some(ttl) = previous_ttl {\n                    Ok(to_rr(wname.clone(), rtype_with_data, ttl))", "new": "            return if let Some(wname) = previous_domain {\n                if let Some(ttl) = previous_ttl {\n                    Ok(to_rr(match origin { Some(o) => MaybeWildcard::Normal { name: o.clone() }, None => wname.clone() }, rtype_with_data, ttl))"},
    {"name": "shortest_rdata_tail_preferred", "file": ZDESER, "old": "    if tokens.len() >= 4 {\n        if let Some(rtype_with_data) = try_parse_rtype_with_data(origin, &tokens[3..]) {", "new": "    if tokens.len() >= 4 && try_parse_rtype_with_data(origin, &tokens[2..]).is_none() {\n        if let Some(rtype_with_data) = try_parse_rtype_with_data(origin, &tokens[3..]) {"},
    {"name": "token_slice_past_the_end", "file": ZDESER, "old": "    if tokens.len() >= 3 {\n        if let Some(rtype_with_data) = try_parse_rtype_with_data(origin, &tokens[2..]) {", "new": "    if tokens.len() >= 2 {\n        if let Some(rtype_with_data) = try_parse_rtype_with_data(origin, &tokens[3..]) {"},
    {"name": "origin_directive_with_extra_tokens", "file": ZDESER, "old": "    if tokens.len() != 2 {\n        return Err(Error::WrongLen { tokens });\n    }\n\n    if tokens[0].0 != \"$ORIGIN\" {", "new": "    if tokens.len() < 2 {\n        return Err(Error::WrongLen { tokens });\n    }\n\n    if tokens[0].0 != \"$ORIGIN\" {"},
    {"name": "at_sign_read_as_a_relative_label", "file": ZDESER, "old": "    if dotted_string == \"@\" {\n        if let Some(name) = origin {\n            Ok(name.clone())", "new": "    if dotted_string == \"@@\" {\n        if let Some(name) = origin {\n            Ok(name.clone())"},
    {"name": "absolute_name_gets_the_origin_appended", "file": ZDESER, "old": "    } else if dotted_string_vec[dotted_string_vec.len() - 1] == '.' {\n        if let Some(domain) = DomainName::from_dotted_string(dotted_string) {", "new": "    } else if dotted_string_vec[dotted_string_vec.len() - 1] == '.' && origin.is_none() {\n        if let Some(domain) = DomainName::from_dotted_string(dotted_string) {"},
    {"name": "star_owner_is_an_ordinary_owner", "file": ZDESER, "old": "            Ok(MaybeWildcard::Wildcard { name: name.clone() })", "new": "            Ok(MaybeWildcard::Normal { name: name.clone() })"},
    {"name": "soa_keeps_the_written_ttl", "file": ZDESER, "old": "    let ttl = if let RecordTypeWithData::SOA { minimum, .. } = rtype_with_data {\n        minimum\n    } else {\n        ttl\n    };", "new": "    let ttl = if let RecordTypeWithData::SOA { minimum, .. } = rtype_with_data {\n        if ttl == 0 { minimum } else { ttl }\n    } else {\n        ttl\n    };"},
]


def build(G):
    begin(G, preludes=("bytes.rs", "std.rs"))
    name_types(G, tryfrom=False)
    wire_types(G, conv_props=[], conv_mode="assume")
    G.file(os.path.join(PRELUDE, "wire_spec.rs"))
    G.file(os.path.join(PRELUDE, "eq.rs"))
    D, T = G.src(ZDESER), G.src(TYPES)
    G.raw(STANDINS, ("spec", "zone_rr stand-ins"))
    G.item(D, "enum", "MaybeWildcard", drop_derive=("Debug", "Clone", "PartialEq", "Eq"))
    G.raw(UNIMPL_CLONE % {"T": "MaybeWildcard"})
    for n in ("Entry", "Error"):
        G.item(D, "enum", n, drop_derive=("Debug", "Clone", "PartialEq", "Eq"))
    G.raw(SPEC_RS, ("spec", "zone_rr spec"))
    specs = {k: dict(v) for k, v in SPECS.items()}
    specs["DomainName::root_domain"] = {"props": [], "mode": "assume", "contract": "    ensures r == root_dn(), r.labels@.len() == 1, // names: DomainName::root_domain"}
    specs["DomainName::from_dotted_string"] = {"props": [], "mode": "assume", "contract": "    ensures r == abs_name(s@), // the name parser as an oracle (totality, well-formedness: unit names)"}
    specs["DomainName::from_relative_dotted_string"] = {"props": [], "mode": "assume", "contract": "    ensures r == rel_name(*origin, s@), // the name parser as an oracle (totality, well-formedness: unit names)"}
    specs["RecordTypeWithData::rtype"] = {"props": [], "mode": "assume", "contract": "    ensures r == spec_rtype_of(*self), // wire_codec: RecordTypeWithData::rtype"}
    G.impl(T, "DomainName", ["root_domain", "from_dotted_string", "from_relative_dotted_string"], "DomainName::", specs)
    G.impl(T, "RecordTypeWithData", ["rtype"], "RecordTypeWithData::", specs)
    G.top_fn(D, "parse_u32", specs)
    G.top_fn(D, "to_rr", specs)
    G.top_fn(D, "parse_domain", specs)
    G.top_fn(D, "parse_domain_or_wildcard", specs)
    G.top_fn(D, "try_parse_rtype_with_data", specs)
    G.raw(SPEC2_RS, ("spec", "zone_rr spec 2"))
    G.top_fn(D, "parse_origin", specs)
    G.top_fn(D, "parse_include", specs)
    G.top_fn(D, "parse_rr", specs)
    zt = open(os.path.join(os.path.dirname(__file__), "zone_text.spec.rs")).read()
    G.raw(zt[zt.index("// -- writing: how one octet is written"):zt.index("pub proof fn lemma_esc_body_push")], ("spec", "esc (shared with zone_text)"))
    G.raw(WRITE_RS, ("spec", "zone_rr writer stand-ins"))
    ZS = G.src("crates/dns-types/src/zones/serialise.rs")
    G.impl(ZS, "Zone", ["serialise_rdata"], "Zone::", specs)
    end(G)
