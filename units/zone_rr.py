"""Unit `zone_rr` (C11, C17 - each in part): the inside of one zone-file entry, as far as it is control logic: `parse_rr` (which of
the ten shapes of a record line the tokens have), `to_rr`, `parse_domain_or_wildcard`, `parse_domain`, `parse_u32`, `parse_origin`,
`parse_include` (zones/deserialise.rs).

Proved against a reading of RFC 1035 section 5.1: a record line is `[owner] [ttl] [class] type rdata` with TTL and class in either
order; an omitted owner or TTL is the previous record's; the class must be IN; `@` is the origin, a name ending in a dot is
absolute, any other name is relative to the origin and needs one; `*` or `*.name` as owner makes a wildcard record; a SOA record's
TTL is its MINIMUM field.  The text-level leaves are oracles: `try_parse_rtype_with_data` (type mnemonic + RDATA fields),
`u32::from_str`, `DomainName::from_dotted_string` / `from_relative_dotted_string`, string comparisons with literals."""
from units.base import *
import re

ZDESER = "crates/dns-types/src/zones/deserialise.rs"

TRUSTED = TRUSTED_COMMON + [
    "oracles: try_parse_rtype_with_data as `rdata_of(origin, tokens)` (which type mnemonic and RDATA fields a token list is), u32::from_str as `num_of(text)`, DomainName::from_dotted_string as `abs_name(text)`, DomainName::from_relative_dotted_string as `rel_name(origin, text)` (well-formedness of the names they build: unit names)",
    "string shims (R33): `s == \"lit\"` as equality of the character sequences (string literals revealed with reveal_strlit), `s.chars().all(|c| c.is_ascii_digit())` as all_digits, `s.chars().collect::<Vec<char>>()` as the characters of s, `v[2..].iter().collect::<String>()` as the characters from index 2 on, `v.iter().all(char::is_ascii)`, `to_string()` without postcondition",
    "R48: `&tokens[k..]` as a shim that REQUIRES k <= tokens.len() and returns the tokens from k on",
]

STANDINS = """
pub open spec fn ascii(c: char) -> bool { (c as u32) <= 127 }
pub open spec fn all_ascii(s: Seq<char>) -> bool { forall|i: int| 0 <= i < s.len() ==> ascii(#[trigger] s[i]) }
pub open spec fn all_digits(s: Seq<char>) -> bool { forall|i: int| 0 <= i < s.len() ==> '0' <= #[trigger] s[i] && s[i] <= '9' }
pub open spec fn texts(v: Seq<(String, Bytes)>) -> Seq<Seq<char>> { Seq::new(v.len(), |i: int| v[i].0@) }
// oracles
pub uninterp spec fn rdata_of(origin: Option<DomainName>, tokens: Seq<(String, Bytes)>) -> Option<RecordTypeWithData>;
pub uninterp spec fn num_of(s: Seq<char>) -> Option<u32>;
pub uninterp spec fn abs_name(s: Seq<char>) -> Option<DomainName>;
pub uninterp spec fn rel_name(origin: DomainName, s: Seq<char>) -> Option<DomainName>;
pub open spec fn opt_dn(o: Option<&DomainName>) -> Option<DomainName> { match o { Some(n) => Some(*n), None => None } }
#[verifier::external_body]
fn try_parse_rtype_with_data(origin: Option<&DomainName>, tokens: &[(String, Bytes)]) -> (r: Option<RecordTypeWithData>)
    ensures r == rdata_of(opt_dn(origin), tokens@), tokens@.len() == 0 ==> r is None,
{ unimplemented!() }
pub struct ParseIntError { e: u8 }
#[verifier::external_body]
fn shim_u32_from_str(s: &str) -> (r: Result<u32, ParseIntError>) ensures r is Ok <==> num_of(s@) is Some, r is Ok ==> r->Ok_0 == num_of(s@)->Some_0 { unimplemented!() }
// R33 string shims
#[verifier::external_body]
fn shim_str_is(a: &str, b: &str) -> (r: bool) ensures r == (a@ == b@) { a == b }
#[verifier::external_body]
fn shim_string_is(a: &str, b: &str) -> (r: bool) ensures r == (a@ == b@) { a == b }
#[verifier::external_body]
fn shim_all_digits(a: &str) -> (r: bool) ensures r == all_digits(a@) { a.chars().all(|c| c.is_ascii_digit()) }
#[verifier::external_body]
fn shim_chars_vec(a: &str) -> (r: Vec<char>) ensures r@ == a@ { a.chars().collect() }
#[verifier::external_body]
fn shim_all_ascii(v: &Vec<char>) -> (r: bool) ensures r == all_ascii(v@) { v.iter().all(char::is_ascii) }
#[verifier::external_body]
fn shim_string_from(v: &Vec<char>, k: usize) -> (r: String) requires k <= v@.len(), ensures r@ == v@.skip(k as int) { v[k..].iter().collect() }
#[verifier::external_body]
fn shim_to_string(a: &str) -> (r: String) { a.to_string() }
#[verifier::external_body]
fn shim_string_clone(a: &str) -> (r: String) ensures r@ == a@ { a.to_string() }
// R48
#[verifier::external_body]
fn shim_tail<'a>(v: &'a Vec<(String, Bytes)>, k: usize) -> (r: &'a [(String, Bytes)])
    requires k <= v@.len(), // [C17:token_slices_stay_within_the_token_list]
    ensures r@ == v@.skip(k as int),
{ &v[k..] }
"""

SPEC_RS = """
// ---- what a name token denotes (RFC 1035 5.1: `@` denotes the current origin; domain names that end in a dot are absolute, those
// that do not are relative and the origin is appended)
enum NameDen { Name(DomainName), NeedsOrigin, Bad }
spec fn name_den(origin: Option<DomainName>, s: Seq<char>) -> NameDen {
    if s.len() == 0 || !all_ascii(s) { NameDen::Bad }
    else if s == seq!['@'] { match origin { Some(o) => NameDen::Name(o), None => NameDen::NeedsOrigin } }
    else if s.last() == '.' { match abs_name(s) { Some(n) => NameDen::Name(n), None => NameDen::Bad } }
    else { match origin { Some(o) => match rel_name(o, s) { Some(n) => NameDen::Name(n), None => NameDen::Bad }, None => NameDen::NeedsOrigin } }
}
// ... and an owner token: `*` alone or as the first label makes the record a wildcard record of the rest of the name
enum OwnerDen { Owner(MaybeWildcard), NeedsOrigin, Bad }
spec fn lift(d: NameDen, wild: bool) -> OwnerDen {
    match d { NameDen::Name(n) => OwnerDen::Owner(if wild { MaybeWildcard::Wildcard { name: n } } else { MaybeWildcard::Normal { name: n } }), NameDen::NeedsOrigin => OwnerDen::NeedsOrigin, NameDen::Bad => OwnerDen::Bad }
}
pub uninterp spec fn root_dn() -> DomainName;   // DomainName::root_domain()
spec fn owner_den(origin: Option<DomainName>, s: Seq<char>) -> OwnerDen {
    if s.len() == 0 { OwnerDen::Bad }
    else if s == seq!['*'] { match origin { Some(o) => OwnerDen::Owner(MaybeWildcard::Wildcard { name: o }), None => OwnerDen::NeedsOrigin } }
    else if s.len() >= 2 && s[0] == '*' && s[1] == '.' {
        if s.len() == 2 { OwnerDen::Owner(MaybeWildcard::Wildcard { name: root_dn() }) } else { lift(name_den(origin, s.skip(2)), true) }
    }
    else { lift(name_den(origin, s), false) }
}
// ---- a record line: `[owner] [ttl] [class] type rdata`, TTL and class in either order, class IN; the type and RDATA are the
// longest tail of at most ... tokens that is one (the three optional fields come first, so at most three tokens precede it)
spec fn in_class(s: Seq<char>) -> bool { s == seq!['I', 'N'] }
enum RrDen { Rr(MaybeWildcard, RecordTypeWithData, u32), Reject, Open }
// the TTL a record gets: its own, else the previous record's; a SOA without either is given its MINIMUM anyway (see to_rr): open
spec fn ttl_or_prev(own: Option<u32>, prev: Option<u32>, d: RecordTypeWithData) -> Option<u32> {
    match own { Some(t) => Some(t), None => match prev { Some(t) => Some(t), None => if d is SOA { Some(0u32) } else { None } } }
}
// the fields before the type, for each of the four possible counts k of tokens before it: (owner, TTL before the SOA rule)
spec fn prev_o(po: Option<MaybeWildcard>) -> OwnerDen { match po { Some(o) => OwnerDen::Owner(o), None => OwnerDen::Bad } }
spec fn fields(origin: Option<DomainName>, po: Option<MaybeWildcard>, pt: Option<u32>, t: Seq<Seq<char>>, k: int, d: RecordTypeWithData) -> (OwnerDen, Option<u32>) {
    if k == 0 { (prev_o(po), ttl_or_prev(None, pt, d)) }
    else if k == 1 {
        if in_class(t[0]) { (prev_o(po), ttl_or_prev(None, pt, d)) }
        else if all_digits(t[0]) { (prev_o(po), num_of(t[0])) }
        else { (owner_den(origin, t[0]), ttl_or_prev(None, pt, d)) }
    } else if k == 2 {
        if in_class(t[1]) { if all_digits(t[0]) { (prev_o(po), num_of(t[0])) } else { (owner_den(origin, t[0]), ttl_or_prev(None, pt, d)) } }
        else if in_class(t[0]) { (prev_o(po), num_of(t[1])) }
        else { (owner_den(origin, t[0]), num_of(t[1])) }
    } else {
        (owner_den(origin, t[0]), if in_class(t[2]) { num_of(t[1]) } else if in_class(t[1]) { num_of(t[2]) } else { None })
    }
}
// how many tokens precede the type: the largest count up to three that leaves a type and RDATA
spec fn first_split(origin: Option<DomainName>, toks: Seq<(String, Bytes)>) -> Option<int> {
    if toks.len() >= 4 && rdata_of(origin, toks.skip(3)) is Some { Some(3int) }
    else if toks.len() >= 3 && rdata_of(origin, toks.skip(2)) is Some { Some(2int) }
    else if toks.len() >= 2 && rdata_of(origin, toks.skip(1)) is Some { Some(1int) }
    else if toks.len() >= 1 && rdata_of(origin, toks.skip(0)) is Some { Some(0int) }
    else { None }
}
// the entry a record line denotes: owner, data, TTL (a SOA's TTL is its MINIMUM); wildcard owners give wildcard records
spec fn entry_of_rr(o: MaybeWildcard, d: RecordTypeWithData, ttl: u32) -> Entry {
    let t = if d is SOA { d->SOA_minimum } else { ttl };
    match o {
        MaybeWildcard::Normal { name } => Entry::RR { rr: ResourceRecord { name, rtype_with_data: d, rclass: RecordClass::IN, ttl: t } },
        MaybeWildcard::Wildcard { name } => Entry::WildcardRR { rr: ResourceRecord { name, rtype_with_data: d, rclass: RecordClass::IN, ttl: t } },
    }
}
"""

SPEC2_RS = """
// what a record line denotes; None: rejected
spec fn rr_den(origin: Option<DomainName>, po: Option<MaybeWildcard>, pt: Option<u32>, toks: Seq<(String, Bytes)>) -> Option<Entry> {
    match first_split(origin, toks) {
        None => None,
        Some(k) => {
            let d = rdata_of(origin, toks.skip(k))->Some_0;
            let f = fields(origin, po, pt, texts(toks), k, d);
            match f { (OwnerDen::Owner(o), Some(ttl)) => Some(entry_of_rr(o, d, ttl)), _ => None }
        }
    }
}
spec fn opt_mw(o: Option<&MaybeWildcard>) -> Option<MaybeWildcard> { match o { Some(n) => Some(*n), None => None } }
"""

TOK_RW = [("R48", r"&tokens\[(\d)\.\.\]", r"shim_tail(&tokens, \1)"),
          ("R33", r"tokens\[(\d)\]\.0 == \"IN\"", r'shim_string_is(&tokens[\1].0, "IN")'),
          ("R33", r"tokens\[0\]\.0 != \"(\$[A-Z]+)\"", r'!shim_string_is(&tokens[0].0, "\1")'),
          ("R33", r"tokens\[(\d)\]\.0\.chars\(\)\.all\(\|c\| c\.is_ascii_digit\(\)\)", r"shim_all_digits(&tokens[\1].0)"),
          ("R33", r"\"(\$?[A-Z]+)\"\.to_string\(\)", r'shim_to_string("\1")'),
          ("R33", r"tokens\[1\]\.0\.clone\(\)", "shim_string_clone(&tokens[1].0)"),
          ("R33", r"&tokens\[(\d)\]\.0\b(?!\.)", r"tokens[\1].0.as_str()")]

SPECS = {
    "parse_rr": {"props": ["C11", "C17"], "rewrites": TOK_RW,
        "contract": """    ensures
        match rr_den(opt_dn(origin), opt_mw(previous_domain), previous_ttl, tokens@) { Some(e) => r is Ok && r->Ok_0 == e, None => r is Err }, // [C11:a_record_line_is_owner_ttl_class_type_rdata_in_either_order_with_omissions_inherited_and_class_in]""",
        "entry": "broadcast use group_eq_axioms; proof { reveal_strlit(\"IN\"); assert(\"IN\"@ == seq!['I', 'N']); assert(tokens@.skip(0) =~= tokens@); } let ghost t__ = texts(tokens@);"},
    "parse_origin": {"props": ["C11", "C17"], "rewrites": TOK_RW,
        "contract": """    ensures
        r is Ok <==> tokens@.len() == 2 && tokens@[0].0@ == "$ORIGIN"@ && name_den(opt_dn(origin), tokens@[1].0@) is Name,
        r is Ok ==> r->Ok_0 == (Entry::Origin { name: name_den(opt_dn(origin), tokens@[1].0@)->Name_0 }), // [C11:an_origin_directive_names_the_new_origin_relative_to_the_current_one]"""},
    "parse_include": {"props": ["C11", "C17"], "rewrites": TOK_RW,
        "contract": """    ensures
        r is Ok ==> r->Ok_0 is Include, // [C11:an_include_directive_is_recognised_as_such]"""},
    "parse_u32": {"props": ["C11"], "rewrites": [("R2", r"u32::from_str\(", "shim_u32_from_str("), ("R33", r"digits\.to_string\(\)", "shim_to_string(digits)")],
        "contract": """    ensures r is Ok <==> num_of(digits@) is Some, r is Ok ==> r->Ok_0 == num_of(digits@)->Some_0,"""},
    "to_rr": {"props": ["C11"],
        "contract": """    ensures r == entry_of_rr(wname, rtype_with_data, ttl), // [C11:a_soa_record_takes_its_minimum_as_ttl_and_a_wildcard_owner_makes_a_wildcard_record]"""},
    "parse_domain": {"props": ["C11", "C17"],
        "rewrites": [("R33", r"dotted_string\.chars\(\)\.collect::<Vec<char>>\(\)", "shim_chars_vec(dotted_string)"),
                     ("R33", r"dotted_string_vec\.iter\(\)\.all\(char::is_ascii\)", "shim_all_ascii(&dotted_string_vec)"),
                     ("R33", r"dotted_string == \"@\"", "shim_str_is(dotted_string, \"@\")"),
                     ("R33", r"dotted_string\.to_string\(\)", "shim_to_string(dotted_string)")],
        "contract": """    ensures
        match name_den(opt_dn(origin), dotted_string@) {
            NameDen::Name(n) => r is Ok && r->Ok_0 == n,
            _ => r is Err,
        }, // [C11:at_sign_absolute_and_origin_relative_names_denote_what_rfc1035_says]""",
        "entry": "proof { reveal_strlit(\"@\"); assert(\"@\"@ == seq!['@']); }"},
    "parse_domain_or_wildcard": {"props": ["C11", "C17"],
        "rewrites": [("R33", r"dotted_string\.chars\(\)\.collect::<Vec<char>>\(\)", "shim_chars_vec(dotted_string)"),
                     ("R33", r"dotted_string == \"\*\"", "shim_str_is(dotted_string, \"*\")"),
                     ("R33", r"&dotted_string_vec\[2\.\.\]\.iter\(\)\.collect::<String>\(\)", "shim_string_from(&dotted_string_vec, 2).as_str()"),
                     ("R33", r"dotted_string\.to_string\(\)", "shim_to_string(dotted_string)")],
        "contract": """    ensures
        match owner_den(opt_dn(origin), dotted_string@) { OwnerDen::Owner(o) => r is Ok && r->Ok_0 == o, _ => r is Err }, // [C11:an_owner_of_star_or_star_dot_name_makes_a_wildcard_record]""",
        "entry": "proof { reveal_strlit(\"*\"); assert(\"*\"@ == seq!['*']); }"},
}

CANARIES = [
    {"name": "ttl_taken_from_the_class_position", "file": ZDESER, "old": "            let ttl = if tokens[2].0 == \"IN\" {\n                parse_u32(&tokens[1].0)?", "new": "            let ttl = if tokens[2].0 == \"IN\" {\n                parse_u32(&tokens[2].0)?"},
    {"name": "class_other_than_in_accepted", "file": ZDESER, "old": "            } else {\n                return Err(Error::Unexpected {\n                    expected: \"IN\".to_string(),\n                    tokens,\n                });\n            };", "new": "            } else {\n                parse_u32(&tokens[1].0)?\n            };"},
    {"name": "missing_ttl_defaults_to_zero", "file": ZDESER, "old": "                    } else if rtype_with_data.rtype() == RecordType::SOA {\n                        Ok(to_rr(wname, rtype_with_data, 0))\n                    } else {\n                        Err(Error::MissingTTL { tokens })\n                    }\n                }\n            } else if tokens[0].0 == \"IN\" {", "new": "                    } else {\n                        Ok(to_rr(wname, rtype_with_data, 0))\n                    }\n                }\n            } else if tokens[0].0 == \"IN\" {"},
    {"name": "omitted_owner_taken_from_the_origin", "file": ZDESER, "old": "            return if let Some(wname) = previous_domain {\n                if let Some(ttl) = previous_ttl {\n                    Ok(to_rr(wname.clone(), rtype_with_data, ttl))", "new": "            return if let Some(wname) = previous_domain {\n                if let Some(ttl) = previous_ttl {\n                    Ok(to_rr(match origin { Some(o) => MaybeWildcard::Normal { name: o.clone() }, None => wname.clone() }, rtype_with_data, ttl))"},
    {"name": "shortest_rdata_tail_preferred", "file": ZDESER, "old": "    if tokens.len() >= 4 {\n        if let Some(rtype_with_data) = try_parse_rtype_with_data(origin, &tokens[3..]) {", "new": "    if tokens.len() >= 4 && try_parse_rtype_with_data(origin, &tokens[2..]).is_none() {\n        if let Some(rtype_with_data) = try_parse_rtype_with_data(origin, &tokens[3..]) {"},
    {"name": "token_slice_past_the_end", "file": ZDESER, "old": "    if tokens.len() >= 3 {\n        if let Some(rtype_with_data) = try_parse_rtype_with_data(origin, &tokens[2..]) {", "new": "    if tokens.len() >= 2 {\n        if let Some(rtype_with_data) = try_parse_rtype_with_data(origin, &tokens[3..]) {"},
    {"name": "origin_directive_with_extra_tokens", "file": ZDESER, "old": "    if tokens.len() != 2 {\n        return Err(Error::WrongLen { tokens });\n    }\n\n    if tokens[0].0 != \"$ORIGIN\" {", "new": "    if tokens.len() < 2 {\n        return Err(Error::WrongLen { tokens });\n    }\n\n    if tokens[0].0 != \"$ORIGIN\" {"},
    {"name": "at_sign_read_as_a_relative_label", "file": ZDESER, "old": "    if dotted_string == \"@\" {\n        if let Some(name) = origin {\n            Ok(name.clone())", "new": "    if dotted_string == \"@@\" {\n        if let Some(name) = origin {\n            Ok(name.clone())"},
    {"name": "absolute_name_gets_the_origin_appended", "file": ZDESER, "old": "    } else if dotted_string_vec[dotted_string_vec.len() - 1] == '.' {\n        if let Some(domain) = DomainName::from_dotted_string(dotted_string) {", "new": "    } else if dotted_string_vec[dotted_string_vec.len() - 1] == '.' && origin.is_none() {\n        if let Some(domain) = DomainName::from_dotted_string(dotted_string) {"},
    {"name": "star_owner_is_an_ordinary_owner", "file": ZDESER, "old": "            Ok(MaybeWildcard::Wildcard { name: name.clone() })", "new": "            Ok(MaybeWildcard::Normal { name: name.clone() })"},
    {"name": "soa_keeps_the_written_ttl", "file": ZDESER, "old": "    let ttl = if let RecordTypeWithData::SOA { minimum, .. } = rtype_with_data {\n        minimum\n    } else {\n        ttl\n    };", "new": "    let ttl = if let RecordTypeWithData::SOA { minimum, .. } = rtype_with_data {\n        if ttl == 0 { minimum } else { ttl }\n    } else {\n        ttl\n    };"},
]


def build(G):
    begin(G, preludes=("bytes.rs", "std.rs"))
    name_types(G, tryfrom=False)
    wire_types(G, conv_props=[], conv_mode="assume")
    G.file(os.path.join(PRELUDE, "wire_spec.rs"))
    G.file(os.path.join(PRELUDE, "eq.rs"))
    D, T = G.src(ZDESER), G.src(TYPES)
    G.raw(STANDINS, ("spec", "zone_rr stand-ins"))
    G.item(D, "enum", "MaybeWildcard", drop_derive=("Debug", "Clone", "PartialEq", "Eq"))
    G.raw(UNIMPL_CLONE % {"T": "MaybeWildcard"})
    for n in ("Entry", "Error"):
        G.item(D, "enum", n, drop_derive=("Debug", "Clone", "PartialEq", "Eq"))
    G.raw(SPEC_RS, ("spec", "zone_rr spec"))
    specs = {k: dict(v) for k, v in SPECS.items()}
    specs["DomainName::root_domain"] = {"props": [], "mode": "assume", "contract": "    ensures r == root_dn(), r.labels@.len() == 1, // names: DomainName::root_domain"}
    specs["DomainName::from_dotted_string"] = {"props": [], "mode": "assume", "contract": "    ensures r == abs_name(s@), // the name parser as an oracle (totality, well-formedness: unit names)"}
    specs["DomainName::from_relative_dotted_string"] = {"props": [], "mode": "assume", "contract": "    ensures r == rel_name(*origin, s@), // the name parser as an oracle (totality, well-formedness: unit names)"}
    specs["RecordTypeWithData::rtype"] = {"props": [], "mode": "assume", "contract": "    ensures r == spec_rtype_of(*self), // wire_codec: RecordTypeWithData::rtype"}
    G.impl(T, "DomainName", ["root_domain", "from_dotted_string", "from_relative_dotted_string"], "DomainName::", specs)
    G.impl(T, "RecordTypeWithData", ["rtype"], "RecordTypeWithData::", specs)
    G.top_fn(D, "parse_u32", specs)
    G.top_fn(D, "to_rr", specs)
    G.top_fn(D, "parse_domain", specs)
    G.top_fn(D, "parse_domain_or_wildcard", specs)
    G.raw(SPEC2_RS, ("spec", "zone_rr spec 2"))
    G.top_fn(D, "parse_origin", specs)
    G.top_fn(D, "parse_include", specs)
    G.top_fn(D, "parse_rr", specs)
    end(G)
