"""Loop contracts and proof anchors for PartitionedCache::upsert in its fixed shape (next_expiry recomputed over the whole partition)."""

UPSERT_FIXED_LOOPS = {
    "1": {"kw": "for", "spec": """                    invariant
                        r1g == partition.records@, values_of(r1g, itv__.seq()), itv__.seq().len() > 0,
                        inst(new_next_expiry) <= inst(expiry),
                        forall|j: int, i: int| #![trigger itv__.seq()[j]@[i]] 0 <= j < itv__.index@ && 0 <= i < itv__.seq()[j]@.len() ==> inst(new_next_expiry) <= inst(itv__.seq()[j]@[i].1),
                        new_next_expiry == expiry || exists|j: int, i: int| 0 <= j < itv__.index@ && 0 <= i < itv__.seq()[j]@.len() && new_next_expiry == #[trigger] itv__.seq()[j]@[i].1,
                        itv__.index@ == itv__.seq().len() ==> ne_lower(r1g, new_next_expiry) && (new_next_expiry == expiry || ne_attained(r1g, new_next_expiry)),""",
          "entry": "broadcast use group_time; let ghost jdx__ = itv__.index@ as int; assert(tuples@ == itv__.seq()[jdx__]@);"},
    "2": {"kw": "for", "iter_name": "it1__", "spec": """                        invariant
                            it1__.seq().len() == tuples@.len(), forall|j: int| 0 <= j < tuples@.len() ==> *it1__.seq()[j] == tuples@[j],
                            tuples@ == itv__.seq()[jdx__]@, jdx__ == itv__.index@, 0 <= jdx__ < itv__.seq().len(),
                            inst(new_next_expiry) <= inst(expiry),
                            forall|j: int, i: int| #![trigger itv__.seq()[j]@[i]] 0 <= j < jdx__ && 0 <= i < itv__.seq()[j]@.len() ==> inst(new_next_expiry) <= inst(itv__.seq()[j]@[i].1),
                            forall|i: int| 0 <= i < it1__.index@ ==> inst(new_next_expiry) <= inst(tuples@[i].1),
                            new_next_expiry == expiry || (exists|j: int, i: int| 0 <= j < jdx__ && 0 <= i < itv__.seq()[j]@.len() && new_next_expiry == #[trigger] itv__.seq()[j]@[i].1)
                                || (exists|i: int| 0 <= i < it1__.index@ && new_next_expiry == #[trigger] tuples@[i].1),""",
          "entry": "broadcast use group_time; let ghost idx1__ = it1__.index@ as int; assert(*it1__.seq()[idx1__] == tuples@[idx1__]); assert(*e == tuples@[idx1__].1);"},
}

UPSERT_FIXED_ANCHORS = [
    {"after": "if let Some(partition) = self.partitions.get_mut(&partition_key) {", "at": "before", "proof": "let ghost tup = tuple; let ghost mut g_dd: Option<int> = None; assert(is_now(now)); assert(now.add_req(ttl)); assert(inst(expiry) == inst(now) + dur(ttl));"},
    {"after": "if let Some(partition) = self.partitions.get_mut(&partition_key) {",
     "proof": "let ghost p0 = *partition; proof { lemma_map_sum_insert(old(self).partitions@, psize::<K2, V>(), partition_key, p0); }"},
    {"after": "if let Some(tuples) = partition.records.get_mut(&record_key) {", "proof": "let ghost t0 = tuples@;"},
    {"after": "tuples.push(tuple);", "at": "before", "proof": "let ghost tl = tuples@;"},
    {"after": "tuples.push(tuple);", "proof": """proof {
    if duplicate_expires_at is Some {
        let d = choose|d: int| 0 <= d < t0.len() && t0[d].0 == tup.0 && duplicate_expires_at == Some(#[trigger] t0[d].1) && tl == t0.update(d, t0.last()).drop_last();
        g_dd = Some(d);
    }
}"""},
    {"after": "if recompute_next_expiry {", "at": "before", "proof": """let ghost r1g = partition.records@;
proof {
    assert(r1g[record_key]@ =~= (if p0.records@.contains_key(record_key) { p0.records@[record_key]@ } else { Seq::<(V, Instant)>::empty() }).push(tup)
        || g_dd is Some);
    assert(upsert_recs(p0.records@, r1g, record_key, tup, g_dd));
    assert(recompute_next_expiry ==> g_dd is Some);
    assert(!recompute_next_expiry && g_dd is Some ==> inst(p0.records@[record_key]@[g_dd->Some_0].1) != inst(p0.next_expiry));
    lemma_map_sum_insert(p0.records@, vlen::<(V, Instant)>(), record_key, partition.records@[record_key]);
}"""},
    {"after": "new_next_expiry = *e;\n                        }\n                    }", "proof": """
assert(jdx__ + 1 == itv__.seq().len() ==> ne_lower(r1g, new_next_expiry)) by {
    if jdx__ + 1 == itv__.seq().len() {
        assert forall|k: K2, i: int| #[trigger] has_tuple(r1g, k, i) implies inst(new_next_expiry) <= inst(r1g[k]@[i].1) by {
            let j = lemma_values_of_key(r1g, itv__.seq(), k);
            assert(itv__.seq()[j]@[i] == r1g[k]@[i]);
        }
    }
}
assert(jdx__ + 1 == itv__.seq().len() && new_next_expiry != expiry ==> ne_attained(r1g, new_next_expiry)) by {
    if jdx__ + 1 == itv__.seq().len() && new_next_expiry != expiry {
        let (j, i) = choose|j: int, i: int| 0 <= j < jdx__ + 1 && 0 <= i < itv__.seq()[j]@.len() && new_next_expiry == #[trigger] itv__.seq()[j]@[i].1;
        let k = lemma_values_of_index(r1g, itv__.seq(), j);
        assert(has_tuple(r1g, k, i));
    }
}"""},
    {"after": ".change_priority(&partition_key, Reverse(partition.next_expiry));\n            }", "nth": 1, "proof": """proof {
    let r0 = p0.records@;
    lemma_upsert_attained_new(r0, r1g, record_key, tup, g_dd);
    if recompute_next_expiry {
        assert(ne_lower(r1g, partition.next_expiry));
        assert(ne_attained(r1g, partition.next_expiry));
    } else if inst(expiry) < inst(p0.next_expiry) {
        lemma_upsert_lower(r0, r1g, record_key, tup, g_dd, partition.next_expiry);
    } else {
        lemma_upsert_lower(r0, r1g, record_key, tup, g_dd, p0.next_expiry);
        lemma_upsert_attained(r0, r1g, record_key, tup, g_dd, p0.next_expiry);
    }
    assert(ne_lower(partition.records@, partition.next_expiry)); // [C15:next_expiry_is_lower_bound]
    assert(ne_attained(partition.records@, partition.next_expiry)); // [C15:next_expiry_is_attained]
    assert(partition.size == partition.count()); // [C15:partition_size_is_record_count]
}"""},
    {"after": "records.insert(record_key, vec![tuple]);", "nth": 1, "proof": """proof {
    lemma_map_sum_empty::<K2, Vec<(V, Instant)>>(vlen::<(V, Instant)>());
    lemma_map_sum_insert(Map::<K2, Vec<(V, Instant)>>::empty(), vlen::<(V, Instant)>(), record_key, records@[record_key]);
    assert(has_tuple(records@, record_key, 0));
    assert(records@[record_key]@ =~= Seq::<(V, Instant)>::empty().push(tup));
    assert(upsert_recs(Map::<K2, Vec<(V, Instant)>>::empty(), records@, record_key, tup, None));
}"""},
    {"after": "self.current_size += 1;", "at": "before", "proof": """proof {
    lemma_map_sum_insert(old(self).partitions@, psize::<K2, V>(), partition_key, self.partitions@[partition_key]);
    assert(upsert_recs(recs_or_empty(old(self).partitions@, partition_key), self.partitions@[partition_key].records@, record_key, tup, g_dd));
    assert(dup_ok(recs_or_empty(old(self).partitions@, partition_key), record_key, tup.0, g_dd));
    assert(is_now(now) && inst(tup.1) == inst(now) + dur(ttl));
}"""},
]

