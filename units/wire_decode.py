"""Unit `wire_decode` (C03, C16): the whole wire decoder under contract: crash-free, terminating, error carries the ID,
decoded names well-formed, section lengths equal the header counts."""
from units.base import *
from gen import r6_inline_closure

TRUSTED = TRUSTED_COMMON + [
    "Ipv4Addr::from(u32), Ipv6Addr::new: total, no contract needed (prelude/net.rs)",
    "input length <= 65535 is a precondition of Message::from_octets (the property's own quantifier; UDP/TCP framing delivers it)",
]

BUF_FRAME = "final(buffer).wf(), final(buffer).octets == old(buffer).octets, final(buffer).position >= old(buffer).position,"

SPECS = {
    "ConsumableBuffer::new": {"props": ["C03"], "contract": """    requires octets@.len() <= 0xffff,
    ensures r.wf(), r.octets == octets, r.position == 0,"""},
    "ConsumableBuffer::next_u8": {"props": ["C03"], "contract": """    requires old(self).wf(),
    ensures final(self).wf(), final(self).octets == old(self).octets,
        r is Some <==> old(self).position < old(self).octets@.len(), // [C03:u8_bounds]
        r is Some ==> r->Some_0 == old(self).octets@[old(self).position as int] && final(self).position == old(self).position + 1, // [C03:u8_value]
        r is None ==> final(self).position == old(self).position,"""},
    "ConsumableBuffer::next_u16": {"props": ["C03"], "rewrites": ["R2a"], "contract": """    requires old(self).wf(),
    ensures final(self).wf(), final(self).octets == old(self).octets,
        r is Some <==> old(self).position + 2 <= old(self).octets@.len(), // [C03:u16_bounds]
        r is Some ==> r->Some_0 == be16(old(self).octets@[old(self).position as int], old(self).octets@[old(self).position + 1]) && final(self).position == old(self).position + 2, // [C03:u16_value]
        r is None ==> final(self).position == old(self).position,"""},
    "ConsumableBuffer::next_u32": {"props": ["C03"], "rewrites": ["R2b"], "contract": """    requires old(self).wf(),
    ensures final(self).wf(), final(self).octets == old(self).octets,
        r is Some <==> old(self).position + 4 <= old(self).octets@.len(), // [C03:u32_bounds]
        r is Some ==> r->Some_0 == be32(old(self).octets@[old(self).position as int], old(self).octets@[old(self).position + 1], old(self).octets@[old(self).position + 2], old(self).octets@[old(self).position + 3]) && final(self).position == old(self).position + 4, // [C03:u32_value]
        r is None ==> final(self).position == old(self).position,"""},
    "ConsumableBuffer::take": {"props": ["C03"], "contract": """    requires old(self).wf(), size <= 0xffff,
    ensures final(self).wf(), final(self).octets == old(self).octets,
        r is Some <==> old(self).position + size <= old(self).octets@.len(), // [C03:take_bounds]
        r is Some ==> final(self).position == old(self).position + size && r->Some_0@ == old(self).octets@.subrange(old(self).position as int, old(self).position + size), // [C03:take_value]
        r is None ==> final(self).position == old(self).position,"""},
    "ConsumableBuffer::at_offset": {"props": ["C03"], "contract": """    requires self.wf(), position <= self.octets@.len(),
    ensures r.wf(), r.octets == self.octets, r.position == position,"""},
    "Error::id": {"props": ["C03"], "contract": "    ensures r == err_id(self), // [C03:error_id_accessor]"},
    "DomainName::deserialise": {"props": ["C03", "C16"], "rewrites": ["R2a"], "contract": """    requires old(buffer).wf(),
    ensures """ + BUF_FRAME + """
        r is Ok ==> r->Ok_0.wf(), // [C03,C16:decoded_name_wf]
        r is Ok ==> final(buffer).position > old(buffer).position,
        r is Err ==> err_id(r->Err_0) == Some(id), // [C03:error_carries_id]
    decreases old(buffer).position,""",
        "entry": "broadcast use lemma_labels_sum_push, lemma_labels_sum_concat;",
        "loops": {"0": {"kw": "loop", "spec": """            invariant_except_break
                len <= buffer.position - start,
                forall|i: int| 0 <= i < labels@.len() ==> (#[trigger] labels@[i]).v().len() > 0,
            invariant
                buffer.wf(), buffer.octets == old(buffer).octets,
                buffer.position >= start, start == old(buffer).position,
                all_labels_wf(labels@),
                len == labels_sum(labels@),
            ensures
                buffer.position > start,
                len <= 255 ==> shape_ok(labels@),
            decreases buffer.octets@.len() - buffer.position,""",
            "entry": "broadcast use lemma_labels_sum_push, lemma_labels_sum_concat;"}}},
}
for t, e in (("QueryType", "spec_qtype_from"), ("QueryClass", "spec_qclass_from"), ("RecordType", "spec_rtype_from"), ("RecordClass", "spec_rclass_from")):
    SPECS[f"{t}::deserialise"] = {"props": ["C03"], "contract": """    requires old(buffer).wf(),
    ensures """ + BUF_FRAME + f"""
        r is Ok <==> old(buffer).position + 2 <= old(buffer).octets@.len(),
        r is Ok ==> final(buffer).position == old(buffer).position + 2 && r->Ok_0 == {e}(be16(old(buffer).octets@[old(buffer).position as int], old(buffer).octets@[old(buffer).position + 1])), // [C03:code_read_be16]
        r is Err ==> err_id(r->Err_0) == Some(id), // [C03:error_carries_id]"""}
SPECS["Header::deserialise"] = {"props": ["C03"], "contract": """    requires old(buffer).wf(),
    ensures """ + BUF_FRAME + """
        r is Ok <==> old(buffer).position + 4 <= old(buffer).octets@.len(),
        r is Ok ==> final(buffer).position == old(buffer).position + 4 && r->Ok_0.id == be16(old(buffer).octets@[old(buffer).position as int], old(buffer).octets@[old(buffer).position + 1]), // [C03:header_id]
        r is Ok ==> r->Ok_0 == header_unpack(r->Ok_0.id, old(buffer).octets@[old(buffer).position + 2], old(buffer).octets@[old(buffer).position + 3]), // [C03,C04:header_flags_read_as_rfc1035]
        r is Err && old(buffer).position + 2 <= old(buffer).octets@.len() ==> err_id(r->Err_0) == Some(be16(old(buffer).octets@[old(buffer).position as int], old(buffer).octets@[old(buffer).position + 1])), // [C03:error_carries_id]
        r is Err && old(buffer).position + 2 > old(buffer).octets@.len() ==> err_id(r->Err_0) is None,"""}
SPECS["Header::deserialise"]["anchors"] = [{"after": "let flags2 = buffer.next_u8().ok_or(Error::HeaderTooShort(id))?;", "proof": "proof { lemma_header_decode_bits(flags1, flags2); }"}]
SPECS["Question::deserialise"] = {"props": ["C03"], "contract": """    requires old(buffer).wf(),
    ensures """ + BUF_FRAME + """
        r is Ok ==> r->Ok_0.name.wf(), // [C03,C16:decoded_name_wf]
        r is Err ==> err_id(r->Err_0) == Some(id), // [C03:error_carries_id]"""}
SPECS["ResourceRecord::deserialise"] = {"props": ["C03"], "rewrites": [("R6", r6_inline_closure)], "contract": """    requires old(buffer).wf(),
    ensures """ + BUF_FRAME + """
        r is Ok ==> r->Ok_0.name.wf(), // [C03,C16:decoded_name_wf]
        r is Ok ==> rr_names_wf(r->Ok_0.rtype_with_data), // [C03,C16:decoded_rdata_names_wf]
        r is Err ==> err_id(r->Err_0) == Some(id), // [C03:error_carries_id]"""}
SPECS["Message::deserialise"] = {"props": ["C03"], "contract": """    requires old(buffer).wf(), old(buffer).position == 0,
    ensures """ + BUF_FRAME + """
        r is Ok ==> old(buffer).octets@.len() >= 12 && msg_counts_ok(r->Ok_0, old(buffer).octets@), // [C03:section_lengths_equal_header_counts]
        r is Ok ==> r->Ok_0.header == header_unpack(be16(old(buffer).octets@[0], old(buffer).octets@[1]), old(buffer).octets@[2], old(buffer).octets@[3]), // [C03,C04:header_flags_read_as_rfc1035]
        r is Err && old(buffer).octets@.len() >= 2 ==> err_id(r->Err_0) == Some(be16(old(buffer).octets@[0], old(buffer).octets@[1])), // [C03:error_carries_id]
        r is Err && old(buffer).octets@.len() < 2 ==> err_id(r->Err_0) is None,""",
    "loops": {str(k): {"kw": "for", "iter_name": "it__", "spec": f"""            invariant buffer.wf(), buffer.octets == old(buffer).octets, buffer.position >= old(buffer).position,
                {v}@.len() == it__.index@, buffer.octets@.len() >= 12, header.id == be16(buffer.octets@[0], buffer.octets@[1]),"""}
              for k, (v, c) in enumerate((("questions", "qdcount"), ("answers", "ancount"), ("authority", "nscount"), ("additional", "arcount")))}}
SPECS["Message::from_octets"] = {"props": ["C03"], "contract": """    requires octets@.len() <= 0xffff,
    ensures
        r is Ok ==> octets@.len() >= 12 && msg_counts_ok(r->Ok_0, octets@), // [C03:section_lengths_equal_header_counts]
        r is Ok ==> r->Ok_0.header == header_unpack(be16(octets@[0], octets@[1]), octets@[2], octets@[3]), // [C03,C04:header_flags_read_as_rfc1035]
        r is Err && octets@.len() >= 2 ==> err_id(r->Err_0) == Some(be16(octets@[0], octets@[1])), // [C03:error_carries_id]
        r is Err && octets@.len() < 2 ==> err_id(r->Err_0) is None, // [C03:no_id_only_below_two_bytes]"""}

SPEC_RS = """
impl<'a> ConsumableBuffer<'a> {
    // the 65535 bound is the property's own quantifier (TCP maximum)
    spec fn wf(&self) -> bool { self.position <= self.octets@.len() && self.octets@.len() <= 0xffff }
}
pub open spec fn err_id(e: Error) -> Option<u16> {
    match e {
        Error::CompletelyBusted => None,
        Error::HeaderTooShort(id) => Some(id),
        Error::QuestionTooShort(id) => Some(id),
        Error::ResourceRecordTooShort(id) => Some(id),
        Error::ResourceRecordInvalid(id) => Some(id),
        Error::DomainTooShort(id) => Some(id),
        Error::DomainTooLong(id) => Some(id),
        Error::DomainPointerInvalid(id) => Some(id),
        Error::DomainLabelInvalid(id) => Some(id),
    }
}
pub open spec fn msg_counts_ok(m: Message, o: Seq<u8>) -> bool {
    &&& o.len() >= 12
    &&& m.questions@.len() == be16(o[4], o[5])
    &&& m.answers@.len() == be16(o[6], o[7])
    &&& m.authority@.len() == be16(o[8], o[9])
    &&& m.additional@.len() == be16(o[10], o[11])
}
"""


def build(G):
    begin(G, preludes=("bytes.rs", "std.rs", "net.rs"))
    name_types(G)
    wire_types(G, conv_props=["C03"])
    T, D = G.src(TYPES), G.src(DESER)
    G.item(D, "enum", "Error")
    G.item(D, "struct", "ConsumableBuffer")
    G.file(os.path.join(PRELUDE, "wire_spec.rs"))
    G.raw(SPEC_RS, ("spec", "wire_decode spec"))
    assumed = as_assumed(NAME_SPECS, ["Label::new", "Label::len", "Label::is_empty", "Label::try_from"])
    specs = dict(SPECS)
    specs.update(assumed)
    G.impl(T, "Label", ["new", "len", "is_empty"], "Label::", specs)
    G.impl(T, "TryFrom<&[u8]> for Label", ["try_from"], "Label::", specs)
    G.impl(D, "<'a> ConsumableBuffer<'a>", ["new", "next_u8", "next_u16", "next_u32", "take", "at_offset"], "ConsumableBuffer::", specs)
    G.impl(D, "Error", ["id"], "Error::", specs)
    G.impl(D, "DomainName", ["deserialise"], "DomainName::", specs)
    for t in ("QueryType", "QueryClass", "RecordType", "RecordClass"):
        G.impl(D, t, ["deserialise"], t + "::", specs)
    G.impl(D, "Header", ["deserialise"], "Header::", specs)
    G.impl(D, "Question", ["deserialise"], "Question::", specs)
    G.impl(D, "ResourceRecord", ["deserialise"], "ResourceRecord::", specs)
    G.impl(D, "Message", ["from_octets", "deserialise"], "Message::", specs)
    end(G)


CANARIES = [
    {"name": "ptr_ge_to_gt", "file": DESER, "old": "if ptr >= start {", "new": "if ptr > start {"},
    {"name": "u16_off_by_one", "file": DESER, "old": "if self.octets.len() > self.position + 1 {", "new": "if self.octets.len() > self.position {"},
    {"name": "drop_255_check", "file": DESER, "old": "if len <= DOMAINNAME_MAX_LEN {\n            Ok(DomainName { labels, len })", "new": "if len <= 300 {\n            Ok(DomainName { labels, len })"},
    {"name": "take_ge_to_gt", "file": DESER, "old": "if self.octets.len() >= self.position + size {", "new": "if self.octets.len() + 1 >= self.position + size {"},
    {"name": "error_wrong_id", "file": DESER, "old": "return Err(Error::DomainPointerInvalid(id));", "new": "return Err(Error::DomainPointerInvalid(0));"},
]
