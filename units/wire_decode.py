"""Unit `wire_decode` (C03, C16): the whole wire decoder under contract: crash-free, terminating, error carries the ID,
decoded names well-formed, section lengths equal the header counts."""
from units.base import *
import re
from gen import r6_inline_closure

TRUSTED = TRUSTED_COMMON + [
    "Ipv4Addr::from(u32), Ipv6Addr::new: total, no contract needed (prelude/net.rs)",
    "input length <= 65535 is a precondition of Message::from_octets (the property's own quantifier; UDP/TCP framing delivers it)",
]

BUF_FRAME = "final(buffer).wf(), final(buffer).octets == old(buffer).octets, final(buffer).position >= old(buffer).position,"

SPECS = {
    "ConsumableBuffer::new": {"props": ["C03"], "contract": """    requires octets@.len() <= 0xffff,
    ensures r.wf(), r.octets == octets, r.position == 0,"""},
    "ConsumableBuffer::next_u8": {"props": ["C03"], "contract": """    requires old(self).wf(),
    ensures final(self).wf(), final(self).octets == old(self).octets,
        r is Some <==> old(self).position < old(self).octets@.len(), // [C03:u8_bounds]
        r is Some ==> r->Some_0 == old(self).octets@[old(self).position as int] && final(self).position == old(self).position + 1, // [C03:u8_value]
        r is None ==> final(self).position == old(self).position,"""},
    "ConsumableBuffer::next_u16": {"props": ["C03"], "rewrites": ["R2a"], "contract": """    requires old(self).wf(),
    ensures final(self).wf(), final(self).octets == old(self).octets,
        r is Some <==> old(self).position + 2 <= old(self).octets@.len(), // [C03:u16_bounds]
        r is Some ==> r->Some_0 == be16(old(self).octets@[old(self).position as int], old(self).octets@[old(self).position + 1]) && final(self).position == old(self).position + 2, // [C03:u16_value]
        r is None ==> final(self).position == old(self).position,"""},
    "ConsumableBuffer::next_u32": {"props": ["C03"], "rewrites": ["R2b"], "contract": """    requires old(self).wf(),
    ensures final(self).wf(), final(self).octets == old(self).octets,
        r is Some <==> old(self).position + 4 <= old(self).octets@.len(), // [C03:u32_bounds]
        r is Some ==> r->Some_0 == be32(old(self).octets@[old(self).position as int], old(self).octets@[old(self).position + 1], old(self).octets@[old(self).position + 2], old(self).octets@[old(self).position + 3]) && final(self).position == old(self).position + 4, // [C03:u32_value]
        r is None ==> final(self).position == old(self).position,"""},
    "ConsumableBuffer::take": {"props": ["C03"], "contract": """    requires old(self).wf(), size <= 0xffff,
    ensures final(self).wf(), final(self).octets == old(self).octets,
        r is Some <==> old(self).position + size <= old(self).octets@.len(), // [C03:take_bounds]
        r is Some ==> final(self).position == old(self).position + size && r->Some_0@ == old(self).octets@.subrange(old(self).position as int, old(self).position + size), // [C03:take_value]
        r is None ==> final(self).position == old(self).position,"""},
    "ConsumableBuffer::at_offset": {"props": ["C03"], "contract": """    requires self.wf(), position <= self.octets@.len(),
    ensures r.wf(), r.octets == self.octets, r.position == position,"""},
    "Error::id": {"props": ["C03"], "contract": "    ensures r == err_id(self), // [C03:error_id_accessor]"},
    "DomainName::deserialise": {"props": ["C03", "C16", "C04"], "rewrites": ["R2a"], "contract": """    requires old(buffer).wf(),
    ensures """ + BUF_FRAME + """
        r is Ok ==> r->Ok_0.wf(), // [C03,C16:decoded_name_wf]
        r is Ok ==> final(buffer).position > old(buffer).position,
        r is Err ==> err_id(r->Err_0) == Some(id), // [C03:error_carries_id]
        r is Ok <==> name_at(old(buffer).octets@, old(buffer).position as int) is Some, // [C03:accepts_exactly_the_well_formed_names]
        r is Ok ==> vals(r->Ok_0.labels@) == name_at(old(buffer).octets@, old(buffer).position as int)->Some_0.0, // [C03:name_read_as_an_independent_decoder_does]
        r is Ok ==> final(buffer).position == name_at(old(buffer).octets@, old(buffer).position as int)->Some_0.1, // [C03:name_read_as_an_independent_decoder_does]
    decreases old(buffer).position,""",
        "entry": "broadcast use lemma_labels_sum_push, lemma_labels_sum_concat, group_name_spec;",
        "anchors": [{"after": "'outer: loop", "at": "before", "proof": "let ghost b__ = buffer.octets@; proof { lemma_onto_empty(spec_name(b__, old(buffer).position as int, old(buffer).position as int)); assert(vals(labels@) =~= Seq::<Seq<u8>>::empty()); }"},
                    {"after": "labels.push(Label::new());", "proof": """proof {
    assert(labels@.last().v() =~= Seq::<u8>::empty());
    assert(vals(labels@) =~= lv0__ + seq![Seq::<u8>::empty()]);
    assert(spec_name(b__, old(buffer).position as int, p0__) == Some((seq![Seq::<u8>::empty()], p0__ + 1)));
}"""},
                    {"after": "labels.push(label);", "proof": """proof {
    let sub = b__.subrange(p0__ + 1, buffer.position as int);
    let lv = labels@.last().v();
    assert(lv =~= lower_seq(sub));
    assert(spec_name(b__, old(buffer).position as int, p0__) == onto(seq![lower_seq(sub)], spec_name(b__, old(buffer).position as int, buffer.position as int)));
    lemma_onto_onto(lv0__, seq![lv], spec_name(b__, old(buffer).position as int, buffer.position as int));
    assert(vals(labels@) =~= lv0__ + seq![lv]);
}"""}],
        "loops": {"0": {"kw": "loop", "spec": """            invariant_except_break
                len <= buffer.position - old(buffer).position,
                forall|i: int| 0 <= i < labels@.len() ==> (#[trigger] labels@[i]).v().len() > 0,
                spec_name(b__, old(buffer).position as int, old(buffer).position as int) == onto(vals(labels@), spec_name(b__, old(buffer).position as int, buffer.position as int)),
            invariant
                buffer.wf(), buffer.octets == old(buffer).octets,
                buffer.position >= old(buffer).position, START_IS_ENTRY_POSITION
                all_labels_wf(labels@),
                len == labels_sum(labels@),
                b__ == buffer.octets@,
            ensures
                buffer.position > old(buffer).position,
                len <= 255 ==> shape_ok(labels@),
                len <= 255 ==> spec_name(b__, old(buffer).position as int, old(buffer).position as int) == Some((vals(labels@), buffer.position as int)), // [C03:name_read_as_an_independent_decoder_does]
                len > 255 ==> name_at(b__, old(buffer).position as int) is None, // [C03:accepts_exactly_the_well_formed_names]
            decreases buffer.octets@.len() - buffer.position,""",
            "entry": "broadcast use lemma_labels_sum_push, lemma_labels_sum_concat, group_name_spec; let ghost p0__ = buffer.position as int; let ghost lv0__ = vals(labels@);"}}},
}
for t, e in (("QueryType", "spec_qtype_from"), ("QueryClass", "spec_qclass_from"), ("RecordType", "spec_rtype_from"), ("RecordClass", "spec_rclass_from")):
    SPECS[f"{t}::deserialise"] = {"props": ["C03"], "contract": """    requires old(buffer).wf(),
    ensures """ + BUF_FRAME + f"""
        r is Ok <==> old(buffer).position + 2 <= old(buffer).octets@.len(),
        r is Ok ==> final(buffer).position == old(buffer).position + 2 && r->Ok_0 == {e}(be16(old(buffer).octets@[old(buffer).position as int], old(buffer).octets@[old(buffer).position + 1])), // [C03:code_read_be16]
        r is Err ==> err_id(r->Err_0) == Some(id), // [C03:error_carries_id]"""}
SPECS["Header::deserialise"] = {"props": ["C03"], "contract": """    requires old(buffer).wf(),
    ensures """ + BUF_FRAME + """
        r is Ok <==> old(buffer).position + 4 <= old(buffer).octets@.len(),
        r is Ok ==> final(buffer).position == old(buffer).position + 4 && r->Ok_0.id == be16(old(buffer).octets@[old(buffer).position as int], old(buffer).octets@[old(buffer).position + 1]), // [C03:header_id]
        r is Ok ==> r->Ok_0 == header_unpack(r->Ok_0.id, old(buffer).octets@[old(buffer).position + 2], old(buffer).octets@[old(buffer).position + 3]), // [C03,C04:header_flags_read_as_rfc1035]
        r is Err && old(buffer).position + 2 <= old(buffer).octets@.len() ==> err_id(r->Err_0) == Some(be16(old(buffer).octets@[old(buffer).position as int], old(buffer).octets@[old(buffer).position + 1])), // [C03:error_carries_id]
        r is Err && old(buffer).position + 2 > old(buffer).octets@.len() ==> err_id(r->Err_0) is None,"""}
SPECS["Header::deserialise"]["anchors"] = [{"after": "Ok(Self {", "nth": -1, "at": "before", "proof": "proof { lemma_header_decode_bits(flags1, flags2); }"}]
SPECS["Question::deserialise"] = {"props": ["C03", "C04"], "contract": """    requires old(buffer).wf(),
    ensures """ + BUF_FRAME + """
        r is Ok ==> r->Ok_0.name.wf(), // [C03,C16:decoded_name_wf]
        r is Err ==> err_id(r->Err_0) == Some(id), // [C03:error_carries_id]
        r is Ok <==> question_at(old(buffer).octets@, old(buffer).position as int) is Some, // [C03:accepts_exactly_the_well_formed_questions]
        r is Ok ==> question_is(r->Ok_0, old(buffer).octets@, old(buffer).position as int) && final(buffer).position == question_at(old(buffer).octets@, old(buffer).position as int)->Some_0, // [C03:question_read_as_an_independent_decoder_does]"""}
SPECS["ResourceRecord::deserialise"] = {"props": ["C03", "C04"], "rewrites": [("R6", r6_inline_closure)], "attrs": "#[verifier::rlimit(3000)] #[verifier::spinoff_prover] // 20 match arms with about 40 error exits: the heaviest query of the whole suite",
    "anchors": [{"after": "let rdata_start = buffer.position;", "proof": """let ghost b__ = buffer.octets@; let ghost p0__ = old(buffer).position as int; let ghost rdl__ = rdlength as int;
proof {
    assert(rr_prefix_at(b__, p0__) == Some(rdata_start as int));
    let e = rdata_start as int - 10;
    assert(name_at(b__, p0__)->Some_0.1 == e);
    assert(rtype == spec_rtype_from(be16(b__[e], b__[e + 1])));
    assert(rdl__ == be16(b__[e + 8], b__[e + 9]) as int);
    assert(rr_at(b__, p0__) == (match rdata_end(rtype, b__, rdata_start as int, rdl__) { Some(x) => if x == rdata_start as int + rdl__ { Some(x) } else { None::<int> }, None => None::<int> }));
}"""}], "contract": """    requires old(buffer).wf(),
    ensures """ + BUF_FRAME + """
        r is Ok ==> r->Ok_0.name.wf(), // [C03,C16:decoded_name_wf]
        r is Ok ==> rr_names_wf(r->Ok_0.rtype_with_data), // [C03,C16:decoded_rdata_names_wf]
        r is Err ==> err_id(r->Err_0) == Some(id), // [C03:error_carries_id]
        r is Ok ==> rr_prefix_at(old(buffer).octets@, old(buffer).position as int) is Some, // [C03:record_header_present]
        r is Ok ==> rr_header_is(r->Ok_0, old(buffer).octets@, old(buffer).position as int), // [C03:record_header_read_as_an_independent_decoder_does]
        r is Ok ==> rr_rdata_is(r->Ok_0, old(buffer).octets@, old(buffer).position as int), // [C03,C04:rdata_read_as_an_independent_decoder_does]
        r is Ok ==> final(buffer).position == rr_end(old(buffer).octets@, old(buffer).position as int), // [C03:rdlength_equals_the_rdata_consumed]
        r is Ok <==> rr_at(old(buffer).octets@, old(buffer).position as int) is Some, // [C03:accepts_exactly_the_well_formed_records]
        r is Ok ==> final(buffer).position == rr_at(old(buffer).octets@, old(buffer).position as int)->Some_0, // [C03:record_ends_where_the_independent_reading_ends]""",
    "entry": "reveal(rr_at);"}
SPECS["Message::deserialise"] = {"props": ["C03", "C04"], "contract": """    requires old(buffer).wf(), old(buffer).position == 0,
    ensures """ + BUF_FRAME + """
        r is Ok ==> old(buffer).octets@.len() >= 12 && msg_counts_ok(r->Ok_0, old(buffer).octets@), // [C03:section_lengths_equal_header_counts]
        r is Ok ==> r->Ok_0.header == header_unpack(be16(old(buffer).octets@[0], old(buffer).octets@[1]), old(buffer).octets@[2], old(buffer).octets@[3]), // [C03,C04:header_flags_read_as_rfc1035]
        r is Err && old(buffer).octets@.len() >= 2 ==> err_id(r->Err_0) == Some(be16(old(buffer).octets@[0], old(buffer).octets@[1])), // [C03:error_carries_id]
        r is Err && old(buffer).octets@.len() < 2 ==> err_id(r->Err_0) is None,
        r is Ok <==> msg_end(old(buffer).octets@) is Some, // [C03:accepts_exactly_the_well_formed_messages]
        r is Ok ==> msg_is(r->Ok_0, old(buffer).octets@), // [C03,C04:every_question_and_record_is_the_one_at_its_place_in_its_section]""",
    "loops": {str(k): {"kw": "for", "iter_name": "it__", "spec": f"""            invariant buffer.wf(), buffer.octets == old(buffer).octets, buffer.position >= old(buffer).position,
                {v}@.len() == it__.index@, buffer.octets@.len() >= 12, header.id == be16(buffer.octets@[0], buffer.octets@[1]),
                it__.index@ <= {c}, // the part of the message still to be read decides whether the whole is well-formed
                msg_end(buffer.octets@) == {m},
                {x}"""}
              for k, (v, c, m, x) in enumerate((
                  ("questions", "qdcount", "then_rrs(buffer.octets@, then_rrs(buffer.octets@, then_rrs(buffer.octets@, questions_end(buffer.octets@, buffer.position as int, (qdcount - it__.index@) as nat), ancount as nat), nscount as nat), arcount as nat)",
                   "buffer.position == q_off(buffer.octets@, it__.index@ as nat), questions_are(questions@, buffer.octets@), // [C03,C04:every_question_and_record_is_the_one_at_its_place_in_its_section]"),
                  ("answers", "ancount", "then_rrs(buffer.octets@, then_rrs(buffer.octets@, rrs_end(buffer.octets@, buffer.position as int, (ancount - it__.index@) as nat), nscount as nat), arcount as nat)",
                   "questions@.len() == qdcount, questions_are(questions@, buffer.octets@), buffer.position == rr_off(buffer.octets@, q_off(buffer.octets@, qdcount as nat), it__.index@ as nat), rrs_are(answers@, buffer.octets@, q_off(buffer.octets@, qdcount as nat)), // [C03,C04:every_question_and_record_is_the_one_at_its_place_in_its_section]"),
                  ("authority", "nscount", "then_rrs(buffer.octets@, rrs_end(buffer.octets@, buffer.position as int, (nscount - it__.index@) as nat), arcount as nat)",
                   "questions@.len() == qdcount, answers@.len() == ancount, questions_are(questions@, buffer.octets@), rrs_are(answers@, buffer.octets@, q_off(buffer.octets@, qdcount as nat)), buffer.position == rr_off(buffer.octets@, rr_off(buffer.octets@, q_off(buffer.octets@, qdcount as nat), ancount as nat), it__.index@ as nat), rrs_are(authority@, buffer.octets@, rr_off(buffer.octets@, q_off(buffer.octets@, qdcount as nat), ancount as nat)), // [C03,C04:every_question_and_record_is_the_one_at_its_place_in_its_section]"),
                  ("additional", "arcount", "rrs_end(buffer.octets@, buffer.position as int, (arcount - it__.index@) as nat)",
                   "questions@.len() == qdcount, answers@.len() == ancount, authority@.len() == nscount, questions_are(questions@, buffer.octets@), rrs_are(answers@, buffer.octets@, q_off(buffer.octets@, qdcount as nat)), rrs_are(authority@, buffer.octets@, rr_off(buffer.octets@, q_off(buffer.octets@, qdcount as nat), ancount as nat)), buffer.position == rr_off(buffer.octets@, rr_off(buffer.octets@, rr_off(buffer.octets@, q_off(buffer.octets@, qdcount as nat), ancount as nat), nscount as nat), it__.index@ as nat), rrs_are(additional@, buffer.octets@, rr_off(buffer.octets@, rr_off(buffer.octets@, q_off(buffer.octets@, qdcount as nat), ancount as nat), nscount as nat)), // [C03,C04:every_question_and_record_is_the_one_at_its_place_in_its_section]")))}}
SPECS["Message::from_octets"] = {"props": ["C03"], "contract": """    requires octets@.len() <= 0xffff,
    ensures
        r is Ok ==> octets@.len() >= 12 && msg_counts_ok(r->Ok_0, octets@), // [C03:section_lengths_equal_header_counts]
        r is Ok ==> r->Ok_0.header == header_unpack(be16(octets@[0], octets@[1]), octets@[2], octets@[3]), // [C03,C04:header_flags_read_as_rfc1035]
        r is Err && octets@.len() >= 2 ==> err_id(r->Err_0) == Some(be16(octets@[0], octets@[1])), // [C03:error_carries_id]
        r is Err && octets@.len() < 2 ==> err_id(r->Err_0) is None, // [C03:no_id_only_below_two_bytes]
        r is Ok <==> msg_end(octets@) is Some, // [C03:accepts_exactly_the_well_formed_messages]
        r is Ok ==> msg_is(r->Ok_0, octets@), // [C03,C04:every_question_and_record_is_the_one_at_its_place_in_its_section]"""}

SPEC_RS = """
impl<'a> ConsumableBuffer<'a> {
    // the 65535 bound is the property's own quantifier (TCP maximum)
    spec fn wf(&self) -> bool { self.position <= self.octets@.len() && self.octets@.len() <= 0xffff }
}
pub open spec fn err_id(e: Error) -> Option<u16> {
    match e {
        Error::CompletelyBusted => None,
        Error::HeaderTooShort(id) => Some(id),
        Error::QuestionTooShort(id) => Some(id),
        Error::ResourceRecordTooShort(id) => Some(id),
        Error::ResourceRecordInvalid(id) => Some(id),
        Error::DomainTooShort(id) => Some(id),
        Error::DomainTooLong(id) => Some(id),
        Error::DomainPointerInvalid(id) => Some(id),
        Error::DomainLabelInvalid(id) => Some(id),
    }
}

// ---- C03 stage 2: an independent reading of a (possibly compressed) name, written from RFC 1035 sections 3.1 and 4.1.4 ----
pub open spec fn lower_seq(s: Seq<u8>) -> Seq<u8> { Seq::new(s.len(), |i: int| lower(s[i])) }
pub open spec fn onto(pre: Seq<Seq<u8>>, o: Option<(Seq<Seq<u8>>, int)>) -> Option<(Seq<Seq<u8>>, int)> {
    match o { None => None, Some(t) => Some((pre + t.0, t.1)) }
}
// the name that started at offset `start`, read on from offset `pos`: its remaining labels (lower-cased, the root label last)
// and the offset just after the name in the stream it started in.  A length octet 1..=63 introduces a label, 0 ends the name,
// an octet >= 192 together with the next octet is a pointer, which must point strictly before the start of the name; 64..=191 is invalid.
pub open spec fn spec_name(b: Seq<u8>, start: int, pos: int) -> Option<(Seq<Seq<u8>>, int)>
    decreases start, b.len() - pos
{
    if !(0 <= start <= pos < b.len()) { None }
    else {
        let size = b[pos];
        if size == 0 { Some((seq![Seq::<u8>::empty()], pos + 1)) }
        else if size <= 63 {
            if pos + 1 + size > b.len() { None }
            else { onto(seq![lower_seq(b.subrange(pos + 1, pos + 1 + size))], spec_name(b, start, pos + 1 + size)) }
        } else if size >= 192 {
            if pos + 2 > b.len() { None }
            else {
                let ptr = be16(size & 0x3f, b[pos + 1]) as int;
                if ptr >= start { None }
                else { match spec_name(b, ptr, ptr) { None => None, Some(t) => Some((t.0, pos + 2)) } }
            }
        } else { None }
    }
}
// encoded length of a label sequence: one length octet per label plus the label octets
pub open spec fn vsum(vs: Seq<Seq<u8>>) -> nat
    decreases vs.len()
{ if vs.len() == 0 { 0 } else { vsum(vs.drop_last()) + 1 + vs.last().len() } }
// "names of at most 255 octets"
pub open spec fn name_at(b: Seq<u8>, pos: int) -> Option<(Seq<Seq<u8>>, int)> {
    match spec_name(b, pos, pos) { None => None, Some(t) => if vsum(t.0) <= 255 { Some(t) } else { None } }
}
pub open spec fn vals(ls: Seq<Label>) -> Seq<Seq<u8>> { Seq::new(ls.len(), |i: int| ls[i].v()) }

pub broadcast proof fn lemma_vals_push(ls: Seq<Label>, l: Label)
    ensures #[trigger] vals(ls.push(l)) == vals(ls) + seq![l.v()]
{ assert(vals(ls.push(l)) =~= vals(ls) + seq![l.v()]); }
pub broadcast proof fn lemma_vals_concat(a: Seq<Label>, c: Seq<Label>)
    ensures #[trigger] vals(a + c) == vals(a) + vals(c)
{ assert(vals(a + c) =~= vals(a) + vals(c)); }
pub proof fn lemma_onto_onto(pre: Seq<Seq<u8>>, x: Seq<Seq<u8>>, o: Option<(Seq<Seq<u8>>, int)>)
    ensures onto(pre, onto(x, o)) == onto(pre + x, o)
{ if o is Some { assert(pre + (x + o->Some_0.0) =~= (pre + x) + o->Some_0.0); } }
pub proof fn lemma_onto_empty(o: Option<(Seq<Seq<u8>>, int)>)
    ensures onto(Seq::<Seq<u8>>::empty(), o) == o
{ if o is Some { assert(Seq::<Seq<u8>>::empty() + o->Some_0.0 =~= o->Some_0.0); } }
pub broadcast proof fn lemma_vsum_concat(a: Seq<Seq<u8>>, c: Seq<Seq<u8>>)
    ensures #[trigger] vsum(a + c) == vsum(a) + vsum(c)
    decreases c.len()
{
    if c.len() == 0 { assert(a + c =~= a); }
    else { assert((a + c).drop_last() =~= a + c.drop_last()); lemma_vsum_concat(a, c.drop_last()); }
}
pub broadcast proof fn lemma_vsum_vals(ls: Seq<Label>)
    ensures #[trigger] vsum(vals(ls)) == labels_sum(ls)
    decreases ls.len()
{
    if ls.len() > 0 { assert(vals(ls).drop_last() =~= vals(ls.drop_last())); lemma_vsum_vals(ls.drop_last()); }
}
pub broadcast group group_name_spec { lemma_vals_push, lemma_vals_concat, lemma_vsum_concat, lemma_vsum_vals }
// a question: name, then QTYPE and QCLASS (two octets each); the offset just after it
pub open spec fn question_at(b: Seq<u8>, pos: int) -> Option<int> {
    match name_at(b, pos) { None => None, Some(t) => if t.1 + 4 <= b.len() { Some(t.1 + 4) } else { None } }
}
pub open spec fn question_is(q: Question, b: Seq<u8>, pos: int) -> bool {
    let e = name_at(b, pos)->Some_0.1;
    &&& vals(q.name.labels@) == name_at(b, pos)->Some_0.0
    &&& q.qtype == spec_qtype_from(be16(b[e], b[e + 1]))
    &&& q.qclass == spec_qclass_from(be16(b[e + 2], b[e + 3]))
}
// a resource record's fixed part: name, TYPE, CLASS, TTL (4 octets), RDLENGTH; yields the offset of the RDATA
pub open spec fn rr_prefix_at(b: Seq<u8>, pos: int) -> Option<int> {
    match name_at(b, pos) { None => None, Some(t) => if t.1 + 10 <= b.len() { Some(t.1 + 10) } else { None } }
}
pub open spec fn rr_header_is(rr: ResourceRecord, b: Seq<u8>, pos: int) -> bool {
    let e = name_at(b, pos)->Some_0.1;
    &&& vals(rr.name.labels@) == name_at(b, pos)->Some_0.0
    &&& spec_rtype_of(rr.rtype_with_data) == spec_rtype_from(be16(b[e], b[e + 1]))
    &&& rr.rclass == spec_rclass_from(be16(b[e + 2], b[e + 3]))
    &&& rr.ttl == be32(b[e + 4], b[e + 5], b[e + 6], b[e + 7])
}
// "RDLENGTH equal to the RDATA actually consumed": the record ends RDLENGTH octets after its RDATA begins
pub open spec fn rr_end(b: Seq<u8>, pos: int) -> int {
    let e = name_at(b, pos)->Some_0.1;
    e + 10 + be16(b[e + 8], b[e + 9])
}
// RDATA per record type (RFC 1035 3.3 / 3.4.1, RFC 3596 AAAA, RFC 2782 SRV): the offset just after it when it is well-formed.
// For the types whose RDATA the server does not interpret (NULL, WKS, HINFO, TXT, unknown types) it is RDLENGTH opaque octets.
pub open spec fn name_end(b: Seq<u8>, p: int) -> Option<int> { match name_at(b, p) { Some(t) => Some(t.1), None => None } }
pub open spec fn fixed_end(b: Seq<u8>, p: int, n: int) -> Option<int> { if p + n <= b.len() { Some(p + n) } else { None } }
pub open spec fn then_name(b: Seq<u8>, o: Option<int>) -> Option<int> { match o { Some(p) => name_end(b, p), None => None } }
pub open spec fn then_fixed(b: Seq<u8>, o: Option<int>, n: int) -> Option<int> { match o { Some(p) => fixed_end(b, p, n), None => None } }
pub open spec fn rdata_end(t: RecordType, b: Seq<u8>, p: int, rdlength: int) -> Option<int> {
    match t {
        RecordType::A => fixed_end(b, p, 4),
        RecordType::NS => name_end(b, p),
        RecordType::MD => name_end(b, p),
        RecordType::MF => name_end(b, p),
        RecordType::CNAME => name_end(b, p),
        RecordType::SOA => then_fixed(b, then_name(b, name_end(b, p)), 20),
        RecordType::MB => name_end(b, p),
        RecordType::MG => name_end(b, p),
        RecordType::MR => name_end(b, p),
        RecordType::NULL => fixed_end(b, p, rdlength),
        RecordType::WKS => fixed_end(b, p, rdlength),
        RecordType::PTR => name_end(b, p),
        RecordType::HINFO => fixed_end(b, p, rdlength),
        RecordType::MINFO => then_name(b, name_end(b, p)),
        RecordType::MX => then_name(b, fixed_end(b, p, 2)),
        RecordType::TXT => fixed_end(b, p, rdlength),
        RecordType::AAAA => fixed_end(b, p, 16),
        RecordType::SRV => then_name(b, fixed_end(b, p, 6)),
        RecordType::Unknown(_) => fixed_end(b, p, rdlength),
    }
}
// what the RDATA of a well-formed record of type t at offset p says (same sections of the RFCs): names read as name_at reads them,
// integers big-endian, addresses from their 4 / 16 octets, uninterpreted RDATA as its RDLENGTH octets
pub open spec fn nm_is(n: DomainName, b: Seq<u8>, p: int) -> bool { vals(n.labels@) == name_at(b, p)->Some_0.0 }
pub open spec fn ne(b: Seq<u8>, p: int) -> int { name_at(b, p)->Some_0.1 }
pub open spec fn u16_at(b: Seq<u8>, p: int) -> u16 { be16(b[p], b[p + 1]) }
pub open spec fn u32_at(b: Seq<u8>, p: int) -> u32 { be32(b[p], b[p + 1], b[p + 2], b[p + 3]) }
pub open spec fn rdata_is(d: RecordTypeWithData, t: RecordType, b: Seq<u8>, p: int, rdl: int) -> bool {
    match t {
        RecordType::A => d is A && d->A_address == ipv4_of(u32_at(b, p)),
        RecordType::NS => d is NS && nm_is(d->NS_nsdname, b, p),
        RecordType::MD => d is MD && nm_is(d->MD_madname, b, p),
        RecordType::MF => d is MF && nm_is(d->MF_madname, b, p),
        RecordType::CNAME => d is CNAME && nm_is(d->CNAME_cname, b, p),
        RecordType::SOA => d is SOA && nm_is(d->SOA_mname, b, p) && nm_is(d->SOA_rname, b, ne(b, p)) && ({ let q = ne(b, ne(b, p));
            d->SOA_serial == u32_at(b, q) && d->SOA_refresh == u32_at(b, q + 4) && d->SOA_retry == u32_at(b, q + 8) && d->SOA_expire == u32_at(b, q + 12) && d->SOA_minimum == u32_at(b, q + 16) }),
        RecordType::MB => d is MB && nm_is(d->MB_madname, b, p),
        RecordType::MG => d is MG && nm_is(d->MG_mdmname, b, p),
        RecordType::MR => d is MR && nm_is(d->MR_newname, b, p),
        RecordType::NULL => d is NULL && bv(&d->NULL_octets) == b.subrange(p, p + rdl),
        RecordType::WKS => d is WKS && bv(&d->WKS_octets) == b.subrange(p, p + rdl),
        RecordType::PTR => d is PTR && nm_is(d->PTR_ptrdname, b, p),
        RecordType::HINFO => d is HINFO && bv(&d->HINFO_octets) == b.subrange(p, p + rdl),
        RecordType::MINFO => d is MINFO && nm_is(d->MINFO_rmailbx, b, p) && nm_is(d->MINFO_emailbx, b, ne(b, p)),
        RecordType::MX => d is MX && d->MX_preference == u16_at(b, p) && nm_is(d->MX_exchange, b, p + 2),
        RecordType::TXT => d is TXT && bv(&d->TXT_octets) == b.subrange(p, p + rdl),
        RecordType::AAAA => d is AAAA && d->AAAA_address == ipv6_of(u16_at(b, p), u16_at(b, p + 2), u16_at(b, p + 4), u16_at(b, p + 6), u16_at(b, p + 8), u16_at(b, p + 10), u16_at(b, p + 12), u16_at(b, p + 14)),
        RecordType::SRV => d is SRV && d->SRV_priority == u16_at(b, p) && d->SRV_weight == u16_at(b, p + 2) && d->SRV_port == u16_at(b, p + 4) && nm_is(d->SRV_target, b, p + 6),
        RecordType::Unknown(tag) => d is Unknown && d->Unknown_tag == tag && bv(&d->Unknown_octets) == b.subrange(p, p + rdl),
    }
}
pub open spec fn rr_rdata_is(rr: ResourceRecord, b: Seq<u8>, pos: int) -> bool {
    let e = name_at(b, pos)->Some_0.1;
    rdata_is(rr.rtype_with_data, spec_rtype_from(be16(b[e], b[e + 1])), b, e + 10, be16(b[e + 8], b[e + 9]) as int)
}
// a whole resource record: the offset just after it, when it is well-formed (RDLENGTH equal to the RDATA its type prescribes)
#[verifier::opaque]
pub open spec fn rr_at(b: Seq<u8>, pos: int) -> Option<int> {
    match rr_prefix_at(b, pos) {
        None => None,
        Some(p) => {
            let e = p - 10;
            let rdl = be16(b[e + 8], b[e + 9]) as int;
            match rdata_end(spec_rtype_from(be16(b[e], b[e + 1])), b, p, rdl) { Some(x) => if x == p + rdl { Some(x) } else { None }, None => None }
        }
    }
}
pub open spec fn questions_end(b: Seq<u8>, p: int, n: nat) -> Option<int>
    decreases n
{ if n == 0 { Some(p) } else { match question_at(b, p) { None => None, Some(q) => questions_end(b, q, (n - 1) as nat) } } }
pub open spec fn rrs_end(b: Seq<u8>, p: int, n: nat) -> Option<int>
    decreases n
{ if n == 0 { Some(p) } else { match rr_at(b, p) { None => None, Some(q) => rrs_end(b, q, (n - 1) as nat) } } }
pub open spec fn then_rrs(b: Seq<u8>, o: Option<int>, n: nat) -> Option<int> { match o { Some(p) => rrs_end(b, p, n), None => None } }
// a well-formed message: 12 header octets, then exactly as many questions and records per section as the header says (trailing octets are ignored)
pub open spec fn msg_end(b: Seq<u8>) -> Option<int> {
    if b.len() < 12 { None } else {
        then_rrs(b, then_rrs(b, then_rrs(b, questions_end(b, 12, be16(b[4], b[5]) as nat), be16(b[6], b[7]) as nat), be16(b[8], b[9]) as nat), be16(b[10], b[11]) as nat)
    }
}
// where the i-th question / the i-th record of a section starting at s begins, and what a decoded message is against its octets:
// every question and every record of every section is the one an independent reading finds at its place, in order
pub open spec fn q_off(b: Seq<u8>, i: nat) -> int decreases i { if i == 0 { 12 } else { question_at(b, q_off(b, (i - 1) as nat))->Some_0 } }
pub open spec fn q_from(b: Seq<u8>, s: int, i: nat) -> int decreases i { if i == 0 { s } else { question_at(b, q_from(b, s, (i - 1) as nat))->Some_0 } }
pub open spec fn rr_off(b: Seq<u8>, s: int, i: nat) -> int decreases i { if i == 0 { s } else { rr_at(b, rr_off(b, s, (i - 1) as nat))->Some_0 } }
pub open spec fn rr_is(rr: ResourceRecord, b: Seq<u8>, p: int) -> bool { rr_header_is(rr, b, p) && rr_rdata_is(rr, b, p) }
pub open spec fn questions_are(qs: Seq<Question>, b: Seq<u8>) -> bool { forall|i: int| 0 <= i < qs.len() ==> question_is(#[trigger] qs[i], b, q_off(b, i as nat)) }
pub open spec fn rrs_are(rrs: Seq<ResourceRecord>, b: Seq<u8>, s: int) -> bool { forall|i: int| 0 <= i < rrs.len() ==> rr_is(#[trigger] rrs[i], b, rr_off(b, s, i as nat)) }
pub open spec fn msg_is(m: Message, b: Seq<u8>) -> bool {
    let a0 = q_off(b, m.questions@.len());
    let n0 = rr_off(b, a0, m.answers@.len());
    let x0 = rr_off(b, n0, m.authority@.len());
    questions_are(m.questions@, b) && rrs_are(m.answers@, b, a0) && rrs_are(m.authority@, b, n0) && rrs_are(m.additional@, b, x0)
}
pub open spec fn msg_counts_ok(m: Message, o: Seq<u8>) -> bool {
    &&& o.len() >= 12
    &&& m.questions@.len() == be16(o[4], o[5])
    &&& m.answers@.len() == be16(o[6], o[7])
    &&& m.authority@.len() == be16(o[8], o[9])
    &&& m.additional@.len() == be16(o[10], o[11])
}
"""


def build(G):
    begin(G, preludes=("bytes.rs", "std.rs", "net.rs"))
    name_types(G)
    wire_types(G, conv_props=["C03"])
    T, D = G.src(TYPES), G.src(DESER)
    G.item(D, "enum", "Error")
    G.item(D, "struct", "ConsumableBuffer")
    G.file(os.path.join(PRELUDE, "wire_spec.rs"))
    G.raw(SPEC_RS, ("spec", "wire_decode spec"))
    assumed = as_assumed(NAME_SPECS, ["Label::new", "Label::len", "Label::is_empty", "Label::try_from"])
    specs = dict(SPECS)
    specs.update(assumed)
    # `start` (the offset a name begins at) is a local bound before the label loop; the loop contract is stated over
    # old(buffer).position and ties `start` to it only when the source has that shape (otherwise `start` is not in scope there)
    nd = dict(specs["DomainName::deserialise"]); lp = dict(nd["loops"]["0"])
    bound_before = re.search(r"let start = buffer\.position;\s*'outer: loop", D.s) is not None
    lp["spec"] = lp["spec"].replace("START_IS_ENTRY_POSITION", "start == old(buffer).position," if bound_before else "")
    nd["loops"] = {"0": lp}; specs["DomainName::deserialise"] = nd
    G.impl(T, "Label", ["new", "len", "is_empty"], "Label::", specs)
    G.impl(T, "TryFrom<&[u8]> for Label", ["try_from"], "Label::", specs)
    G.impl(D, "<'a> ConsumableBuffer<'a>", ["new", "next_u8", "next_u16", "next_u32", "take", "at_offset"], "ConsumableBuffer::", specs)
    G.impl(D, "Error", ["id"], "Error::", specs)
    G.impl(D, "DomainName", ["deserialise"], "DomainName::", specs)
    for t in ("QueryType", "QueryClass", "RecordType", "RecordClass"):
        G.impl(D, t, ["deserialise"], t + "::", specs)
    G.impl(D, "Header", ["deserialise"], "Header::", specs)
    G.impl(D, "Question", ["deserialise"], "Question::", specs)
    G.impl(D, "ResourceRecord", ["deserialise"], "ResourceRecord::", specs)
    G.impl(D, "Message", ["from_octets", "deserialise"], "Message::", specs)
    end(G)


CANARIES = [
    {"name": "authority_and_additional_sections_read_in_the_wrong_order", "file": DESER, "old": "        for _ in 0..nscount {\n            authority.push(ResourceRecord::deserialise(header.id, buffer)?);\n        }\n        for _ in 0..arcount {\n            additional.push(ResourceRecord::deserialise(header.id, buffer)?);\n        }", "new": "        for _ in 0..arcount {\n            additional.push(ResourceRecord::deserialise(header.id, buffer)?);\n        }\n        for _ in 0..nscount {\n            authority.push(ResourceRecord::deserialise(header.id, buffer)?);\n        }"},
    {"name": "records_pushed_to_the_front", "file": DESER, "old": "            answers.push(ResourceRecord::deserialise(header.id, buffer)?);", "new": "            answers.insert(0, ResourceRecord::deserialise(header.id, buffer)?);"},
    {"name": "soa_refresh_and_retry_swapped", "file": DESER, "old": "                refresh: buffer.next_u32().ok_or(Error::ResourceRecordTooShort(id))?,\n                retry: buffer.next_u32().ok_or(Error::ResourceRecordTooShort(id))?,", "new": "                retry: buffer.next_u32().ok_or(Error::ResourceRecordTooShort(id))?,\n                refresh: buffer.next_u32().ok_or(Error::ResourceRecordTooShort(id))?,"},
    {"name": "srv_weight_and_port_swapped", "file": DESER, "old": "                weight: buffer.next_u16().ok_or(Error::ResourceRecordTooShort(id))?,\n                port: buffer.next_u16().ok_or(Error::ResourceRecordTooShort(id))?,", "new": "                port: buffer.next_u16().ok_or(Error::ResourceRecordTooShort(id))?,\n                weight: buffer.next_u16().ok_or(Error::ResourceRecordTooShort(id))?,"},
    {"name": "minfo_mailboxes_swapped", "file": DESER, "old": "                rmailbx: DomainName::deserialise(id, buffer)?,\n                emailbx: DomainName::deserialise(id, buffer)?,", "new": "                emailbx: DomainName::deserialise(id, buffer)?,\n                rmailbx: DomainName::deserialise(id, buffer)?,"},
    {"name": "rdlength_slack_accepted", "file": DESER, "old": "if rdata_stop == rdata_start + (rdlength as usize) {", "new": "if rdata_stop <= rdata_start + (rdlength as usize) {"},
    {"name": "ttl_read_as_u16", "file": DESER, "old": "let ttl = buffer.next_u32().ok_or(Error::ResourceRecordTooShort(id))?;", "new": "let ttl = u32::from(buffer.next_u16().ok_or(Error::ResourceRecordTooShort(id))?);\n        let _ = buffer.next_u16().ok_or(Error::ResourceRecordTooShort(id))?;"},
    {"name": "question_class_before_type", "file": DESER, "old": "        let qtype = QueryType::deserialise(id, buffer)?;\n        let qclass = QueryClass::deserialise(id, buffer)?;", "new": "        let qclass = QueryClass::deserialise(id, buffer)?;\n        let qtype = QueryType::deserialise(id, buffer)?;"},
    {"name": "prefix_10_accepted_as_pointer", "file": DESER, "old": "} else if size >= 192 {", "new": "} else if size >= 128 {"},
    {"name": "pointer_offset_ignores_high_bits", "file": DESER, "old": "let hi = size & 0b0011_1111;", "new": "let hi = size & 0b0000_1111;"},
    {"name": "name_cut_at_first_pointer_target_label", "file": DESER, "old": "                labels.append(&mut other.labels);\n                break 'outer;", "new": "                labels.push(other.labels.pop().unwrap());\n                break 'outer;"},
    {"name": "ptr_ge_to_gt", "file": DESER, "old": "if ptr >= start {", "new": "if ptr > start {"},
    {"name": "u16_off_by_one", "file": DESER, "old": "if self.octets.len() > self.position + 1 {", "new": "if self.octets.len() > self.position {"},
    {"name": "drop_255_check", "file": DESER, "old": "if len <= DOMAINNAME_MAX_LEN {\n            Ok(DomainName { labels, len })", "new": "if len <= 300 {\n            Ok(DomainName { labels, len })"},
    {"name": "take_ge_to_gt", "file": DESER, "old": "if self.octets.len() >= self.position + size {", "new": "if self.octets.len() + 1 >= self.position + size {"},
    {"name": "error_wrong_id", "file": DESER, "old": "return Err(Error::DomainPointerInvalid(id));", "new": "return Err(Error::DomainPointerInvalid(0));"},
]
