"""Unit `cache` (C05, C15): TTL arithmetic, lookup, upsert and pruning of the record cache."""
from units.base import *

CACHE = "crates/dns-resolver/src/cache.rs"
RLIMIT = 20   # headroom; the unit needs < 2 s of SMT time
TRUSTED = TRUSTED_COMMON + [
    "std::time model (prelude/time.rs): Instant as a point on Z, now() arbitrary, Duration exact, Instant + Duration without overflow",
    "priority_queue::PriorityQueue<K, Reverse<Instant>> as Map<K, Instant>, pop returns a minimal instant (prelude/pq.rs, R18 shims)",
    "HashMap: vstd specs + get_mut prophecy spec + key models (prelude/hash.rs)",
]

R18 = [("R18", r"self\.(access_priority|expiry_priority)\s*\.(push|pop|remove|change_priority)\(", r"shim_pq_\2(&mut self.\1, "),
       ("R18", r"shim_pq_pop\(&mut self\.(\w+), \)", r"shim_pq_pop(&mut self.\1)"),
       ("R18", r"PriorityQueue::with_capacity\(", "shim_pq_with_capacity(")]

R19 = ("R19", r"tuples\.retain\(\|\(_, expiry\)\| expiry > &now\);", "shim_retain_unexpired(tuples, now);")
R20 = ("R20", r"partition\.records\.keys\(\)\.copied\(\)\.collect::<Vec<K2>>\(\)", "shim_hashmap_keys(&partition.records)")
R23 = ("R23", r"for \(_, e\) in tuples(?=\s)", "for (_, e) in it1__: tuples.iter()")
R21 = ("R21", r"rrs\.retain\(\|rr\| rr\.ttl > 0\);", "shim_retain_positive_ttl(&mut rrs);")

R17 = ("R17", r"for tuples in partition\.records\.values\(\)", "for tuples in itv__: shim_hashmap_values(&partition.records)")

from units.cache_upsert import UPSERT_FIXED_LOOPS, UPSERT_FIXED_ANCHORS

SHIMS = """
spec fn none_instant(o: Option<Instant>) -> bool { o is None }
// R19: `tuples.retain(|(_, expiry)| expiry > &now)`
#[verifier::external_body]
fn shim_retain_unexpired<V>(tuples: &mut Vec<(V, Instant)>, now: Instant)
    ensures final(tuples)@ == old(tuples)@.filter(|t: (V, Instant)| inst(t.1) > inst(now))
{ tuples.retain(|(_, expiry)| expiry > &now); }
// R20: `map.keys().copied().collect::<Vec<K2>>()`
#[verifier::external_body]
fn shim_hashmap_keys<K: Copy + Eq + Hash, V>(m: &HashMap<K, V>) -> (r: Vec<K>)
    ensures forall|k: K| r@.contains(k) <==> m@.contains_key(k), r@.no_duplicates()
{ m.keys().copied().collect::<Vec<K>>() }
// R21: `rrs.retain(|rr| rr.ttl > 0)`
#[verifier::external_body]
fn shim_retain_positive_ttl(rrs: &mut Vec<ResourceRecord>)
    ensures final(rrs)@ == old(rrs)@.filter(|rr: ResourceRecord| rr.ttl > 0)
{ rrs.retain(|rr| rr.ttl > 0); }
"""

SPECS = {
    "PartitionedCache::with_desired_size": {"props": ["C15"], "contract": """    requires obeys_key_model::<K1>(), obeys_key_model::<K2>(),
    ensures r.wf(), r.partitions@ == Map::<K1, Partition<K2, V>>::empty(), r.desired_size == desired_size, r.current_size == 0,""",
        "entry": "broadcast use vstd::std_specs::hash::group_hash_axioms; proof { lemma_map_sum_empty::<K1, Partition<K2, V>>(psize::<K2, V>()); }"},
    "PartitionedCache::upsert": {"props": ["C05", "C15"],
        "contract": """    requires old(self).wf(), old(self).current_size < usize::MAX, <V as PartialEqSpec>::obeys_eq_spec(), forall|a: V, b: V| #[trigger] a.eq_spec(&b) == (a == b),
        forall|a: K1, b: K1| #[trigger] call_ensures(<K1 as Clone>::clone, (&a,), b) ==> a == b,
    ensures final(self).wf(), // [C15:cache_invariants_kept_by_upsert]
        final(self).desired_size == old(self).desired_size,
        final(self).current_size <= old(self).current_size + 1,""",
        "entry": "broadcast use vstd::std_specs::hash::group_hash_axioms, axiom_borrowed_key_updated, group_time;",
        "extra_rewrites": [R23],
        "anchors": [
            {"after": "if let Some(partition) = self.partitions.get_mut(&partition_key) {", "proof": "let ghost p0 = *partition; proof { lemma_map_sum_insert(old(self).partitions@, psize::<K2, V>(), partition_key, p0); }"},
            {"after": "if let Some(tuples) = partition.records.get_mut(&record_key) {", "proof": "let ghost t0 = tuples@;"},
            {"after": "tuples.push(tuple);", "proof": "let ghost t1 = tuples@;"},
            {"after": "partition.last_read = now;", "at": "before", "proof": """proof {
    lemma_map_sum_insert(p0.records@, vlen::<(V, Instant)>(), record_key, partition.records@[record_key]);
}"""},
            {"after": "records.insert(record_key, vec![tuple]);", "nth": 1, "proof": """proof {
    lemma_map_sum_empty::<K2, Vec<(V, Instant)>>(vlen::<(V, Instant)>());
    lemma_map_sum_insert(Map::<K2, Vec<(V, Instant)>>::empty(), vlen::<(V, Instant)>(), record_key, records@[record_key]);
}"""},
            {"after": "self.current_size += 1;", "at": "before", "proof": """proof {
    lemma_map_sum_insert(old(self).partitions@, psize::<K2, V>(), partition_key, self.partitions@[partition_key]);
    let fp = self.partitions@[partition_key];
    assert(fp.size == fp.count());
    assert(forall|k: K2, i: int| #![trigger fp.records@[k]@[i]] fp.records@.contains_key(k) && 0 <= i < fp.records@[k]@.len() ==> inst(fp.next_expiry) <= inst(fp.records@[k]@[i].1)); // [C15:next_expiry_is_lower_bound]
}"""},
        ],
        "loops": {
            "0": {"kw": "for", "iter_name": "it0__", "spec": """                    invariant_except_break
                        none_instant(duplicate_expires_at), tuples@ == t0,
                        forall|j: int| 0 <= j < it0__.index@ ==> t0[j].0 != tuple.0,
                    invariant it0__.seq().len() == t0.len(), forall|j: int| 0 <= j < t0.len() ==> it0__.seq()[j] == j,
                        <V as PartialEqSpec>::obeys_eq_spec(), forall|a: V, b: V| #[trigger] a.eq_spec(&b) == (a == b),
                    ensures
                        none_instant(duplicate_expires_at) ==> tuples@ == t0 && forall|j: int| 0 <= j < t0.len() ==> t0[j].0 != tuple.0,
                        duplicate_expires_at is Some ==> exists|d: int| 0 <= d < t0.len() && t0[d].0 == tuple.0 && duplicate_expires_at == Some(#[trigger] t0[d].1)
                            && tuples@ == t0.update(d, t0.last()).drop_last(),"""},
            "1": {"kw": "for", "spec": """                            invariant
                                it1__.seq().len() == t1.len(), forall|j: int| 0 <= j < t1.len() ==> *it1__.seq()[j] == t1[j],
                                forall|j: int| 0 <= j < it1__.index@ ==> inst(new_next_expiry) <= inst(t1[j].1),
                                inst(new_next_expiry) <= inst(expiry),
                                new_next_expiry == expiry || exists|j: int| 0 <= j < it1__.index@ && new_next_expiry == #[trigger] t1[j].1,""",
                  "entry": "broadcast use group_time; assert(*it1__.seq()[it1__.index@ as int] == t1[it1__.index@ as int]); let ghost idx1__ = it1__.index@ as int; assert(*e == t1[idx1__].1);"},
        }},
}


def adapt(specs, C):
    """upsert exists in two shapes: next_expiry recomputed over the touched record type only (before fix D-g) or over the
    whole partition (after).  Same contract; the loop annotations follow the loops that are there."""
    specs = {k: dict(v) for k, v in specs.items()}
    if "recompute_next_expiry" in C.s:
        u = specs["PartitionedCache::upsert"]
        loops = {"0": u["loops"]["0"]}
        loops.update(UPSERT_FIXED_LOOPS)
        u["loops"] = loops
        u["extra_rewrites"] = [R17]
        u["anchors"] = UPSERT_FIXED_ANCHORS
    return specs


def build(G):
    begin(G, preludes=("bytes.rs", "std.rs", "net.rs", "time.rs"))
    name_types(G, tryfrom=False)
    wire_types(G, conv_props=[], conv_mode="assume")
    G.file(os.path.join(PRELUDE, "wire_spec.rs"))
    G.file(os.path.join(PRELUDE, "hash.rs"))
    G.file(os.path.join(PRELUDE, "pq.rs"))
    C = G.src(CACHE)
    G.raw("use std::hash::Hash;\nuse std::cmp::Reverse;\nuse priority_queue::PriorityQueue;")
    G.file(os.path.join(PRELUDE, "mapsum.rs"))
    G.raw(SHIMS, ("spec", "cache shims"))
    G.item(C, "struct", "PartitionedCache", drop_derive=("Clone", "Debug"), pre_attrs="#[verifier::reject_recursive_types(K1)]\n#[verifier::reject_recursive_types(K2)]")
    G.item(C, "struct", "Partition", drop_derive=("Clone", "Debug", "Eq", "PartialEq"), pre_attrs="#[verifier::reject_recursive_types(K)]")
    G.item(C, "struct", "Cache", drop_derive=("Clone", "Debug"))
    G.file(os.path.join(VERIF, "units", "cache.spec.rs"))
    specs = adapt(SPECS, C)
    for f in ("with_desired_size", "get_partition_without_checking_expiration", "get_without_checking_expiration", "upsert", "remove_expired", "prune", "remove_expired_step", "remove_least_recently_used"):
        specs.setdefault("PartitionedCache::" + f, {})
        specs["PartitionedCache::" + f] = dict(specs["PartitionedCache::" + f], rewrites=R18 + [R19, R20] + specs["PartitionedCache::" + f].get("extra_rewrites", []), depub=True)
        if f in ("remove_expired", "prune"):
            specs["PartitionedCache::" + f]["attrs"] = "#[verifier::exec_allows_no_decreases_clause]"
    G.impl(C, "<K1: Clone + Eq + Hash, K2: Copy + Eq + Hash, V: PartialEq> PartitionedCache<K1, K2, V>",
           ["with_desired_size", "upsert"],
           "PartitionedCache::", specs)
    end(G)


CANARIES = []
