"""Unit `cache` (C05, C15): TTL arithmetic, lookup, upsert and pruning of the record cache."""
from units.base import *

CACHE = "crates/dns-resolver/src/cache.rs"
RLIMIT = 20   # headroom; the unit needs < 2 s of SMT time
TRUSTED = TRUSTED_COMMON + [
    "std::time model (prelude/time.rs): Instant as a point on Z, now() arbitrary, Duration exact, Instant + Duration without overflow",
    "priority_queue::PriorityQueue<K, Reverse<Instant>> as Map<K, Instant>, pop returns a minimal instant (prelude/pq.rs, R18 shims)",
    "HashMap: vstd specs + get_mut prophecy spec + key models (prelude/hash.rs)",
]

R18 = [("R18", r"self\.(access_priority|expiry_priority)\s*\.(push|pop|remove|change_priority)\(", r"shim_pq_\2(&mut self.\1, "),
       ("R18", r"shim_pq_pop\(&mut self\.(\w+), \)", r"shim_pq_pop(&mut self.\1)"),
       ("R18", r"PriorityQueue::with_capacity\(", "shim_pq_with_capacity(")]

R19 = ("R19", r"tuples\.retain\(\|\(_, expiry\)\| expiry > &now\);", "shim_retain_unexpired(tuples, now);")
R20 = ("R20", r"partition\.records\.keys\(\)\.copied\(\)\.collect::<Vec<K2>>\(\)", "shim_hashmap_keys(&partition.records)")
R23 = ("R23", r"for \(_, e\) in tuples(?=\s)", "for (_, e) in it1__: tuples.iter()")
R21 = ("R21", r"rrs\.retain\(\|rr\| rr\.ttl > 0\);", "shim_retain_positive_ttl(&mut rrs);")

R17 = ("R17", r"for tuples in partition\.records\.values\(\)", "for tuples in itv__: shim_hashmap_values(&partition.records)")

from units.cache_upsert import UPSERT_FIXED_LOOPS, UPSERT_FIXED_ANCHORS
from units.cache_step import STEP_SPEC

SHIMS = """
pub open spec fn unexp<V>(now: Instant) -> spec_fn((V, Instant)) -> bool { |t: (V, Instant)| inst(t.1) > inst(now) }
spec fn none_instant(o: Option<Instant>) -> bool { o is None }
spec fn some_instant(o: Option<Instant>) -> Instant { o->Some_0 }
// R19: `tuples.retain(|(_, expiry)| expiry > &now)`
#[verifier::external_body]
fn shim_retain_unexpired<V>(tuples: &mut Vec<(V, Instant)>, now: Instant)
    ensures final(tuples)@ == old(tuples)@.filter(unexp::<V>(now))
{ tuples.retain(|(_, expiry)| expiry > &now); }
// R20: `map.keys().copied().collect::<Vec<K2>>()`
#[verifier::external_body]
fn shim_hashmap_keys<K: Copy + Eq + Hash, V>(m: &HashMap<K, V>) -> (r: Vec<K>)
    ensures forall|k: K| r@.contains(k) <==> m@.contains_key(k), r@.no_duplicates()
{ m.keys().copied().collect::<Vec<K>>() }
pub open spec fn positive_ttl() -> spec_fn(ResourceRecord) -> bool { |rr: ResourceRecord| rr.ttl > 0 }
// R21: `rrs.retain(|rr| rr.ttl > 0)`
#[verifier::external_body]
fn shim_retain_positive_ttl(rrs: &mut Vec<ResourceRecord>)
    ensures final(rrs)@ == old(rrs)@.filter(positive_ttl()),
        forall|j: int| 0 <= j < final(rrs)@.len() ==> old(rrs)@.contains(#[trigger] final(rrs)@[j]),
{ rrs.retain(|rr| rr.ttl > 0); }
"""

SPECS = {
    "PartitionedCache::with_desired_size": {"props": ["C15"], "contract": """    requires obeys_key_model::<K1>(), obeys_key_model::<K2>(),
    ensures r.wf(), r.partitions@ == Map::<K1, Partition<K2, V>>::empty(), r.desired_size == desired_size, r.current_size == 0,""",
        "entry": "broadcast use vstd::std_specs::hash::group_hash_axioms; proof { lemma_map_sum_empty::<K1, Partition<K2, V>>(psize::<K2, V>()); }"},
    "PartitionedCache::get_without_checking_expiration": {"props": ["C05", "C15"],
        "contract": """    requires old(self).wf(),
    ensures final(self).wf(), // [C15:cache_invariants_kept_by_lookup]
        same_records(*old(self), *final(self)), // [C05:lookup_leaves_records_unchanged]
        r is Some <==> old(self).partitions@.contains_key(*partition_key) && old(self).partitions@[*partition_key].records@.contains_key(*record_key),
        r is Some ==> r->Some_0@ == old(self).partitions@[*partition_key].records@[*record_key]@, // [C05:lookup_returns_stored_tuples]""",
        "entry": "broadcast use vstd::std_specs::hash::group_hash_axioms, axiom_borrowed_key_updated, group_time;",
        "anchors": [{"after": "if let Some(partition) = self.partitions.get_mut(partition_key) {", "proof": "let ghost p0 = *partition; proof { lemma_map_sum_insert(old(self).partitions@, psize::<K2, V>(), *partition_key, p0); }"},
                    {"after": "return Some(tuples);", "at": "before", "proof": "proof { lemma_map_sum_insert(old(self).partitions@, psize::<K2, V>(), *partition_key, *partition); }"}]},
    "PartitionedCache::get_partition_without_checking_expiration": {"props": ["C05", "C15"],
        "contract": """    requires old(self).wf(),
    ensures final(self).wf(), // [C15:cache_invariants_kept_by_lookup]
        same_records(*old(self), *final(self)), // [C05:lookup_leaves_records_unchanged]
        r is Some <==> old(self).partitions@.contains_key(*partition_key),
        r is Some ==> r->Some_0@ == old(self).partitions@[*partition_key].records@, // [C05:lookup_returns_stored_tuples]""",
        "entry": "broadcast use vstd::std_specs::hash::group_hash_axioms, axiom_borrowed_key_updated, group_time;",
        "anchors": [{"after": "if let Some(partition) = self.partitions.get_mut(partition_key) {", "proof": "let ghost p0 = *partition; proof { lemma_map_sum_insert(old(self).partitions@, psize::<K2, V>(), *partition_key, p0); }"},
                    {"after": "return Some(&partition.records);", "at": "before", "proof": "proof { lemma_map_sum_insert(old(self).partitions@, psize::<K2, V>(), *partition_key, *partition); }"}]},
    "to_rrs": {"props": ["C05"],
        "contract": """    ensures final(rrs)@ == old(rrs)@ + Seq::new(tuples@.len(), |i: int| rr_of(*name, tuples@[i], now)), // [C05:ttl_is_time_left_data_unchanged]""",
        "loops": {"0": {"kw": "for", "iter_name": "itt__", "spec": """        invariant
            itt__.seq().len() == tuples@.len(), forall|j: int| 0 <= j < tuples@.len() ==> *itt__.seq()[j] == tuples@[j],
            rrs@ == old(rrs)@ + Seq::new(itt__.index@ as nat, |i: int| rr_of(*name, tuples@[i], now)),""",
            "entry": "broadcast use group_time; let ghost idx = itt__.index@ as int; assert(*itt__.seq()[idx] == tuples@[idx]);"}},
        "anchors": [{"after": "                .unwrap_or(u32::MAX),\n        });", "proof": """assert(rrs@ =~= old(rrs)@ + Seq::new((idx + 1) as nat, |i: int| rr_of(*name, tuples@[i], now)));"""}]},
    "Cache::get_without_checking_expiration": {"props": ["C05"], "extra_rewrites": [("R17", r"for tuples in records\.values\(\)", "for tuples in itv__: shim_hashmap_values(records)")],
        "contract": """    requires old(self).inner.wf(),
    ensures final(self).inner.wf(), same_records(old(self).inner, final(self).inner), // [C05:lookup_leaves_records_unchanged]
        typed_map(old(self).inner.partitions@) ==> typed_map(final(self).inner.partitions@),
        exists|now: Instant| is_now(now) && #[trigger] lookup_result(r@, old(self).inner.partitions@, *name, qtype, now), // [C05:lookup_returns_stored_records_with_time_left]
        typed_map(old(self).inner.partitions@) ==> forall|x: int| 0 <= x < r@.len() ==> qmatch(spec_rtype_of((#[trigger] r@[x]).rtype_with_data), qtype), // [C10:typed_lookup_returns_records_of_the_asked_type]
        forall|x: int| 0 <= x < r@.len() ==> (#[trigger] r@[x]).name == *name, // [C05,C10:lookup_returns_records_owned_by_the_asked_name]""",
        "loops": {"0": {"kw": "for", "spec": """                        invariant
                            values_of(recs_g, itv__.seq()),
                            all_named(rrs@, *name),
                            forall|j: int, i: int| #![trigger itv__.seq()[j]@[i]] 0 <= j < itv__.index@ && 0 <= i < itv__.seq()[j]@.len() ==> rrs@.contains(rr_of(*name, itv__.seq()[j]@[i], now)),
                            forall|x: int| 0 <= x < rrs@.len() ==> exists|j: int, i: int| 0 <= j < itv__.index@ && 0 <= i < itv__.seq()[j]@.len() && #[trigger] rrs@[x] == rr_of(*name, #[trigger] itv__.seq()[j]@[i], now),
                            itv__.index@ == itv__.seq().len() ==> any_cached(rrs@, recs_g, *name, now),""",
            "entry": "let ghost before__ = rrs@; let ghost idx = itv__.index@ as int;"}},
        "anchors": [
            {"after": "            _ => (),\n        }", "proof": """proof {
    match qtype {
        QueryType::Record(t) => { assert(lookup_result(rrs@, old(self).inner.partitions@, *name, qtype, now)); }
        QueryType::Wildcard => { assert(lookup_result(rrs@, old(self).inner.partitions@, *name, qtype, now)); }
        _ => { assert(lookup_result(rrs@, old(self).inner.partitions@, *name, qtype, now)); }
    }
    if typed_map(old(self).inner.partitions@) {
        lemma_typed_same(old(self).inner, self.inner);
        let parts = old(self).inner.partitions@;
        assert forall|x: int| 0 <= x < rrs@.len() implies qmatch(spec_rtype_of((#[trigger] rrs@[x]).rtype_with_data), qtype) by {
            if let QueryType::Record(t) = qtype {
                assert(parts.contains_key(*name) && has_tuple(parts[*name].records@, t, x));
                assert(rrs@[x] == rr_of(*name, parts[*name].records@[t]@[x], now));
            }
        }
    }
}"""},
            {"after": "if let Some(records) = self.inner.get_partition_without_checking_expiration(name) {", "proof": "let ghost recs_g = records@;"},
            {"after": "to_rrs(name, now, tuples, &mut rrs);", "nth": 0, "proof": """proof {
    let add = Seq::new(tuples@.len(), |i: int| rr_of(*name, tuples@[i], now));
    assert(rrs@ == before__ + add);
    assert forall|j: int, i: int| 0 <= j < idx + 1 && 0 <= i < itv__.seq()[j]@.len() implies rrs@.contains(rr_of(*name, #[trigger] itv__.seq()[j]@[i], now)) by {
        if j < idx {
            let w = choose|w: int| 0 <= w < before__.len() && before__[w] == rr_of(*name, itv__.seq()[j]@[i], now);
            assert(rrs@[w] == before__[w]);
        } else { assert(rrs@[before__.len() + i] == add[i]); }
    }
    assert forall|x: int| 0 <= x < rrs@.len() implies exists|j: int, i: int| 0 <= j < idx + 1 && 0 <= i < itv__.seq()[j]@.len() && #[trigger] rrs@[x] == rr_of(*name, #[trigger] itv__.seq()[j]@[i], now) by {
        if x < before__.len() {
            assert(rrs@[x] == before__[x]);
            let (j, i) = choose|j: int, i: int| 0 <= j < idx && 0 <= i < itv__.seq()[j]@.len() && #[trigger] before__[x] == rr_of(*name, #[trigger] itv__.seq()[j]@[i], now);
            assert(rrs@[x] == rr_of(*name, itv__.seq()[j]@[i], now));
        } else {
            let i = x - before__.len();
            assert(rrs@[x] == add[i]);
            assert(rrs@[x] == rr_of(*name, itv__.seq()[idx]@[i], now));
        }
    }
}
assert(idx + 1 == itv__.seq().len() ==> any_cached(rrs@, recs_g, *name, now)) by {
    if idx + 1 == itv__.seq().len() {
        assert forall|t: RecordType, i: int| #![trigger recs_g[t]@[i]] recs_g.contains_key(t) && 0 <= i < recs_g[t]@.len() implies rrs@.contains(rr_of(*name, recs_g[t]@[i], now)) by {
            let j = lemma_values_of_key(recs_g, itv__.seq(), t);
            assert(itv__.seq()[j]@[i] == recs_g[t]@[i]);
        }
        assert forall|x: int| 0 <= x < rrs@.len() implies exists|t: RecordType, i: int| recs_g.contains_key(t) && 0 <= i < recs_g[t]@.len() && #[trigger] rrs@[x] == rr_of(*name, #[trigger] recs_g[t]@[i], now) by {
            let (j, i) = choose|j: int, i: int| 0 <= j < idx + 1 && 0 <= i < itv__.seq()[j]@.len() && #[trigger] rrs@[x] == rr_of(*name, #[trigger] itv__.seq()[j]@[i], now);
            let t = lemma_values_of_index(recs_g, itv__.seq(), j);
            assert(rrs@[x] == rr_of(*name, recs_g[t]@[i], now));
        }
    }
}"""},
        ]},
    "Cache::get": {"props": ["C05"], "extra_rewrites": [R21],
        "contract": """    requires old(self).inner.wf(),
    ensures final(self).inner.wf(), same_records(old(self).inner, final(self).inner),
        forall|j: int| 0 <= j < r@.len() ==> (#[trigger] r@[j]).ttl > 0, // [C05:never_serves_a_record_with_no_time_left]
        exists|now: Instant, all: Seq<ResourceRecord>| is_now(now) && #[trigger] lookup_result(all, old(self).inner.partitions@, *name, qtype, now)
            && r@ == all.filter(positive_ttl()), // [C05:serves_exactly_the_stored_records_with_time_left]
        forall|j: int| 0 <= j < r@.len() ==> (#[trigger] r@[j]).name == *name, // [C05,C10:lookup_returns_records_owned_by_the_asked_name]
        typed_map(old(self).inner.partitions@) ==> typed_map(final(self).inner.partitions@),
        typed_map(old(self).inner.partitions@) ==> forall|x: int| 0 <= x < r@.len() ==> qmatch(spec_rtype_of((#[trigger] r@[x]).rtype_with_data), qtype), // [C10:typed_lookup_returns_records_of_the_asked_type]""",
        "anchors": [{"after": "let mut rrs = self.get_without_checking_expiration(name, qtype);", "proof": "let ghost all__ = rrs@;"},
                    {"after": "rrs.retain(|rr| rr.ttl > 0);", "proof": """proof {
    if typed_map(old(self).inner.partitions@) {
        assert forall|x: int| 0 <= x < rrs@.len() implies qmatch(spec_rtype_of((#[trigger] rrs@[x]).rtype_with_data), qtype) by {
            assert(all__.contains(rrs@[x]));
            let w = choose|w: int| 0 <= w < all__.len() && all__[w] == rrs@[x];
        }
    }
}"""}]},
    "Cache::insert": {"props": ["C05", "C15", "C10"],
        "contract": """    requires old(self).inner.wf(), old(self).inner.current_size < usize::MAX,
    ensures final(self).inner.wf(), final(self).inner.desired_size == old(self).inner.desired_size,
        typed_map(old(self).inner.partitions@) ==> typed_map(final(self).inner.partitions@), // [C10:records_are_filed_under_their_own_type]
        forall|k: DomainName| k != record.name ==> (#[trigger] final(self).inner.partitions@.contains_key(k) <==> old(self).inner.partitions@.contains_key(k)), // [C05:inserting_a_record_leaves_other_names_untouched]
        forall|k: DomainName| k != record.name && old(self).inner.partitions@.contains_key(k) ==> (#[trigger] final(self).inner.partitions@[k]).records == old(self).inner.partitions@[k].records, // [C05:inserting_a_record_leaves_other_names_untouched]
        final(self).inner.partitions@.contains_key(record.name),
        exists|now: Instant, e: Instant, d: Option<int>| #[trigger] is_now(now) && inst(e) == inst(now) + record.ttl * 1_000_000_000
            && #[trigger] upsert_recs(recs_or_empty(old(self).inner.partitions@, record.name), final(self).inner.partitions@[record.name].records@, spec_rtype_of(record.rtype_with_data), (record.rtype_with_data, e), d)
            && dup_ok(recs_or_empty(old(self).inner.partitions@, record.name), spec_rtype_of(record.rtype_with_data), record.rtype_with_data, d), // [C05:a_record_is_cached_under_its_name_and_type_with_its_data_for_its_ttl_in_seconds]""",
        "entry": "broadcast use axiom_rtd_eq, axiom_rtd_obeys;",
        "anchors": [{"after_re": r"\}\s*$", "at": "before", "proof": """proof {
    if typed_map(old(self).inner.partitions@) {
        let (e, d) = choose|e: Instant, d: Option<int>| #[trigger] upsert_recs(recs_or_empty(old(self).inner.partitions@, record.name), self.inner.partitions@[record.name].records@, spec_rtype_of(record.rtype_with_data), (record.rtype_with_data, e), d);
        lemma_typed_upsert(old(self).inner.partitions@, self.inner.partitions@, record.name, spec_rtype_of(record.rtype_with_data), (record.rtype_with_data, e), d);
    }
}"""}]},
    "Cache::prune": {"props": ["C15", "C05"],
        "contract": """    requires old(self).inner.wf(),
    ensures final(self).inner.wf(),
        live_kept(old(self).inner.partitions@, final(self).inner.partitions@), // [C05:unexpired_records_survive_unless_their_name_is_evicted]
        typed_map(old(self).inner.partitions@) ==> typed_map(final(self).inner.partitions@), // [C10:records_are_filed_under_their_own_type]
        r.0 == (old(self).inner.current_size > old(self).inner.desired_size), r.1 == final(self).inner.current_size,
        r.2 + r.3 == old(self).inner.current_size - final(self).inner.current_size,
        final(self).inner.current_size <= old(self).inner.desired_size, clean(final(self).inner),""",
        "entry": "broadcast use lemma_typed_subset_b;"},
    "PartitionedCache::remove_least_recently_used": {"props": ["C15", "C05"],
        "contract": """    requires old(self).wf(),
    ensures final(self).wf(), // [C15:cache_invariants_kept_by_eviction]
        final(self).desired_size == old(self).desired_size,
        r == old(self).current_size - final(self).current_size, // [C15:eviction_reports_true_count]
        clean(*old(self)) ==> clean(*final(self)), // [C15:eviction_removes_only]
        live_kept(old(self).partitions@, final(self).partitions@), // [C05:eviction_drops_whole_names_and_nothing_else]
        forall|k: K1| #[trigger] final(self).partitions@.contains_key(k) ==> old(self).partitions@.contains_key(k),
        (forall|k: K1| !old(self).partitions@.contains_key(k)) ==> r == 0 && final(self).partitions@ == old(self).partitions@,
        (exists|k: K1| old(self).partitions@.contains_key(k)) ==> r > 0 && exists|k: K1| #[trigger] old(self).partitions@.contains_key(k)
            && final(self).partitions@ == old(self).partitions@.remove(k) && r == old(self).partitions@[k].size
            && forall|k2: K1| #[trigger] old(self).partitions@.contains_key(k2) ==> inst(old(self).partitions@[k].last_read) <= inst(old(self).partitions@[k2].last_read), // [C15:evicts_whole_least_recently_used_name]""",
        "entry": "broadcast use vstd::std_specs::hash::group_hash_axioms;",
        "anchors": [{"after": "if let Some(partition) = self.partitions.remove(&partition_key) {", "proof": """proof {
    lemma_map_sum_remove(old(self).partitions@, psize::<K2, V>(), partition_key);
    if clean(*old(self)) { lemma_clean_remove(old(self).partitions@, partition_key); }
    lemma_live_kept_remove(old(self).partitions@, partition_key);
}"""}],
        "entry": "broadcast use vstd::std_specs::hash::group_hash_axioms; proof { lemma_live_kept_refl(old(self).partitions@); }"},
    "PartitionedCache::remove_expired_step": STEP_SPEC,
    "PartitionedCache::remove_expired": {"props": ["C15", "C05"],
        "contract": """    requires old(self).wf(),
    ensures final(self).wf(), // [C05,C15:cache_invariants_kept_by_expiry]
        final(self).desired_size == old(self).desired_size,
        r == old(self).current_size - final(self).current_size, // [C15:expiry_reports_true_count]
        clean(*final(self)), // [C15:no_expired_record_left]
        live_kept(old(self).partitions@, final(self).partitions@) && live_names_kept(old(self).partitions@, final(self).partitions@), // [C05:unexpired_records_survive_expiry]
        forall|k: K1| #[trigger] final(self).partitions@.contains_key(k) ==> old(self).partitions@.contains_key(k),""",
        "entry": "proof { lemma_live_kept_refl(old(self).partitions@); }",
        "loops": {"0": {"kw": "loop", "spec": """            invariant
                self.wf(), self.desired_size == old(self).desired_size,
                pruned == old(self).current_size - self.current_size,
                live_kept(old(self).partitions@, self.partitions@), live_names_kept(old(self).partitions@, self.partitions@),
                forall|k: K1| #[trigger] self.partitions@.contains_key(k) ==> old(self).partitions@.contains_key(k),
            ensures
                clean(*self),
            decreases self.current_size,""", "entry": "let ghost mb__ = self.partitions@;"}},
        "anchors": [{"after": "pruned += self.remove_expired_step();", "proof": """proof {
    lemma_live_kept_step(mb__, self.partitions@);
    lemma_live_kept_trans(old(self).partitions@, mb__, self.partitions@);
    lemma_live_names_trans(old(self).partitions@, mb__, self.partitions@);
}"""}]},
    "PartitionedCache::prune": {"props": ["C15", "C05"],
        "contract": """    requires old(self).wf(),
    ensures final(self).wf(), // [C15:cache_invariants_kept_by_prune]
        r.0 == (old(self).current_size > old(self).desired_size), // [C15:prune_reports_overflow]
        r.1 == final(self).current_size, // [C15:prune_reports_remaining]
        r.2 + r.3 == old(self).current_size - final(self).current_size, // [C15:prune_reports_true_counts]
        final(self).current_size <= old(self).desired_size, // [C15:no_more_than_configured_size]
        r.3 > 0 ==> old(self).current_size - r.2 > old(self).desired_size, // [C15:evicts_only_while_over_size]
        clean(*final(self)), // [C15:no_expired_record_left]
        live_kept(old(self).partitions@, final(self).partitions@), // [C05:unexpired_records_survive_unless_their_name_is_evicted]""",
        "loops": {"0": {"kw": "while", "spec": """            invariant
                self.wf(), self.desired_size == old(self).desired_size,
                live_kept(old(self).partitions@, self.partitions@), forall|k: K1| #[trigger] self.partitions@.contains_key(k) ==> old(self).partitions@.contains_key(k),
                num_pruned == old(self).current_size - num_expired - self.current_size,
                num_pruned > 0 ==> old(self).current_size - num_expired > old(self).desired_size,
                clean(*self),
            decreases self.current_size,""",
            "entry": "proof { if self.current_size > 0 { lemma_nonempty_if_positive(*self); } } let ghost mb__ = self.partitions@;"}},
        "anchors": [{"after": "num_pruned += self.remove_least_recently_used();", "proof": "proof { lemma_live_kept_trans(old(self).partitions@, mb__, self.partitions@); }"}],
},
    "PartitionedCache::upsert": {"props": ["C05", "C15"],
        "contract": """    requires old(self).wf(), old(self).current_size < usize::MAX, <V as PartialEqSpec>::obeys_eq_spec(), forall|a: V, b: V| #[trigger] a.eq_spec(&b) == (a == b),
        forall|a: K1, b: K1| #[trigger] call_ensures(<K1 as Clone>::clone, (&a,), b) ==> a == b,
    ensures final(self).wf(), // [C15:cache_invariants_kept_by_upsert]
        final(self).desired_size == old(self).desired_size,
        final(self).current_size <= old(self).current_size + 1,
        forall|k: K1| k != partition_key ==> (#[trigger] final(self).partitions@.contains_key(k) <==> old(self).partitions@.contains_key(k)), // [C05:other_names_untouched]
        forall|k: K1| k != partition_key && old(self).partitions@.contains_key(k) ==> (#[trigger] final(self).partitions@[k]).records == old(self).partitions@[k].records, // [C05:other_names_untouched]
        final(self).partitions@.contains_key(partition_key),
        exists|now: Instant, e: Instant, d: Option<int>| #[trigger] is_now(now) && inst(e) == inst(now) + dur(ttl)
            && #[trigger] upsert_recs(recs_or_empty(old(self).partitions@, partition_key), final(self).partitions@[partition_key].records@, record_key, (value, e), d)
            && dup_ok(recs_or_empty(old(self).partitions@, partition_key), record_key, value, d), // [C05:reinsert_restarts_lifetime_without_duplicate]""",
        "entry": "broadcast use vstd::std_specs::hash::group_hash_axioms, axiom_borrowed_key_updated, group_time;",
        "extra_rewrites": [R23],
        "anchors": [
            {"after": "if let Some(partition) = self.partitions.get_mut(&partition_key) {", "proof": "let ghost p0 = *partition; proof { lemma_map_sum_insert(old(self).partitions@, psize::<K2, V>(), partition_key, p0); }"},
            {"after": "if let Some(tuples) = partition.records.get_mut(&record_key) {", "proof": "let ghost t0 = tuples@;"},
            {"after": "tuples.push(tuple);", "proof": "let ghost t1 = tuples@;"},
            {"after": "partition.last_read = now;", "at": "before", "proof": """proof {
    lemma_map_sum_insert(p0.records@, vlen::<(V, Instant)>(), record_key, partition.records@[record_key]);
}"""},
            {"after": "records.insert(record_key, vec![tuple]);", "nth": 1, "proof": """proof {
    lemma_map_sum_empty::<K2, Vec<(V, Instant)>>(vlen::<(V, Instant)>());
    lemma_map_sum_insert(Map::<K2, Vec<(V, Instant)>>::empty(), vlen::<(V, Instant)>(), record_key, records@[record_key]);
}"""},
            {"after": "self.current_size += 1;", "at": "before", "proof": """proof {
    lemma_map_sum_insert(old(self).partitions@, psize::<K2, V>(), partition_key, self.partitions@[partition_key]);
    let fp = self.partitions@[partition_key];
    assert(fp.size == fp.count());
    assert(forall|k: K2, i: int| #![trigger fp.records@[k]@[i]] fp.records@.contains_key(k) && 0 <= i < fp.records@[k]@.len() ==> inst(fp.next_expiry) <= inst(fp.records@[k]@[i].1)); // [C15:next_expiry_is_lower_bound]
}"""},
        ],
        "loops": {
            "0": {"kw": "for", "iter_name": "it0__", "spec": """                    invariant_except_break
                        none_instant(duplicate_expires_at), tuples@ == t0,
                        forall|j: int| 0 <= j < it0__.index@ ==> t0[j].0 != tuple.0,
                    invariant it0__.seq().len() == t0.len(), forall|j: int| 0 <= j < t0.len() ==> it0__.seq()[j] == j,
                        <V as PartialEqSpec>::obeys_eq_spec(), forall|a: V, b: V| #[trigger] a.eq_spec(&b) == (a == b),
                    ensures
                        none_instant(duplicate_expires_at) ==> tuples@ == t0 && forall|j: int| 0 <= j < t0.len() ==> t0[j].0 != tuple.0,
                        duplicate_expires_at is Some ==> exists|d: int| 0 <= d < t0.len() && t0[d].0 == tuple.0 && duplicate_expires_at == Some(#[trigger] t0[d].1)
                            && tuples@ == t0.update(d, t0.last()).drop_last(),"""},
            "1": {"kw": "for", "spec": """                            invariant
                                it1__.seq().len() == t1.len(), forall|j: int| 0 <= j < t1.len() ==> *it1__.seq()[j] == t1[j],
                                forall|j: int| 0 <= j < it1__.index@ ==> inst(new_next_expiry) <= inst(t1[j].1),
                                inst(new_next_expiry) <= inst(expiry),
                                new_next_expiry == expiry || exists|j: int| 0 <= j < it1__.index@ && new_next_expiry == #[trigger] t1[j].1,""",
                  "entry": "broadcast use group_time; assert(*it1__.seq()[it1__.index@ as int] == t1[it1__.index@ as int]); let ghost idx1__ = it1__.index@ as int; assert(*e == t1[idx1__].1);"},
        }},
}


def adapt(specs, C):
    """upsert exists in two shapes: next_expiry recomputed over the touched record type only (before fix D-g) or over the
    whole partition (after).  Same contract; the loop annotations follow the loops that are there."""
    specs = {k: dict(v) for k, v in specs.items()}
    if "recompute_next_expiry" in C.s:
        u = specs["PartitionedCache::upsert"]
        loops = {"0": u["loops"]["0"]}
        loops.update(UPSERT_FIXED_LOOPS)
        u["loops"] = loops
        u["extra_rewrites"] = [R17]
        u["anchors"] = UPSERT_FIXED_ANCHORS
    return specs


def build(G):
    begin(G, preludes=("bytes.rs", "std.rs", "net.rs", "time.rs"))
    name_types(G, tryfrom=False)
    wire_types(G, conv_props=[], conv_mode="assume")
    G.file(os.path.join(PRELUDE, "wire_spec.rs"))
    G.file(os.path.join(PRELUDE, "hash.rs"))
    G.file(os.path.join(PRELUDE, "pq.rs"))
    C = G.src(CACHE)
    G.raw("use std::hash::Hash;\nuse std::cmp::Reverse;\nuse priority_queue::PriorityQueue;")
    G.file(os.path.join(PRELUDE, "mapsum.rs"))
    G.raw(SHIMS, ("spec", "cache shims"))
    G.item(C, "struct", "PartitionedCache", drop_derive=("Clone", "Debug"), pre_attrs="#[verifier::reject_recursive_types(K1)]\n#[verifier::reject_recursive_types(K2)]")
    G.item(C, "struct", "Partition", drop_derive=("Clone", "Debug", "Eq", "PartialEq"), pre_attrs="#[verifier::reject_recursive_types(K)]")
    G.item(C, "struct", "Cache", drop_derive=("Clone", "Debug"))
    G.raw(ALL_NAMED_RS, ("spec", "all_named"))
    G.raw(QMATCH_RS, ("spec", "qmatch"))
    G.file(os.path.join(VERIF, "units", "cache.spec.rs"))
    specs = adapt(SPECS, C)
    for f in ("with_desired_size", "get_partition_without_checking_expiration", "get_without_checking_expiration", "upsert", "remove_expired", "prune", "remove_expired_step", "remove_least_recently_used"):
        specs.setdefault("PartitionedCache::" + f, {})
        specs["PartitionedCache::" + f] = dict(specs["PartitionedCache::" + f], rewrites=R18 + [R19, R20] + specs["PartitionedCache::" + f].get("extra_rewrites", []), depub=True)
    G.impl(C, "<K1: Clone + Eq + Hash, K2: Copy + Eq + Hash, V: PartialEq> PartitionedCache<K1, K2, V>",
           ["with_desired_size", "get_partition_without_checking_expiration", "get_without_checking_expiration", "upsert", "remove_expired", "prune", "remove_expired_step", "remove_least_recently_used"],
           "PartitionedCache::", specs)
    T = G.src(TYPES)
    specs["RecordTypeWithData::rtype"] = {"mode": "assume", "props": [], "contract": "    ensures r == spec_rtype_of(*self),"}
    G.impl(T, "RecordTypeWithData", ["rtype"], "RecordTypeWithData::", specs)
    G.top_fn(C, "to_rrs", specs)
    for f in ("get", "get_without_checking_expiration", "insert", "prune"):
        specs["Cache::" + f] = dict(specs["Cache::" + f], rewrites=specs["Cache::" + f].get("extra_rewrites", []), depub=True)
    G.impl(C, "Cache", ["get", "get_without_checking_expiration", "insert", "prune"], "Cache::", specs)
    # SharedCache: R9 stand-in for Arc<Mutex<Cache>>: `lock()` yields exclusive access to the one Cache; the guard's `insert` is
    # Cache::insert with the property's clause as a call-site obligation (a TTL-zero record is never handed to the cache)
    G.raw("""#[verifier::external_body]
pub struct SharedCache { cache: std::sync::Arc<std::sync::Mutex<Cache>> }
pub struct LockedCache { pub g: u8, pub log: Ghost<Seq<ResourceRecord>> }
// the records of a list that the shared cache stores: those with a positive TTL, in order
pub open spec fn live_records(s: Seq<ResourceRecord>) -> Seq<ResourceRecord> decreases s.len() {
    if s.len() == 0 { Seq::empty() } else if s.last().ttl > 0 { live_records(s.drop_last()).push(s.last()) } else { live_records(s.drop_last()) }
}
impl LockedCache {
    #[verifier::external_body]
    pub fn insert(&mut self, record: &ResourceRecord)
        requires record.ttl > 0, // [C05:shared_cache_never_stores_ttl_zero]
        ensures final(self).log@ == old(self).log@.push(*record),
    { unimplemented!() }
    // Cache::get as proved above (the clause the resolver relies on)
    #[verifier::external_body]
    pub fn get(&mut self, name: &DomainName, qtype: QueryType) -> (r: Vec<ResourceRecord>)
        ensures all_named(r@, *name), forall|j: int| 0 <= j < r@.len() ==> (#[trigger] r@[j]).ttl > 0,
            // the Cache behind the lock satisfies wf and typed_map (established by Cache::new, kept by every Cache operation: lock invariant)
            forall|x: int| 0 <= x < r@.len() ==> qmatch(spec_rtype_of((#[trigger] r@[x]).rtype_with_data), qtype),
    { unimplemented!() }
}
#[verifier::external_body]
fn shim_lock_cache(c: &SharedCache) -> (r: LockedCache) ensures r.log@ == Seq::<ResourceRecord>::empty() { unimplemented!() }""", ("spec", "SharedCache stand-in (R9)"))
    r9 = [("R9", r"self\.cache\.lock\(\)\.expect\(MUTEX_POISON_MESSAGE\)", "shim_lock_cache(self)")]
    # R50: a function whose only effect is on the lock-guarded stand-in hands back the stand-in's ghost log of insertions, so that
    # its contract can say what was stored (the real function returns nothing)
    specs["SharedCache::insert"] = {"props": ["C05"], "rewrites": r9, "ret": "log__",
        "header_rewrites": [("R50", r"record: &ResourceRecord\)", "record: &ResourceRecord) -> Ghost<Seq<ResourceRecord>>")],
        "contract": """    ensures log__@ == (if record.ttl > 0 { seq![*record] } else { Seq::<ResourceRecord>::empty() }), // [C05:the_shared_cache_stores_a_record_exactly_when_its_ttl_is_positive]""",
        "entry": "let ghost mut stored__: Seq<ResourceRecord> = Seq::empty();",
        "anchors": [{"after_re": r"\}\s*\}\s*$", "at": "before", "proof": "proof { stored__ = cache.log@; assert(stored__ =~= seq![*record]); }"},
                    {"after_re": r"\}\s*$", "at": "before", "proof": "Ghost(stored__)"}]}
    specs["SharedCache::insert_all"] = {"props": ["C05"], "rewrites": r9, "ret": "log__",
        "header_rewrites": [("R50", r"records: &\[ResourceRecord\]\)", "records: &[ResourceRecord]) -> Ghost<Seq<ResourceRecord>>")],
        "contract": """    ensures log__@ == live_records(records@), // [C05:the_shared_cache_stores_exactly_the_records_with_a_positive_ttl]""",
        "loops": {"0": {"kw": "for", "iter_name": "it__", "spec": """            invariant cache.log@ == live_records(records@.take(it__.index@ as int)), // [C05:the_shared_cache_stores_exactly_the_records_with_a_positive_ttl]""",
                        "entry": "proof { let k = it__.index@ as int; assert(records@.take(k + 1).drop_last() =~= records@.take(k)); assert(records@.take(k + 1).last() == *record); }"}},
        "anchors": [{"after_re": r"\}\s*$", "at": "before", "proof": "proof { assert(records@.take(records@.len() as int) =~= records@); }\nGhost(cache.log@)"}]}
    specs["SharedCache::get"] = {"props": ["C05", "C10"], "rewrites": [("R9", r"self\.cache\s*\.lock\(\)\s*\.expect\(MUTEX_POISON_MESSAGE\)", "shim_lock_cache(self)")], "contract": """    ensures all_named(r@, *name), // [C05,C10:lookup_returns_records_owned_by_the_asked_name]
        forall|j: int| 0 <= j < r@.len() ==> (#[trigger] r@[j]).ttl > 0, // [C05:never_serves_a_record_with_no_time_left]
        forall|x: int| 0 <= x < r@.len() ==> qmatch(spec_rtype_of((#[trigger] r@[x]).rtype_with_data), qtype), // [C10:typed_lookup_returns_records_of_the_asked_type]"""}
    G.impl(C, "SharedCache", ["get", "insert", "insert_all"], "SharedCache::", specs)
    end(G)


CANARIES = [
    {"name": "shared_cache_skips_ttl_one", "file": CACHE, "old": "        if record.ttl > 0 {\n            let mut cache", "new": "        if record.ttl > 1 {\n            let mut cache"},
    {"name": "insert_all_stops_at_first_dead_record", "file": CACHE, "old": "            if record.ttl > 0 {\n                cache.insert(record);\n            }", "new": "            if record.ttl > 0 {\n                cache.insert(record);\n            } else {\n                break;\n            }"},
    {"name": "ttl_halved_on_insert", "file": CACHE, "old": "            Duration::from_secs(record.ttl.into()),", "new": "            Duration::from_secs((record.ttl / 2).into()),"},
    {"name": "record_filed_under_type_a", "file": CACHE, "old": "            record.rtype_with_data.rtype(),\n            record.rtype_with_data.clone(),", "new": "            RecordType::A,\n            record.rtype_with_data.clone(),"},
    {"name": "lru_keeps_expiry_entry", "file": CACHE, "old": "            self.expiry_priority.remove(&partition_key);\n", "new": ""},
    {"name": "prune_stops_early", "file": CACHE, "old": "while self.current_size > self.desired_size {", "new": "while self.current_size > self.desired_size + 1 {"},
    {"name": "prune_wrong_overflow_flag", "file": CACHE, "old": "let has_overflowed = self.current_size > self.desired_size;", "new": "let has_overflowed = self.current_size >= self.desired_size;"},
    {"name": "lru_forgets_size", "file": CACHE, "old": "                self.current_size -= pruned;\n                pruned\n            } else {\n                0\n            }\n        } else {\n            0\n        }\n    }\n}", "new": "                pruned\n            } else {\n                0\n            }\n        } else {\n            0\n        }\n    }\n}"},
    {"name": "upsert_no_dedup_count", "file": CACHE, "old": "                    partition.size -= 1;\n", "new": ""},
    {"name": "upsert_min_over_type_only", "file": CACHE, "old": "for tuples in partition.records.values() {", "new": "for tuples in partition.records.get(&record_key) {"},
    {"name": "shared_insert_ttl_zero", "file": CACHE, "old": "        if record.ttl > 0 {\n            let mut cache", "new": "        if record.ttl >= 0 {\n            let mut cache"},
    {"name": "insert_all_no_ttl_check", "file": CACHE, "old": "            if record.ttl > 0 {\n                cache.insert(record);\n            }", "new": "            cache.insert(record);"},
    {"name": "ttl_rounds_up", "file": CACHE, "old": "                .as_secs()\n                .try_into()", "new": "                .as_secs()\n                .saturating_add(1)\n                .try_into()"},
    {"name": "get_keeps_expired", "file": CACHE, "old": "        rrs.retain(|rr| rr.ttl > 0);\n", "new": ""},
    {"name": "expiry_ignores_ttl", "file": CACHE, "old": "let expiry = now + ttl;", "new": "let expiry = now + ttl + ttl;"},
    {"name": "lookup_drops_access_update", "file": CACHE, "old": "                partition.last_read = Instant::now();\n                self.access_priority", "new": "                partition.last_read = Instant::now();\n                self.expiry_priority"},
]
