"""Unit `zone_text` (C13, C11, C17 - each in part): the octet-level text functions of the zone-file reader and writer.

`serialise_octets` (zones/serialise.rs) against the escaping rules of RFC 1035 section 5.1; `tokenise_escape` and `tokenise_entry`
(zones/deserialise.rs) against a specification of the token reader written from the same section; and, over those contracts, the
lemmas the properties state: what the writer writes for any octet string - quoted or not - reads back as exactly that one token
(C13: every octet incl. quotes, backslashes, semicolons, parentheses, spaces, control characters); a comment runs to the end of its
line, inside parentheses a line end is white space (C11).  By-product: the token reader terminates, consumes input and has no
panicking operation, for every character sequence (C17, zone half, tokeniser only)."""
from units.base import *
import re

ZDESER = "crates/dns-types/src/zones/deserialise.rs"
ZSER = "crates/dns-types/src/zones/serialise.rs"

TRUSTED = TRUSTED_COMMON + [
    "R46: the character iterator of the zone-file reader (`Peekable<Chars>`, generic `I: Iterator<Item = char>`) read as a stand-in `CharStream` holding the finite sequence of characters not yet consumed (`next`, `peek`)",
    "std specifications: vstd's String::new / push / is_empty and char::is_whitespace; added here: char::is_ascii (code <= 127), char::to_digit(10) ('0'..'9'), String::with_capacity, BytesMut::freeze (same octets), slice length <= isize::MAX",
    "`u8 as char` / `char as u8` as Verus models them (code point arithmetic)",
]

SPECS = {
    "serialise_octets": {"props": ["C13"], "ret": "out",
        "contract": """    ensures out@ == esc(octets@, quoted), // [C13:octets_are_written_with_rfc1035_escapes]""",
        "entry": "broadcast use axiom_slice_len;",
        "loops": {"0": {"kw": "for", "iter_name": "it__", "spec": """        invariant
            it__.seq().len() == octets@.len(), forall|j: int| 0 <= j < it__.seq().len() ==> *it__.seq()[j] == octets@[j],
            out@ == (if quoted { seq!['"'] } else { Seq::<char>::empty() }) + esc_body(octets@.take(it__.index@ as int), quoted), // [C13:octets_are_written_with_rfc1035_escapes]""",
            "entry": """let ghost k__ = it__.index@ as int; let ghost out0__ = out@;
proof { assert(*octet == octets@[k__]); lemma_esc_body_push(octets@.take(k__), octets@[k__], quoted); assert(octets@.take(k__).push(octets@[k__]) =~= octets@.take(k__ + 1)); }"""}},
        "anchors": [
            {"after": "if quoted {\n        out.push('\"');\n    }", "nth": 0, "proof": "proof { assert(octets@.take(0) =~= Seq::<u8>::empty()); assert(out@ =~= (if quoted { seq!['\"'] } else { Seq::<char>::empty() }) + esc_body(octets@.take(0), quoted)); }"},
            {"after": "if quoted {\n        out.push('\"');\n    }", "nth": -1, "at": "before", "proof": "proof { assert(octets@.take(octets@.len() as int) =~= octets@); }"},
        ]},
    "tokenise_escape": {"props": ["C11", "C13", "C17"],
        "header_rewrites": [("R46", r"<I: Iterator<Item = char>>", ""), ("R46", r"&mut I\b", "&mut CharStream")],
        "contract": """    ensures
        match esc_at(old(stream).rem@) {
            Some((v, n)) => r is Ok && r->Ok_0 == v && 0 < n <= old(stream).rem@.len() && final(stream).rem@ == old(stream).rem@.skip(n),
            None => r is Err,
        }, // [C11,C13:an_escape_reads_as_rfc1035_section_5_1_says]
        final(stream).rem@.len() <= old(stream).rem@.len(), // [C17:the_reader_only_moves_forward]""",
        "entry": """let ghost s0__ = stream.rem@;
proof { if s0__.len() >= 2 { assert(s0__.skip(1).skip(1) =~= s0__.skip(2)); } if s0__.len() >= 3 { assert(s0__.skip(2).skip(1) =~= s0__.skip(3)); } }"""},
    "tokenise_entry": {"props": ["C11", "C13", "C17"],
        "header_rewrites": [("R46", r"<I: Iterator<Item = char>>", ""), ("R46", r"Peekable<I>", "CharStream")],
        "contract": """    ensures
        match tok_fn(old(stream).rem@, State::Initial, false, Seq::<u8>::empty(), Seq::<Seq<u8>>::empty()) {
            Some(TokRes::Done { tokens, rest }) => r is Ok && toks_view(r->Ok_0@) == tokens && final(stream).rem@ == rest,
            Some(TokRes::Fail) => r is Err,
            None => true,
        }, // [C11,C13:an_entry_is_split_into_tokens_as_rfc1035_section_5_1_says]
        r is Ok ==> texts_ok(r->Ok_0@), // [C11:the_text_of_a_token_is_its_octets]
        final(stream).rem@.len() <= old(stream).rem@.len(),
        old(stream).rem@.len() > 0 ==> final(stream).rem@.len() < old(stream).rem@.len(), // [C17:reading_an_entry_consumes_input]
        r is Ok && r->Ok_0@.len() > 0 ==> final(stream).rem@.len() < old(stream).rem@.len(), // [C17:tokens_come_from_input]""",
        "entry": "broadcast use lemma_toks_push, lemma_chars_push, lemma_toks_nil, lemma_len0_is_empty; let ghost rem0__ = stream.rem@; let ghost spec0__ = tok_fn(rem0__, State::Initial, false, Seq::<u8>::empty(), Seq::<Seq<u8>>::empty());",
        "loops": {"0": {"kw": "while", "spec": """        invariant_except_break
            spec0__ is Some ==> spec0__ == tok_fn(stream.rem@, state, line_continuation, bmv(&token_octets), toks_view(tokens@)), // [C11,C13:an_entry_is_split_into_tokens_as_rfc1035_section_5_1_says]
        invariant
            rem0__ == old(stream).rem@, spec0__ == tok_fn(rem0__, State::Initial, false, Seq::<u8>::empty(), Seq::<Seq<u8>>::empty()),
            token_string@ == as_chars(bmv(&token_octets)), texts_ok(tokens@),
            stream.rem@.len() <= rem0__.len(), tokens@.len() > 0 || bmv(&token_octets).len() > 0 || !(state is Initial) || line_continuation ==> stream.rem@.len() < rem0__.len(),
        ensures
            spec0__ is Some ==> spec0__ == done(flush(toks_view(tokens@), bmv(&token_octets)), stream.rem@), // [C11,C13:an_entry_is_split_into_tokens_as_rfc1035_section_5_1_says]
            rem0__.len() > 0 ==> stream.rem@.len() < rem0__.len(),
        decreases stream.rem@.len(), // [C17:the_token_reader_terminates]
""",
            "entry": "broadcast use lemma_toks_push, lemma_chars_push, lemma_toks_nil, lemma_len0_is_empty;\n// @entry-end"}},
        },
}

CANARIES = [
    {"name": "semicolon_written_unescaped", "file": ZSER, "old": "|| *octet == b';' ", "new": ""},
    {"name": "space_written_unescaped_outside_quotes", "file": ZSER, "old": "|| (*octet == 32 && !quoted)", "new": ""},
    {"name": "decimal_escape_digits_swapped", "file": ZSER, "old": "            out.push((digit1 + 48) as char);\n            out.push((digit2 + 48) as char);", "new": "            out.push((digit2 + 48) as char);\n            out.push((digit1 + 48) as char);"},
    {"name": "del_written_raw", "file": ZSER, "old": "*octet > 126", "new": "*octet > 127"},
    {"name": "escape_value_above_255_wraps", "file": ZDESER, "old": "Some(d3) => match u8::try_from(d1 * 100 + d2 * 10 + d3) {", "new": "Some(d3) => match u8::try_from((d1 * 100 + d2 * 10 + d3) % 256) {"},
    {"name": "escape_two_digits_accepted", "file": ZDESER, "old": "                                    _ => Err(Error::TokeniserUnexpectedEscape {\n                                        unexpected: vec![c1, c2, c3],\n                                    }),\n                                }", "new": "                                    _ => Ok(0),\n                                }"},
    {"name": "comment_inside_quotes", "file": ZDESER, "old": "            (State::QuotedString, '\\\\') => {", "new": "            (State::QuotedString, ';') => State::SkipToEndOfComment,\n            (State::QuotedString, '\\\\') => {"},
    {"name": "escaped_space_ends_token", "file": ZDESER, "old": "            (State::UnquotedString, '\\\\') => {\n                let octet = tokenise_escape(stream)?;\n                token_string.push(octet as char);\n                token_octets.put_u8(octet);\n                State::UnquotedString", "new": "            (State::UnquotedString, '\\\\') => {\n                let octet = tokenise_escape(stream)?;\n                token_string.push(octet as char);\n                token_octets.put_u8(octet);\n                if octet == 32 { State::Initial } else { State::UnquotedString }"},
    {"name": "newline_in_group_ends_entry", "file": ZDESER, "old": "            (State::UnquotedString, '\\n') => {\n                if !token_string.is_empty() {\n                    tokens.push((token_string, token_octets.freeze()));\n                    token_string = String::new();\n                    token_octets = BytesMut::new();\n                }\n                if line_continuation {", "new": "            (State::UnquotedString, '\\n') => {\n                if !token_string.is_empty() {\n                    tokens.push((token_string, token_octets.freeze()));\n                    token_string = String::new();\n                    token_octets = BytesMut::new();\n                }\n                if false {"},
    {"name": "empty_quoted_string_dropped", "file": ZDESER, "old": "            (State::QuotedString, '\"') => {\n                tokens.push((token_string, token_octets.freeze()));", "new": "            (State::QuotedString, '\"') => {\n                if !token_string.is_empty() { tokens.push((token_string.clone(), token_octets.clone().freeze())); }"},
]


def build(G):
    begin(G, preludes=("bytes.rs", "std.rs", "net.rs", "bytesmut.rs"))
    name_types(G, tryfrom=False)
    G.raw("use vstd::std_specs::char::is_white_space;")
    from units.upstream_filter import _r24
    D, S = G.src(ZDESER), G.src(ZSER)
    G.item(D, "enum", "State")
    G.item(D, "enum", "Error", drop_derive=("Debug", "Clone", "PartialEq", "Eq"))
    G.file(os.path.join(os.path.dirname(__file__), "zone_text.spec.rs"))
    specs = {k: dict(v) for k, v in SPECS.items()}
    specs["tokenise_entry"]["rewrites"] = [("R24", _r24), "R13a"]
    G.top_fn(S, "serialise_octets", specs)
    G.top_fn(D, "tokenise_escape", specs)
    G.top_fn(D, "tokenise_entry", specs)
    end(G)
