"""Unit `family` (C18, partial): address family of the nameserver address handed back, per ProtocolMode, and the order of look-ups."""
from units.base import *

REC = "crates/dns-resolver/src/recursive.rs"
UTYPES = "crates/dns-resolver/src/util/types.rs"

TRUSTED = TRUSTED_COMMON + [
    "get_record is ASSUMED, not proved: its whole body is `rrs.iter().find(|&rr| ...)` (closure parameter pattern + Iterator::find: outside the verifier's reach); assumed contract: the result is an element of rrs of the asked type and name",
    "follow_cnames: contract assumed here (proved in unit upstream_filter)",
    "resolve_local / resolve_recursive_notimeout: stand-ins that only record the asked query type in a ghost log of the context (results unconstrained); resolve_recursive_notimeout is #[async_recursion] and cannot be ingested",
    "std::net::IpAddr as a transparent enum",
]

STANDINS = """
#[verifier::external_type_specification]
pub struct ExIpAddr(std::net::IpAddr);
// std: IpAddr::to_canonical may turn an IPv4-mapped IPv6 address into an IPv4 one: no postcondition (any address may come back)
pub assume_specification [std::net::IpAddr::to_canonical] (a: &std::net::IpAddr) -> (r: std::net::IpAddr);
pub struct RecursiveContextInner { pub protocol_mode: ProtocolMode, pub upstream_dns_port: u16 }
// stand-in for Context<'a, RecursiveContextInner>: the configuration plus a ghost log of the query types asked through it
pub struct Asked { pub recursive: bool, pub name: DomainName, pub qtype: QueryType }
pub struct RecursiveContext<'a> { pub r: RecursiveContextInner, pub asked: Ghost<Seq<Asked>>, pub z: &'a u8 }
#[verifier::external_body]
pub fn resolve_local(context: &mut RecursiveContext<'_>, question: &Question) -> (r: Result<LocalResolutionResult, ResolutionError>)
    ensures final(context).asked@ == old(context).asked@.push(Asked { recursive: false, name: question.name, qtype: question.qtype }), final(context).r == old(context).r,
{ unimplemented!() }
#[verifier::external_body]
pub async fn resolve_recursive_notimeout(context: &mut RecursiveContext<'_>, question: &Question) -> (r: Result<ResolvedRecord, ResolutionError>)
    ensures final(context).asked@ == old(context).asked@.push(Asked { recursive: true, name: question.name, qtype: question.qtype }), final(context).r == old(context).r,
{ unimplemented!() }
#[verifier::external_body]
fn follow_cnames(rrs: &[ResourceRecord], target: &DomainName, qtype: QueryType) -> (r: Option<(DomainName, HashMap<DomainName, DomainName>)>)
{ unimplemented!() }
pub open spec fn is_v4(a: IpAddr) -> bool { a is V4 }
// the order in which address record types are tried, by mode (C18: preferred family first; only-modes never try the other family)
pub open spec fn mode_order(m: ProtocolMode) -> Seq<QueryType> {
    match m {
        ProtocolMode::OnlyV4 => seq![QueryType::Record(RecordType::A)],
        ProtocolMode::PreferV4 => seq![QueryType::Record(RecordType::A), QueryType::Record(RecordType::AAAA)],
        ProtocolMode::PreferV6 => seq![QueryType::Record(RecordType::AAAA), QueryType::Record(RecordType::A)],
        ProtocolMode::OnlyV6 => seq![QueryType::Record(RecordType::AAAA)],
    }
}
// the first n look-ups of a mode, for one host name, all local or all recursive
pub open spec fn asks(m: ProtocolMode, n: int, locally: bool, name: DomainName) -> Seq<Asked> {
    Seq::new(n as nat, |i: int| Asked { recursive: !locally, name, qtype: mode_order(m)[i] })
}
pub open spec fn family_of(q: QueryType, a: IpAddr) -> bool {
    (q == QueryType::Record(RecordType::A) && a is V4) || (q == QueryType::Record(RecordType::AAAA) && a is V6)
}
"""

SPECS = {
    "get_record": {"props": ["C18"], "mode": "assume", "contract": """    ensures r is Some ==> spec_rtype_of(r->Some_0.rtype_with_data) == rtype && r->Some_0.name == *target
        && exists|i: int| 0 <= i < rrs@.len() && #[trigger] rrs@[i] == *r->Some_0,"""},
    "get_ip": {"props": ["C18"], "contract": """    ensures r is Some && r->Some_0 is V4 ==> rtype == RecordType::A, // [C18:address_family_matches_the_asked_record_type]
        r is Some && r->Some_0 is V6 ==> rtype == RecordType::AAAA, // [C18:address_family_matches_the_asked_record_type]"""},
    "resolve_hostname_to_ip": {"props": ["C18", "C07"], "contract": """    ensures
        final(context).r == old(context).r,
        // what was asked is a prefix of the mode's order: preferred family first, the other family never in the only-modes
        // ... and every look-up is for the host name given, made from local data exactly when asked to (C07: local first, recursion only on the slow path)
        exists|n: int| 0 <= n <= mode_order(old(context).r.protocol_mode).len() && final(context).asked@ == old(context).asked@ + #[trigger] asks(old(context).r.protocol_mode, n, resolve_locally, hostname)
            && (r is None ==> n == mode_order(old(context).r.protocol_mode).len())
            && (r is Some ==> n >= 1 && family_of(mode_order(old(context).r.protocol_mode)[n - 1], r->Some_0)), // [C07,C18:lookups_for_the_given_name_in_mode_order_local_or_recursive_as_told_and_address_of_the_family_asked_last]
        old(context).r.protocol_mode == ProtocolMode::OnlyV4 ==> r is None || r->Some_0 is V4, // [C18:only_v4_never_yields_v6]
        old(context).r.protocol_mode == ProtocolMode::OnlyV6 ==> r is None || r->Some_0 is V6, // [C18:only_v6_never_yields_v4]""",
        "loops": {"0": {"kw": "for", "iter_name": "it__", "spec": """        invariant
            it__.seq() == order__, order__.len() <= 2, context.r == old(context).r, question.name == qn__, qn__ == hostname,
            forall|j: int| 0 <= j < order__.len() ==> QueryType::Record(#[trigger] order__[j]) == mode_order(old(context).r.protocol_mode)[j],
            order__.len() == mode_order(old(context).r.protocol_mode).len(),
            context.asked@ == old(context).asked@ + asks(old(context).r.protocol_mode, it__.index@ as int, resolve_locally, qn__),""",
            "entry": "let ghost idx = it__.index@ as int; proof { let m = old(context).r.protocol_mode; assert(asks(m, idx + 1, resolve_locally, qn__) =~= asks(m, idx, resolve_locally, qn__).push(Asked { recursive: !resolve_locally, name: qn__, qtype: mode_order(m)[idx] })); assert((old(context).asked@ + asks(m, idx, resolve_locally, qn__)).push(Asked { recursive: !resolve_locally, name: qn__, qtype: mode_order(m)[idx] }) =~= old(context).asked@ + asks(m, idx + 1, resolve_locally, qn__)); }"}},
        "anchors": [{"after": "for rtype in rtypes", "at": "before", "proof": "let ghost order__ = rtypes@; let ghost qn__ = question.name; proof { assert(qn__ == hostname); assert(asks(context.r.protocol_mode, 0, resolve_locally, qn__) =~= Seq::<Asked>::empty()); assert(context.asked@ + Seq::<Asked>::empty() =~= context.asked@); }"}]},
}


def build(G):
    begin(G, preludes=("bytes.rs", "std.rs", "net.rs", "std_slices.rs"))
    name_types(G, tryfrom=False)
    wire_types(G, conv_props=[], conv_mode="assume")
    G.file(os.path.join(PRELUDE, "wire_spec.rs"))
    G.file(os.path.join(PRELUDE, "eq.rs"))
    R, U, T, L = G.src(REC), G.src(UTYPES), G.src(TYPES), G.src("crates/dns-resolver/src/local.rs")
    G.item(U, "enum", "ProtocolMode")
    for (k, n) in (("enum", "ResolvedRecord"), ("enum", "ResolutionError"), ("struct", "Nameservers")):
        G.item(U, k, n, drop_derive=("Clone",))
    G.item(L, "enum", "LocalResolutionResult", drop_derive=("Clone",))
    G.raw(STANDINS, ("spec", "family stand-ins"))
    specs = {k: dict(v) for k, v in SPECS.items()}
    specs["ResolvedRecord::rrs"] = {"mode": "assume", "props": [], "contract": ""}
    G.impl(U, "ResolvedRecord", ["rrs"], "ResolvedRecord::", specs)
    specs["get_record"]["rewrites"] = []
    G.top_fn(R, "get_record", specs)
    G.top_fn(R, "get_ip", specs)
    specs["resolve_hostname_to_ip"]["header_rewrites"] = [("R9", r"RecursiveContext<'a>", "RecursiveContext<'a>")]
    G.top_fn(R, "resolve_hostname_to_ip", specs)
    end(G)


CANARIES = [
    {"name": "nameserver_addresses_always_sought_recursively", "file": REC, "old": "        if resolve_locally {\n            if let Ok(LocalResolutionResult::Done { resolved }) = resolve_local(context, &question)", "new": "        if resolve_locally && false {\n            if let Ok(LocalResolutionResult::Done { resolved }) = resolve_local(context, &question)"},
    {"name": "only_v4_falls_back", "file": REC, "old": "ProtocolMode::OnlyV4 => vec![RecordType::A],", "new": "ProtocolMode::OnlyV4 => vec![RecordType::A, RecordType::AAAA],"},
    {"name": "prefer_v6_asks_a_first", "file": REC, "old": "ProtocolMode::PreferV6 => vec![RecordType::AAAA, RecordType::A],", "new": "ProtocolMode::PreferV6 => vec![RecordType::A, RecordType::AAAA],"},
    {"name": "get_ip_any_family", "file": REC, "old": "if let Some(rr) = get_record(rrs, &final_name, rtype) {", "new": "if let Some(rr) = get_record(rrs, &final_name, rtype).or(get_record(rrs, &final_name, RecordType::A)) {"},
    {"name": "get_ip_swapped", "file": REC, "old": "RecordTypeWithData::A { address } => Some(IpAddr::V4(address)),\n                RecordTypeWithData::AAAA { address } => Some(IpAddr::V6(address)),\n                _ => None,", "new": "RecordTypeWithData::A { address } => Some(IpAddr::V4(address)),\n                RecordTypeWithData::AAAA { address } => Some(IpAddr::V4(address.to_ipv4_mapped().unwrap_or(std::net::Ipv4Addr::LOCALHOST))),\n                _ => None,"},
]
