// ---- specification vocabulary of unit wire_codec (spec fns + proved lemmas; the only axiom is the key model of DomainName)
pub broadcast axiom fn axiom_dn_key_model() ensures #[trigger] obeys_key_model::<DomainName>();

pub open spec fn name_is_root(n: DomainName) -> bool { n.labels@.len() == 1 }
// a compression pointer: two top bits set, low 14 bits are the offset (RFC 1035 section 4.1.4)
pub open spec fn ptr_ok(p: u16, idx: nat) -> bool { (p >> 14) == 3 && (p & 0x3fff) as nat == idx }
pub open spec fn ptr_tagged(p: u16) -> bool { (p >> 14) == 3 }

impl WritableBuffer {
    pub closed spec fn bytes(&self) -> Seq<u8> { bmv(&self.octets) }
    pub closed spec fn ptrs(&self) -> Map<DomainName, u16> { self.name_pointers@ }
    // every entry of the pointer table is a tagged pointer for a non-root name
    pub closed spec fn table_ok(&self) -> bool {
        forall|n: DomainName| #[trigger] self.name_pointers@.contains_key(n) ==> ptr_tagged(self.name_pointers@[n]) && !name_is_root(n)
    }
}
pub open spec fn is_prefix(a: Seq<u8>, b: Seq<u8>) -> bool {
    a.len() <= b.len() && forall|i: int| 0 <= i < a.len() ==> a[i] == #[trigger] b[i]
}
spec fn bytes_extend(a: WritableBuffer, b: WritableBuffer) -> bool { is_prefix(a.bytes(), b.bytes()) }
pub open spec fn header_written(b: Seq<u8>, h: Header) -> bool {
    b.len() >= 4 && b[0] == (h.id / 256) as u8 && b[1] == (h.id % 256) as u8 && b[2] == header_flags1(h) && b[3] == header_flags2(h)
}
// the pointer the encoder builds from a 16-bit index addresses that index exactly when the index fits in 14 bits
pub broadcast proof fn lemma_ptr_14bit(index: u16, hi: u8, lo: u8)
    requires hi == (index / 256) as u8, lo == (index % 256) as u8,
    ensures #[trigger] ptr_ok(be16(hi | 0xc0, lo), index as nat) <==> index < 0x4000,
            ptr_tagged(be16(hi | 0xc0, lo)),
{
    let p = be16(hi | 0xc0, lo);
    assert(p == ((hi | 0xc0) as u16) * 256 + (lo as u16));
    lemma_ptr_bits(index, hi, lo, p);
}
proof fn lemma_ptr_bits(index: u16, hi: u8, lo: u8, p: u16) by(bit_vector)
    requires hi == (index / 256) as u8, lo == (index % 256) as u8, p == (((hi | 0xc0) as u16) * 256 + (lo as u16)) as u16
    ensures (((p >> 14) == 3 && (p & 0x3fff) == index) <==> index < 0x4000), (p >> 14) == 3
{}
pub open spec fn enc_labels(ls: Seq<Label>) -> Seq<u8>
    decreases ls.len()
{ if ls.len() == 0 { Seq::<u8>::empty() } else { enc_labels(ls.drop_last()) + seq![ls.last().v().len() as u8] + ls.last().v() } }
pub broadcast proof fn lemma_enc_labels_push(ls: Seq<Label>, l: Label)
    ensures #[trigger] enc_labels(ls.push(l)) == enc_labels(ls) + seq![l.v().len() as u8] + l.v()
{ assert(ls.push(l).drop_last() =~= ls); }
pub broadcast proof fn lemma_enc_labels_len(ls: Seq<Label>)
    ensures #[trigger] enc_labels(ls).len() == labels_sum(ls)
    decreases ls.len()
{ if ls.len() > 0 { lemma_enc_labels_len(ls.drop_last()); } }
spec fn name_wire_len(b: WritableBuffer, n: DomainName, compress: bool) -> nat {
    if compress && b.name_pointers@.contains_key(n) { 2 } else { labels_sum(n.labels@) }
}
pub open spec fn msg_names_wf(m: Message) -> bool {
    &&& forall|i: int| 0 <= i < m.questions@.len() ==> (#[trigger] m.questions@[i]).name.wf()
    &&& forall|i: int| 0 <= i < m.answers@.len() ==> (#[trigger] m.answers@[i]).name.wf() && rr_names_wf(m.answers@[i].rtype_with_data)
    &&& forall|i: int| 0 <= i < m.authority@.len() ==> (#[trigger] m.authority@[i]).name.wf() && rr_names_wf(m.authority@[i].rtype_with_data)
    &&& forall|i: int| 0 <= i < m.additional@.len() ==> (#[trigger] m.additional@[i]).name.wf() && rr_names_wf(m.additional@[i].rtype_with_data)
}
pub open spec fn counts_written(b: Seq<u8>, m: Message) -> bool {
    &&& b.len() >= 12
    &&& be16(b[4], b[5]) == m.questions@.len()
    &&& be16(b[6], b[7]) == m.answers@.len()
    &&& be16(b[8], b[9]) == m.authority@.len()
    &&& be16(b[10], b[11]) == m.additional@.len()
}
// the code builds the flag octets from its mask constants; same value as the RFC-diagram form above
pub broadcast proof fn lemma_flags_or(h: Header)
    ensures #[trigger] header_flags1(h) == (if h.is_response { 0x80u8 } else { 0 }) | (0x78u8 & ((spec_opcode_to(h.opcode) << 3) as u8)) | (if h.is_authoritative { 0x04u8 } else { 0 }) | (if h.is_truncated { 0x02u8 } else { 0 }) | (if h.recursion_desired { 0x01u8 } else { 0 }),
            #[trigger] header_flags2(h) == (if h.recursion_available { 0x80u8 } else { 0 }) | (0x0fu8 & ((spec_rcode_to(h.rcode) << 0) as u8)),
{
    assert((1u8 << 7u8) == 0x80 && (1u8 << 2u8) == 4 && (1u8 << 1u8) == 2 && (1u8 << 0u8) == 1) by(bit_vector);
    let op = spec_opcode_to(h.opcode); let rc = spec_rcode_to(h.rcode);
    assert(((op & 0x0f) << 3) as u8 == 0x78u8 & ((op << 3) as u8)) by(bit_vector);
    assert(rc & 0x0f == 0x0fu8 & ((rc << 0) as u8)) by(bit_vector);
}
