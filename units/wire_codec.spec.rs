// ---- specification vocabulary of unit wire_codec (spec fns + proved lemmas; the only axiom is the key model of DomainName)
pub broadcast axiom fn axiom_dn_key_model() ensures #[trigger] obeys_key_model::<DomainName>();

pub open spec fn name_is_root(n: DomainName) -> bool { n.labels@.len() == 1 }
// a compression pointer: two top bits set, low 14 bits are the offset (RFC 1035 section 4.1.4)
pub open spec fn ptr_ok(p: u16, idx: nat) -> bool { (p >> 14) == 3 && (p & 0x3fff) as nat == idx }
pub open spec fn ptr_tagged(p: u16) -> bool { (p >> 14) == 3 }

impl WritableBuffer {
    pub closed spec fn bytes(&self) -> Seq<u8> { bmv(&self.octets) }
    pub closed spec fn ptrs(&self) -> Map<DomainName, u16> { self.name_pointers@ }
    // every entry of the pointer table is a tagged pointer for a non-root name
    pub closed spec fn table_ok(&self) -> bool {
        forall|n: DomainName| #[trigger] self.name_pointers@.contains_key(n) ==> ptr_tagged(self.name_pointers@[n]) && !name_is_root(n)
    }
}
pub open spec fn is_prefix(a: Seq<u8>, b: Seq<u8>) -> bool {
    a.len() <= b.len() && forall|i: int| 0 <= i < a.len() ==> a[i] == #[trigger] b[i]
}
spec fn bytes_extend(a: WritableBuffer, b: WritableBuffer) -> bool { is_prefix(a.bytes(), b.bytes()) }
pub open spec fn header_written(b: Seq<u8>, h: Header) -> bool {
    b.len() >= 4 && b[0] == (h.id / 256) as u8 && b[1] == (h.id % 256) as u8 && b[2] == header_flags1(h) && b[3] == header_flags2(h)
}
// the pointer the encoder builds from a 16-bit index addresses that index exactly when the index fits in 14 bits
pub broadcast proof fn lemma_ptr_14bit(index: u16, hi: u8, lo: u8)
    requires hi == (index / 256) as u8, lo == (index % 256) as u8,
    ensures #[trigger] ptr_ok(be16(hi | 0xc0, lo), index as nat) <==> index < 0x4000,
            ptr_tagged(be16(hi | 0xc0, lo)),
{
    let p = be16(hi | 0xc0, lo);
    assert(p == ((hi | 0xc0) as u16) * 256 + (lo as u16));
    lemma_ptr_bits(index, hi, lo, p);
}
proof fn lemma_ptr_bits(index: u16, hi: u8, lo: u8, p: u16) by(bit_vector)
    requires hi == (index / 256) as u8, lo == (index % 256) as u8, p == (((hi | 0xc0) as u16) * 256 + (lo as u16)) as u16
    ensures (((p >> 14) == 3 && (p & 0x3fff) == index) <==> index < 0x4000), (p >> 14) == 3
{}
pub open spec fn enc_labels(ls: Seq<Label>) -> Seq<u8>
    decreases ls.len()
{ if ls.len() == 0 { Seq::<u8>::empty() } else { enc_labels(ls.drop_last()) + seq![ls.last().v().len() as u8] + ls.last().v() } }
pub broadcast proof fn lemma_enc_labels_push(ls: Seq<Label>, l: Label)
    ensures #[trigger] enc_labels(ls.push(l)) == enc_labels(ls) + seq![l.v().len() as u8] + l.v()
{ assert(ls.push(l).drop_last() =~= ls); }
pub broadcast proof fn lemma_enc_labels_len(ls: Seq<Label>)
    ensures #[trigger] enc_labels(ls).len() == labels_sum(ls)
    decreases ls.len()
{ if ls.len() > 0 { lemma_enc_labels_len(ls.drop_last()); } }
spec fn name_wire_len(b: WritableBuffer, n: DomainName, compress: bool) -> nat {
    if compress && b.name_pointers@.contains_key(n) { 2 } else { labels_sum(n.labels@) }
}
pub open spec fn msg_names_wf(m: Message) -> bool {
    &&& forall|i: int| 0 <= i < m.questions@.len() ==> (#[trigger] m.questions@[i]).name.wf()
    &&& forall|i: int| 0 <= i < m.answers@.len() ==> (#[trigger] m.answers@[i]).name.wf() && rr_names_wf(m.answers@[i].rtype_with_data)
    &&& forall|i: int| 0 <= i < m.authority@.len() ==> (#[trigger] m.authority@[i]).name.wf() && rr_names_wf(m.authority@[i].rtype_with_data)
    &&& forall|i: int| 0 <= i < m.additional@.len() ==> (#[trigger] m.additional@[i]).name.wf() && rr_names_wf(m.additional@[i].rtype_with_data)
}
pub open spec fn counts_written(b: Seq<u8>, m: Message) -> bool {
    &&& b.len() >= 12
    &&& be16(b[4], b[5]) == m.questions@.len()
    &&& be16(b[6], b[7]) == m.answers@.len()
    &&& be16(b[8], b[9]) == m.authority@.len()
    &&& be16(b[10], b[11]) == m.additional@.len()
}
// the code builds the flag octets from its mask constants; same value as the RFC-diagram form above
pub broadcast proof fn lemma_flags_or(h: Header)
    ensures #[trigger] header_flags1(h) == (if h.is_response { 0x80u8 } else { 0 }) | (0x78u8 & ((spec_opcode_to(h.opcode) << 3) as u8)) | (if h.is_authoritative { 0x04u8 } else { 0 }) | (if h.is_truncated { 0x02u8 } else { 0 }) | (if h.recursion_desired { 0x01u8 } else { 0 }),
            #[trigger] header_flags2(h) == (if h.recursion_available { 0x80u8 } else { 0 }) | (0x0fu8 & ((spec_rcode_to(h.rcode) << 0) as u8)),
{
    assert((1u8 << 7u8) == 0x80 && (1u8 << 2u8) == 4 && (1u8 << 1u8) == 2 && (1u8 << 0u8) == 1) by(bit_vector);
    let op = spec_opcode_to(h.opcode); let rc = spec_rcode_to(h.rcode);
    assert(((op & 0x0f) << 3) as u8 == 0x78u8 & ((op << 3) as u8)) by(bit_vector);
    assert(rc & 0x0f == 0x0fu8 & ((rc << 0) as u8)) by(bit_vector);
}

// ---- C04: what was written decodes to what was meant (the independent reading `spec_name` of unit wire_decode, RFC 1035 4.1.4) ----
// a name's plain label encoding sits at offset off
pub open spec fn enc_at(b: Seq<u8>, off: int, n: DomainName) -> bool {
    0 <= off && off + labels_sum(n.labels@) <= b.len() && b.subrange(off, off + labels_sum(n.labels@)) == enc_labels(n.labels@)
}
pub open spec fn ptr_off(p: u16) -> int { (p & 0x3fff) as int }
impl WritableBuffer {
    // the global invariant tying the pointer table to the byte image: every memoised name was written, uncompressed, at the offset its pointer addresses
    pub closed spec fn table_good(&self) -> bool {
        &&& self.table_ok()
        &&& forall|n: DomainName| #[trigger] self.name_pointers@.contains_key(n) ==> n.wf() && enc_at(self.bytes(), ptr_off(self.name_pointers@[n]), n)
    }
}
pub proof fn lemma_enc_at_prefix(b: Seq<u8>, b2: Seq<u8>, off: int, n: DomainName)
    requires is_prefix(b, b2), enc_at(b, off, n)
    ensures enc_at(b2, off, n)
{ assert(b2.subrange(off, off + labels_sum(n.labels@)) =~= b.subrange(off, off + labels_sum(n.labels@))); }
pub proof fn lemma_enc_labels_front(l: Label, rest: Seq<Label>)
    ensures enc_labels(seq![l] + rest) == seq![l.v().len() as u8] + l.v() + enc_labels(rest)
    decreases rest.len()
{
    if rest.len() == 0 {
        assert(seq![l] + rest =~= seq![l]);
        assert(seq![l].drop_last() =~= Seq::<Label>::empty());
        assert(seq![l].last() == l);
        assert(enc_labels(Seq::<Label>::empty()) =~= Seq::<u8>::empty());
        assert(enc_labels(seq![l]) == enc_labels(seq![l].drop_last()) + seq![l.v().len() as u8] + l.v());
        assert(enc_labels(seq![l]) =~= seq![l.v().len() as u8] + l.v());
        assert(seq![l.v().len() as u8] + l.v() + enc_labels(rest) =~= seq![l.v().len() as u8] + l.v());
    } else {
        assert((seq![l] + rest).drop_last() =~= seq![l] + rest.drop_last());
        lemma_enc_labels_front(l, rest.drop_last());
        assert((seq![l] + rest).last() == rest.last());
        assert(enc_labels(seq![l] + rest) =~= seq![l.v().len() as u8] + l.v() + enc_labels(rest));
    }
}
pub proof fn lemma_lower_wf(l: Label)
    requires l.wf()
    ensures lower_seq(l.v()) == l.v()
{ assert(lower_seq(l.v()) =~= l.v()); }
// reading a plain label encoding back: the labels, and the offset just after them
pub proof fn lemma_decode_plain(b: Seq<u8>, s: int, off: int, ls: Seq<Label>)
    requires 0 <= s <= off, off + labels_sum(ls) <= b.len(), b.subrange(off, off + labels_sum(ls)) == enc_labels(ls), shape_ok(ls), all_labels_wf(ls)
    ensures spec_name(b, s, off) == Some((vals(ls), off + labels_sum(ls)))
    decreases ls.len()
{
    let l = ls[0]; let rest = ls.subrange(1, ls.len() as int);
    assert(ls =~= seq![l] + rest);
    lemma_enc_labels_front(l, rest);
    lemma_labels_sum_concat(seq![l], rest);
    lemma_labels_sum_one(seq![l]);
    let e = enc_labels(ls);
    let n = l.v().len() as int;
    assert(l.wf());
    assert(b[off] == e[0]) by { assert(b.subrange(off, off + labels_sum(ls))[0] == b[off]); }
    assert(e[0] == n as u8);
    if ls.len() == 1 {
        assert(n == 0);
        assert(vals(ls) =~= seq![Seq::<u8>::empty()]) by { assert(l.v() =~= Seq::<u8>::empty()); }
    } else {
        assert(n > 0 && n <= 63);
        assert(b.subrange(off + 1, off + 1 + n) =~= l.v()) by {
            assert forall|i: int| 0 <= i < n implies b[off + 1 + i] == l.v()[i] by { assert(b.subrange(off, off + labels_sum(ls))[1 + i] == e[1 + i]); }
        }
        lemma_lower_wf(l);
        assert(b.subrange(off + 1 + n, off + labels_sum(ls)) =~= enc_labels(rest)) by {
            assert forall|i: int| 0 <= i < enc_labels(rest).len() implies b[off + 1 + n + i] == enc_labels(rest)[i] by { assert(b.subrange(off, off + labels_sum(ls))[1 + n + i] == e[1 + n + i]); }
            lemma_enc_labels_len(rest);
        }
        assert(shape_ok(rest) && all_labels_wf(rest)) by {
            assert(rest.last() == ls.last());
            assert forall|i: int| 0 <= i < rest.len() implies (#[trigger] rest[i]).wf() by { assert(rest[i] == ls[i + 1]); }
            assert forall|i: int| 0 <= i < rest.len() - 1 implies (#[trigger] rest[i]).v().len() > 0 by { assert(rest[i] == ls[i + 1]); }
        }
        lemma_decode_plain(b, s, off + 1 + n, rest);
        assert(vals(ls) =~= seq![l.v()] + vals(rest));
    }
}
proof fn lemma_ptr_split(p: u16) by(bit_vector)
    requires (p >> 14) == 3
    ensures ((p / 256) as u8) >= 192u8, ((((p / 256) as u8) & 0x3f) as u16) * 256 + ((p % 256) as u8) as u16 == (p & 0x3fff)
{}
// reading a compression pointer back: the name it addresses, and the offset just after the two pointer octets
pub proof fn lemma_decode_pointer(b: Seq<u8>, pos: int, p: u16, n: DomainName)
    requires (p >> 14) == 3, 0 <= pos, pos + 2 <= b.len(), b[pos] == (p / 256) as u8, b[pos + 1] == (p % 256) as u8,
        n.wf(), enc_at(b, ptr_off(p), n), ptr_off(p) < pos
    ensures spec_name(b, pos, pos) == Some((vals(n.labels@), pos + 2))
{
    lemma_ptr_split(p);
    lemma_decode_plain(b, ptr_off(p), ptr_off(p), n.labels@);
    assert(be16(b[pos] & 0x3f, b[pos + 1]) as int == ptr_off(p));
}

proof fn lemma_codec_table_entry(w: WritableBuffer, n: DomainName)
    requires w.table_good(), w.name_pointers@.contains_key(n)
    ensures n.wf(), enc_at(w.bytes(), ptr_off(w.name_pointers@[n]), n), ptr_tagged(w.name_pointers@[n]), !name_is_root(n)
{}
// appending bytes keeps the table invariant when the table is unchanged
proof fn lemma_codec_table_prefix(w0: WritableBuffer, w1: WritableBuffer)
    requires w0.table_good(), is_prefix(w0.bytes(), w1.bytes()), w1.name_pointers == w0.name_pointers
    ensures w1.table_good()
{
    assert forall|n: DomainName| #[trigger] w1.name_pointers@.contains_key(n) implies n.wf() && enc_at(w1.bytes(), ptr_off(w1.name_pointers@[n]), n) by {
        lemma_enc_at_prefix(w0.bytes(), w1.bytes(), ptr_off(w0.name_pointers@[n]), n);
    }
}
// ... and when the only new entry is the name just written, at the offset it was written at
proof fn lemma_codec_table_extend(w0: WritableBuffer, w1: WritableBuffer, me: DomainName)
    requires w0.table_good(), is_prefix(w0.bytes(), w1.bytes()), me.wf(), !name_is_root(me) || !w1.name_pointers@.contains_key(me),
        forall|n: DomainName| #[trigger] w1.name_pointers@.contains_key(n) ==> (w0.name_pointers@.contains_key(n) && w1.name_pointers@[n] == w0.name_pointers@[n]) || n == me,
        !w0.name_pointers@.contains_key(me) && w1.name_pointers@.contains_key(me) ==> ptr_ok(w1.name_pointers@[me], w0.bytes().len()),
        w0.name_pointers@.contains_key(me) ==> w1.name_pointers@.contains_key(me) && w1.name_pointers@[me] == w0.name_pointers@[me],
        enc_at(w1.bytes(), w0.bytes().len() as int, me),
    ensures w1.table_good()
{
    assert forall|n: DomainName| #[trigger] w1.name_pointers@.contains_key(n) implies
        ptr_tagged(w1.name_pointers@[n]) && !name_is_root(n) && n.wf() && enc_at(w1.bytes(), ptr_off(w1.name_pointers@[n]), n) by {
        if w0.name_pointers@.contains_key(n) && w1.name_pointers@[n] == w0.name_pointers@[n] {
            lemma_enc_at_prefix(w0.bytes(), w1.bytes(), ptr_off(w0.name_pointers@[n]), n);
        } else {
            assert(n == me);
        }
    }
}

// reading a name only looks at octets before the end of the buffer it succeeds on: appending octets changes nothing
pub proof fn lemma_spec_name_prefix(b1: Seq<u8>, b2: Seq<u8>, s: int, p: int)
    requires is_prefix(b1, b2), spec_name(b1, s, p) is Some
    ensures spec_name(b2, s, p) == spec_name(b1, s, p)
    decreases s, b1.len() - p
{
    if 0 <= s <= p < b1.len() {
        let size = b1[p];
        assert(b2[p] == size);
        if size == 0 {
        } else if size <= 63 {
            assert(b1.subrange(p + 1, p + 1 + size) =~= b2.subrange(p + 1, p + 1 + size));
            lemma_spec_name_prefix(b1, b2, s, p + 1 + size);
        } else if size >= 192 {
            assert(b2[p + 1] == b1[p + 1]);
            let ptr = be16(size & 0x3f, b1[p + 1]) as int;
            lemma_spec_name_prefix(b1, b2, ptr, ptr);
        }
    }
}
pub proof fn lemma_name_at_prefix(b1: Seq<u8>, b2: Seq<u8>, p: int)
    requires is_prefix(b1, b2), name_at(b1, p) is Some
    ensures name_at(b2, p) == name_at(b1, p)
{ lemma_spec_name_prefix(b1, b2, p, p); }

// the RDLENGTH back-patch: two octets between the record's fixed part and its RDATA are overwritten; no memoised name covers them
proof fn lemma_codec_table_patch(w_mid: WritableBuffer, w_pre: WritableBuffer, w_post: WritableBuffer)
    requires w_mid.table_good(), w_pre.table_good(), is_prefix(w_mid.bytes(), w_pre.bytes()),
        w_pre.bytes().len() >= w_mid.bytes().len() + 2, w_post.bytes().len() == w_pre.bytes().len(),
        forall|i: int| 0 <= i < w_pre.bytes().len() && i != w_mid.bytes().len() && i != w_mid.bytes().len() + 1 ==> w_post.bytes()[i] == w_pre.bytes()[i],
        w_post.name_pointers == w_pre.name_pointers,
        forall|n: DomainName| #[trigger] w_pre.name_pointers@.contains_key(n) ==>
            (w_mid.name_pointers@.contains_key(n) && w_pre.name_pointers@[n] == w_mid.name_pointers@[n]) || ptr_off(w_pre.name_pointers@[n]) >= w_mid.bytes().len() + 2,
    ensures w_post.table_good()
{
    let idx = w_mid.bytes().len() as int;
    assert forall|n: DomainName| #[trigger] w_post.name_pointers@.contains_key(n) implies
        ptr_tagged(w_post.name_pointers@[n]) && !name_is_root(n) && n.wf() && enc_at(w_post.bytes(), ptr_off(w_post.name_pointers@[n]), n) by {
        let off = ptr_off(w_pre.name_pointers@[n]); let sum = labels_sum(n.labels@) as int;
        if w_mid.name_pointers@.contains_key(n) && w_pre.name_pointers@[n] == w_mid.name_pointers@[n] {
            assert(enc_at(w_mid.bytes(), off, n));
            assert(w_post.bytes().subrange(off, off + sum) =~= w_mid.bytes().subrange(off, off + sum));
        } else {
            assert(enc_at(w_pre.bytes(), off, n));
            assert(w_post.bytes().subrange(off, off + sum) =~= w_pre.bytes().subrange(off, off + sum));
        }
    }
}

pub proof fn lemma_be32_div_mod(v: u32)
    ensures be32((v / 16777216) as u8, ((v / 65536) % 256) as u8, ((v / 256) % 256) as u8, (v % 256) as u8) == v
{
    let a = v / 16777216; let b = (v / 65536) % 256; let c = (v / 256) % 256; let d = v % 256;
    assert(a < 256 && b < 256 && c < 256 && d < 256 && a * 16777216 + b * 65536 + c * 256 + d == v) by(bit_vector)
        requires a == v / 16777216, b == (v / 65536) % 256, c == (v / 256) % 256, d == v % 256;
    assert((a as u8) as u32 == a && (b as u8) as u32 == b && (c as u8) as u32 == c && (d as u8) as u32 == d);
}

// ---- RDATA (C04): what the encoder writes for a record's data, and that an independent decoder reads exactly that data back
pub open spec fn u16b(v: u16) -> Seq<u8> { seq![(v / 256) as u8, (v % 256) as u8] }
pub open spec fn u32b(v: u32) -> Seq<u8> { seq![(v / 16777216) as u8, ((v / 65536) % 256) as u8, ((v / 256) % 256) as u8, (v % 256) as u8] }
pub open spec fn nb(n: DomainName) -> Seq<u8> { enc_labels(n.labels@) }
// names inside RDATA are written in full (never as a pointer)
pub open spec fn rdata_enc(d: RecordTypeWithData) -> Seq<u8> {
    match d {
        RecordTypeWithData::A { address } => v4_octets(address),
        RecordTypeWithData::NS { nsdname } => nb(nsdname),
        RecordTypeWithData::MD { madname } => nb(madname),
        RecordTypeWithData::MF { madname } => nb(madname),
        RecordTypeWithData::CNAME { cname } => nb(cname),
        RecordTypeWithData::SOA { mname, rname, serial, refresh, retry, expire, minimum } => nb(mname) + nb(rname) + u32b(serial) + u32b(refresh) + u32b(retry) + u32b(expire) + u32b(minimum),
        RecordTypeWithData::MB { madname } => nb(madname),
        RecordTypeWithData::MG { mdmname } => nb(mdmname),
        RecordTypeWithData::MR { newname } => nb(newname),
        RecordTypeWithData::NULL { octets } => bv(&octets),
        RecordTypeWithData::WKS { octets } => bv(&octets),
        RecordTypeWithData::PTR { ptrdname } => nb(ptrdname),
        RecordTypeWithData::HINFO { octets } => bv(&octets),
        RecordTypeWithData::MINFO { rmailbx, emailbx } => nb(rmailbx) + nb(emailbx),
        RecordTypeWithData::MX { preference, exchange } => u16b(preference) + nb(exchange),
        RecordTypeWithData::TXT { octets } => bv(&octets),
        RecordTypeWithData::AAAA { address } => v6_octets(address),
        RecordTypeWithData::SRV { priority, weight, port, target } => u16b(priority) + u16b(weight) + u16b(port) + nb(target),
        RecordTypeWithData::Unknown { octets, .. } => bv(&octets),
    }
}
// a name written in full at offset q reads back as that name and ends where its labels end
pub proof fn lemma_plain_name_back(b: Seq<u8>, q: int, n: DomainName)
    requires n.wf(), 0 <= q, q + nb(n).len() <= b.len(), b.subrange(q, q + nb(n).len()) == nb(n)
    ensures name_at(b, q) == Some((vals(n.labels@), q + nb(n).len())), nb(n).len() == labels_sum(n.labels@), nb(n).len() >= 1
{
    lemma_enc_labels_len(n.labels@);
    lemma_decode_plain(b, q, q, n.labels@);
    lemma_vsum_vals(n.labels@);
    lemma_labels_sum_lower(n.labels@);
}
pub proof fn lemma_u32_back(b: Seq<u8>, q: int, v: u32)
    requires 0 <= q, q + 4 <= b.len(), b.subrange(q, q + 4) == u32b(v)
    ensures u32_at(b, q) == v
{
    lemma_be32_div_mod(v);
    assert(b[q] == b.subrange(q, q + 4)[0] && b[q + 1] == b.subrange(q, q + 4)[1] && b[q + 2] == b.subrange(q, q + 4)[2] && b[q + 3] == b.subrange(q, q + 4)[3]);
}
pub proof fn lemma_u16_back(b: Seq<u8>, q: int, v: u16)
    requires 0 <= q, q + 2 <= b.len(), b.subrange(q, q + 2) == u16b(v)
    ensures u16_at(b, q) == v
{
    lemma_be16_div_mod(v);
    assert(b[q] == b.subrange(q, q + 2)[0] && b[q + 1] == b.subrange(q, q + 2)[1]);
}
// sub-slices of a slice that is a concatenation
pub proof fn lemma_sub_concat(b: Seq<u8>, p: int, x: Seq<u8>, y: Seq<u8>)
    requires 0 <= p, p + x.len() + y.len() <= b.len(), b.subrange(p, p + x.len() + y.len()) == x + y
    ensures b.subrange(p, p + x.len()) == x, b.subrange(p + x.len(), p + x.len() + y.len()) == y
{
    let s = b.subrange(p, p + x.len() + y.len());
    assert(b.subrange(p, p + x.len()) =~= x) by { assert forall|i: int| 0 <= i < x.len() implies b.subrange(p, p + x.len())[i] == x[i] by { assert(s[i] == (x + y)[i]); } }
    assert(b.subrange(p + x.len(), p + x.len() + y.len()) =~= y) by { assert forall|i: int| 0 <= i < y.len() implies b.subrange(p + x.len(), p + x.len() + y.len())[i] == y[i] by { assert(s[x.len() + i] == (x + y)[x.len() + i]); } }
}
proof fn lemma_rd_a(b: Seq<u8>, p: int, d: RecordTypeWithData)
    requires d is A, 0 <= p, p + rdata_enc(d).len() <= b.len(), b.subrange(p, p + rdata_enc(d).len()) == rdata_enc(d)
    ensures rdata_end(RecordType::A, b, p, rdata_enc(d).len() as int) == Some(p + rdata_enc(d).len()), rdata_is(d, RecordType::A, b, p, rdata_enc(d).len() as int),
{
    broadcast use axiom_v4_octets;
    let s = b.subrange(p, p + 4);
    assert(b[p] == s[0] && b[p + 1] == s[1] && b[p + 2] == s[2] && b[p + 3] == s[3]);
}
proof fn lemma_rd_aaaa(b: Seq<u8>, p: int, d: RecordTypeWithData)
    requires d is AAAA, 0 <= p, p + rdata_enc(d).len() <= b.len(), b.subrange(p, p + rdata_enc(d).len()) == rdata_enc(d)
    ensures rdata_end(RecordType::AAAA, b, p, rdata_enc(d).len() as int) == Some(p + rdata_enc(d).len()), rdata_is(d, RecordType::AAAA, b, p, rdata_enc(d).len() as int),
{
    broadcast use axiom_v6_octets;
    let s = b.subrange(p, p + 16);
    assert(b[p] == s[0] && b[p + 1] == s[1] && b[p + 2] == s[2] && b[p + 3] == s[3] && b[p + 4] == s[4] && b[p + 5] == s[5] && b[p + 6] == s[6] && b[p + 7] == s[7]);
    assert(b[p + 8] == s[8] && b[p + 9] == s[9] && b[p + 10] == s[10] && b[p + 11] == s[11] && b[p + 12] == s[12] && b[p + 13] == s[13] && b[p + 14] == s[14] && b[p + 15] == s[15]);
}
proof fn lemma_rd_minfo(b: Seq<u8>, p: int, d: RecordTypeWithData)
    requires d is MINFO, rr_names_wf(d), 0 <= p, p + rdata_enc(d).len() <= b.len(), b.subrange(p, p + rdata_enc(d).len()) == rdata_enc(d)
    ensures rdata_end(RecordType::MINFO, b, p, rdata_enc(d).len() as int) == Some(p + rdata_enc(d).len()), rdata_is(d, RecordType::MINFO, b, p, rdata_enc(d).len() as int),
{
    let rmailbx = d->MINFO_rmailbx; let emailbx = d->MINFO_emailbx;
    lemma_sub_concat(b, p, nb(rmailbx), nb(emailbx));
    lemma_plain_name_back(b, p, rmailbx);
    lemma_plain_name_back(b, p + nb(rmailbx).len(), emailbx);
}
proof fn lemma_rd_mx(b: Seq<u8>, p: int, d: RecordTypeWithData)
    requires d is MX, rr_names_wf(d), 0 <= p, p + rdata_enc(d).len() <= b.len(), b.subrange(p, p + rdata_enc(d).len()) == rdata_enc(d)
    ensures rdata_end(RecordType::MX, b, p, rdata_enc(d).len() as int) == Some(p + rdata_enc(d).len()), rdata_is(d, RecordType::MX, b, p, rdata_enc(d).len() as int),
{
    let preference = d->MX_preference; let exchange = d->MX_exchange;
    lemma_sub_concat(b, p, u16b(preference), nb(exchange));
    lemma_u16_back(b, p, preference);
    lemma_plain_name_back(b, p + 2, exchange);
}
proof fn lemma_rd_srv(b: Seq<u8>, p: int, d: RecordTypeWithData)
    requires d is SRV, rr_names_wf(d), 0 <= p, p + rdata_enc(d).len() <= b.len(), b.subrange(p, p + rdata_enc(d).len()) == rdata_enc(d)
    ensures rdata_end(RecordType::SRV, b, p, rdata_enc(d).len() as int) == Some(p + rdata_enc(d).len()), rdata_is(d, RecordType::SRV, b, p, rdata_enc(d).len() as int),
{
    let priority = d->SRV_priority; let weight = d->SRV_weight; let port = d->SRV_port; let target = d->SRV_target;
    let x = u16b(priority) + u16b(weight) + u16b(port);
    assert(rdata_enc(d) =~= x + nb(target));
    lemma_sub_concat(b, p, x, nb(target));
    assert(x =~= u16b(priority) + (u16b(weight) + u16b(port)));
    lemma_sub_concat(b, p, u16b(priority), u16b(weight) + u16b(port));
    lemma_sub_concat(b, p + 2, u16b(weight), u16b(port));
    lemma_u16_back(b, p, priority); lemma_u16_back(b, p + 2, weight); lemma_u16_back(b, p + 4, port);
    lemma_plain_name_back(b, p + 6, target);
}
proof fn lemma_rd_soa(b: Seq<u8>, p: int, d: RecordTypeWithData)
    requires d is SOA, rr_names_wf(d), 0 <= p, p + rdata_enc(d).len() <= b.len(), b.subrange(p, p + rdata_enc(d).len()) == rdata_enc(d)
    ensures rdata_end(RecordType::SOA, b, p, rdata_enc(d).len() as int) == Some(p + rdata_enc(d).len()), rdata_is(d, RecordType::SOA, b, p, rdata_enc(d).len() as int),
{
    let mname = d->SOA_mname; let rname = d->SOA_rname; let serial = d->SOA_serial; let refresh = d->SOA_refresh; let retry = d->SOA_retry; let expire = d->SOA_expire; let minimum = d->SOA_minimum;
    let n3 = u32b(retry) + u32b(expire) + u32b(minimum);
    let n4 = u32b(refresh) + u32b(retry) + u32b(expire) + u32b(minimum);
    let nums = u32b(serial) + u32b(refresh) + u32b(retry) + u32b(expire) + u32b(minimum);
    assert(rdata_enc(d) =~= nb(mname) + (nb(rname) + nums));
    lemma_sub_concat(b, p, nb(mname), nb(rname) + nums);
    let p1 = p + nb(mname).len();
    lemma_sub_concat(b, p1, nb(rname), nums);
    let q = p1 + nb(rname).len();
    lemma_plain_name_back(b, p, mname);
    lemma_plain_name_back(b, p1, rname);
    assert(nums =~= u32b(serial) + n4);
    lemma_sub_concat(b, q, u32b(serial), n4);
    assert(n4 =~= u32b(refresh) + n3);
    lemma_sub_concat(b, q + 4, u32b(refresh), n3);
    assert(n3 =~= u32b(retry) + (u32b(expire) + u32b(minimum)));
    lemma_sub_concat(b, q + 8, u32b(retry), u32b(expire) + u32b(minimum));
    lemma_sub_concat(b, q + 12, u32b(expire), u32b(minimum));
    lemma_u32_back(b, q, serial); lemma_u32_back(b, q + 4, refresh); lemma_u32_back(b, q + 8, retry); lemma_u32_back(b, q + 12, expire); lemma_u32_back(b, q + 16, minimum);
}
// C04: the RDATA the encoder writes reads back, through the independent decoder of unit wire_decode, as the same data, and spans
// exactly the octets written
pub proof fn lemma_rdata_reads_back(b: Seq<u8>, p: int, d: RecordTypeWithData)
    requires rr_names_wf(d), 0 <= p, p + rdata_enc(d).len() <= b.len(), b.subrange(p, p + rdata_enc(d).len()) == rdata_enc(d)
    ensures rdata_end(spec_rtype_of(d), b, p, rdata_enc(d).len() as int) == Some(p + rdata_enc(d).len()), // [C04:written_rdata_is_well_formed_for_its_type]
        rdata_is(d, spec_rtype_of(d), b, p, rdata_enc(d).len() as int), // [C04:written_rdata_reads_back_as_the_same_data]
{
    match d {
        RecordTypeWithData::A { .. } => { lemma_rd_a(b, p, d); }
        RecordTypeWithData::AAAA { .. } => { lemma_rd_aaaa(b, p, d); }
        RecordTypeWithData::NS { nsdname } => { lemma_plain_name_back(b, p, nsdname); }
        RecordTypeWithData::MD { madname } => { lemma_plain_name_back(b, p, madname); }
        RecordTypeWithData::MF { madname } => { lemma_plain_name_back(b, p, madname); }
        RecordTypeWithData::CNAME { cname } => { lemma_plain_name_back(b, p, cname); }
        RecordTypeWithData::MB { madname } => { lemma_plain_name_back(b, p, madname); }
        RecordTypeWithData::MG { mdmname } => { lemma_plain_name_back(b, p, mdmname); }
        RecordTypeWithData::MR { newname } => { lemma_plain_name_back(b, p, newname); }
        RecordTypeWithData::PTR { ptrdname } => { lemma_plain_name_back(b, p, ptrdname); }
        RecordTypeWithData::MINFO { .. } => { lemma_rd_minfo(b, p, d); }
        RecordTypeWithData::MX { .. } => { lemma_rd_mx(b, p, d); }
        RecordTypeWithData::SRV { .. } => { lemma_rd_srv(b, p, d); }
        RecordTypeWithData::SOA { .. } => { lemma_rd_soa(b, p, d); }
        _ => {}
    }
}

// ---- the message level (C04): what was written stays what it is when more is appended, so the sections can be chained
pub proof fn lemma_spec_name_bounds(b: Seq<u8>, s: int, p: int)
    requires spec_name(b, s, p) is Some
    ensures 0 <= s <= p, p < spec_name(b, s, p)->Some_0.1 <= b.len()
    decreases s, b.len() - p
{
    let size = b[p];
    if size != 0 && size <= 63 { lemma_spec_name_bounds(b, s, p + 1 + size); }
}
pub proof fn lemma_name_at_bounds(b: Seq<u8>, p: int)
    requires name_at(b, p) is Some
    ensures 0 <= p < name_at(b, p)->Some_0.1 <= b.len()
{ lemma_spec_name_bounds(b, p, p); }
pub proof fn lemma_question_prefix(b1: Seq<u8>, b2: Seq<u8>, p: int, q: Question)
    requires is_prefix(b1, b2), question_at(b1, p) is Some
    ensures question_at(b2, p) == question_at(b1, p), 0 <= p < question_at(b1, p)->Some_0 <= b1.len(), question_is(q, b1, p) ==> question_is(q, b2, p)
{
    lemma_name_at_prefix(b1, b2, p);
    lemma_name_at_bounds(b1, p);
    let e = name_at(b1, p)->Some_0.1;
    assert(b2[e] == b1[e] && b2[e + 1] == b1[e + 1] && b2[e + 2] == b1[e + 2] && b2[e + 3] == b1[e + 3]);
}
// names / integers / octets inside a well-formed RDATA lie within it
proof fn lemma_name_in(b1: Seq<u8>, b2: Seq<u8>, p: int)
    requires is_prefix(b1, b2), name_at(b1, p) is Some
    ensures name_at(b2, p) == name_at(b1, p), 0 <= p < ne(b1, p) <= b1.len(), ne(b2, p) == ne(b1, p), forall|n: DomainName| nm_is(n, b1, p) == nm_is(n, b2, p)
{ lemma_name_at_prefix(b1, b2, p); lemma_name_at_bounds(b1, p); }
pub proof fn lemma_rdata_prefix(t: RecordType, b1: Seq<u8>, b2: Seq<u8>, p: int, rdl: int, d: RecordTypeWithData)
    requires is_prefix(b1, b2), 0 <= p, 0 <= rdl, rdata_end(t, b1, p, rdl) is Some
    ensures rdata_end(t, b2, p, rdl) == rdata_end(t, b1, p, rdl), rdata_end(t, b1, p, rdl)->Some_0 <= b1.len(),
        rdata_end(t, b1, p, rdl) == Some(p + rdl) && rdata_is(d, t, b1, p, rdl) ==> rdata_is(d, t, b2, p, rdl)
{
    match t {
        RecordType::NS | RecordType::MD | RecordType::MF | RecordType::CNAME | RecordType::MB | RecordType::MG | RecordType::MR | RecordType::PTR => { lemma_name_in(b1, b2, p); }
        RecordType::MINFO => { lemma_name_in(b1, b2, p); lemma_name_in(b1, b2, ne(b1, p)); }
        RecordType::MX => { lemma_name_in(b1, b2, p + 2); assert(b2[p] == b1[p] && b2[p + 1] == b1[p + 1]); }
        RecordType::SRV => { lemma_name_in(b1, b2, p + 6); assert(b2[p] == b1[p] && b2[p + 1] == b1[p + 1] && b2[p + 2] == b1[p + 2] && b2[p + 3] == b1[p + 3] && b2[p + 4] == b1[p + 4] && b2[p + 5] == b1[p + 5]); }
        RecordType::SOA => {
            lemma_name_in(b1, b2, p); lemma_name_in(b1, b2, ne(b1, p));
            let q = ne(b1, ne(b1, p));
            assert forall|i: int| q <= i < q + 20 implies b2[i] == b1[i] by {}
        }
        RecordType::A => { assert(b2[p] == b1[p] && b2[p + 1] == b1[p + 1] && b2[p + 2] == b1[p + 2] && b2[p + 3] == b1[p + 3]); }
        RecordType::AAAA => { assert forall|i: int| p <= i < p + 16 implies b2[i] == b1[i] by {} }
        _ => { assert(b2.subrange(p, p + rdl) =~= b1.subrange(p, p + rdl)); }
    }
}
pub proof fn lemma_rr_prefix(b1: Seq<u8>, b2: Seq<u8>, p: int, rr: ResourceRecord)
    requires is_prefix(b1, b2), rr_at(b1, p) is Some
    ensures rr_at(b2, p) == rr_at(b1, p), 0 <= p < rr_at(b1, p)->Some_0 <= b1.len(), rr_is(rr, b1, p) ==> rr_is(rr, b2, p)
{
    reveal(rr_at);
    lemma_name_at_prefix(b1, b2, p);
    lemma_name_at_bounds(b1, p);
    let e = name_at(b1, p)->Some_0.1;
    assert forall|i: int| e <= i < e + 10 implies b2[i] == b1[i] by {}
    let t = spec_rtype_from(be16(b1[e], b1[e + 1]));
    let rdl = be16(b1[e + 8], b1[e + 9]) as int;
    lemma_rdata_prefix(t, b1, b2, e + 10, rdl, rr.rtype_with_data);
}
// the offsets of the questions / records written so far do not move when more is appended
pub proof fn lemma_q_off_prefix(b1: Seq<u8>, b2: Seq<u8>, n: nat)
    requires is_prefix(b1, b2), forall|j: nat| j < n ==> question_at(b1, #[trigger] q_off(b1, j)) is Some
    ensures forall|j: nat| j <= n ==> #[trigger] q_off(b2, j) == q_off(b1, j)
    decreases n
{
    if n > 0 {
        lemma_q_off_prefix(b1, b2, (n - 1) as nat);
        let k = (n - 1) as nat;
        assert(question_at(b1, q_off(b1, k)) is Some);
        assert(q_off(b2, k) == q_off(b1, k));
        lemma_question_prefix(b1, b2, q_off(b1, k), arbitrary());
        assert(q_off(b2, n) == question_at(b2, q_off(b2, k))->Some_0);
        assert(q_off(b1, n) == question_at(b1, q_off(b1, k))->Some_0);
        assert forall|j: nat| j <= n implies #[trigger] q_off(b2, j) == q_off(b1, j) by { if j < n { assert(j <= (n - 1) as nat); } }
    }
}
pub proof fn lemma_rr_off_prefix(b1: Seq<u8>, b2: Seq<u8>, s: int, n: nat)
    requires is_prefix(b1, b2), forall|j: nat| j < n ==> rr_at(b1, #[trigger] rr_off(b1, s, j)) is Some
    ensures forall|j: nat| j <= n ==> #[trigger] rr_off(b2, s, j) == rr_off(b1, s, j)
    decreases n
{
    if n > 0 {
        lemma_rr_off_prefix(b1, b2, s, (n - 1) as nat);
        let k = (n - 1) as nat;
        assert(rr_at(b1, rr_off(b1, s, k)) is Some);
        assert(rr_off(b2, s, k) == rr_off(b1, s, k));
        lemma_rr_prefix(b1, b2, rr_off(b1, s, k), arbitrary());
        assert(rr_off(b2, s, n) == rr_at(b2, rr_off(b2, s, k))->Some_0);
        assert(rr_off(b1, s, n) == rr_at(b1, rr_off(b1, s, k))->Some_0);
        assert forall|j: nat| j <= n implies #[trigger] rr_off(b2, s, j) == rr_off(b1, s, j) by { if j < n { assert(j <= (n - 1) as nat); } }
    }
}
// every question / record of a message has its canonical TYPE and CLASS code (Unknown(x) only for codes without a name of their own)
pub open spec fn msg_canonical(m: Message) -> bool {
    &&& forall|i: int| 0 <= i < m.questions@.len() ==> qtype_wf((#[trigger] m.questions@[i]).qtype) && qclass_wf(m.questions@[i].qclass)
    &&& forall|i: int| 0 <= i < m.answers@.len() ==> rtype_wf(spec_rtype_of((#[trigger] m.answers@[i]).rtype_with_data)) && rclass_wf(m.answers@[i].rclass)
    &&& forall|i: int| 0 <= i < m.authority@.len() ==> rtype_wf(spec_rtype_of((#[trigger] m.authority@[i]).rtype_with_data)) && rclass_wf(m.authority@[i].rclass)
    &&& forall|i: int| 0 <= i < m.additional@.len() ==> rtype_wf(spec_rtype_of((#[trigger] m.additional@[i]).rtype_with_data)) && rclass_wf(m.additional@[i].rclass)
}
// the first n questions / records (of a section starting at s) are well-formed where they stand and are the given ones
pub open spec fn qs_written(qs: Seq<Question>, n: int, b: Seq<u8>) -> bool {
    forall|j: int| 0 <= j < n ==> question_at(b, #[trigger] q_off(b, j as nat)) is Some && question_is(qs[j], b, q_off(b, j as nat))
}
pub open spec fn rrs_written(rrs: Seq<ResourceRecord>, n: int, b: Seq<u8>, s: int) -> bool {
    forall|j: int| 0 <= j < n ==> rr_at(b, #[trigger] rr_off(b, s, j as nat)) is Some && rr_is(rrs[j], b, rr_off(b, s, j as nat))
}
pub proof fn lemma_qs_written_extend(qs: Seq<Question>, n: int, b1: Seq<u8>, b2: Seq<u8>)
    requires is_prefix(b1, b2), 0 <= n < qs.len(), qs_written(qs, n, b1), q_off(b1, n as nat) == b1.len(),
        question_at(b2, b1.len() as int) == Some(b2.len() as int), question_is(qs[n], b2, b1.len() as int)
    ensures qs_written(qs, n + 1, b2), q_off(b2, (n + 1) as nat) == b2.len()
{
    assert forall|j: nat| j < n implies question_at(b1, #[trigger] q_off(b1, j)) is Some by { let ji = j as int; assert(0 <= ji < n); assert(ji as nat == j); assert(question_at(b1, q_off(b1, ji as nat)) is Some); }
    lemma_q_off_prefix(b1, b2, n as nat);
    assert forall|j: int| 0 <= j < n + 1 implies question_at(b2, #[trigger] q_off(b2, j as nat)) is Some && question_is(qs[j], b2, q_off(b2, j as nat)) by {
        assert(q_off(b2, j as nat) == q_off(b1, j as nat));
        if j < n { lemma_question_prefix(b1, b2, q_off(b1, j as nat), qs[j]); }
    }
    assert(q_off(b2, n as nat) == b1.len());
}
pub proof fn lemma_rrs_written_extend(rrs: Seq<ResourceRecord>, n: int, b1: Seq<u8>, b2: Seq<u8>, s: int)
    requires is_prefix(b1, b2), 0 <= n < rrs.len(), rrs_written(rrs, n, b1, s), rr_off(b1, s, n as nat) == b1.len(),
        rr_at(b2, b1.len() as int) == Some(b2.len() as int), rr_is(rrs[n], b2, b1.len() as int)
    ensures rrs_written(rrs, n + 1, b2, s), rr_off(b2, s, (n + 1) as nat) == b2.len()
{
    assert forall|j: nat| j < n implies rr_at(b1, #[trigger] rr_off(b1, s, j)) is Some by { let ji = j as int; assert(0 <= ji < n); assert(ji as nat == j); assert(rr_at(b1, rr_off(b1, s, ji as nat)) is Some); }
    lemma_rr_off_prefix(b1, b2, s, n as nat);
    assert forall|j: int| 0 <= j < n + 1 implies rr_at(b2, #[trigger] rr_off(b2, s, j as nat)) is Some && rr_is(rrs[j], b2, rr_off(b2, s, j as nat)) by {
        assert(rr_off(b2, s, j as nat) == rr_off(b1, s, j as nat));
        if j < n { lemma_rr_prefix(b1, b2, rr_off(b1, s, j as nat), rrs[j]); }
    }
    assert(rr_off(b2, s, n as nat) == b1.len());
}
// a finished section stays what it is while the following sections are appended
pub proof fn lemma_qs_written_keep(qs: Seq<Question>, n: int, b1: Seq<u8>, b2: Seq<u8>)
    requires is_prefix(b1, b2), 0 <= n <= qs.len(), qs_written(qs, n, b1)
    ensures qs_written(qs, n, b2), q_off(b2, n as nat) == q_off(b1, n as nat)
{
    assert forall|j: nat| j < n implies question_at(b1, #[trigger] q_off(b1, j)) is Some by { let ji = j as int; assert(0 <= ji < n); assert(ji as nat == j); assert(question_at(b1, q_off(b1, ji as nat)) is Some); }
    lemma_q_off_prefix(b1, b2, n as nat);
    assert forall|j: int| 0 <= j < n implies question_at(b2, #[trigger] q_off(b2, j as nat)) is Some && question_is(qs[j], b2, q_off(b2, j as nat)) by {
        assert(q_off(b2, j as nat) == q_off(b1, j as nat));
        lemma_question_prefix(b1, b2, q_off(b1, j as nat), qs[j]);
    }
}
pub proof fn lemma_rrs_written_keep(rrs: Seq<ResourceRecord>, n: int, b1: Seq<u8>, b2: Seq<u8>, s: int)
    requires is_prefix(b1, b2), 0 <= n <= rrs.len(), rrs_written(rrs, n, b1, s)
    ensures rrs_written(rrs, n, b2, s), rr_off(b2, s, n as nat) == rr_off(b1, s, n as nat)
{
    assert forall|j: nat| j < n implies rr_at(b1, #[trigger] rr_off(b1, s, j)) is Some by { let ji = j as int; assert(0 <= ji < n); assert(ji as nat == j); assert(rr_at(b1, rr_off(b1, s, ji as nat)) is Some); }
    lemma_rr_off_prefix(b1, b2, s, n as nat);
    assert forall|j: int| 0 <= j < n implies rr_at(b2, #[trigger] rr_off(b2, s, j as nat)) is Some && rr_is(rrs[j], b2, rr_off(b2, s, j as nat)) by {
        assert(rr_off(b2, s, j as nat) == rr_off(b1, s, j as nat));
        lemma_rr_prefix(b1, b2, rr_off(b1, s, j as nat), rrs[j]);
    }
}
// the chain of offsets, read from the front: a section whose records all stand where rr_off says is accepted as a whole
pub proof fn lemma_rr_off_shift(b: Seq<u8>, s: int, j: nat)
    requires rr_at(b, s) is Some
    ensures rr_off(b, rr_at(b, s)->Some_0, j) == rr_off(b, s, j + 1)
    decreases j
{
    let q = rr_at(b, s)->Some_0;
    if j == 0 {
        assert(rr_off(b, s, 0) == s);
        assert(rr_off(b, s, 1) == rr_at(b, rr_off(b, s, 0))->Some_0);
    } else {
        lemma_rr_off_shift(b, s, (j - 1) as nat);
        assert(rr_off(b, q, j) == rr_at(b, rr_off(b, q, (j - 1) as nat))->Some_0);
        assert(rr_off(b, s, j + 1) == rr_at(b, rr_off(b, s, j))->Some_0);
    }
}
pub proof fn lemma_rrs_end_chain(b: Seq<u8>, s: int, n: nat)
    requires forall|j: nat| j < n ==> rr_at(b, #[trigger] rr_off(b, s, j)) is Some
    ensures rrs_end(b, s, n) == Some(rr_off(b, s, n))
    decreases n
{
    if n > 0 {
        assert(rr_at(b, rr_off(b, s, 0)) is Some);
        let q = rr_at(b, s)->Some_0;
        assert forall|j: nat| j < (n - 1) as nat implies rr_at(b, #[trigger] rr_off(b, q, j)) is Some by {
            lemma_rr_off_shift(b, s, j);
            assert(rr_at(b, rr_off(b, s, j + 1)) is Some);
        }
        lemma_rrs_end_chain(b, q, (n - 1) as nat);
        lemma_rr_off_shift(b, s, (n - 1) as nat);
    }
}
pub proof fn lemma_q_off_shift(b: Seq<u8>, s: int, j: nat)
    requires question_at(b, s) is Some
    ensures q_from(b, question_at(b, s)->Some_0, j) == q_from(b, s, j + 1)
    decreases j
{
    let q = question_at(b, s)->Some_0;
    if j == 0 {
        assert(q_from(b, s, 0) == s);
        assert(q_from(b, s, 1) == question_at(b, q_from(b, s, 0))->Some_0);
    } else {
        lemma_q_off_shift(b, s, (j - 1) as nat);
        assert(q_from(b, q, j) == question_at(b, q_from(b, q, (j - 1) as nat))->Some_0);
        assert(q_from(b, s, j + 1) == question_at(b, q_from(b, s, j))->Some_0);
    }
}
pub proof fn lemma_questions_end_chain(b: Seq<u8>, s: int, n: nat)
    requires forall|j: nat| j < n ==> question_at(b, #[trigger] q_from(b, s, j)) is Some
    ensures questions_end(b, s, n) == Some(q_from(b, s, n))
    decreases n
{
    if n > 0 {
        assert(question_at(b, q_from(b, s, 0)) is Some);
        let q = question_at(b, s)->Some_0;
        assert forall|j: nat| j < (n - 1) as nat implies question_at(b, #[trigger] q_from(b, q, j)) is Some by {
            lemma_q_off_shift(b, s, j);
            assert(question_at(b, q_from(b, s, j + 1)) is Some);
        }
        lemma_questions_end_chain(b, q, (n - 1) as nat);
        lemma_q_off_shift(b, s, (n - 1) as nat);
    }
}
pub proof fn lemma_q_from_12(b: Seq<u8>, j: nat)
    ensures q_from(b, 12, j) == q_off(b, j)
    decreases j
{ if j > 0 { lemma_q_from_12(b, (j - 1) as nat); } }
