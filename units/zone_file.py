"""Unit `zone_file` (C11, C17 - each in part): the entry level of the zone-file reader, `Zone::deserialise` and `parse_entry`
(zones/deserialise.rs).

`parse_entry`: reads entries until one holds tokens; terminates and consumes input (over the contract of `tokenise_entry`, proved in
unit zone_text), hands the tokens together with the origin / previous owner / previous TTL it was given to one of the three entry
parsers (stand-ins).  `Zone::deserialise`: each entry is read in the context RFC 1035 section 5.1 prescribes (origin = the last
$ORIGIN, owner and TTL inherited from the last record), $INCLUDE, a second SOA, a wildcard SOA and a name outside the apex are
rejected, and an accepted file yields the zone whose apex and SOA are those of its SOA entry and into which exactly its records
were inserted, in order.  The entry parsers themselves (field shapes, names, numbers, RDATA) are oracles here."""
from units.base import *
import re

ZDESER = "crates/dns-types/src/zones/deserialise.rs"

TRUSTED = TRUSTED_COMMON + [
    "R46: the character iterator (`data.chars().peekable()`) read as the stand-in `CharStream` (see unit zone_text); `shim_chars(data)` yields the characters of `data`",
    "the entry parsers parse_origin / parse_include / parse_rr are oracles in THIS unit (their meaning is proved in unit zone_rr, down to try_parse_rtype_with_data, u32::from_str and the dotted-name parsers): parse_entry as used by Zone::deserialise is the uninterpreted function `entry_of(context, text)`; that the real parse_entry is such a function of its arguments is read off its body (proved here only: termination, consumption, arguments passed on unchanged)",
    "tokenise_entry: contract assumed here (consumes input; the text of a token is its octets), proved in unit zone_text",
    "Zone::new / default / get_apex / insert / insert_wildcard: stand-ins that record apex, SOA and the inserted records in order (their meaning - tree placement, TTL raised to the SOA minimum - is proved in units zone_build / zone_lookup)",
    "DomainName::is_subdomain_of: contract assumed here, proved in unit names; RecordTypeWithData::rtype assumed to agree with the variant (proved in wire_codec); `String == &str` as a shim without postcondition (R33)",
]

STANDINS = """
use vstd::std_specs::char::is_white_space;
pub struct CharStream { pub rem: Ghost<Seq<char>> }
impl CharStream {
    #[verifier::external_body]
    pub fn peek(&mut self) -> (r: Option<&char>)
        ensures final(self).rem@ == old(self).rem@, r is None <==> old(self).rem@.len() == 0,
    { unimplemented!() }
}
#[verifier::external_body]
fn shim_chars(data: &str) -> (r: CharStream) ensures r.rem@ == data@ { unimplemented!() }
// a string has no octets exactly when it has no characters, and never fewer octets than characters (UTF-8)
pub assume_specification<'a> [String::as_bytes] (s: &'a String) -> (r: &'a [u8]) ensures (r@.len() == 0) == (s@.len() == 0), r@.len() >= s@.len();
// R33: `token == "$ORIGIN"`: which keyword a token is, is not modelled
#[verifier::external_body]
fn shim_str_eq(a: &String, b: &str) -> (r: bool) { a == b }
// the inserted records, as the zone stand-in logs them
pub struct Ins { pub wild: bool, pub name: DomainName, pub data: RecordTypeWithData, pub ttl: u32 }
pub struct Zone { pub apex: DomainName, pub soa: Option<SOA>, pub log: Ghost<Seq<Ins>> }
impl Zone {
    #[verifier::external_body]
    pub fn new(apex: DomainName, soa: Option<SOA>) -> (r: Zone) ensures r.apex == apex, r.soa == soa, r.log@ == Seq::<Ins>::empty() { unimplemented!() }
    #[verifier::external_body]
    pub fn default() -> (r: Zone) ensures r.apex.labels@.len() == 1, r.soa is None, r.log@ == Seq::<Ins>::empty() { unimplemented!() }
    #[verifier::external_body]
    pub fn get_apex(&self) -> (r: &DomainName) ensures *r == self.apex { unimplemented!() }
    #[verifier::external_body]
    pub fn insert(&mut self, name: &DomainName, rtype_with_data: RecordTypeWithData, ttl: u32)
        ensures final(self).apex == old(self).apex, final(self).soa == old(self).soa,
            final(self).log@ == old(self).log@.push(Ins { wild: false, name: *name, data: rtype_with_data, ttl }),
    { unimplemented!() }
    #[verifier::external_body]
    pub fn insert_wildcard(&mut self, name: &DomainName, rtype_with_data: RecordTypeWithData, ttl: u32)
        ensures final(self).apex == old(self).apex, final(self).soa == old(self).soa,
            final(self).log@ == old(self).log@.push(Ins { wild: true, name: *name, data: rtype_with_data, ttl }),
    { unimplemented!() }
}
"""

SPEC_RS = """
// ---- the context an entry is read in (RFC 1035 section 5.1): the current origin, the last stated owner, the last stated TTL
struct Ctx { origin: Option<DomainName>, owner: Option<MaybeWildcard>, ttl: Option<u32> }
spec fn ctx_of(origin: Option<DomainName>, owner: Option<MaybeWildcard>, ttl: Option<u32>) -> Ctx { Ctx { origin, owner, ttl } }
spec fn ctx0() -> Ctx { Ctx { origin: None, owner: None, ttl: None } }
spec fn next_ctx(c: Ctx, e: Entry) -> Ctx {
    match e {
        Entry::Origin { name } => Ctx { origin: Some(name), owner: c.owner, ttl: c.ttl },
        Entry::Include { .. } => c,
        Entry::RR { rr } => Ctx { origin: c.origin, owner: Some(MaybeWildcard::Normal { name: rr.name }), ttl: Some(rr.ttl) },
        Entry::WildcardRR { rr } => Ctx { origin: c.origin, owner: Some(MaybeWildcard::Wildcard { name: rr.name }), ttl: Some(rr.ttl) },
    }
}
// the entry parser as an oracle: what the next entry of a text is in a context, and the text left after it
uninterp spec fn entry_of(c: Ctx, s: Seq<char>) -> (Result<Option<Entry>, Error>, Seq<char>);
spec fn opt_dn(o: Option<&DomainName>) -> Option<DomainName> { match o { Some(n) => Some(*n), None => None } }
spec fn opt_mw(o: Option<&MaybeWildcard>) -> Option<MaybeWildcard> { match o { Some(n) => Some(*n), None => None } }
// reading the entries `es` one after the other from (c, s), each in the context the previous ones leave: where that ends
spec fn chain(c: Ctx, s: Seq<char>, es: Seq<Entry>) -> Option<(Ctx, Seq<char>)>
    decreases es.len()
{
    if es.len() == 0 { Some((c, s)) } else {
        match chain(c, s, es.drop_last()) {
            Some((c1, s1)) => if entry_of(c1, s1).0 == Ok::<Option<Entry>, Error>(Some(es.last())) { Some((next_ctx(c1, es.last()), entry_of(c1, s1).1)) } else { None },
            None => None,
        }
    }
}
spec fn reads_whole_file(d: Seq<char>, es: Seq<Entry>) -> bool {
    chain(ctx0(), d, es) is Some && entry_of(chain(ctx0(), d, es)->Some_0.0, chain(ctx0(), d, es)->Some_0.1).0 == Ok::<Option<Entry>, Error>(None)
}
// -- what a sequence of entries denotes
spec fn is_soa_entry(e: Entry) -> bool { e is RR && e->RR_rr.rtype_with_data is SOA }
spec fn soa_count(es: Seq<Entry>) -> nat decreases es.len() {
    if es.len() == 0 { 0 } else { soa_count(es.drop_last()) + if is_soa_entry(es.last()) { 1nat } else { 0nat } }
}
spec fn has_include(es: Seq<Entry>) -> bool { exists|i: int| 0 <= i < es.len() && #[trigger] es[i] is Include }
spec fn has_wildcard_soa(es: Seq<Entry>) -> bool { exists|i: int| 0 <= i < es.len() && (#[trigger] es[i]) is WildcardRR && es[i]->WildcardRR_rr.rtype_with_data is SOA }
spec fn the_soa(es: Seq<Entry>) -> Option<(DomainName, SOA)> decreases es.len() {
    if es.len() == 0 { None } else if is_soa_entry(es.last()) {
        let rr = es.last()->RR_rr;
        Some((rr.name, SOA { mname: rr.rtype_with_data->SOA_mname, rname: rr.rtype_with_data->SOA_rname, serial: rr.rtype_with_data->SOA_serial,
            refresh: rr.rtype_with_data->SOA_refresh, retry: rr.rtype_with_data->SOA_retry, expire: rr.rtype_with_data->SOA_expire, minimum: rr.rtype_with_data->SOA_minimum }))
    } else { the_soa(es.drop_last()) }
}
spec fn normal_rrs(es: Seq<Entry>) -> Seq<ResourceRecord> decreases es.len() {
    if es.len() == 0 { Seq::<ResourceRecord>::empty() } else if es.last() is RR && !is_soa_entry(es.last()) { normal_rrs(es.drop_last()).push(es.last()->RR_rr) } else { normal_rrs(es.drop_last()) }
}
spec fn wild_rrs(es: Seq<Entry>) -> Seq<ResourceRecord> decreases es.len() {
    if es.len() == 0 { Seq::<ResourceRecord>::empty() } else if es.last() is WildcardRR { wild_rrs(es.drop_last()).push(es.last()->WildcardRR_rr) } else { wild_rrs(es.drop_last()) }
}
spec fn ins_seq(rrs: Seq<ResourceRecord>, wild: bool) -> Seq<Ins> { Seq::new(rrs.len(), |i: int| Ins { wild, name: rrs[i].name, data: rrs[i].rtype_with_data, ttl: rrs[i].ttl }) }
spec fn all_within(log: Seq<Ins>, apex: DomainName) -> bool { forall|i: int| 0 <= i < log.len() ==> is_suffix(apex.labels@, (#[trigger] log[i]).name.labels@) }
// the zone a file denotes: apex and SOA from its SOA entry (the root, not authoritative, without one); its other records
// inserted in file order, ordinary owners first, then wildcard owners; every owner within the apex
spec fn zone_is(z: Zone, es: Seq<Entry>) -> bool {
    &&& (the_soa(es) is Some ==> z.apex == the_soa(es)->Some_0.0 && z.soa == Some(the_soa(es)->Some_0.1))
    &&& (the_soa(es) is None ==> z.apex.labels@.len() == 1 && z.soa is None)
    &&& z.log@ == ins_seq(normal_rrs(es), false) + ins_seq(wild_rrs(es), true)
    &&& all_within(z.log@, z.apex)
}
spec fn accepted(es: Seq<Entry>) -> bool { !has_include(es) && !has_wildcard_soa(es) && soa_count(es) <= 1 }
proof fn lemma_push_entry(es: Seq<Entry>, e: Entry)
    ensures es.push(e).drop_last() == es, es.push(e).last() == e,
        has_include(es.push(e)) == (has_include(es) || e is Include),
        has_wildcard_soa(es.push(e)) == (has_wildcard_soa(es) || (e is WildcardRR && e->WildcardRR_rr.rtype_with_data is SOA)),
{
    assert(es.push(e).drop_last() =~= es);
    let p = es.push(e);
    if has_include(es) { let i = choose|i: int| 0 <= i < es.len() && #[trigger] es[i] is Include; assert(p[i] is Include); }
    if e is Include { assert(p[es.len() as int] is Include); }
    if has_include(p) { let i = choose|i: int| 0 <= i < p.len() && #[trigger] p[i] is Include; if i < es.len() { assert(es[i] is Include); } }
    if has_wildcard_soa(es) { let i = choose|i: int| 0 <= i < es.len() && (#[trigger] es[i]) is WildcardRR && es[i]->WildcardRR_rr.rtype_with_data is SOA; assert(p[i] is WildcardRR); }
    if e is WildcardRR && e->WildcardRR_rr.rtype_with_data is SOA { assert(p[es.len() as int] is WildcardRR); }
    if has_wildcard_soa(p) { let i = choose|i: int| 0 <= i < p.len() && (#[trigger] p[i]) is WildcardRR && p[i]->WildcardRR_rr.rtype_with_data is SOA; if i < es.len() { assert(es[i] is WildcardRR); } }
}
proof fn lemma_ins_take(rrs: Seq<ResourceRecord>, wild: bool, k: int)
    requires 0 <= k < rrs.len()
    ensures ins_seq(rrs.take(k + 1), wild) == ins_seq(rrs.take(k), wild).push(Ins { wild, name: rrs[k].name, data: rrs[k].rtype_with_data, ttl: rrs[k].ttl })
{
    assert(ins_seq(rrs.take(k + 1), wild) =~= ins_seq(rrs.take(k), wild).push(Ins { wild, name: rrs[k].name, data: rrs[k].rtype_with_data, ttl: rrs[k].ttl }));
}
"""

ORACLE = """
// parse_entry as Zone::deserialise sees it: the oracle `entry_of` of its arguments and the text (assumed), consuming input (proved
// for the real parse_entry in module `entry` below)
#[verifier::external_body]
fn parse_entry(origin: Option<&DomainName>, previous_domain: Option<&MaybeWildcard>, previous_ttl: Option<u32>, stream: &mut CharStream) -> (r: Result<Option<Entry>, Error>)
    ensures r == entry_of(Ctx { origin: opt_dn(origin), owner: opt_mw(previous_domain), ttl: previous_ttl }, old(stream).rem@).0,
        final(stream).rem@ == entry_of(Ctx { origin: opt_dn(origin), owner: opt_mw(previous_domain), ttl: previous_ttl }, old(stream).rem@).1,
        r is Ok && r->Ok_0 is Some ==> final(stream).rem@.len() < old(stream).rem@.len(), // entry::parse_entry/post:reading_an_entry_consumes_input
{ unimplemented!() }
"""

PARSE_STANDINS = """
// the three entry parsers (oracles) and the token reader (contract proved in unit zone_text)
uninterp spec fn toks_of(s: Seq<char>) -> (Result<Seq<(String, Bytes)>, Error>, Seq<char>);
#[verifier::external_body]
fn tokenise_entry(stream: &mut CharStream) -> (r: Result<Vec<(String, Bytes)>, Error>)
    ensures final(stream).rem@.len() <= old(stream).rem@.len(),
        old(stream).rem@.len() > 0 ==> final(stream).rem@.len() < old(stream).rem@.len(), // zone_text/tokenise_entry/post:reading_an_entry_consumes_input
        r is Ok && r->Ok_0@.len() > 0 ==> final(stream).rem@.len() < old(stream).rem@.len(), // zone_text/tokenise_entry/post:tokens_come_from_input
{ unimplemented!() }
uninterp spec fn origin_of(origin: Option<DomainName>, tokens: Seq<(String, Bytes)>) -> Result<Entry, Error>;
uninterp spec fn include_of(origin: Option<DomainName>, tokens: Seq<(String, Bytes)>) -> Result<Entry, Error>;
uninterp spec fn rr_of(origin: Option<DomainName>, owner: Option<MaybeWildcard>, ttl: Option<u32>, tokens: Seq<(String, Bytes)>) -> Result<Entry, Error>;
#[verifier::external_body]
fn parse_origin(origin: Option<&DomainName>, tokens: Vec<(String, Bytes)>) -> (r: Result<Entry, Error>) ensures r == origin_of(opt_dn(origin), tokens@) { unimplemented!() }
#[verifier::external_body]
fn parse_include(origin: Option<&DomainName>, tokens: Vec<(String, Bytes)>) -> (r: Result<Entry, Error>) ensures r == include_of(opt_dn(origin), tokens@) { unimplemented!() }
#[verifier::external_body]
fn parse_rr(origin: Option<&DomainName>, previous_domain: Option<&MaybeWildcard>, previous_ttl: Option<u32>, tokens: Vec<(String, Bytes)>) -> (r: Result<Entry, Error>)
    ensures r == rr_of(opt_dn(origin), opt_mw(previous_domain), previous_ttl, tokens@) { unimplemented!() }
"""


def _r24q(txt):
    """R24 (variant): `while let Some(x) = EXPR? SPEC { BODY }` with EXPR over several lines ->
    `loop SPEC { match EXPR? { Some(x) => { ENTRY BODY } None => { break; } } }` (Rust's desugaring of while-let)."""
    m = re.search(r"while let Some\(([a-z_]+)\) = ((?:[^{};])+?\?)\s*\n(\s*(?:invariant|ensures|decreases)[^{]*)\{", txt)
    if not m:
        return txt, 0
    open_i = m.end() - 1
    depth, j = 0, open_i
    while True:
        if txt[j] == "{":
            depth += 1
        elif txt[j] == "}":
            depth -= 1
            if depth == 0:
                break
        j += 1
    body = txt[open_i + 1:j]
    new = txt[:m.start()] + "loop\n" + m.group(3) + "{ match " + m.group(2) + " { Some(" + m.group(1) + ") => {" + body + "} None => { break; } } }" + txt[j + 1:]
    return new, 1


SPECS = {
    "parse_entry": {"props": ["C11", "C17"],
        "header_rewrites": [("R46", r"<I: Iterator<Item = char>>", ""), ("R46", r"Peekable<I>", "CharStream")],
        "rewrites": [("R33", r"tokens\[0\]\.0 == (\"\$[A-Z]+\")", r"shim_str_eq(&tokens[0].0, \1)")],
        "contract": """    ensures
        final(stream).rem@.len() <= old(stream).rem@.len(),
        r is Ok && r->Ok_0 is Some ==> final(stream).rem@.len() < old(stream).rem@.len(), // [C17:reading_an_entry_consumes_input]
        r is Ok && r->Ok_0 is None ==> final(stream).rem@.len() == 0, // [C11:the_file_ends_only_at_the_end_of_its_text]
        r is Ok && r->Ok_0 is Some ==> exists|tokens: Seq<(String, Bytes)>|
            #![trigger origin_of(opt_dn(origin), tokens)] #![trigger include_of(opt_dn(origin), tokens)] #![trigger rr_of(opt_dn(origin), opt_mw(previous_domain), previous_ttl, tokens)]
            tokens.len() > 0 && (origin_of(opt_dn(origin), tokens) == Ok::<Entry, Error>(r->Ok_0->Some_0)
            || include_of(opt_dn(origin), tokens) == Ok::<Entry, Error>(r->Ok_0->Some_0)
            || rr_of(opt_dn(origin), opt_mw(previous_domain), previous_ttl, tokens) == Ok::<Entry, Error>(r->Ok_0->Some_0)), // [C11:an_entry_is_parsed_with_the_origin_owner_and_ttl_in_force]""",
        "loops": {"0": {"kw": "loop", "spec": """        invariant stream.rem@.len() <= old(stream).rem@.len(),
        decreases stream.rem@.len(),"""}}},
    "Zone::deserialise": {"props": ["C11", "C17"], "depub": True,
        "rewrites": [("R46", r"data\.chars\(\)\.peekable\(\)", "shim_chars(data)"), ("R24", _r24q)],
        "contract": """    ensures
        r is Ok ==> exists|es: Seq<Entry>| #[trigger] reads_whole_file(data@, es) // [C11:every_entry_is_read_in_the_context_rfc1035_prescribes]
            && accepted(es) // [C11:include_a_second_soa_and_a_wildcard_soa_are_rejected]
            && zone_is(r->Ok_0, es), // [C11:the_zone_holds_the_apex_soa_and_exactly_the_records_of_its_entries_all_within_the_apex]""",
        "entry": "let ghost mut es__: Seq<Entry> = Seq::<Entry>::empty();",
        "loops": {
            "0": {"kw": "while", "spec": """        invariant_except_break
            chain(ctx0(), data@, es__) == Some((ctx_of(origin, previous_domain, previous_ttl), stream.rem@)), // [C11:every_entry_is_read_in_the_context_rfc1035_prescribes]
        invariant
            !has_include(es__), !has_wildcard_soa(es__), soa_count(es__) <= 1, // [C11:include_a_second_soa_and_a_wildcard_soa_are_rejected]
            apex_and_soa == the_soa(es__), (apex_and_soa is None) == (soa_count(es__) == 0), // [C11:apex_and_soa_come_from_the_soa_entry]
            rrs@ == normal_rrs(es__), wildcard_rrs@ == wild_rrs(es__), // [C11:every_record_entry_is_kept_in_file_order]
        ensures
            reads_whole_file(data@, es__),
        decreases stream.rem@.len(), // [C17:reading_a_zone_file_terminates]
""", "entry": "broadcast use group_eq_axioms; proof { lemma_push_entry(es__, entry); es__ = es__.push(entry); }"},
            "1": {"kw": "for", "iter_name": "it1__", "spec": """        invariant
            it1__.seq() == normal_rrs(es__),
            zone.apex == apex__, zone.soa == soa__, all_within(zone.log@, zone.apex), // [C11:a_name_outside_the_apex_is_rejected]
            zone.log@ == ins_seq(normal_rrs(es__).take(it1__.index@ as int), false), // [C11:exactly_the_records_of_the_entries_are_inserted]""",
                  "entry": "proof { lemma_ins_take(normal_rrs(es__), false, it1__.index@ as int); }"},
            "2": {"kw": "for", "iter_name": "it2__", "spec": """        invariant
            it2__.seq() == wild_rrs(es__),
            zone.apex == apex__, zone.soa == soa__, all_within(zone.log@, zone.apex), // [C11:a_name_outside_the_apex_is_rejected]
            zone.log@ == ins_seq(normal_rrs(es__), false) + ins_seq(wild_rrs(es__).take(it2__.index@ as int), true), // [C11:exactly_the_records_of_the_entries_are_inserted]""",
                  "entry": "proof { lemma_ins_take(wild_rrs(es__), true, it2__.index@ as int); }"},
        },
        "anchors": [
            {"after": "for rr in rrs {", "at": "before", "proof": "let ghost apex__ = zone.apex; let ghost soa__ = zone.soa; proof { assert(normal_rrs(es__).take(0) =~= Seq::<ResourceRecord>::empty()); assert(zone.log@ =~= ins_seq(normal_rrs(es__).take(0), false)); }"},
            {"after": "for rr in wildcard_rrs {", "at": "before", "proof": "proof { assert(normal_rrs(es__).take(normal_rrs(es__).len() as int) =~= normal_rrs(es__)); assert(wild_rrs(es__).take(0) =~= Seq::<ResourceRecord>::empty()); assert(zone.log@ =~= ins_seq(normal_rrs(es__), false) + ins_seq(wild_rrs(es__).take(0), true)); }"},
            {"after": "Ok(zone)", "nth": -1, "at": "before", "proof": "proof { assert(wild_rrs(es__).take(wild_rrs(es__).len() as int) =~= wild_rrs(es__)); assert(reads_whole_file(data@, es__) && accepted(es__) && zone_is(zone, es__)); }"},
        ]},
}

CANARIES = [
    {"name": "second_soa_replaces_the_first", "file": ZDESER, "old": "                        if apex_and_soa.is_some() {\n                            return Err(Error::MultipleSOA);\n                        }\n", "new": ""},
    {"name": "include_ignored", "file": ZDESER, "old": "                    return Err(Error::IncludeNotSupported { path, origin })", "new": "                    { let _ = (path, origin); }"},
    {"name": "wildcard_soa_loaded", "file": ZDESER, "old": "                    if rr.rtype_with_data.rtype() == RecordType::SOA {\n                        return Err(Error::WildcardSOA);\n                    }\n", "new": ""},
    {"name": "ttl_not_inherited_after_a_wildcard_record", "file": ZDESER, "old": "                        name: rr.name.clone(),\n                    });\n                    previous_ttl = Some(rr.ttl);\n\n                    if rr.rtype_with_data.rtype() == RecordType::SOA {", "new": "                        name: rr.name.clone(),\n                    });\n\n                    if rr.rtype_with_data.rtype() == RecordType::SOA {"},
    {"name": "wildcard_owner_inherited_as_ordinary", "file": ZDESER, "old": "                    previous_domain = Some(MaybeWildcard::Wildcard {", "new": "                    previous_domain = Some(MaybeWildcard::Normal {"},
    {"name": "origin_change_ignored", "file": ZDESER, "old": "                Entry::Origin { name } => origin = Some(name),", "new": "                Entry::Origin { name } => { if origin.is_none() { origin = Some(name) } }"},
    {"name": "wildcard_names_outside_the_apex_loaded", "file": ZDESER, "old": "        for rr in wildcard_rrs {\n            if !rr.name.is_subdomain_of(zone.get_apex()) {", "new": "        for rr in wildcard_rrs {\n            if false {"},
    {"name": "records_after_the_soa_dropped", "file": ZDESER, "old": "                    } else {\n                        rrs.push(rr);\n                    }", "new": "                    } else if apex_and_soa.is_none() {\n                        rrs.push(rr);\n                    }"},
    {"name": "parse_entry_drops_the_previous_ttl", "file": ZDESER, "old": "            return Ok(Some(parse_rr(\n                origin,\n                previous_domain,\n                previous_ttl,", "new": "            return Ok(Some(parse_rr(\n                origin,\n                previous_domain,\n                None,"},
    {"name": "parse_entry_stops_at_a_blank_line", "file": ZDESER, "old": "            if stream.peek().is_none() {\n                return Ok(None);\n            }", "new": "            return Ok(None);"},
]


def build(G):
    begin(G, preludes=("bytes.rs", "std.rs"))
    name_types(G, tryfrom=False)
    wire_types(G, conv_props=[], conv_mode="assume")
    G.file(os.path.join(PRELUDE, "wire_spec.rs"))
    G.file(os.path.join(PRELUDE, "eq.rs"))
    D, Z, T = G.src(ZDESER), G.src(ZTYPES), G.src(TYPES)
    G.item(Z, "struct", "SOA", drop_derive=("Debug", "Clone", "PartialEq", "Eq"))
    G.raw(STANDINS, ("spec", "zone_file stand-ins"))
    for n in ("MaybeWildcard", "Entry", "Error"):
        G.item(D, "enum", n, drop_derive=("Debug", "Clone", "PartialEq", "Eq"))
    G.raw(SPEC_RS, ("spec", "zone_file spec"))
    G.raw(ORACLE, ("spec", "parse_entry oracle"))
    specs = {k: dict(v) for k, v in SPECS.items()}
    specs["DomainName::is_subdomain_of"] = dict(NAME_SPECS["DomainName::is_subdomain_of"], mode="assume", props=[])
    specs["RecordTypeWithData::rtype"] = {"props": [], "mode": "assume", "contract": "    ensures r == spec_rtype_of(*self), // wire_codec: RecordTypeWithData::rtype"}
    G.impl(T, "DomainName", ["is_subdomain_of"], "DomainName::", specs)
    G.impl(T, "RecordTypeWithData", ["rtype"], "RecordTypeWithData::", specs)
    # Zone::deserialise: `impl Zone` of zones/deserialise.rs
    G.impl(D, "Zone", ["deserialise"], "Zone::", specs)
    G.raw("} // verus!")
    G.raw("mod entry { use super::*; verus! {")
    G.raw(PARSE_STANDINS, ("spec", "entry parser stand-ins"))
    G.top_fn(D, "parse_entry", specs)
    G.raw("} }")
    G.raw("verus! {")
    end(G)
