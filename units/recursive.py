"""Unit `recursive` (C01, C06, C10): the recursive resolver's own control flow in its synchronous reading (R32):
resolve_recursive_notimeout, resolve_with_nameserver_response, resolve_combined_recursive.

Callees proved elsewhere carry their contracts as assumptions (resolve_local: unit local; validate_nameserver_response,
Nameservers::match_count: unit upstream_filter; prioritising_merge, ResolvedRecord::rrs: unit local); the network
(query_nameserver), candidate_nameservers and resolve_hostname_to_ip are stand-ins."""
from units.base import *
from units import local as L
from units.upstream_filter import _r24
import re

REC = "crates/dns-resolver/src/recursive.rs"

TRUSTED = TRUSTED_COMMON + [
    "R32: the three functions are verified in their synchronous reading (async / .await / #[async_recursion] removed): the future owns `&mut context` for its whole life; shared state (cache, zones) is only reached through stand-ins",
    "resolve_local: contract assumed here, proved in unit local",
    "validate_nameserver_response: stand-in; 'a referral is for an ancestor of the question name deeper than the depth passed in' is proved in unit upstream_filter (response_ok); that the records of an Answer / CNAME reply are listed in chain order is ASSUMED (the real function keeps the upstream server's order)",
    "`validated(r)`: an uninterpreted marker produced only by the validate_nameserver_response stand-in; SharedCache::insert_all (stand-in) requires its argument to be the record list of a validated reply",
    "query_nameserver, candidate_nameservers, resolve_hostname_to_ip (proved separately in unit family), get_record, Metrics::*: stand-ins without postconditions beyond frames",
    "Vec<T>::clone for Vec<ResourceRecord>: same sequence (shim)",
    "R38: `(ip, port).into()` written as shim_sockaddr(ip, port), whose result has that port (From<(IpAddr, u16)> for SocketAddr)",
    "configured_port(): an uninterpreted constant; the three resolver functions require the context's upstream_dns_port to equal it (dns_resolver::resolve builds the context from its upstream_dns_port argument: read, not proved)",
    "R39: `opt.and_then(|res| f(.., &res, ..))` written as the equivalent match",
    "axiom_names_wf: every DomainName value is well-formed (the type invariant C16 establishes at every constructor); used only to meet candidate_nameservers' precondition at its call site",
    "axiom_rr_vec_len / axiom_dn_vec_len: Vec::len() <= isize::MAX (Rust allocation limit)",
]

SPEC_RS = """
// the SOA record a resolution result carries (negative answers: the zone's SOA)
pub open spec fn soa_of(r: ResolvedRecord) -> Option<ResourceRecord> {
    match r {
        ResolvedRecord::Authoritative { soa_rr, .. } => Some(soa_rr),
        ResolvedRecord::AuthoritativeNameError { soa_rr } => Some(soa_rr),
        ResolvedRecord::NonAuthoritative { soa_rr, .. } => soa_rr,
        _ => None,
    }
}
// Option<&T>::cloned for resource records (derived Clone: a structural copy)
#[verifier::external_body]
fn shim_cloned_rr(o: Option<&ResourceRecord>) -> (r: Option<ResourceRecord>)
    ensures r is Some <==> o is Some, r is Some ==> r->Some_0 == *o->Some_0,
{ o.cloned() }
// ---- the validator's output, as the resolver sees it
pub uninterp spec fn validated(r: NameserverResponse) -> bool;
pub open spec fn response_rrs(r: NameserverResponse) -> Seq<ResourceRecord> {
    match r {
        NameserverResponse::Answer { rrs, .. } => rrs@,
        NameserverResponse::CNAME { rrs, .. } => rrs@,
        NameserverResponse::Delegation { rrs, .. } => rrs@,
    }
}
// C06: what may be handed to the cache: exactly the record list of a reply that went through the validator
pub open spec fn cacheable(s: Seq<ResourceRecord>) -> bool { exists|r: NameserverResponse| validated(r) && #[trigger] response_rrs(r) == s }
// (assumed of the validator's output, see TRUSTED) answers list the alias chain in order
pub open spec fn resp_shape(resp: NameserverResponse, q: Question) -> bool {
    match resp {
        // typed_ok: proved in upstream_filter (response_ok: every record is of the asked type at the final name or an on-path CNAME)
        NameserverResponse::Answer { rrs, .. } => typed_ok(rrs@, q.qtype) && (q.qtype != QueryType::Wildcard ==> chain_ok(rrs@, q.name)),
        NameserverResponse::CNAME { rrs, cname } => rrs@.len() > 0 && rrs@[0].rtype_with_data is CNAME // upstream_filter: response_ok (all_aliases)
            && typed_ok(rrs@, q.qtype) && (q.qtype != QueryType::Wildcard ==> rrs@.len() > 0 && chain_k(rrs@, q.name, rrs@.len() as int) && ends_at(rrs@, cname)),
        NameserverResponse::Delegation { rrs, delegation } => is_suffix(delegation.name.labels@, q.name.labels@),
    }
}
impl SharedCache {
    #[verifier::external_body]
    pub fn insert_all(&self, records: &[ResourceRecord])
        requires cacheable(records@), // [C06:only_validated_records_reach_the_cache]
    { unimplemented!() }
}
// C18: the port this server process is configured to send upstream queries to (dns_resolver::resolve puts it into the context)
pub uninterp spec fn configured_port() -> u16;
#[verifier::external_body]
pub fn query_nameserver(address: SocketAddr, question: Question, recursion_desired: bool) -> (r: Option<Message>)
    requires addr_port(address) == configured_port(), // [C18:upstream_queries_go_to_the_configured_port]
{ unimplemented!() }
#[verifier::external_body]
fn validate_nameserver_response(question: &Question, response: &Message, current_match_count: usize) -> (r: Option<NameserverResponse>)
    ensures r is Some ==> validated(r->Some_0) && resp_shape(r->Some_0, *question),
            // upstream_filter: validate_nameserver_response/post:only_relevant_records_of_the_reply_are_used (response_ok, Delegation arm)
            r is Some && r->Some_0 is Delegation ==> r->Some_0->delegation.name.labels@.len() > current_match_count,
{ unimplemented!() }
#[verifier::external_body]
fn resolve_hostname_to_ip<'a>(context: &mut RecursiveContext<'a>, resolve_locally: bool, hostname: DomainName) -> (r: Option<IpAddr>)
    ensures final(context).question_stack@ == old(context).question_stack@, same_env(old(context), final(context)),
{ unimplemented!() }
#[verifier::external_body]
fn get_record<'a>(rrs: &'a [ResourceRecord], target: &DomainName, rtype: RecordType) -> (r: Option<&'a ResourceRecord>)
    ensures r is Some ==> r->Some_0.name == *target && spec_rtype_of(r->Some_0.rtype_with_data) == rtype, // family: get_record (assumed there too)
{ unimplemented!() }
// R40: `slice.into()` (From<&[T]> for Vec<T>: clones the elements)
#[verifier::external_body]
fn shim_labels_to_vec(s: &[Label]) -> (r: Vec<Label>) ensures r@ == s@ { s.into() }
#[verifier::external_body]
fn shim_sockaddr(ip: IpAddr, port: u16) -> (r: SocketAddr) ensures addr_port(r) == port { (ip, port).into() }
#[verifier::external_body]
fn shim_clone_rrs(v: &Vec<ResourceRecord>) -> (r: Vec<ResourceRecord>) ensures r@ == v@ { v.clone() }
// the type invariant of DomainName (C16: established by every constructor, proved in units names and wire_decode); no code in this
// unit builds a DomainName other than through DomainName::from_labels
pub broadcast axiom fn axiom_names_wf(n: DomainName)
    ensures #[trigger] n.wf();
pub broadcast axiom fn axiom_dn_vec_len(v: Vec<DomainName>)
    ensures #[trigger] v@.len() <= 0x7fff_ffff_ffff_ffff;
// the candidate loop's measure: referrals get strictly closer to the question name, then fast candidates, then slow ones
pub open spec fn phase(locally: bool) -> int { if locally { 1 } else { 0 } }
"""

COMMON_FRAME = """        final(context).question_stack@ == old(context).question_stack@, same_env(old(context), final(context)), // [C10:question_stack_restored]"""

SPECS = {
    "Nameservers::match_count": {"props": [], "mode": "assume", "contract": "    ensures r == self.name.labels@.len(), // upstream_filter: Nameservers::match_count"},
    "resolve_combined_recursive": {
        "props": ["C10", "C08", "C07"],
        "header_rewrites": [("R32", r"\basync fn\b", "fn")],
        "rewrites": [("R30", r"\s*\.instrument\(tracing::\w+!\((?:[^()]|\([^()]*\))*\)\)", ""), ("R32", r"\s*\.await\b", ""),
                     ("R12v", r"resolved\.soa_rr\(\)\.cloned\(\)", "shim_cloned_rr(resolved.soa_rr())")],
        "anchors": [{"after": "Ok(resolved) => {", "proof": "let ghost inner__ = resolved;"},
                    {"after_re": r"Ok\(ResolvedRecord::NonAuthoritative \{ rrs, soa_rr \}\)", "at": "before", "proof": "assert(soa_rr == soa_of(inner__)); // [C07:the_soa_of_a_negative_answer_survives_an_alias_continuation]"}],
        "contract": """    requires old(context).wf(), old(context).r.upstream_dns_port == configured_port(),
    ensures
""" + COMMON_FRAME + """
        // the aliases followed so far come first, in order, then what resolving their target gives
        question.qtype != QueryType::Wildcard && r is Ok ==>
            (rrs@.len() == 0 ==> chain_ok(resolved_rrs(r->Ok_0), question.name))
            && (forall|q0: DomainName| rrs@.len() > 0 && #[trigger] chain_k(rrs@, q0, rrs@.len() as int) && ends_at(rrs@, question.name) ==> chain_ok(resolved_rrs(r->Ok_0), q0)), // [C10:aliases_first_then_the_resolution_of_their_target]
        r is Ok && typed_ok(rrs@, question.qtype) ==> typed_ok(resolved_rrs(r->Ok_0), question.qtype), // [C07,C10:only_aliases_and_records_of_the_asked_type]
        r is Ok && has_any_alias(rrs@) ==> has_any_alias(resolved_rrs(r->Ok_0)),
    decreases ctx_limit(old(context)) - old(context).question_stack@.len(), 1int,""",
        "entry": L.BU + " broadcast use group_chain, lemma_chain_concat_b, lemma_merged_nil_b, lemma_nil_concat_b, axiom_rr_vec_len, group_typed, group_local_first, group_any_alias;"},
    "resolve_with_nameserver_response": {
        "props": ["C06", "C07", "C10", "C08"],
        "header_rewrites": [("R32", r"\basync fn\b", "fn")],
        "rewrites": [("R30", r"\s*\.instrument\(tracing::\w+!\((?:[^()]|\([^()]*\))*\)\)", ""), ("R32", r"\s*\.await\b", "")],
        "contract": """    requires old(context).wf(), old(context).r.upstream_dns_port == configured_port(), validated(nameserver_response), resp_shape(nameserver_response, *question),
    ensures
""" + COMMON_FRAME + """
        r is Err ==> nameserver_response is Delegation && r->Err_0 == nameserver_response->delegation, // [C06,C07:only_a_validated_referral_replaces_the_candidates]
        // C07: what the authoritative server answered is what is returned - its records (after any local ones handed in), and for an empty answer its SOA
        nameserver_response is Answer ==> r is Ok && r->Ok_0 is Ok && r->Ok_0->Ok_0 is NonAuthoritative
            && r->Ok_0->Ok_0->NonAuthoritative_soa_rr == nameserver_response->Answer_soa_rr
            && resolved_rrs(r->Ok_0->Ok_0) == merged(combined_rrs@, nameserver_response->Answer_rrs@), // [C07:an_authoritative_answer_is_returned_as_it_is_an_empty_one_with_its_soa]
        question.qtype != QueryType::Wildcard && combined_rrs@.len() == 0 && r is Ok && r->Ok_0 is Ok ==> chain_ok(resolved_rrs(r->Ok_0->Ok_0), question.name), // [C07,C10:upstream_answer_in_chain_order_from_the_question_name]
        typed_ok(combined_rrs@, question.qtype) && r is Ok && r->Ok_0 is Ok ==> typed_ok(resolved_rrs(r->Ok_0->Ok_0), question.qtype), // [C07,C10:only_aliases_and_records_of_the_asked_type]
        // C01: local records handed in keep their place and nothing of their name and type is merged in - unless the reply is an alias
        forall|z: Seq<ResourceRecord>| #[trigger] local_first(z, combined_rrs@) && r is Ok && r->Ok_0 is Ok ==>
            local_first(z, resolved_rrs(r->Ok_0->Ok_0)) || has_any_alias(resolved_rrs(r->Ok_0->Ok_0)), // [C01:upstream_records_never_join_local_records_of_their_name_and_type]
    decreases ctx_limit(old(context)) - old(context).question_stack@.len(), 2int,""",
        "entry": L.BU + " broadcast use group_chain, lemma_chain_concat_b, lemma_merged_nil_b, lemma_nil_concat_b, axiom_rr_vec_len, group_typed, group_local_first, group_any_alias; assert(cacheable(response_rrs(nameserver_response)));"},
}

CANDIDATES = {
    "props": ["C06", "C07", "C10"],
    "rewrites": [("R40", r"DomainName::from_labels\(labels\.into\(\)\)", "DomainName::from_labels(shim_labels_to_vec(labels))")],
    "contract": """    requires old(context).wf(), question.wf(),
    ensures final(context).question_stack@ == old(context).question_stack@, same_env(old(context), final(context)),
        r is Some ==> is_suffix(r->Some_0.name.labels@, question.labels@), // [C06,C07:candidates_are_nameservers_of_an_ancestor_of_the_question_name]
        r is Some ==> r->Some_0.hostnames@.len() > 0, // [C06:candidate_set_is_never_empty]""",
    "entry": L.BU,
    "loops": {"0": {"kw": "for", "iter_name": "it__", "spec": """        invariant context.question_stack@ == old(context).question_stack@, same_env(old(context), &*context), context.wf(), question.wf(),""",
                     "entry": L.BU + " let ghost i__ = i as int; proof { lemma_labels_sum_lower(question.labels@); }"},
              "1": {"kw": "for", "iter_name": "jt__", "spec": """        invariant context.question_stack@ == old(context).question_stack@, same_env(old(context), &*context), context.wf(),""",
                     "entry": L.BU}},
    "anchors": [{"after": "if let Some(name) = DomainName::from_labels(labels.into()) {", "proof": """proof {
    assert(labels@ == question.labels@.subrange(i__, question.labels@.len() as int));
    assert(is_suffix(name.labels@, question.labels@));
}"""}],
}

WRAPPER = {
    "props": ["C08", "C10", "C01", "C07"], "depub": True,
    "header_rewrites": [("R32", r"\basync fn\b", "fn")],
    "rewrites": [("R32", r"\s*\.await\b", "")],
    "contract": """    requires old(context).wf(), old(context).r.upstream_dns_port == configured_port(),
    ensures
""" + COMMON_FRAME + """
        question.qtype != QueryType::Wildcard && r is Ok ==> chain_ok(resolved_rrs(r->Ok_0), question.name), // [C07,C10:recursive_chain_in_order_from_the_question_name]
        r is Ok ==> typed_ok(resolved_rrs(r->Ok_0), question.qtype), // [C07,C10:recursive_answer_holds_only_aliases_and_records_of_the_asked_type]
        budgeted(r) || r == Err::<ResolvedRecord, ResolutionError>(ResolutionError::Timeout), // [C08:every_resolution_runs_under_its_budget_or_reports_a_timeout]""",
}

RRN = {
    "props": ["C01", "C06", "C10", "C18", "C08", "C07"],
    "header_rewrites": [("R32", r"\basync fn\b", "fn")],
    "rewrites": [("R30", r"\s*\.instrument\(tracing::\w+!\((?:[^()]|\([^()]*\))*\)\)", ""), ("R32", r"\s*\.await\b", ""),
                 ("R39", r"\.and_then\(\|res\| validate_nameserver_response\(question, &res, match_count\)\)",
                  ".map_or_else_validate__"),
                 ("R38", r"\(ip, context\.r\.upstream_dns_port\)\.into\(\)", "shim_sockaddr(ip, context.r.upstream_dns_port)"),
                 ("R12v", r"combined_rrs\.clone\(\)", "shim_clone_rrs(&combined_rrs)"),
                 ("R24", _r24)],
    "contract": """    requires old(context).wf(), old(context).r.upstream_dns_port == configured_port(),
    ensures
""" + COMMON_FRAME + """
        old(context).question_stack@.len() >= ctx_limit(old(context)) ==> r == Err::<ResolvedRecord, ResolutionError>(ResolutionError::RecursionLimit), // [C10:recursion_limit_ends_the_chain]
        old(context).question_stack@.len() < ctx_limit(old(context)) && old(context).question_stack@.contains(*question)
            ==> r == Err::<ResolvedRecord, ResolutionError>(ResolutionError::DuplicateQuestion { question: *question }), // [C10:alias_loop_ends_the_chain]
        // C01: what an authoritative zone (or local records of the asked name and type) says is final: no upstream reply is used
        guards_pass(old(context), *question) && zr(old(context), *question) is Some && zr(old(context), *question)->Some_0.1 is Answer && zone_soa_rr(zr(old(context), *question)->Some_0.0) is Some ==>
            r == Ok::<ResolvedRecord, ResolutionError>(ResolvedRecord::Authoritative { rrs: zr(old(context), *question)->Some_0.1->rrs, soa_rr: zone_soa_rr(zr(old(context), *question)->Some_0.0)->Some_0 }), // [C01:recursive_authoritative_answer_from_the_zone_alone]
        guards_pass(old(context), *question) && zr(old(context), *question) is Some && zr(old(context), *question)->Some_0.1 is NameError && zone_soa_rr(zr(old(context), *question)->Some_0.0) is Some ==>
            r == Ok::<ResolvedRecord, ResolutionError>(ResolvedRecord::AuthoritativeNameError { soa_rr: zone_soa_rr(zr(old(context), *question)->Some_0.0)->Some_0 }), // [C01:recursive_authoritative_name_error_from_the_zone_alone]
        guards_pass(old(context), *question) && zr(old(context), *question) is Some && zr(old(context), *question)->Some_0.1 is Answer && zone_soa_rr(zr(old(context), *question)->Some_0.0) is None
            && question.qtype != QueryType::Wildcard && zr(old(context), *question)->Some_0.1->rrs@.len() > 0 ==>
            r == Ok::<ResolvedRecord, ResolutionError>(ResolvedRecord::NonAuthoritative { rrs: zr(old(context), *question)->Some_0.1->rrs, soa_rr: None }), // [C01:recursive_local_records_returned_exactly]
        // C01 (every question type): local records come first and nothing of their name and type is added - unless the answer involves an alias
        guards_pass(old(context), *question) && zr(old(context), *question) is Some && zr(old(context), *question)->Some_0.1 is Answer && zone_soa_rr(zr(old(context), *question)->Some_0.0) is None && r is Ok ==>
            local_first(zr(old(context), *question)->Some_0.1->rrs@, resolved_rrs(r->Ok_0)) || has_any_alias(resolved_rrs(r->Ok_0)), // [C01:recursive_local_records_first_and_nothing_of_their_name_and_type_added]
        question.qtype != QueryType::Wildcard && r is Ok ==> chain_ok(resolved_rrs(r->Ok_0), question.name), // [C07,C10:recursive_chain_in_order_from_the_question_name]
        r is Ok ==> typed_ok(resolved_rrs(r->Ok_0), question.qtype), // [C07,C10:recursive_answer_holds_only_aliases_and_records_of_the_asked_type]
    decreases ctx_limit(old(context)) - old(context).question_stack@.len(), 0int,""",
    "entry": L.BU + " broadcast use group_chain, lemma_chain_concat_b, lemma_merged_nil_b, lemma_nil_concat_b, axiom_rr_vec_len, axiom_dn_vec_len, axiom_names_wf, group_local_first, lemma_alias_concat_b; let ghost mut tried__: Set<DomainName> = Set::empty();",
    "anchors": [{"after_re": r"if let Some\(ip\) =\s*resolve_hostname_to_ip\(", "at": "before", "proof": """proof {
    assert(cur__.contains(candidate)); // [C07:only_nameservers_of_the_delegation_in_use_are_asked]
    assert(resolve_candidates_locally || tried__.contains(candidate)); // [C07:a_nameserver_address_is_sought_recursively_only_after_its_local_look_up_failed]
    if resolve_candidates_locally { tried__ = tried__.insert(candidate); }
}"""},
        # cur__: the nameserver names of the delegation in use (the starting point, then each referral followed)
        {"after_re": r"let mut candidate_hostnames = [^;]*;", "proof": "let ghost mut cur__: Seq<DomainName> = candidate_hostnames@;"},
        {"after_re": r"Err\((?:mut )?delegation\) => \{", "proof": "proof { cur__ = delegation.hostnames@; }"}],
    "loops": {"0": {"kw": "while", "spec": """        invariant
            context.question_stack@ == old(context).question_stack@.push(*question), same_env(old(context), &*context),
            forall|i: int| 0 <= i < candidate_hostnames@.len() ==> cur__.contains(#[trigger] candidate_hostnames@[i]), // [C07:only_nameservers_of_the_delegation_in_use_are_asked]
            forall|i: int| 0 <= i < next_candidate_hostnames@.len() ==> cur__.contains(#[trigger] next_candidate_hostnames@[i]), // [C07:only_nameservers_of_the_delegation_in_use_are_asked]
            old(context).question_stack@.len() < ctx_limit(old(context)), !old(context).question_stack@.contains(*question),
            old(context).r.upstream_dns_port == configured_port(),
            // the cases in which local data is final have returned before the first upstream exchange
            !(zr(old(context), *question) is Some && zr(old(context), *question)->Some_0.1 is Answer && zone_soa_rr(zr(old(context), *question)->Some_0.0) is Some),
            !(zr(old(context), *question) is Some && zr(old(context), *question)->Some_0.1 is NameError && zone_soa_rr(zr(old(context), *question)->Some_0.0) is Some),
            !(zr(old(context), *question) is Some && zr(old(context), *question)->Some_0.1 is Answer && zone_soa_rr(zr(old(context), *question)->Some_0.0) is None
                && question.qtype != QueryType::Wildcard && zr(old(context), *question)->Some_0.1->rrs@.len() > 0),
            question.qtype != QueryType::Wildcard ==> combined_rrs@.len() == 0,
            typed_ok(combined_rrs@, question.qtype),
            zr(old(context), *question) is Some && zr(old(context), *question)->Some_0.1 is Answer && zone_soa_rr(zr(old(context), *question)->Some_0.0) is None
                ==> local_first(zr(old(context), *question)->Some_0.1->rrs@, combined_rrs@), // [C01:local_records_kept_across_referrals]
            match_count <= question.name.labels@.len(), // [C06:referral_depth_never_exceeds_the_question_name]
            // C07: nameserver addresses are sought from local data first; the recursive phase only holds candidates whose local look-up failed
            !resolve_candidates_locally ==> forall|i: int| 0 <= i < candidate_hostnames@.len() ==> tried__.contains(#[trigger] candidate_hostnames@[i]),
            forall|i: int| 0 <= i < next_candidate_hostnames@.len() ==> tried__.contains(#[trigger] next_candidate_hostnames@[i]),
        decreases question.name.labels@.len() - match_count, phase(resolve_candidates_locally), candidate_hostnames@.len(), // [C06,C07,C08:each_referral_followed_is_strictly_closer_to_the_question_name]
""", "entry": L.BU + " broadcast use group_chain, lemma_chain_concat_b, lemma_merged_nil_b, lemma_nil_concat_b, axiom_rr_vec_len, axiom_dn_vec_len;"}},
}


def _r39(txt):
    """R39: `X.and_then(|res| validate_nameserver_response(question, &res, match_count))` inside `if let Some(..) = X...` is written as
    the equivalent match on X (Option::and_then with a closure has no specification)."""
    pat = re.compile(r"if let Some\(nameserver_response\) = (query_nameserver\((?:[^()]|\([^()]*\))*\))(\s*)\.and_then\(\|res\| (validate_nameserver_response\((?:[^()]|\([^()]*\))*\))\)", re.S)
    def rep(m):
        return ("if let Some(nameserver_response) = (match %s { Some(res) => %s, None => None })%s"
                % (m.group(1), m.group(3), m.group(2)))
    return pat.subn(rep, txt)


def assumed(spec):
    s = dict(spec)
    s["mode"] = "assume"
    for x in ("entry", "loops", "anchors", "rewrites", "header_rewrites"):
        s.pop(x, None)
    return s


def build(G):
    begin(G, preludes=("bytes.rs", "std.rs", "net.rs", "std_slices.rs"))
    name_types(G, tryfrom=False)
    wire_types(G, conv_props=[], conv_mode="assume")
    G.file(os.path.join(PRELUDE, "wire_spec.rs"))
    G.file(os.path.join(PRELUDE, "hash.rs"))
    G.file(os.path.join(PRELUDE, "eq.rs"))
    Lc, C, U, T, Z, R = G.src(L.LOCAL), G.src(L.CTX), G.src(L.UTYPES), G.src(TYPES), G.src(ZTYPES), G.src(REC)
    G.item(Z, "enum", "ZoneResult", drop_derive=("Clone",))
    standins = L.STANDINS.replace("""    #[verifier::external_body]
    pub fn insert_all(&self, records: &[ResourceRecord]) { unimplemented!() }
""", "").replace("""#[verifier::external_type_specification]
#[verifier::external_body]
pub struct ExSocketAddr(std::net::SocketAddr);""", """#[verifier::external_type_specification]
#[verifier::external_body]
pub struct ExSocketAddr(std::net::SocketAddr);""")
    G.raw(standins, ("spec", "local stand-ins"))
    G.file(os.path.join(PRELUDE, "sockaddr.rs"))
    for (k, n) in (("enum", "ResolvedRecord"), ("enum", "ResolutionError"), ("struct", "Nameservers")):
        G.item(U, k, n, drop_derive=("Clone",))
        G.raw(UNIMPL_CLONE % {"T": n})
    G.item(Lc, "enum", "LocalResolutionResult", drop_derive=("Clone",))
    G.item(C, "struct", "Context")
    G.item(Lc, "const", "CNAME_QTYPE")
    G.raw(ALL_NAMED_RS, ("spec", "all_named"))
    G.raw(OWNERS_OK_RS, ("spec", "owners_ok"))
    G.raw(QMATCH_RS, ("spec", "qmatch"))
    G.raw(ANSWER_TYPED_RS, ("spec", "answer_typed"))
    G.raw(L.SPEC_RS, ("spec", "local spec"))
    G.raw(L.SPEC2, ("spec", "local spec2"))
    specs = {k: assumed(dict(v, depub=True)) for k, v in L.SPECS.items()}
    specs["resolve_local"] = assumed(dict(L.RESOLVE_LOCAL, depub=True))
    G.impl(C, "<'a, CT> Context<'a, CT>", ["metrics", "at_recursion_limit", "is_duplicate_question", "push_question", "pop_question"], "Context::", specs)
    G.top_fn(U, "prioritising_merge", specs)
    specs["ResolvedRecord::soa_rr"] = {"mode": "assume", "props": [], "contract": "    ensures r is Some <==> soa_of(*self) is Some, r is Some ==> *r->Some_0 == soa_of(*self)->Some_0, // read off the four-arm match of ResolvedRecord::soa_rr (`.into()` on Option<T>: not ingested)"}
    G.impl(U, "ResolvedRecord", ["rrs", "soa_rr"], "ResolvedRecord::", specs)
    G.top_fn(Lc, "resolve_local", specs)
    G.item(U, "enum", "ProtocolMode")
    G.item(R, "struct", "RecursiveContextInner")
    G.item(R, "type", "RecursiveContext")
    G.item(R, "enum", "NameserverResponse", drop_derive=("Clone",))
    G.raw(SPEC_RS, ("spec", "recursive spec"))
    specs.update({k: dict(v) for k, v in SPECS.items()})
    G.impl(U, "Nameservers", ["match_count"], "Nameservers::", specs)
    rrn = dict(RRN)
    rrn["rewrites"] = [r if r[0] != "R39" else ("R39", _r39) for r in RRN["rewrites"]]
    specs["resolve_recursive_notimeout"] = rrn
    specs["candidate_nameservers"] = dict(CANDIDATES)
    specs.update(as_assumed(NAME_SPECS, ["DomainName::from_labels"]))
    G.impl(T, "DomainName", ["from_labels"], "DomainName::", specs)
    G.top_fn(R, "candidate_nameservers", specs)
    G.top_fn(R, "resolve_recursive_notimeout", specs)
    G.top_fn(R, "resolve_with_nameserver_response", specs)
    G.raw(timeout_standin(60_000_000_000, "every_resolution_has_a_60_second_budget"), ("spec", "timeout stand-in"))
    specs["resolve_recursive"] = dict(WRAPPER)
    G.top_fn(R, "resolve_recursive", specs)
    G.top_fn(R, "resolve_combined_recursive", specs)
    end(G)


CANARIES = [
    {"name": "old_candidates_kept_behind_the_nameservers_of_a_referral", "file": REC, "old": "                            candidate_hostnames = delegation.hostnames;", "new": "                            let mut referred = delegation.hostnames;\n                            candidate_hostnames.append(&mut referred);"},
    {"name": "soa_dropped_when_the_continuation_holds_records", "file": REC, "old": "            let soa_rr = resolved.soa_rr().cloned();\n            rrs.append(&mut resolved.rrs());", "new": "            let soa_all = resolved.soa_rr().cloned();\n            let mut inner_rrs = resolved.rrs();\n            let soa_rr = if inner_rrs.is_empty() { soa_all } else { None };\n            rrs.append(&mut inner_rrs);"},
    {"name": "slow_candidates_tried_first", "file": REC, "old": "        let mut resolve_candidates_locally = true;\n", "new": "        let mut resolve_candidates_locally = false;\n"},
    {"name": "new_referral_skips_the_local_phase", "file": REC, "old": "                                Vec::with_capacity(candidate_hostnames.len());\n                            resolve_candidates_locally = true;", "new": "                                Vec::with_capacity(candidate_hostnames.len());"},
    {"name": "resolution_budget_ten_minutes", "file": REC, "old": "        Duration::from_mins(1),\n        resolve_recursive_notimeout(context, question),", "new": "        Duration::from_mins(10),\n        resolve_recursive_notimeout(context, question),"},
    {"name": "resolution_without_a_budget", "file": REC, "old": "    if let Ok(res) = timeout(\n        Duration::from_mins(1),\n        resolve_recursive_notimeout(context, question),\n    )\n    .await\n    {\n        res\n    } else {", "new": "    if let Ok(res) = Ok::<_, ()>(resolve_recursive_notimeout(context, question).await) {\n        res\n    } else {"},
    {"name": "empty_candidate_set_returned", "file": REC, "old": "            if !hostnames.is_empty() {\n                return Some(Nameservers {", "new": "            if true {\n                return Some(Nameservers {"},
    {"name": "upstream_query_to_port_53", "file": REC, "old": "(ip, context.r.upstream_dns_port).into(),", "new": "(ip, 53).into(),"},
    {"name": "validator_told_depth_zero", "file": REC, "old": ".and_then(|res| validate_nameserver_response(question, &res, match_count))", "new": ".and_then(|res| validate_nameserver_response(question, &res, 0))"},
    {"name": "referral_does_not_update_the_depth", "file": REC, "old": "                            match_count = delegation.match_count();\n", "new": ""},
    {"name": "unvalidated_records_cached", "file": REC, "old": "            tracing::trace!(\"got recursive answer\");\n            context.cache.insert_all(&rrs);", "new": "            tracing::trace!(\"got recursive answer\");\n            context.cache.insert_all(&combined_rrs);"},
    {"name": "alias_tail_before_the_aliases", "file": REC, "old": "            rrs.append(&mut resolved.rrs());\n            Ok(ResolvedRecord::NonAuthoritative { rrs, soa_rr })", "new": "            let mut tail = resolved.rrs();\n            tail.append(&mut rrs);\n            Ok(ResolvedRecord::NonAuthoritative { rrs: tail, soa_rr })"},
    {"name": "local_answer_not_final", "file": REC, "old": "        Ok(LocalResolutionResult::Done { resolved }) => return Ok(resolved),\n        Ok(LocalResolutionResult::Partial { rrs }) => combined_rrs = rrs,\n        Ok(LocalResolutionResult::Delegation { delegation, .. }) => candidates", "new": "        Ok(LocalResolutionResult::Done { resolved }) => combined_rrs = resolved.rrs(),\n        Ok(LocalResolutionResult::Partial { rrs }) => combined_rrs = rrs,\n        Ok(LocalResolutionResult::Delegation { delegation, .. }) => candidates"},
    {"name": "loop_guard_forgotten_before_following_an_alias", "file": REC, "old": "            context.push_question(question);\n            let answer = resolve_combined_recursive(context, rrs, cname_question).await;", "new": "            let answer = resolve_combined_recursive(context, rrs, cname_question).await;"},
]
