"""Unit `hosts_text` (C14, C17 - each in part): the line reader of the hosts-file parser, `parse_line`, and the file loop
`Hosts::deserialise` (hosts/deserialise.rs).

`parse_line` is proved against a reading of hosts(5) as a function over the characters of the line: fields separated by white
space, `#` starts a comment wherever it appears, the first field is the address, every later field a name; blank and address-only
lines map nothing; an address field holding `%` makes the line skipped; a malformed address (when names follow) or name is an error.
Addresses and names themselves are oracles (`IpAddr::from_str`, `DomainName::from_relative_dotted_string`).  `Hosts::deserialise`:
the lines are applied in order, a later mapping for the same name and family replacing an earlier one, one malformed line making the file an error (module `file`, with parse_line as a function of the line).  By-product (C17): the
slices `&line[start..i]` always fall on character boundaries, nothing else can panic, both loops terminate."""
from units.base import *
import re

HDESER = "crates/dns-types/src/hosts/deserialise.rs"

TRUSTED = TRUSTED_COMMON + [
    "R47: `line.char_indices()` read as the materialised vector of its (byte offset, character) pairs (`shim_char_indices`): one pair per character, in order; the offset of a character equals its index as long as every earlier character is ASCII",
    "R47: `&line[a..b]` / `&line[a..]` as shims that REQUIRE the bounds to be in range and every character before the upper bound (resp. before `a`) to be ASCII - so that byte offsets are character indices and boundaries - and return that sub-sequence of characters",
    "oracles: IpAddr::from_str as `ip_of(text)`, DomainName::from_relative_dotted_string(root, text) as `name_of(text)` (proved total and well-formed in unit names); `data.lines()` as an oracle vector of lines (`lines_of`); in module `file`, parse_line is the uninterpreted `line_result(line)` (assumed: it is a function of the line; what function: its contract in the root module)",
    "std::net::IpAddr as a transparent enum; HashSet / HashMap as vstd models them (key model axiom for DomainName); `for x in set` / consuming iteration through shim_hashset_into_vec (same elements, each once)",
]

STANDINS = """
use vstd::std_specs::char::is_white_space;
#[verifier::external_type_specification]
pub struct ExIpAddr(std::net::IpAddr);
// std: IpAddr::to_canonical may turn an IPv4-mapped IPv6 address into an IPv4 one: no postcondition (any address may come back)
pub assume_specification [std::net::IpAddr::to_canonical] (a: &std::net::IpAddr) -> (r: std::net::IpAddr);
pub broadcast axiom fn axiom_dn_key_model() ensures #[trigger] obeys_key_model::<DomainName>();
pub open spec fn ascii(c: char) -> bool { (c as u32) <= 127 }
pub assume_specification [char::is_ascii] (c: &char) -> (r: bool) ensures r == ascii(*c);
pub open spec fn ascii_upto(s: Seq<char>, k: int) -> bool { forall|j: int| 0 <= j < k && j < s.len() ==> ascii(#[trigger] s[j]) }
// oracles for the two field parsers
pub uninterp spec fn ip_of(s: Seq<char>) -> Option<IpAddr>;
pub uninterp spec fn name_of(s: Seq<char>) -> Option<DomainName>;
pub struct AddrParseError { e: u8 }
#[verifier::external_body]
fn shim_ip_from_str(s: &str) -> (r: Result<IpAddr, AddrParseError>)
    ensures r is Ok <==> ip_of(s@) is Some, r is Ok ==> r->Ok_0 == ip_of(s@)->Some_0,
{ unimplemented!() }
#[verifier::external_body]
fn shim_localhost() -> (r: IpAddr) { IpAddr::V4(Ipv4Addr::LOCALHOST) }
#[verifier::external_body]
fn shim_str_to_string(s: &str) -> (r: String) { s.into() }
// R47
#[verifier::external_body]
fn shim_char_indices(line: &str) -> (r: Vec<(usize, char)>)
    ensures r@.len() == line@.len(),
        forall|k: int| 0 <= k < r@.len() ==> (#[trigger] r@[k]).1 == line@[k],
        forall|k: int| 0 <= k < r@.len() && ascii_upto(line@, k) ==> (#[trigger] r@[k]).0 == k,
{ line.char_indices().collect() }
#[verifier::external_body]
fn shim_str_slice<'a>(line: &'a str, a: usize, b: usize) -> (r: &'a str)
    requires a <= b <= line@.len(), ascii_upto(line@, b as int), // [C17:slices_of_the_line_fall_on_character_boundaries]
    ensures r@ == line@.subrange(a as int, b as int),
{ &line[a..b] }
#[verifier::external_body]
fn shim_str_from<'a>(line: &'a str, a: usize) -> (r: &'a str)
    requires a <= line@.len(), ascii_upto(line@, a as int), // [C17:slices_of_the_line_fall_on_character_boundaries]
    ensures r@ == line@.skip(a as int),
{ &line[a..] }
"""

SPEC_RS = """
// ---- hosts(5), one line: "IP_address canonical_hostname [aliases...]", fields separated by blanks and/or tabs, text from a `#`
// to the end of the line is a comment
pub enum HSt { BeforeAddr, InAddr { start: int }, BeforeName, InName { start: int } }
pub enum HRes { NoMapping, Mapping { addr: IpAddr, names: Set<DomainName> }, Fail }
pub open spec fn finish(addr: Option<IpAddr>, names: Set<DomainName>) -> Option<HRes> {
    if names.len() == 0 { Some(HRes::NoMapping) } else if addr is Some { Some(HRes::Mapping { addr: addr->Some_0, names }) } else { None }
}
// is there a name field from position i on (before any comment)?
pub open spec fn has_field_from(s: Seq<char>, i: int) -> bool decreases s.len() - i {
    if i < 0 || i >= s.len() || s[i] == '#' { false } else if is_white_space(s[i]) { has_field_from(s, i + 1) } else { true }
}
// the field that ends at position i (end of line, comment or white space): a name is added, an address is looked at only when names may follow
pub open spec fn close_at_end(s: Seq<char>, i: int, st: HSt, addr: Option<IpAddr>, names: Set<DomainName>) -> Option<HRes> {
    match st {
        HSt::InName { start } => match name_of(s.subrange(start, i)) { Some(n) => finish(addr, names.insert(n)), None => Some(HRes::Fail) },
        _ => finish(addr, names),
    }
}
// None: a corner the property does not speak about (non-ASCII text; a malformed address on a line that maps no name)
pub open spec fn hline(s: Seq<char>, i: int, st: HSt, addr: Option<IpAddr>, names: Set<DomainName>) -> Option<HRes>
    decreases s.len() - i
{
    if i < 0 { None }
    else if i >= s.len() { close_at_end(s, s.len() as int, st, addr, names) }
    else if !ascii(s[i]) { None }
    else if s[i] == '#' { close_at_end(s, i, st, addr, names) }
    else { match st {
        HSt::BeforeAddr => if is_white_space(s[i]) { hline(s, i + 1, st, addr, names) } else { hline(s, i + 1, HSt::InAddr { start: i }, addr, names) },
        HSt::InAddr { start } =>
            if s[i] == '%' { Some(HRes::NoMapping) }
            else if is_white_space(s[i]) { match ip_of(s.subrange(start, i)) {
                Some(a) => hline(s, i + 1, HSt::BeforeName, Some(a), names),
                None => if has_field_from(s, i + 1) { Some(HRes::Fail) } else { None } } }
            else { hline(s, i + 1, st, addr, names) },
        HSt::BeforeName => if is_white_space(s[i]) { hline(s, i + 1, st, addr, names) } else { hline(s, i + 1, HSt::InName { start: i }, addr, names) },
        HSt::InName { start } =>
            if is_white_space(s[i]) { match name_of(s.subrange(start, i)) {
                Some(n) => hline(s, i + 1, HSt::BeforeName, addr, names.insert(n)),
                None => Some(HRes::Fail) } }
            else { hline(s, i + 1, st, addr, names) },
    } }
}
spec fn st_view(st: State) -> HSt {
    match st {
        State::SkipToAddress => HSt::BeforeAddr,
        State::ReadingAddress { start } => HSt::InAddr { start: start as int },
        State::SkipToName => HSt::BeforeName,
        State::ReadingName { start } => HSt::InName { start: start as int },
        State::CommentToEndOfLine => HSt::BeforeAddr,
    }
}
spec fn st_start(st: State) -> int { match st { State::ReadingAddress { start } => start as int, State::ReadingName { start } => start as int, _ => 0 } }
spec fn has_addr(st: State) -> bool { st is SkipToName || st is ReadingName }
// the address in force: the variable `address` once the address field has been read
spec fn eff_addr(st: State, address: IpAddr, before: Option<IpAddr>) -> Option<IpAddr> { if has_addr(st) { Some(address) } else { before } }
"""

FILE_RS = """
// ---- the file level: lines applied in order, a later mapping for the same name and family replacing an earlier one
pub uninterp spec fn lines_of(data: Seq<char>) -> Seq<Seq<char>>;
// R47: `data.lines()` as the vector of the lines (an oracle: how text is split into lines is std's)
#[verifier::external_body]
fn shim_lines(data: &str) -> (r: Vec<&str>)
    ensures r@.len() == lines_of(data@).len(), forall|i: int| 0 <= i < r@.len() ==> (#[trigger] r@[i])@ == lines_of(data@)[i],
{ data.lines().collect() }
// R4: `for name in set` (consuming) iterates this vector instead: the same elements
#[verifier::external_body]
fn shim_names_into_vec(a: HashSet<DomainName>) -> (r: Vec<DomainName>)
    ensures forall|x: DomainName| r@.contains(x) <==> a@.contains(x),
{ a.into_iter().collect() }
// what parse_line makes of a line (its meaning against hosts(5): parse_line's own contract)
pub uninterp spec fn line_result(l: Seq<char>) -> Result<Option<(IpAddr, Set<DomainName>)>, ()>;
pub open spec fn v4_of(a: IpAddr) -> Ipv4Addr { match a { IpAddr::V4(ip) => ip, _ => arbitrary() } }
pub open spec fn v6_of(a: IpAddr) -> Ipv6Addr { match a { IpAddr::V6(ip) => ip, _ => arbitrary() } }
pub open spec fn set_all<V>(m: Map<DomainName, V>, names: Set<DomainName>, v: V) -> Map<DomainName, V> {
    Map::new(m.dom().union(names), |n: DomainName| if names.contains(n) { v } else { m[n] })
}
// the two maps after the first k lines; None: one of them is malformed
pub open spec fn after_lines(ls: Seq<Seq<char>>, k: int) -> Option<(Map<DomainName, Ipv4Addr>, Map<DomainName, Ipv6Addr>)> decreases k {
    if k <= 0 { Some((Map::<DomainName, Ipv4Addr>::empty(), Map::<DomainName, Ipv6Addr>::empty())) } else {
        match after_lines(ls, k - 1) {
            None => None,
            Some((m4, m6)) => match line_result(ls[k - 1]) {
                Err(_) => None,
                Ok(None) => Some((m4, m6)),
                Ok(Some((IpAddr::V4(ip), names))) => Some((set_all(m4, names, ip), m6)),
                Ok(Some((IpAddr::V6(ip), names))) => Some((m4, set_all(m6, names, ip))),
            },
        }
    }
}
pub proof fn lemma_none_stays(ls: Seq<Seq<char>>, j: int, k: int)
    requires j <= k
    ensures after_lines(ls, j) is None ==> after_lines(ls, k) is None
    decreases k - j
{
    if j < k { lemma_none_stays(ls, j, k - 1); }
}
"""

SPECS = {
    "Hosts::new": {"props": [], "contract": "    ensures r.v4@ == Map::<DomainName, Ipv4Addr>::empty(), r.v6@ == Map::<DomainName, Ipv6Addr>::empty(),"},
    "Hosts::deserialise": {"props": ["C14", "C17"],
        "rewrites": [("R47", r"data\.lines\(\)", "shim_lines(data)"), ("R4", r"for name in it2__: new_names", "let ghost names__ = new_names@; let names_vec__ = shim_names_into_vec(new_names); let ghost nv__ = names_vec__@; proof { assert(nv__.take(0).to_set() =~= Set::<DomainName>::empty()); assert(set_all(m4__, Set::<DomainName>::empty(), arbitrary::<Ipv4Addr>()) =~= m4__); assert(set_all(m6__, Set::<DomainName>::empty(), arbitrary::<Ipv6Addr>()) =~= m6__); } for name in it2__: names_vec__")],
        "contract": """    ensures
        r is Ok <==> after_lines(lines_of(data@), lines_of(data@).len() as int) is Some, // [C14:one_malformed_line_makes_the_file_an_error]
        r is Ok ==> (r->Ok_0.v4@, r->Ok_0.v6@) == after_lines(lines_of(data@), lines_of(data@).len() as int)->Some_0, // [C14:lines_apply_in_order_a_later_mapping_replacing_an_earlier_one_of_the_same_family]""",
        "entry": "broadcast use vstd::std_specs::hash::group_hash_axioms, axiom_dn_key_model;",
        "loops": {
            "0": {"kw": "for", "iter_name": "it__", "spec": """        invariant
            it__.seq().len() == lines_of(data@).len(), forall|i: int| 0 <= i < it__.seq().len() ==> (#[trigger] it__.seq()[i])@ == lines_of(data@)[i],
            after_lines(lines_of(data@), it__.index@ as int) == Some((hosts.v4@, hosts.v6@)), // [C14:lines_apply_in_order_a_later_mapping_replacing_an_earlier_one_of_the_same_family]""",
                  "entry": "broadcast use vstd::std_specs::hash::group_hash_axioms, axiom_dn_key_model; let ghost k__ = it__.index@ as int; let ghost m4__ = hosts.v4@; let ghost m6__ = hosts.v6@; proof { assert(line@ == lines_of(data@)[k__]); lemma_none_stays(lines_of(data@), k__ + 1, lines_of(data@).len() as int); }"},
            "1": {"kw": "for", "iter_name": "it2__", "spec": """                invariant
                    it2__.seq() == nv__, forall|x: DomainName| nv__.contains(x) <==> names__.contains(x),
                    address is V4 ==> hosts.v4@ == set_all(m4__, it2__.seq().take(it2__.index@ as int).to_set(), v4_of(address)) && hosts.v6@ == m6__, // [C14:every_name_of_a_line_is_mapped_in_the_map_of_the_address_family]
                    address is V6 ==> hosts.v6@ == set_all(m6__, it2__.seq().take(it2__.index@ as int).to_set(), v6_of(address)) && hosts.v4@ == m4__, // [C14:every_name_of_a_line_is_mapped_in_the_map_of_the_address_family]""",
                  "entry": """broadcast use vstd::std_specs::hash::group_hash_axioms, axiom_dn_key_model;
proof {
    let j = it2__.index@ as int; let sq = it2__.seq(); let a = sq.take(j + 1); let b = sq.take(j);
    assert(a =~= b.push(name));
    assert(a.to_set() =~= b.to_set().insert(name)) by {
        assert forall|x: DomainName| a.to_set().contains(x) <==> b.to_set().insert(name).contains(x) by {
            if a.contains(x) { let i = choose|i: int| 0 <= i < a.len() && a[i] == x; if i < j { assert(b[i] == x); } }
            if b.contains(x) { let i = choose|i: int| 0 <= i < b.len() && b[i] == x; assert(a[i] == x); }
            if x == name { assert(a[j] == x); }
        }
    }
    if address is V4 { assert(set_all(m4__, sq.take(j).to_set().insert(name), v4_of(address)) =~= set_all(m4__, sq.take(j).to_set(), v4_of(address)).insert(name, v4_of(address))); }
    if address is V6 { assert(set_all(m6__, sq.take(j).to_set().insert(name), v6_of(address)) =~= set_all(m6__, sq.take(j).to_set(), v6_of(address)).insert(name, v6_of(address))); }
}"""},
        },
        "anchors": [
            {"after_re": r"(?s)for name in new_names \{.*?\n                \}", "proof": "proof { assert(nv__.take(nv__.len() as int) =~= nv__); assert(nv__.to_set() =~= names__); }"},
        ]},
    "parse_line": {"props": ["C14", "C17"],
        "rewrites": [("R47", r"line\.char_indices\(\)", "shim_char_indices(line)"),
                     ("R47", r"&line\[\*start\.\.(i[^\]]*)\]", r"shim_str_slice(line, *start, \1)"),
                     ("R47", r"&line\[(start[^\]\.]*)\.\.\]", r"shim_str_from(line, \1)"),
                     ("R2", r"IpAddr::from_str\(", "shim_ip_from_str("),
                     ("R2", r"IpAddr::V4\(Ipv4Addr::LOCALHOST\)", "shim_localhost()"),
                     ("R33", r"\b(addr_str|name_str)\.into\(\)", r"shim_str_to_string(\1)")],
        "contract": """    ensures
        ascii_upto(line@, line@.len() as int) ==> match hline(line@, 0, HSt::BeforeAddr, None, Set::<DomainName>::empty()) {
            Some(HRes::NoMapping) => r is Ok && r->Ok_0 is None,
            Some(HRes::Mapping { addr, names }) => r is Ok && r->Ok_0 is Some && r->Ok_0->Some_0.0 == addr && r->Ok_0->Some_0.1@ == names,
            Some(HRes::Fail) => r is Err,
            None => true,
        }, // [C14:a_line_maps_its_address_to_every_name_after_it_as_hosts_5_says]""",
        "entry": "broadcast use vstd::std_specs::hash::group_hash_axioms, axiom_dn_key_model; let ghost spec0__ = hline(line@, 0, HSt::BeforeAddr, None, Set::<DomainName>::empty()); let ghost mut addr__: Option<IpAddr> = None;",
        "loops": {"0": {"kw": "for", "iter_name": "it__", "spec": """        invariant_except_break
            !(state is CommentToEndOfLine) ==> (spec0__ is Some ==> spec0__ == hline(line@, it__.index@ as int, st_view(state), eff_addr(state, address, addr__), new_names@)), // [C14:a_line_maps_its_address_to_every_name_after_it_as_hosts_5_says]
        invariant
            it__.seq().len() == line@.len(),
            forall|k: int| 0 <= k < it__.seq().len() ==> (#[trigger] it__.seq()[k]).1 == line@[k],
            forall|k: int| 0 <= k < it__.seq().len() && ascii_upto(line@, k) ==> (#[trigger] it__.seq()[k]).0 == k,
            spec0__ == hline(line@, 0, HSt::BeforeAddr, None, Set::<DomainName>::empty()),
            ascii_upto(line@, it__.index@ as int),
            st_start(state) <= it__.index@,
            state is CommentToEndOfLine ==> (spec0__ is Some ==> spec0__ == finish(addr__, new_names@)), // [C14:a_comment_starts_wherever_the_hash_appears_and_ends_the_field_before_it]
            new_names@.finite(), state is SkipToAddress || state is ReadingAddress ==> new_names@ == Set::<DomainName>::empty() && addr__ is None,
            addr__ is Some ==> addr__ == Some(address),
        ensures
            ascii_upto(line@, line@.len() as int) && spec0__ is Some ==> spec0__ == (if state is CommentToEndOfLine || state is ReadingAddress { finish(eff_addr(state, address, addr__), new_names@) }
                else { hline(line@, line@.len() as int, st_view(state), eff_addr(state, address, addr__), new_names@) }),
            ascii_upto(line@, st_start(state)), st_start(state) <= line@.len(), new_names@.finite(),
            state is SkipToAddress || state is ReadingAddress ==> new_names@ == Set::<DomainName>::empty(),
            addr__ is Some ==> addr__ == Some(address),""",
            "entry": """broadcast use vstd::std_specs::hash::group_hash_axioms, axiom_dn_key_model;
let ghost k__ = it__.index@ as int;
proof { addr__ = eff_addr(state, address, addr__); }
proof { assert(it__.seq()[k__].1 == line@[k__]); assert(ascii_upto(line@, k__)); assert(it__.seq()[k__].0 == k__); assert(ascii(line@[k__]) ==> ascii_upto(line@, k__ + 1)); }"""}},
        "anchors": [{"after_re": r"let name_str = &line\[start[^\]]*\];", "proof": "proof { assert(line@.skip(start as int) =~= line@.subrange(start as int, line@.len() as int)); }"}],
        },
}

CANARIES = [
    {"name": "percent_anywhere_skips_the_line", "file": HDESER, "old": "            (State::ReadingAddress { .. }, '%') => break,", "new": "            (_, '%') => break,"},
    {"name": "unparsable_name_skipped", "file": HDESER, "old": "                    None => {\n                        return Err(Error::CouldNotParseName {\n                            name: name_str.into(),\n                        })\n                    }\n                }\n                State::SkipToName", "new": "                    None => (),\n                }\n                State::SkipToName"},
    {"name": "last_name_of_the_line_dropped", "file": HDESER, "old": "    if let State::ReadingName { start } = state {", "new": "    if let State::ReadingAddress { start } = state {"},
    {"name": "name_slice_one_short", "file": HDESER, "old": "                let name_str = &line[*start..i];", "new": "                let name_str = &line[*start..i - 1];"},
    {"name": "slice_past_the_line", "file": HDESER, "old": "        let name_str = &line[start..];", "new": "        let name_str = &line[start + 1..];"},
    {"name": "first_mapping_wins", "file": HDESER, "old": "                        IpAddr::V4(ip) => {\n                            hosts.v4.insert(name, ip);", "new": "                        IpAddr::V4(ip) => {\n                            hosts.v4.entry(name).or_insert(ip);"},
    {"name": "first_mapping_wins_v6", "file": HDESER, "old": "                        IpAddr::V6(ip) => {\n                            hosts.v6.insert(name, ip);", "new": "                        IpAddr::V6(ip) => {\n                            if !hosts.v6.contains_key(&name) { hosts.v6.insert(name, ip); }"},
    {"name": "malformed_line_skipped", "file": HDESER, "old": "            if let Some((address, new_names)) = parse_line(line)? {", "new": "            if let Ok(Some((address, new_names))) = parse_line(line) {"},
    {"name": "v6_names_filed_under_v4_of_the_previous_line", "file": HDESER, "old": "                        IpAddr::V6(ip) => {\n                            hosts.v6.insert(name, ip);\n                        }", "new": "                        IpAddr::V6(_) => (),"},
    {"name": "non_ascii_let_through", "file": HDESER, "old": "        if !octet.is_ascii() {\n            return Err(Error::ExpectedAscii { octet });\n        }\n", "new": ""},
]


def build(G):
    begin(G, preludes=("bytes.rs", "std.rs"))
    name_types(G, tryfrom=False)
    D, T = G.src(HDESER), G.src(TYPES)
    G.raw(STANDINS, ("spec", "hosts_text stand-ins"))
    G.item(D, "enum", "State")
    G.item(D, "enum", "Error", drop_derive=("Debug", "Clone", "PartialEq", "Eq"))
    G.raw(SPEC_RS, ("spec", "hosts_text spec"))
    specs = {k: dict(v) for k, v in SPECS.items()}
    specs["DomainName::root_domain"] = {"props": [], "mode": "assume", "contract": "    ensures r.labels@.len() == 1, // names: DomainName::root_domain"}
    specs["DomainName::from_relative_dotted_string"] = {"props": [], "mode": "assume", "contract": "    ensures origin.labels@.len() == 1 ==> r == name_of(s@), // the name parser as an oracle (its totality and well-formedness: unit names)"}
    G.impl(T, "DomainName", ["root_domain", "from_relative_dotted_string"], "DomainName::", specs)
    G.top_fn(D, "parse_line", specs)
    G.raw("} // verus!")
    # the file level in a module of its own: there parse_line is its contract's summary `line_result` (a function of the line)
    G.raw("mod file { use super::*; verus! {")
    H = G.src(HTYPES)
    G.item(H, "struct", "Hosts", drop_derive=("Debug", "Clone", "Eq", "PartialEq"))
    G.raw(FILE_RS, ("spec", "hosts file spec"))
    G.raw(""" // parse_line as Hosts::deserialise sees it: a function of the line (assumed; what that function is: parse_line's contract above)
#[verifier::external_body]
fn parse_line(line: &str) -> (r: Result<Option<(IpAddr, HashSet<DomainName>)>, Error>)
    ensures match r {
        Ok(None) => line_result(line@) == Ok::<Option<(IpAddr, Set<DomainName>)>, ()>(None),
        Ok(Some((a, ns))) => line_result(line@) == Ok::<Option<(IpAddr, Set<DomainName>)>, ()>(Some((a, ns@))),
        Err(_) => line_result(line@) is Err },
{ unimplemented!() }""", ("spec", "parse_line summary"))
    G.impl(H, "Hosts", ["new"], "Hosts::", specs)
    G.impl(D, "Hosts", ["deserialise"], "Hosts::", specs)
    G.raw("} }")
    G.raw("verus! {")
    end(G)
