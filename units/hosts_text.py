"""Unit `hosts_text` (C14, C17 - each in part): the line reader of the hosts-file parser, `parse_line`, and the file loop
`Hosts::deserialise` (hosts/deserialise.rs).

`parse_line` is proved against a reading of hosts(5) as a function over the characters of the line: fields separated by white
space, `#` starts a comment wherever it appears, the first field is the address, every later field a name; blank and address-only
lines map nothing; an address field holding `%` makes the line skipped; a malformed address (when names follow) or name is an error.
Addresses and names themselves are oracles (`IpAddr::from_str`, `DomainName::from_relative_dotted_string`).  `Hosts::deserialise`:
the lines are applied in order, a later mapping for the same name and family replacing an earlier one.  By-product (C17): the
slices `&line[start..i]` always fall on character boundaries, nothing else can panic, both loops terminate."""
from units.base import *
import re

HDESER = "crates/dns-types/src/hosts/deserialise.rs"

TRUSTED = TRUSTED_COMMON + [
    "R47: `line.char_indices()` read as the materialised vector of its (byte offset, character) pairs (`shim_char_indices`): one pair per character, in order; the offset of a character equals its index as long as every earlier character is ASCII",
    "R47: `&line[a..b]` / `&line[a..]` as shims that REQUIRE the bounds to be in range and every character before the upper bound (resp. before `a`) to be ASCII - so that byte offsets are character indices and boundaries - and return that sub-sequence of characters",
    "oracles: IpAddr::from_str as `ip_of(text)`, DomainName::from_relative_dotted_string(root, text) as `name_of(text)` (proved total and well-formed in unit names); `data.lines()` as an oracle vector of lines",
    "std::net::IpAddr as a transparent enum; HashSet / HashMap as vstd models them (key model axiom for DomainName); `for x in set` / consuming iteration through shim_hashset_into_vec (same elements, each once)",
]

STANDINS = """
use vstd::std_specs::char::is_white_space;
#[verifier::external_type_specification]
pub struct ExIpAddr(std::net::IpAddr);
pub broadcast axiom fn axiom_dn_key_model() ensures #[trigger] obeys_key_model::<DomainName>();
pub open spec fn ascii(c: char) -> bool { (c as u32) <= 127 }
pub assume_specification [char::is_ascii] (c: &char) -> (r: bool) ensures r == ascii(*c);
pub open spec fn ascii_upto(s: Seq<char>, k: int) -> bool { forall|j: int| 0 <= j < k && j < s.len() ==> ascii(#[trigger] s[j]) }
// oracles for the two field parsers
pub uninterp spec fn ip_of(s: Seq<char>) -> Option<IpAddr>;
pub uninterp spec fn name_of(s: Seq<char>) -> Option<DomainName>;
pub struct AddrParseError { e: u8 }
#[verifier::external_body]
fn shim_ip_from_str(s: &str) -> (r: Result<IpAddr, AddrParseError>)
    ensures r is Ok <==> ip_of(s@) is Some, r is Ok ==> r->Ok_0 == ip_of(s@)->Some_0,
{ unimplemented!() }
#[verifier::external_body]
fn shim_localhost() -> (r: IpAddr) { IpAddr::V4(Ipv4Addr::LOCALHOST) }
#[verifier::external_body]
fn shim_str_to_string(s: &str) -> (r: String) { s.into() }
// R47
#[verifier::external_body]
fn shim_char_indices(line: &str) -> (r: Vec<(usize, char)>)
    ensures r@.len() == line@.len(),
        forall|k: int| 0 <= k < r@.len() ==> (#[trigger] r@[k]).1 == line@[k],
        forall|k: int| 0 <= k < r@.len() && ascii_upto(line@, k) ==> (#[trigger] r@[k]).0 == k,
{ line.char_indices().collect() }
#[verifier::external_body]
fn shim_str_slice<'a>(line: &'a str, a: usize, b: usize) -> (r: &'a str)
    requires a <= b <= line@.len(), ascii_upto(line@, b as int), // [C17:slices_of_the_line_fall_on_character_boundaries]
    ensures r@ == line@.subrange(a as int, b as int),
{ &line[a..b] }
#[verifier::external_body]
fn shim_str_from<'a>(line: &'a str, a: usize) -> (r: &'a str)
    requires a <= line@.len(), ascii_upto(line@, a as int), // [C17:slices_of_the_line_fall_on_character_boundaries]
    ensures r@ == line@.skip(a as int),
{ &line[a..] }
"""

SPEC_RS = """
// ---- hosts(5), one line: "IP_address canonical_hostname [aliases...]", fields separated by blanks and/or tabs, text from a `#`
// to the end of the line is a comment
pub enum HSt { BeforeAddr, InAddr { start: int }, BeforeName, InName { start: int } }
pub enum HRes { NoMapping, Mapping { addr: IpAddr, names: Set<DomainName> }, Fail }
pub open spec fn finish(addr: Option<IpAddr>, names: Set<DomainName>) -> Option<HRes> {
    if names.len() == 0 { Some(HRes::NoMapping) } else if addr is Some { Some(HRes::Mapping { addr: addr->Some_0, names }) } else { None }
}
// is there a name field from position i on (before any comment)?
pub open spec fn has_field_from(s: Seq<char>, i: int) -> bool decreases s.len() - i {
    if i < 0 || i >= s.len() || s[i] == '#' { false } else if is_white_space(s[i]) { has_field_from(s, i + 1) } else { true }
}
// the field that ends at position i (end of line, comment or white space): a name is added, an address is looked at only when names may follow
pub open spec fn close_at_end(s: Seq<char>, i: int, st: HSt, addr: Option<IpAddr>, names: Set<DomainName>) -> Option<HRes> {
    match st {
        HSt::InName { start } => match name_of(s.subrange(start, i)) { Some(n) => finish(addr, names.insert(n)), None => Some(HRes::Fail) },
        _ => finish(addr, names),
    }
}
// None: a corner the property does not speak about (non-ASCII text; a malformed address on a line that maps no name)
pub open spec fn hline(s: Seq<char>, i: int, st: HSt, addr: Option<IpAddr>, names: Set<DomainName>) -> Option<HRes>
    decreases s.len() - i
{
    if i < 0 { None }
    else if i >= s.len() { close_at_end(s, s.len() as int, st, addr, names) }
    else if !ascii(s[i]) { None }
    else if s[i] == '#' { close_at_end(s, i, st, addr, names) }
    else { match st {
        HSt::BeforeAddr => if is_white_space(s[i]) { hline(s, i + 1, st, addr, names) } else { hline(s, i + 1, HSt::InAddr { start: i }, addr, names) },
        HSt::InAddr { start } =>
            if s[i] == '%' { Some(HRes::NoMapping) }
            else if is_white_space(s[i]) { match ip_of(s.subrange(start, i)) {
                Some(a) => hline(s, i + 1, HSt::BeforeName, Some(a), names),
                None => if has_field_from(s, i + 1) { Some(HRes::Fail) } else { None } } }
            else { hline(s, i + 1, st, addr, names) },
        HSt::BeforeName => if is_white_space(s[i]) { hline(s, i + 1, st, addr, names) } else { hline(s, i + 1, HSt::InName { start: i }, addr, names) },
        HSt::InName { start } =>
            if is_white_space(s[i]) { match name_of(s.subrange(start, i)) {
                Some(n) => hline(s, i + 1, HSt::BeforeName, addr, names.insert(n)),
                None => Some(HRes::Fail) } }
            else { hline(s, i + 1, st, addr, names) },
    } }
}
spec fn st_view(st: State) -> HSt {
    match st {
        State::SkipToAddress => HSt::BeforeAddr,
        State::ReadingAddress { start } => HSt::InAddr { start: start as int },
        State::SkipToName => HSt::BeforeName,
        State::ReadingName { start } => HSt::InName { start: start as int },
        State::CommentToEndOfLine => HSt::BeforeAddr,
    }
}
spec fn st_start(st: State) -> int { match st { State::ReadingAddress { start } => start as int, State::ReadingName { start } => start as int, _ => 0 } }
spec fn has_addr(st: State) -> bool { st is SkipToName || st is ReadingName }
// the address in force: the variable `address` once the address field has been read
spec fn eff_addr(st: State, address: IpAddr, before: Option<IpAddr>) -> Option<IpAddr> { if has_addr(st) { Some(address) } else { before } }
"""

SPECS = {
    "parse_line": {"props": ["C14", "C17"],
        "rewrites": [("R47", r"line\.char_indices\(\)", "shim_char_indices(line)"),
                     ("R47", r"&line\[\*start\.\.(i[^\]]*)\]", r"shim_str_slice(line, *start, \1)"),
                     ("R47", r"&line\[(start[^\]\.]*)\.\.\]", r"shim_str_from(line, \1)"),
                     ("R2", r"IpAddr::from_str\(", "shim_ip_from_str("),
                     ("R2", r"IpAddr::V4\(Ipv4Addr::LOCALHOST\)", "shim_localhost()"),
                     ("R33", r"\b(addr_str|name_str)\.into\(\)", r"shim_str_to_string(\1)")],
        "contract": """    ensures
        ascii_upto(line@, line@.len() as int) ==> match hline(line@, 0, HSt::BeforeAddr, None, Set::<DomainName>::empty()) {
            Some(HRes::NoMapping) => r is Ok && r->Ok_0 is None,
            Some(HRes::Mapping { addr, names }) => r is Ok && r->Ok_0 is Some && r->Ok_0->Some_0.0 == addr && r->Ok_0->Some_0.1@ == names,
            Some(HRes::Fail) => r is Err,
            None => true,
        }, // [C14:a_line_maps_its_address_to_every_name_after_it_as_hosts_5_says]""",
        "entry": "broadcast use vstd::std_specs::hash::group_hash_axioms, axiom_dn_key_model; let ghost spec0__ = hline(line@, 0, HSt::BeforeAddr, None, Set::<DomainName>::empty()); let ghost mut addr__: Option<IpAddr> = None;",
        "loops": {"0": {"kw": "for", "iter_name": "it__", "spec": """        invariant_except_break
            !(state is CommentToEndOfLine) ==> (spec0__ is Some ==> spec0__ == hline(line@, it__.index@ as int, st_view(state), eff_addr(state, address, addr__), new_names@)), // [C14:a_line_maps_its_address_to_every_name_after_it_as_hosts_5_says]
        invariant
            it__.seq().len() == line@.len(),
            forall|k: int| 0 <= k < it__.seq().len() ==> (#[trigger] it__.seq()[k]).1 == line@[k],
            forall|k: int| 0 <= k < it__.seq().len() && ascii_upto(line@, k) ==> (#[trigger] it__.seq()[k]).0 == k,
            spec0__ == hline(line@, 0, HSt::BeforeAddr, None, Set::<DomainName>::empty()),
            ascii_upto(line@, it__.index@ as int),
            st_start(state) <= it__.index@,
            state is CommentToEndOfLine ==> (spec0__ is Some ==> spec0__ == finish(addr__, new_names@)), // [C14:a_comment_starts_wherever_the_hash_appears_and_ends_the_field_before_it]
            new_names@.finite(), state is SkipToAddress || state is ReadingAddress ==> new_names@ == Set::<DomainName>::empty() && addr__ is None,
            addr__ is Some ==> addr__ == Some(address),
        ensures
            ascii_upto(line@, line@.len() as int) && spec0__ is Some ==> spec0__ == (if state is CommentToEndOfLine || state is ReadingAddress { finish(eff_addr(state, address, addr__), new_names@) }
                else { hline(line@, line@.len() as int, st_view(state), eff_addr(state, address, addr__), new_names@) }),
            ascii_upto(line@, st_start(state)), st_start(state) <= line@.len(), new_names@.finite(),
            state is SkipToAddress || state is ReadingAddress ==> new_names@ == Set::<DomainName>::empty(),
            addr__ is Some ==> addr__ == Some(address),""",
            "entry": """broadcast use vstd::std_specs::hash::group_hash_axioms, axiom_dn_key_model;
let ghost k__ = it__.index@ as int;
proof { addr__ = eff_addr(state, address, addr__); }
proof { assert(it__.seq()[k__].1 == line@[k__]); assert(ascii_upto(line@, k__)); assert(it__.seq()[k__].0 == k__); assert(ascii(line@[k__]) ==> ascii_upto(line@, k__ + 1)); }"""}},
        "anchors": [{"after_re": r"let name_str = &line\[start[^\]]*\];", "proof": "proof { assert(line@.skip(start as int) =~= line@.subrange(start as int, line@.len() as int)); }"}],
        },
}

CANARIES = [
    {"name": "percent_anywhere_skips_the_line", "file": HDESER, "old": "            (State::ReadingAddress { .. }, '%') => break,", "new": "            (_, '%') => break,"},
    {"name": "unparsable_name_skipped", "file": HDESER, "old": "                    None => {\n                        return Err(Error::CouldNotParseName {\n                            name: name_str.into(),\n                        })\n                    }\n                }\n                State::SkipToName", "new": "                    None => (),\n                }\n                State::SkipToName"},
    {"name": "last_name_of_the_line_dropped", "file": HDESER, "old": "    if let State::ReadingName { start } = state {", "new": "    if let State::ReadingAddress { start } = state {"},
    {"name": "name_slice_one_short", "file": HDESER, "old": "                let name_str = &line[*start..i];", "new": "                let name_str = &line[*start..i - 1];"},
    {"name": "slice_past_the_line", "file": HDESER, "old": "        let name_str = &line[start..];", "new": "        let name_str = &line[start + 1..];"},
    {"name": "non_ascii_let_through", "file": HDESER, "old": "        if !octet.is_ascii() {\n            return Err(Error::ExpectedAscii { octet });\n        }\n", "new": ""},
]


def build(G):
    begin(G, preludes=("bytes.rs", "std.rs"))
    name_types(G, tryfrom=False)
    D, T = G.src(HDESER), G.src(TYPES)
    G.raw(STANDINS, ("spec", "hosts_text stand-ins"))
    G.item(D, "enum", "State")
    G.item(D, "enum", "Error", drop_derive=("Debug", "Clone", "PartialEq", "Eq"))
    G.raw(SPEC_RS, ("spec", "hosts_text spec"))
    specs = {k: dict(v) for k, v in SPECS.items()}
    specs["DomainName::root_domain"] = {"props": [], "mode": "assume", "contract": "    ensures r.labels@.len() == 1, // names: DomainName::root_domain"}
    specs["DomainName::from_relative_dotted_string"] = {"props": [], "mode": "assume", "contract": "    ensures origin.labels@.len() == 1 ==> r == name_of(s@), // the name parser as an oracle (its totality and well-formedness: unit names)"}
    G.impl(T, "DomainName", ["root_domain", "from_relative_dotted_string"], "DomainName::", specs)
    G.top_fn(D, "parse_line", specs)
    end(G)
