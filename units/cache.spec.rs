// ---- specification of the record cache (C05, C15)
// a reading of the clock taken by Instant::now() (assume_specification in this unit: every reading satisfies it; nothing else does provably)

pub open spec fn vlen<T>() -> spec_fn(Vec<T>) -> nat { |v: Vec<T>| v@.len() as nat }

pub open spec fn has_tuple<K, V>(recs: Map<K, Vec<(V, Instant)>>, k: K, i: int) -> bool { recs.contains_key(k) && 0 <= i < recs[k]@.len() }
// next_expiry is a lower bound of every stored expiry ...
pub open spec fn ne_lower<K, V>(recs: Map<K, Vec<(V, Instant)>>, ne: Instant) -> bool {
    forall|k: K, i: int| #[trigger] has_tuple(recs, k, i) ==> inst(ne) <= inst(recs[k]@[i].1)
}
// ... and is the expiry of a stored tuple
pub open spec fn ne_attained<K, V>(recs: Map<K, Vec<(V, Instant)>>, ne: Instant) -> bool {
    exists|k: K, i: int| #[trigger] has_tuple(recs, k, i) && inst(ne) == inst(recs[k]@[i].1)
}
// what swap_remove(d) does to the other elements: each stays (the last one moves into slot d)
pub proof fn lemma_swap_remove_keeps<T>(t0: Seq<T>, d: int, j: int)
    requires 0 <= d < t0.len(), 0 <= j < t0.len(), j != d
    ensures ({ let r = t0.update(d, t0.last()).drop_last(); let j2 = if j == t0.len() - 1 { d } else { j }; 0 <= j2 < r.len() && r[j2] == t0[j] })
{}
pub proof fn lemma_swap_remove_from<T>(t0: Seq<T>, d: int, j2: int)
    requires 0 <= d < t0.len(), 0 <= j2 < t0.len() - 1
    ensures ({ let r = t0.update(d, t0.last()).drop_last(); let j = if j2 == d { t0.len() - 1 } else { j2 }; 0 <= j < t0.len() && r[j2] == t0[j] && (j != d || d == t0.len() - 1) })
{}

// no value is stored twice under one (name, type): "re-inserting a record ... without duplicating it"
pub open spec fn distinct_seq<V>(s: Seq<(V, Instant)>) -> bool { forall|i: int, j: int| 0 <= i < j < s.len() ==> s[i].0 != s[j].0 }
pub open spec fn distinct_values<K, V>(recs: Map<K, Vec<(V, Instant)>>) -> bool { forall|k: K| recs.contains_key(k) ==> distinct_seq(#[trigger] recs[k]@) }
pub proof fn lemma_upsert_distinct<V>(t0: Seq<(V, Instant)>, tup: (V, Instant), d: Option<int>)
    requires distinct_seq(t0),
        match d { Some(i) => 0 <= i < t0.len() && t0[i].0 == tup.0, None => forall|j: int| 0 <= j < t0.len() ==> t0[j].0 != tup.0 },
    ensures distinct_seq(match d { Some(i) => t0.update(i, t0.last()).drop_last().push(tup), None => t0.push(tup) })
{
    match d {
        None => {}
        Some(dd) => {
            let r = t0.update(dd, t0.last()).drop_last();
            let n = r.push(tup);
            assert forall|i: int, j: int| 0 <= i < j < n.len() implies n[i].0 != n[j].0 by {
                lemma_swap_remove_from(t0, dd, i);
                if j < r.len() { lemma_swap_remove_from(t0, dd, j); }
            }
        }
    }
}
pub proof fn lemma_filter_distinct<V>(s: Seq<(V, Instant)>, pred: spec_fn((V, Instant)) -> bool)
    requires distinct_seq(s)
    ensures distinct_seq(s.filter(pred)), forall|x: int| 0 <= x < s.filter(pred).len() ==> s.contains(#[trigger] s.filter(pred)[x])
    decreases s.len()
{
    reveal(Seq::filter);
    if s.len() > 0 {
        let p = s.drop_last();
        assert(distinct_seq(p));
        lemma_filter_distinct(p, pred);
        let f = s.filter(pred);
        assert forall|x: int| 0 <= x < f.len() implies s.contains(#[trigger] f[x]) by {
            if x < p.filter(pred).len() { let w = choose|w: int| 0 <= w < p.len() && p[w] == p.filter(pred)[x]; assert(s[w] == f[x]); }
            else { assert(s[s.len() - 1] == f[x]); }
        }
        if pred(s.last()) {
            assert forall|i: int, j: int| 0 <= i < j < f.len() implies f[i].0 != f[j].0 by {
                if j == f.len() - 1 { let w = choose|w: int| 0 <= w < p.len() && p[w] == p.filter(pred)[i]; assert(s[w].0 != s[s.len() - 1].0); }
            }
        }
    }
}
// how upsert changes the record map of a partition: the vector under `key` loses the duplicate (if any, by swap_remove) and gains `tup` at the end
pub open spec fn upsert_recs<K, V>(r0: Map<K, Vec<(V, Instant)>>, r1: Map<K, Vec<(V, Instant)>>, key: K, tup: (V, Instant), d: Option<int>) -> bool {
    let t0 = if r0.contains_key(key) { r0[key]@ } else { Seq::<(V, Instant)>::empty() };
    &&& r1.contains_key(key)
    &&& forall|k: K| k != key ==> (#[trigger] r1.contains_key(k) <==> r0.contains_key(k))
    &&& forall|k: K| k != key && r0.contains_key(k) ==> #[trigger] r1[k] == r0[k]
    &&& match d {
            None => r1[key]@ == t0.push(tup),
            Some(d) => 0 <= d < t0.len() && r1[key]@ == t0.update(d, t0.last()).drop_last().push(tup),
        }
}
spec fn recs_or_empty<K1, K2: Eq + Hash, V>(m: Map<K1, Partition<K2, V>>, k: K1) -> Map<K2, Vec<(V, Instant)>> {
    if m.contains_key(k) { m[k].records@ } else { Map::<K2, Vec<(V, Instant)>>::empty() }
}
pub open spec fn dup_ok<K, V>(r0: Map<K, Vec<(V, Instant)>>, key: K, value: V, d: Option<int>) -> bool {
    let t0 = if r0.contains_key(key) { r0[key]@ } else { Seq::<(V, Instant)>::empty() };
    match d { Some(i) => 0 <= i < t0.len() && t0[i].0 == value, None => forall|j: int| 0 <= j < t0.len() ==> (#[trigger] t0[j]).0 != value }
}
pub proof fn lemma_upsert_lower<K, V>(r0: Map<K, Vec<(V, Instant)>>, r1: Map<K, Vec<(V, Instant)>>, key: K, tup: (V, Instant), d: Option<int>, x: Instant)
    requires upsert_recs(r0, r1, key, tup, d), ne_lower(r0, x), inst(x) <= inst(tup.1)
    ensures ne_lower(r1, x)
{
    let t0 = if r0.contains_key(key) { r0[key]@ } else { Seq::<(V, Instant)>::empty() };
    assert forall|k: K, i: int| #[trigger] has_tuple(r1, k, i) implies inst(x) <= inst(r1[k]@[i].1) by {
        if k != key { assert(has_tuple(r0, k, i)); }
        else if i == r1[key]@.len() - 1 { }
        else {
            match d {
                None => { assert(has_tuple(r0, key, i)); }
                Some(dd) => { lemma_swap_remove_from(t0, dd, i); let j = if i == dd { t0.len() - 1 } else { i }; assert(has_tuple(r0, key, j)); }
            }
        }
    }
}
pub proof fn lemma_upsert_attained<K, V>(r0: Map<K, Vec<(V, Instant)>>, r1: Map<K, Vec<(V, Instant)>>, key: K, tup: (V, Instant), d: Option<int>, x: Instant)
    requires upsert_recs(r0, r1, key, tup, d), ne_attained(r0, x),
        d is Some ==> inst(r0[key]@[d->Some_0].1) != inst(x),
    ensures ne_attained(r1, x)
{
    let t0 = if r0.contains_key(key) { r0[key]@ } else { Seq::<(V, Instant)>::empty() };
    let (k, i) = choose|k: K, i: int| #[trigger] has_tuple(r0, k, i) && inst(x) == inst(r0[k]@[i].1);
    if k != key { assert(has_tuple(r1, k, i)); }
    else {
        match d {
            None => { assert(has_tuple(r1, key, i)); assert(r1[key]@[i] == t0[i]); }
            Some(dd) => { lemma_swap_remove_keeps(t0, dd, i); let j2 = if i == t0.len() - 1 { dd } else { i }; assert(has_tuple(r1, key, j2)); assert(r1[key]@[j2] == t0[i]); }
        }
    }
}
pub proof fn lemma_upsert_attained_new<K, V>(r0: Map<K, Vec<(V, Instant)>>, r1: Map<K, Vec<(V, Instant)>>, key: K, tup: (V, Instant), d: Option<int>)
    requires upsert_recs(r0, r1, key, tup, d)
    ensures ne_attained(r1, tup.1), has_tuple(r1, key, r1[key]@.len() - 1), r1[key]@.last() == tup
{ assert(has_tuple(r1, key, r1[key]@.len() - 1)); }

impl<K: Eq + Hash, V> Partition<K, V> {
    spec fn count(&self) -> nat { map_sum(self.records@, vlen::<(V, Instant)>()) }
    // E: next_expiry is a lower bound of every stored expiry and is attained; counts: size is the number of stored tuples; N: never empty
    spec fn wf(&self) -> bool {
        &&& self.size == self.count()
        &&& self.size > 0
        &&& ne_lower(self.records@, self.next_expiry)
        &&& ne_attained(self.records@, self.next_expiry)
        &&& distinct_values(self.records@)
    }
}
spec fn psize<K: Eq + Hash, V>() -> spec_fn(Partition<K, V>) -> nat { |p: Partition<K, V>| p.size as nat }

impl<K1: Eq + Hash, K2: Eq + Hash, V> PartitionedCache<K1, K2, V> {
    // K: the three maps have the same keys and agree on the per-name instants; counts: current_size is the number of stored tuples
    spec fn wf(&self) -> bool {
        &&& obeys_key_model::<K1>() && obeys_key_model::<K2>()
        &&& forall|k: K1| #[trigger] self.partitions@.contains_key(k) <==> pqv(&self.access_priority).contains_key(k)
        &&& forall|k: K1| #[trigger] self.partitions@.contains_key(k) <==> pqv(&self.expiry_priority).contains_key(k)
        &&& forall|k: K1| #[trigger] self.partitions@.contains_key(k) ==> self.partitions@[k].wf()
                && pqv(&self.expiry_priority)[k] == self.partitions@[k].next_expiry
                && pqv(&self.access_priority)[k] == self.partitions@[k].last_read
        &&& self.current_size == map_sum(self.partitions@, psize::<K2, V>())
    }
    // every stored tuple expires strictly after t
    spec fn all_expire_after(&self, t: Instant) -> bool { map_expires_after(self.partitions@, t) }
}

// the stored data (names, types, tuples, sizes, next expiries) is the same; only read times may differ
spec fn same_records<K1: Eq + Hash, K2: Eq + Hash, V>(a: PartitionedCache<K1, K2, V>, b: PartitionedCache<K1, K2, V>) -> bool {
    &&& a.current_size == b.current_size && a.desired_size == b.desired_size
    &&& forall|k: K1| #[trigger] a.partitions@.contains_key(k) <==> b.partitions@.contains_key(k)
    &&& forall|k: K1| #[trigger] a.partitions@.contains_key(k) ==> a.partitions@[k].records == b.partitions@[k].records
            && a.partitions@[k].size == b.partitions@[k].size && a.partitions@[k].next_expiry == b.partitions@[k].next_expiry
}

// "no expired record is left": nothing is stored, or every stored tuple expires after some clock reading taken during the call
spec fn map_expires_after<K1, K2: Eq + Hash, V>(m: Map<K1, Partition<K2, V>>, t: Instant) -> bool {
    forall|k1: K1, k2: K2, i: int| #![trigger m[k1].records@[k2]@[i]]
        m.contains_key(k1) && m[k1].records@.contains_key(k2) && 0 <= i < m[k1].records@[k2]@.len() ==> inst(m[k1].records@[k2]@[i].1) > inst(t)
}
spec fn clean_map<K1, K2: Eq + Hash, V>(m: Map<K1, Partition<K2, V>>) -> bool {
    (forall|k: K1| !m.contains_key(k)) || exists|now: Instant| is_now(now) && #[trigger] map_expires_after(m, now)
}
spec fn clean<K1: Eq + Hash, K2: Eq + Hash, V>(c: PartitionedCache<K1, K2, V>) -> bool { clean_map(c.partitions@) }
proof fn lemma_clean_remove<K1, K2: Eq + Hash, V>(m: Map<K1, Partition<K2, V>>, k: K1)
    requires clean_map(m)
    ensures clean_map(m.remove(k))
{
    if !(forall|k: K1| !m.contains_key(k)) {
        let now = choose|now: Instant| is_now(now) && #[trigger] map_expires_after(m, now);
        assert(map_expires_after(m.remove(k), now));
    }
}
// a cache holding at least one record has at least one name
proof fn lemma_nonempty_if_positive<K1: Eq + Hash, K2: Eq + Hash, V>(c: PartitionedCache<K1, K2, V>)
    requires c.wf(), c.current_size > 0
    ensures exists|k: K1| c.partitions@.contains_key(k)
{
    if forall|k: K1| !c.partitions@.contains_key(k) {
        assert(c.partitions@.dom() =~= Set::<K1>::empty());
        assert(map_sum(c.partitions@, psize::<K2, V>()) == 0);
    }
}

// ---- C05: what a lookup returns
// whole seconds left at `now`, saturating at zero (and at u32::MAX)
pub open spec fn ttl_left(e: Instant, now: Instant) -> u32 {
    let d = if inst(e) >= inst(now) { inst(e) - inst(now) } else { 0 };
    let s = d / 1_000_000_000;
    if s > u32::MAX { u32::MAX } else { s as u32 }
}
pub open spec fn rr_of(name: DomainName, t: (RecordTypeWithData, Instant), now: Instant) -> ResourceRecord {
    ResourceRecord { name, rtype_with_data: t.0, rclass: RecordClass::IN, ttl: ttl_left(t.1, now) }
}
// "the TTL reported for a cached record never exceeds the time it has left"
pub proof fn lemma_ttl_never_exceeds_time_left(e: Instant, now: Instant)
    ensures (ttl_left(e, now) as int) * 1_000_000_000 <= (if inst(e) >= inst(now) { inst(e) - inst(now) } else { 0 }), // [C05:ttl_never_exceeds_time_left]
            ttl_left(e, now) == 0 <==> inst(e) - inst(now) < 1_000_000_000, // [C05:zero_ttl_iff_less_than_a_second_left]
{}
pub open spec fn any_cached(rrs: Seq<ResourceRecord>, recs: Map<RecordType, Vec<(RecordTypeWithData, Instant)>>, name: DomainName, now: Instant) -> bool {
    &&& forall|t: RecordType, i: int| #![trigger recs[t]@[i]] recs.contains_key(t) && 0 <= i < recs[t]@.len() ==> rrs.contains(rr_of(name, recs[t]@[i], now))
    &&& forall|x: int| 0 <= x < rrs.len() ==> exists|t: RecordType, i: int| recs.contains_key(t) && 0 <= i < recs[t]@.len() && #[trigger] rrs[x] == rr_of(name, #[trigger] recs[t]@[i], now)
}
spec fn lookup_result(rrs: Seq<ResourceRecord>, parts: Map<DomainName, Partition<RecordType, RecordTypeWithData>>, name: DomainName, qtype: QueryType, now: Instant) -> bool {
    match qtype {
        QueryType::Record(t) => rrs == (if parts.contains_key(name) && parts[name].records@.contains_key(t) {
                Seq::new(parts[name].records@[t]@.len(), |i: int| rr_of(name, parts[name].records@[t]@[i], now)) } else { Seq::<ResourceRecord>::empty() }),
        QueryType::Wildcard => if parts.contains_key(name) { any_cached(rrs, parts[name].records@, name, now) } else { rrs.len() == 0 },
        _ => rrs.len() == 0,
    }
}
pub broadcast axiom fn axiom_rtd_eq(a: RecordTypeWithData, b: RecordTypeWithData) ensures #[trigger] a.eq_spec(&b) == (a == b);
pub broadcast axiom fn axiom_rtd_obeys() ensures #[trigger] <RecordTypeWithData as vstd::std_specs::cmp::PartialEqSpec>::obeys_eq_spec();

// C05: expiry removes exactly what is due: every stored tuple not yet due at the clock reading `now` is still stored, nothing is added
spec fn expired_only<K1, K2: Eq + Hash, V>(m0: Map<K1, Partition<K2, V>>, m1: Map<K1, Partition<K2, V>>, now: Instant) -> bool {
    &&& forall|k1: K1, k2: K2, i: int| m0.contains_key(k1) && #[trigger] has_tuple(m0[k1].records@, k2, i) && inst(m0[k1].records@[k2]@[i].1) > inst(now)
            ==> m1.contains_key(k1) && m1[k1].records@.contains_key(k2) && m1[k1].records@[k2]@.contains(m0[k1].records@[k2]@[i])
    &&& forall|k1: K1, k2: K2, i: int| m1.contains_key(k1) && #[trigger] has_tuple(m1[k1].records@, k2, i)
            ==> m0.contains_key(k1) && m0[k1].records@.contains_key(k2) && m0[k1].records@[k2]@.contains(m1[k1].records@[k2]@[i])
}
spec fn expiry_step_ok<K1, K2: Eq + Hash, V>(m0: Map<K1, Partition<K2, V>>, m1: Map<K1, Partition<K2, V>>) -> bool {
    m1 == m0 || exists|now: Instant| is_now(now) && #[trigger] expired_only(m0, m1, now)
}
proof fn lemma_filter_sub_g<A>(s: Seq<A>, p: spec_fn(A) -> bool, i: int)
    requires 0 <= i < s.filter(p).len()
    ensures s.contains(s.filter(p)[i])
    decreases s.len()
{
    reveal(Seq::filter);
    if s.len() > 0 {
        let d = s.drop_last();
        if i < d.filter(p).len() {
            lemma_filter_sub_g(d, p, i);
            let w = choose|w: int| 0 <= w < d.len() && d[w] == d.filter(p)[i];
            assert(s[w] == d[w]);
            assert(s.filter(p)[i] == d.filter(p)[i]);
        } else {
            assert(p(s.last()) && s.filter(p)[i] == s.last());
            assert(s[s.len() - 1] == s.last());
        }
    }
}
proof fn lemma_filter_has_g<A>(s: Seq<A>, p: spec_fn(A) -> bool, i: int)
    requires 0 <= i < s.len(), p(s[i])
    ensures s.filter(p).contains(s[i])
    decreases s.len()
{
    reveal(Seq::filter);
    if i == s.len() - 1 { assert(s.filter(p).last() == s[i]); }
    else {
        lemma_filter_has_g(s.drop_last(), p, i); assert(s.drop_last()[i] == s[i]);
        let w = choose|w: int| 0 <= w < s.drop_last().filter(p).len() && s.drop_last().filter(p)[w] == s[i];
        assert(s.filter(p)[w] == s[i]);
    }
}
// the step on one partition: every record vector becomes its filter by `not yet due`; the partition is dropped when nothing is left
proof fn lemma_expired_only_step<K1, K2: Eq + Hash, V>(m0: Map<K1, Partition<K2, V>>, m1: Map<K1, Partition<K2, V>>, pk: K1, recs_f: Map<K2, Vec<(V, Instant)>>, now: Instant)
    requires m0.contains_key(pk),
        forall|k: K2| #[trigger] recs_f.contains_key(k) <==> m0[pk].records@.contains_key(k),
        forall|k: K2| m0[pk].records@.contains_key(k) ==> (#[trigger] recs_f[k])@ == m0[pk].records@[k]@.filter(unexp::<V>(now)),
        (m1.contains_key(pk) && m1[pk].records@ == recs_f && m1 == m0.insert(pk, m1[pk]))
            || (m1 == m0.remove(pk) && forall|k: K2| recs_f.contains_key(k) ==> (#[trigger] recs_f[k])@.len() == 0),
    ensures expired_only(m0, m1, now)
{
    assert forall|k1: K1, k2: K2, i: int| m0.contains_key(k1) && #[trigger] has_tuple(m0[k1].records@, k2, i) && inst(m0[k1].records@[k2]@[i].1) > inst(now)
        implies m1.contains_key(k1) && m1[k1].records@.contains_key(k2) && m1[k1].records@[k2]@.contains(m0[k1].records@[k2]@[i]) by {
        if k1 == pk {
            lemma_filter_has_g(m0[pk].records@[k2]@, unexp::<V>(now), i);
            assert(recs_f[k2]@.contains(m0[pk].records@[k2]@[i]));
            assert(recs_f[k2]@.len() > 0);
        }
    }
    assert forall|k1: K1, k2: K2, i: int| m1.contains_key(k1) && #[trigger] has_tuple(m1[k1].records@, k2, i)
        implies m0.contains_key(k1) && m0[k1].records@.contains_key(k2) && m0[k1].records@[k2]@.contains(m1[k1].records@[k2]@[i]) by {
        if k1 == pk {
            assert(recs_f.contains_key(k2));
            assert(m0[pk].records@.contains_key(k2));
            let f = m0[pk].records@[k2]@.filter(unexp::<V>(now));
            m0[pk].records@[k2]@.filter_lemma(unexp::<V>(now));
            assert(m1.contains_key(pk));
            assert(m1[pk].records@ == recs_f);
            assert(recs_f[k2]@ == f);
            assert(0 <= i < f.len());
            assert(m1[pk].records@[k2]@[i] == f[i]);
            lemma_filter_sub_g(m0[pk].records@[k2]@, unexp::<V>(now), i);
            assert(m0[pk].records@[k2]@.contains(f[i]));
        } else {
            assert(m1[k1] == m0[k1]);
        }
    }
}

// C05: "a record that has neither expired nor been evicted is [still stored]": a tuple whose expiry lies after every clock reading
// survives unless its whole name was evicted; and nothing is ever added by pruning
spec fn never_due(t: Instant) -> bool { forall|now: Instant| is_now(now) ==> inst(t) > inst(#[trigger] now_id(now)) }
spec fn now_id(t: Instant) -> Instant { t }
spec fn live_kept<K1, K2: Eq + Hash, V>(m0: Map<K1, Partition<K2, V>>, m1: Map<K1, Partition<K2, V>>) -> bool {
    &&& forall|k1: K1, k2: K2, i: int| m0.contains_key(k1) && #[trigger] has_tuple(m0[k1].records@, k2, i) && never_due(m0[k1].records@[k2]@[i].1) && m1.contains_key(k1)
            ==> m1[k1].records@.contains_key(k2) && m1[k1].records@[k2]@.contains(m0[k1].records@[k2]@[i])
    &&& forall|k1: K1, k2: K2, i: int| m1.contains_key(k1) && #[trigger] has_tuple(m1[k1].records@, k2, i)
            ==> m0.contains_key(k1) && m0[k1].records@.contains_key(k2) && m0[k1].records@[k2]@.contains(m1[k1].records@[k2]@[i])
}
// expiry alone never drops the name of a live record
spec fn live_names_kept<K1, K2: Eq + Hash, V>(m0: Map<K1, Partition<K2, V>>, m1: Map<K1, Partition<K2, V>>) -> bool {
    forall|k1: K1, k2: K2, i: int| m0.contains_key(k1) && #[trigger] has_tuple(m0[k1].records@, k2, i) && never_due(m0[k1].records@[k2]@[i].1) ==> m1.contains_key(k1)
}
proof fn lemma_live_kept_refl<K1, K2: Eq + Hash, V>(m: Map<K1, Partition<K2, V>>)
    ensures live_kept(m, m), live_names_kept(m, m)
{}
proof fn lemma_live_kept_step<K1, K2: Eq + Hash, V>(m0: Map<K1, Partition<K2, V>>, m1: Map<K1, Partition<K2, V>>)
    requires expiry_step_ok(m0, m1)
    ensures live_kept(m0, m1), live_names_kept(m0, m1)
{
    if m1 != m0 {
        let now = choose|now: Instant| is_now(now) && #[trigger] expired_only(m0, m1, now);
        assert(now_id(now) == now);
        assert forall|k1: K1, k2: K2, i: int| m0.contains_key(k1) && #[trigger] has_tuple(m0[k1].records@, k2, i) && never_due(m0[k1].records@[k2]@[i].1)
            implies m1.contains_key(k1) && m1[k1].records@.contains_key(k2) && m1[k1].records@[k2]@.contains(m0[k1].records@[k2]@[i]) by {
            assert(inst(m0[k1].records@[k2]@[i].1) > inst(now_id(now)));
        }
        assert(expired_only(m0, m1, now));
        assert forall|k1: K1, k2: K2, i: int| m1.contains_key(k1) && #[trigger] has_tuple(m1[k1].records@, k2, i)
            implies m0.contains_key(k1) && m0[k1].records@.contains_key(k2) && m0[k1].records@[k2]@.contains(m1[k1].records@[k2]@[i]) by {
            let t = m1[k1].records@[k2]@[i];
            assert(m1.contains_key(k1) && has_tuple(m1[k1].records@, k2, i));
            assert(m0.contains_key(k1));
        }
    } else {
        lemma_live_kept_refl(m0);
    }
}
proof fn lemma_live_kept_trans<K1, K2: Eq + Hash, V>(m0: Map<K1, Partition<K2, V>>, m1: Map<K1, Partition<K2, V>>, m2: Map<K1, Partition<K2, V>>)
    requires live_kept(m0, m1), live_kept(m1, m2), forall|k: K1| m2.contains_key(k) ==> m1.contains_key(k)
    ensures live_kept(m0, m2)
{
    assert forall|k1: K1, k2: K2, i: int| m0.contains_key(k1) && #[trigger] has_tuple(m0[k1].records@, k2, i) && never_due(m0[k1].records@[k2]@[i].1) && m2.contains_key(k1)
        implies m2[k1].records@.contains_key(k2) && m2[k1].records@[k2]@.contains(m0[k1].records@[k2]@[i]) by {
        let t = m0[k1].records@[k2]@[i];
        assert(m1.contains_key(k1));
        assert(m1[k1].records@[k2]@.contains(t));
        let j = choose|j: int| 0 <= j < m1[k1].records@[k2]@.len() && m1[k1].records@[k2]@[j] == t;
        assert(has_tuple(m1[k1].records@, k2, j));
        assert(never_due(m1[k1].records@[k2]@[j].1));
        assert(m2[k1].records@[k2]@.contains(m1[k1].records@[k2]@[j]));
    }
    assert forall|k1: K1, k2: K2, i: int| m2.contains_key(k1) && #[trigger] has_tuple(m2[k1].records@, k2, i)
        implies m0.contains_key(k1) && m0[k1].records@.contains_key(k2) && m0[k1].records@[k2]@.contains(m2[k1].records@[k2]@[i]) by {
        let t = m2[k1].records@[k2]@[i];
        assert(m1[k1].records@[k2]@.contains(t));
        let j = choose|j: int| 0 <= j < m1[k1].records@[k2]@.len() && m1[k1].records@[k2]@[j] == t;
        assert(has_tuple(m1[k1].records@, k2, j));
        assert(m0[k1].records@[k2]@.contains(m1[k1].records@[k2]@[j]));
    }
}
proof fn lemma_live_names_trans<K1, K2: Eq + Hash, V>(m0: Map<K1, Partition<K2, V>>, m1: Map<K1, Partition<K2, V>>, m2: Map<K1, Partition<K2, V>>)
    requires live_kept(m0, m1), live_names_kept(m0, m1), live_names_kept(m1, m2)
    ensures live_names_kept(m0, m2)
{
    assert forall|k1: K1, k2: K2, i: int| m0.contains_key(k1) && #[trigger] has_tuple(m0[k1].records@, k2, i) && never_due(m0[k1].records@[k2]@[i].1) implies m2.contains_key(k1) by {
        let t = m0[k1].records@[k2]@[i];
        assert(m1[k1].records@[k2]@.contains(t));
        let j = choose|j: int| 0 <= j < m1[k1].records@[k2]@.len() && m1[k1].records@[k2]@[j] == t;
        assert(has_tuple(m1[k1].records@, k2, j));
        assert(m1[k1].records@[k2]@[j].1 == t.1);
    }
}
proof fn lemma_live_kept_remove<K1, K2: Eq + Hash, V>(m: Map<K1, Partition<K2, V>>, k: K1)
    ensures live_kept(m, m.remove(k))
{}

// C10 / C01: every cached tuple is filed under the record type of its own data (Cache::insert files by rtype(); pruning only removes)
spec fn typed_map(m: Map<DomainName, Partition<RecordType, RecordTypeWithData>>) -> bool {
    forall|k1: DomainName, k2: RecordType, i: int| m.contains_key(k1) && #[trigger] has_tuple(m[k1].records@, k2, i) ==> spec_rtype_of(m[k1].records@[k2]@[i].0) == k2
}
proof fn lemma_typed_subset(m0: Map<DomainName, Partition<RecordType, RecordTypeWithData>>, m1: Map<DomainName, Partition<RecordType, RecordTypeWithData>>)
    requires typed_map(m0), live_kept(m0, m1)
    ensures typed_map(m1)
{
    assert forall|k1: DomainName, k2: RecordType, i: int| m1.contains_key(k1) && #[trigger] has_tuple(m1[k1].records@, k2, i) implies spec_rtype_of(m1[k1].records@[k2]@[i].0) == k2 by {
        let t = m1[k1].records@[k2]@[i];
        assert(m0[k1].records@[k2]@.contains(t));
        let j = choose|j: int| 0 <= j < m0[k1].records@[k2]@.len() && m0[k1].records@[k2]@[j] == t;
        assert(has_tuple(m0[k1].records@, k2, j));
    }
}
proof fn lemma_typed_same(a: PartitionedCache<DomainName, RecordType, RecordTypeWithData>, b: PartitionedCache<DomainName, RecordType, RecordTypeWithData>)
    requires typed_map(a.partitions@), same_records(a, b)
    ensures typed_map(b.partitions@)
{
    assert forall|k1: DomainName, k2: RecordType, i: int| b.partitions@.contains_key(k1) && #[trigger] has_tuple(b.partitions@[k1].records@, k2, i) implies spec_rtype_of(b.partitions@[k1].records@[k2]@[i].0) == k2 by {
        assert(a.partitions@.contains_key(k1));
        assert(has_tuple(a.partitions@[k1].records@, k2, i));
    }
}
proof fn lemma_typed_upsert(m0: Map<DomainName, Partition<RecordType, RecordTypeWithData>>, m1: Map<DomainName, Partition<RecordType, RecordTypeWithData>>, pk: DomainName, key: RecordType, tup: (RecordTypeWithData, Instant), d: Option<int>)
    requires typed_map(m0), spec_rtype_of(tup.0) == key, m1.contains_key(pk),
        forall|k: DomainName| k != pk ==> (#[trigger] m1.contains_key(k) <==> m0.contains_key(k)),
        forall|k: DomainName| k != pk && m0.contains_key(k) ==> (#[trigger] m1[k]).records == m0[k].records,
        upsert_recs(recs_or_empty(m0, pk), m1[pk].records@, key, tup, d),
    ensures typed_map(m1)
{
    let r0 = recs_or_empty(m0, pk); let r1 = m1[pk].records@;
    let t0 = if r0.contains_key(key) { r0[key]@ } else { Seq::<(RecordTypeWithData, Instant)>::empty() };
    assert forall|k1: DomainName, k2: RecordType, i: int| m1.contains_key(k1) && #[trigger] has_tuple(m1[k1].records@, k2, i) implies spec_rtype_of(m1[k1].records@[k2]@[i].0) == k2 by {
        if k1 != pk {
            assert(m0.contains_key(k1)); assert(has_tuple(m0[k1].records@, k2, i));
        } else if k2 != key {
            assert(r0.contains_key(k2) && r1[k2] == r0[k2]);
            assert(m0.contains_key(pk)); assert(has_tuple(m0[pk].records@, k2, i));
        } else {
            let x = r1[key]@[i];
            if x != tup {
                match d {
                    None => { assert(x == t0[i]); }
                    Some(dd) => { if i == dd { assert(x == t0.last()); assert(has_tuple(m0[pk].records@, key, t0.len() - 1)); } else { assert(x == t0[i]); } }
                }
                assert(r0.contains_key(key));
                assert(m0.contains_key(pk));
                assert(exists|j: int| has_tuple(m0[pk].records@, key, j) && m0[pk].records@[key]@[j] == x) by {
                    match d { None => { assert(has_tuple(m0[pk].records@, key, i)); } Some(dd) => { if i == dd { assert(has_tuple(m0[pk].records@, key, t0.len() - 1)); } else { assert(has_tuple(m0[pk].records@, key, i)); } } }
                }
            }
        }
    }
}

broadcast proof fn lemma_typed_subset_b(m0: Map<DomainName, Partition<RecordType, RecordTypeWithData>>, m1: Map<DomainName, Partition<RecordType, RecordTypeWithData>>)
    requires typed_map(m0), #[trigger] live_kept(m0, m1)
    ensures typed_map(m1)
{ lemma_typed_subset(m0, m1); }
