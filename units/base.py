"""Shared pieces for all units: crate header, prelude files, the dns-types protocol types, and the
contracts of the `names` functions (proved in unit `names`, assumed -- external_body -- elsewhere)."""
import os
VERIF = os.path.dirname(os.path.dirname(os.path.abspath(__file__)))
PRELUDE = os.path.join(VERIF, "prelude")
TYPES = "crates/dns-types/src/protocol/types.rs"
DESER = "crates/dns-types/src/protocol/deserialise.rs"
SER = "crates/dns-types/src/protocol/serialise.rs"

TRUSTED_COMMON = [
    "Verus 0.2026.09.13 + bundled Z3, rustc 1.98.1 front end",
    "generator tools/gen.py + tools/rsx.py (extraction drops comments, lint/cfg_attr attributes, tracing macros; rewrite rules R1..R12 as recorded per run)",
    "bytes::Bytes modelled as Seq<u8> (prelude/bytes.rs)",
    "std shims/specs in prelude/std.rs (to_ascii_lowercase, from_be_bytes, to_be_bytes, max, Option::copied)",
    "usize is 64 bit (global size_of usize == 8)",
    "derived Clone is a structural copy; derived PartialEq/Eq/Hash/Ord are structural (R12)",
]


def begin(G, preludes=("bytes.rs", "std.rs")):
    G.file(os.path.join(PRELUDE, "header.rs"))
    G.raw("verus! {")
    G.raw("global size_of usize == 8;")
    for p in preludes:
        G.file(os.path.join(PRELUDE, p))


def end(G, debug_for=("DomainName",)):
    G.raw("} // verus!")
    for t in debug_for:
        G.raw(f"impl std::fmt::Debug for {t} {{ fn fmt(&self, _f: &mut std::fmt::Formatter<'_>) -> std::fmt::Result {{ Ok(()) }} }}")
    G.raw("fn main() {}")


CLONE_IMPL = """impl Clone for %(T)s {
    #[verifier::external_body]
    fn clone(&self) -> (r: Self) ensures r == *self { %(body)s }
}"""


def name_types(G, clone=True):
    """DomainName, Label and their constants, with R12 (derive(Clone) -> assumed structural clone)."""
    T = G.src(TYPES)
    for c in ("DOMAINNAME_MAX_LEN", "LABEL_MAX_LEN"):
        G.item(T, "const", c)
    G.item(T, "struct", "DomainName", drop_derive=("Clone",))
    G.item(T, "struct", "Label", drop_derive=("Clone",))
    G.item(T, "enum", "LabelTryFromOctetsError")
    G.fired["R12"] = G.fired.get("R12", 0) + 2
    G.raw(CLONE_IMPL % {"T": "DomainName", "body": "DomainName { labels: self.labels.clone(), len: self.len }"})
    G.raw(CLONE_IMPL % {"T": "Label", "body": "Label { octets: self.octets.clone() }"})
    G.raw("""impl vstd::std_specs::convert::TryFromSpecImpl<&[u8]> for Label {
    open spec fn obeys_try_from_spec() -> bool { false }
    open spec fn try_from_spec(v: &[u8]) -> Result<Self, Self::Error> { arbitrary() }
}""")
    G.file(os.path.join(PRELUDE, "dns_spec.rs"))


# Contracts of the name functions.  `props` says which properties a failure inside the function is charged to.
NAME_SPECS = {
    "Label::new": {"props": ["C16"], "contract": "    ensures r.wf(), r.v().len() == 0,"},
    "Label::len": {"props": ["C16"], "contract": "    requires self.wf(),\n    ensures r == self.v().len(),"},
    "Label::is_empty": {"props": ["C16"], "contract": "    ensures r == (self.v().len() == 0),"},
    "Label::try_from": {"props": ["C16"], "contract": """    ensures
        r is Ok ==> mixed_case_octets@.len() <= 63, // [C16:label_le_63]
        r is Ok ==> r->Ok_0.wf(), // [C16:label_wf]
        r is Ok ==> r->Ok_0.v() == mixed_case_octets@.map_values(|b: u8| lower(b)), // [C16:label_lowercased]
        r is Err ==> mixed_case_octets@.len() > 63, // [C16:label_reject_only_long]"""},
    "DomainName::root_domain": {"props": ["C16"], "contract": "    ensures r.wf(), r.labels@.len() == 1,"},
    "DomainName::is_root": {"props": ["C16"], "contract": "    requires self.wf(),\n    ensures r == (self.labels@.len() == 1),"},
    "DomainName::from_labels": {"props": ["C16"], "contract": """    requires all_labels_wf(labels@), labels@.len() <= 0x1_0000_0000,
    ensures
        r is Some ==> r->Some_0.wf(), // [C16:from_labels_wf]
        r is Some ==> r->Some_0.labels@ == labels@, // [C16:from_labels_same_labels]
        r is None ==> !shape_ok(labels@) || labels_sum(labels@) > 255, // [C16:from_labels_rejects_only_invalid]"""},
    "DomainName::make_subdomain_of": {"props": ["C16"], "contract": """    requires self.wf(), origin.wf(),
    ensures
        r is Some ==> r->Some_0.wf(), // [C16:join_wf]
        r is Some ==> r->Some_0.labels@ == self.labels@.drop_last() + origin.labels@, // [C16:join_labels]
        r is None ==> labels_sum(self.labels@.drop_last() + origin.labels@) > 255, // [C16:join_rejects_only_too_long]"""},
    "DomainName::is_subdomain_of": {"props": ["C16"], "contract": """    ensures r == is_suffix(other.labels@, self.labels@), // [C16:subdomain_is_label_suffix]"""},
}


def as_assumed(specs, keys):
    out = {}
    for k in keys:
        s = dict(specs[k])
        s["mode"] = "assume"
        for x in ("entry", "loops", "anchors"):
            s.pop(x, None)
        out[k] = s
    return out
