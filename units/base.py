"""Shared pieces for all units: crate header, prelude files, the dns-types protocol types, and the
contracts of the `names` functions (proved in unit `names`, assumed -- external_body -- elsewhere)."""
import os
VERIF = os.path.dirname(os.path.dirname(os.path.abspath(__file__)))
PRELUDE = os.path.join(VERIF, "prelude")
TYPES = "crates/dns-types/src/protocol/types.rs"
DESER = "crates/dns-types/src/protocol/deserialise.rs"
SER = "crates/dns-types/src/protocol/serialise.rs"

TRUSTED_COMMON = [
    "Verus 0.2026.09.13 + bundled Z3, rustc 1.98.1 front end",
    "generator tools/gen.py + tools/rsx.py (extraction drops comments, lint/cfg_attr attributes, tracing macros; rewrite rules R1..R12 as recorded per run)",
    "bytes::Bytes modelled as Seq<u8> (prelude/bytes.rs)",
    "std shims/specs in prelude/std.rs (to_ascii_lowercase, from_be_bytes, to_be_bytes, max, Option::copied)",
    "usize is 64 bit (global size_of usize == 8)",
    "derived Clone is a structural copy; derived PartialEq/Eq/Hash/Ord are structural (R12)",
]


def begin(G, preludes=("bytes.rs", "std.rs")):
    G.file(os.path.join(PRELUDE, "header.rs"))
    G.raw("verus! {")
    G.raw("global size_of usize == 8;")
    for p in preludes:
        G.file(os.path.join(PRELUDE, p))


def end(G, debug_for=("DomainName",)):
    G.raw("} // verus!")
    for t in debug_for:
        G.raw(f"impl std::fmt::Debug for {t} {{ fn fmt(&self, _f: &mut std::fmt::Formatter<'_>) -> std::fmt::Result {{ Ok(()) }} }}")
    G.raw("fn main() {}")


CLONE_IMPL = """impl Clone for %(T)s {
    #[verifier::external_body]
    fn clone(&self) -> (r: Self) ensures r == *self { %(body)s }
}"""


def name_types(G, clone=True, tryfrom=True):
    """DomainName, Label and their constants, with R12 (derive(Clone) -> assumed structural clone)."""
    T = G.src(TYPES)
    for c in ("DOMAINNAME_MAX_LEN", "LABEL_MAX_LEN"):
        G.item(T, "const", c)
    G.item(T, "struct", "DomainName", drop_derive=("Clone",))
    G.item(T, "struct", "Label", drop_derive=("Clone",))
    G.item(T, "enum", "LabelTryFromOctetsError")
    G.fired["R12"] = G.fired.get("R12", 0) + 2
    G.raw(CLONE_IMPL % {"T": "DomainName", "body": "DomainName { labels: self.labels.clone(), len: self.len }"})
    G.raw(CLONE_IMPL % {"T": "Label", "body": "Label { octets: self.octets.clone() }"})
    if tryfrom:
      G.raw("""impl vstd::std_specs::convert::TryFromSpecImpl<&[u8]> for Label {
    open spec fn obeys_try_from_spec() -> bool { false }
    open spec fn try_from_spec(v: &[u8]) -> Result<Self, Self::Error> { arbitrary() }
}""")
    G.file(os.path.join(PRELUDE, "dns_spec.rs"))


# Contracts of the name functions.  `props` says which properties a failure inside the function is charged to.
NAME_SPECS = {
    "Label::new": {"props": ["C16"], "contract": "    ensures r.wf(), r.v().len() == 0,"},
    "Label::len": {"props": ["C16"], "contract": "    requires self.wf(),\n    ensures r == self.v().len(),"},
    "Label::is_empty": {"props": ["C16"], "contract": "    ensures r == (self.v().len() == 0),"},
    "Label::try_from": {"props": ["C16"], "contract": """    ensures
        r is Ok ==> mixed_case_octets@.len() <= 63, // [C16:label_le_63]
        r is Ok ==> r->Ok_0.wf(), // [C16:label_wf]
        r is Ok ==> r->Ok_0.v() == mixed_case_octets@.map_values(|b: u8| lower(b)), // [C16:label_lowercased]
        r is Err ==> mixed_case_octets@.len() > 63, // [C16:label_reject_only_long]"""},
    "DomainName::root_domain": {"props": ["C16"], "contract": "    ensures r.wf(), r.labels@.len() == 1,"},
    "DomainName::is_root": {"props": ["C16"], "contract": "    requires self.wf(),\n    ensures r == (self.labels@.len() == 1),"},
    "DomainName::from_labels": {"props": ["C16"], "contract": """    requires all_labels_wf(labels@), labels@.len() <= 0x03ff_ffff_ffff_ffff,
    ensures
        r is Some ==> r->Some_0.wf(), // [C16:from_labels_wf]
        r is Some ==> r->Some_0.labels@ == labels@, // [C16:from_labels_same_labels]
        r is None ==> !shape_ok(labels@) || labels_sum(labels@) > 255, // [C16:from_labels_rejects_only_invalid]"""},
    "DomainName::make_subdomain_of": {"props": ["C16"], "contract": """    requires self.wf(), origin.wf(),
    ensures
        r is Some ==> r->Some_0.wf(), // [C16:join_wf]
        r is Some ==> r->Some_0.labels@ == self.labels@.drop_last() + origin.labels@, // [C16:join_labels]
        r is None ==> labels_sum(self.labels@.drop_last() + origin.labels@) > 255, // [C16:join_rejects_only_too_long]"""},
    "DomainName::is_subdomain_of": {"props": ["C16"], "contract": """    ensures r == is_suffix(other.labels@, self.labels@), // [C16:subdomain_is_label_suffix]"""},
}


def as_assumed(specs, keys):
    out = {}
    for k in keys:
        s = dict(specs[k])
        s["mode"] = "assume"
        for x in ("entry", "loops", "anchors"):
            s.pop(x, None)
        out[k] = s
    return out


# ---------------------------------------------------------------------------
# wire-level types (protocol/types.rs) and the enum <-> integer conversions.
# The FromSpecImpl oracles below are written from the RFC 1035 tables (section 3.2.2-3.2.5, 4.1.1; AAAA=28 RFC 3596,
# SRV=33 RFC 2782), not from the code; with obeys_from_spec() == true Verus checks each real `from` body against them.
RTYPE_TABLE = [("A", 1), ("NS", 2), ("MD", 3), ("MF", 4), ("CNAME", 5), ("SOA", 6), ("MB", 7), ("MG", 8), ("MR", 9),
               ("NULL", 10), ("WKS", 11), ("PTR", 12), ("HINFO", 13), ("MINFO", 14), ("MX", 15), ("TXT", 16), ("AAAA", 28), ("SRV", 33)]


def _conv_oracles():
    o = []
    rt_from = " else ".join(f"if v == {c} {{ RecordType::{n} }}" for n, c in RTYPE_TABLE) + " else { RecordType::Unknown(RecordTypeUnknown(v)) }"
    rt_to = ", ".join(f"RecordType::{n} => {c}" for n, c in RTYPE_TABLE) + ", RecordType::Unknown(RecordTypeUnknown(x)) => x"
    o.append(f"""
pub closed spec fn spec_rtype_from(v: u16) -> RecordType {{ {rt_from} }}
pub closed spec fn spec_rtype_to(t: RecordType) -> u16 {{ match t {{ {rt_to} }} }}
pub closed spec fn spec_qtype_from(v: u16) -> QueryType {{
    if v == 252 {{ QueryType::AXFR }} else if v == 253 {{ QueryType::MAILB }} else if v == 254 {{ QueryType::MAILA }} else if v == 255 {{ QueryType::Wildcard }} else {{ QueryType::Record(spec_rtype_from(v)) }} }}
pub closed spec fn spec_qtype_to(t: QueryType) -> u16 {{ match t {{ QueryType::AXFR => 252, QueryType::MAILB => 253, QueryType::MAILA => 254, QueryType::Wildcard => 255, QueryType::Record(r) => spec_rtype_to(r) }} }}
pub closed spec fn spec_rclass_from(v: u16) -> RecordClass {{ if v == 1 {{ RecordClass::IN }} else {{ RecordClass::Unknown(RecordClassUnknown(v)) }} }}
pub closed spec fn spec_rclass_to(t: RecordClass) -> u16 {{ match t {{ RecordClass::IN => 1, RecordClass::Unknown(RecordClassUnknown(x)) => x }} }}
pub closed spec fn spec_qclass_from(v: u16) -> QueryClass {{ if v == 255 {{ QueryClass::Wildcard }} else {{ QueryClass::Record(spec_rclass_from(v)) }} }}
pub closed spec fn spec_qclass_to(t: QueryClass) -> u16 {{ match t {{ QueryClass::Wildcard => 255, QueryClass::Record(r) => spec_rclass_to(r) }} }}
pub closed spec fn spec_opcode_from(v: u8) -> Opcode {{ let x = v & 0x0f; if x == 0 {{ Opcode::Standard }} else if x == 1 {{ Opcode::Inverse }} else if x == 2 {{ Opcode::Status }} else {{ Opcode::Reserved(OpcodeReserved(x)) }} }}
pub closed spec fn spec_opcode_to(t: Opcode) -> u8 {{ match t {{ Opcode::Standard => 0, Opcode::Inverse => 1, Opcode::Status => 2, Opcode::Reserved(OpcodeReserved(x)) => x }} }}
pub closed spec fn spec_rcode_from(v: u8) -> Rcode {{ let x = v & 0x0f; if x == 0 {{ Rcode::NoError }} else if x == 1 {{ Rcode::FormatError }} else if x == 2 {{ Rcode::ServerFailure }} else if x == 3 {{ Rcode::NameError }} else if x == 4 {{ Rcode::NotImplemented }} else if x == 5 {{ Rcode::Refused }} else {{ Rcode::Reserved(RcodeReserved(x)) }} }}
pub closed spec fn spec_rcode_to(t: Rcode) -> u8 {{ match t {{ Rcode::NoError => 0, Rcode::FormatError => 1, Rcode::ServerFailure => 2, Rcode::NameError => 3, Rcode::NotImplemented => 4, Rcode::Refused => 5, Rcode::Reserved(RcodeReserved(x)) => x }} }}
""")
    for (a, b, f) in [("u16", "RecordType", "spec_rtype_from"), ("RecordType", "u16", "spec_rtype_to"),
                      ("u16", "QueryType", "spec_qtype_from"), ("QueryType", "u16", "spec_qtype_to"),
                      ("u16", "RecordClass", "spec_rclass_from"), ("RecordClass", "u16", "spec_rclass_to"),
                      ("u16", "QueryClass", "spec_qclass_from"), ("QueryClass", "u16", "spec_qclass_to"),
                      ("u8", "Opcode", "spec_opcode_from"), ("Opcode", "u8", "spec_opcode_to"),
                      ("u8", "Rcode", "spec_rcode_from"), ("Rcode", "u8", "spec_rcode_to")]:
        o.append(f"""impl vstd::std_specs::convert::FromSpecImpl<{a}> for {b} {{
    open spec fn obeys_from_spec() -> bool {{ true }}
    closed spec fn from_spec(v: {a}) -> Self {{ {f}(v) }}
}}""")
    return "\n".join(o)


CONV_IMPLS = ["From<u8> for Opcode", "From<Opcode> for u8", "From<u8> for Rcode", "From<Rcode> for u8",
              "From<u16> for QueryType", "From<QueryType> for u16", "From<u16> for QueryClass", "From<QueryClass> for u16",
              "From<u16> for RecordType", "From<RecordType> for u16", "From<u16> for RecordClass", "From<RecordClass> for u16"]

UNIMPL_CLONE = """impl Clone for %(T)s {
    #[verifier::external_body]
    fn clone(&self) -> (r: Self) ensures r == *self { unimplemented!() }
}"""


def wire_types(G, conv_props=(), conv_mode="prove"):
    """Message .. RecordClass and the conversion impls.  conv_props: properties charged with a failing conversion body."""
    T = G.src(TYPES)
    for c in ("HEADER_MASK_QR", "HEADER_MASK_OPCODE", "HEADER_OFFSET_OPCODE", "HEADER_MASK_AA", "HEADER_MASK_TC", "HEADER_MASK_RD",
              "HEADER_MASK_RA", "HEADER_MASK_RCODE", "HEADER_OFFSET_RCODE"):
        G.item(T, "const", c)
    for (k, n) in (("struct", "Message"), ("struct", "Question"), ("struct", "ResourceRecord"), ("enum", "RecordTypeWithData")):
        G.item(T, k, n, drop_derive=("Clone",))
        G.raw(UNIMPL_CLONE % {"T": n})
        G.fired["R12"] = G.fired.get("R12", 0) + 1
    for (k, n) in (("struct", "Header"), ("enum", "Opcode"), ("struct", "OpcodeReserved"), ("enum", "Rcode"), ("struct", "RcodeReserved"),
                   ("enum", "QueryType"), ("enum", "QueryClass"), ("enum", "RecordType"), ("struct", "RecordTypeUnknown"),
                   ("enum", "RecordClass"), ("struct", "RecordClassUnknown")):
        G.item(T, k, n)
    G.raw(_conv_oracles(), ("spec", "conversion oracles (RFC tables)"))
    specs = {}
    for impl in CONV_IMPLS:
        key = "conv::" + impl.replace(" ", "_") + "::"
        specs[key + "from"] = {"props": list(conv_props), "mode": conv_mode, "contract": ""}
        G.impl(T, impl, ["from"], key, specs)


# ---------------------------------------------------------------------------
ZTYPES = "crates/dns-types/src/zones/types.rs"
HTYPES = "crates/dns-types/src/hosts/types.rs"


def zone_types(G, with_zones=True):
    """Zones, Zone, ZoneResult, ZoneRecords, SOA, ZoneRecord (zones/types.rs) with R12 on the cloneable ones."""
    Z = G.src(ZTYPES)
    names = [("struct", "Zone"), ("enum", "ZoneResult"), ("struct", "ZoneRecords"), ("struct", "SOA"), ("struct", "ZoneRecord")]
    if with_zones:
        names.insert(0, ("struct", "Zones"))
    for (k, n) in names:
        pre = "#[verifier::external_derive]" if n in ("ZoneRecords", "Zone", "Zones") else ""
        G.item(Z, k, n, drop_derive=("Clone",), pre_attrs=pre)
        G.raw(UNIMPL_CLONE % {"T": n})
        G.fired["R12"] = G.fired.get("R12", 0) + 1


# shared spec vocabulary: who owns the records of a lookup result (proved in zone_lookup / cache, assumed by the stand-ins in local)
QMATCH_RS = "pub open spec fn qmatch(t: RecordType, q: QueryType) -> bool { q == QueryType::Wildcard || q == QueryType::Record(t) }\n"
ANSWER_TYPED_RS = """// an answer holds records of the asked type only (any type for ANY, none at all for AXFR / MAILA / MAILB)
pub open spec fn answer_typed(r: ZoneResult, qtype: QueryType) -> bool {
    r is Answer ==> forall|i: int| 0 <= i < r->rrs@.len() ==> qmatch(spec_rtype_of((#[trigger] r->rrs@[i]).rtype_with_data), qtype)
}
"""
ALL_NAMED_RS = "pub open spec fn all_named(s: Seq<ResourceRecord>, n: DomainName) -> bool { forall|x: int| 0 <= x < s.len() ==> (#[trigger] s[x]).name == n }\n"
OWNERS_OK_RS = """// owners of what a zone lookup returns: answer records are owned by the query name; a referral's records all have the same owner
// (the delegation point), which is the query name or an ancestor of it
pub open spec fn owners_ok(r: ZoneResult, qname: DomainName) -> bool {
    &&& r is Answer ==> forall|i: int| 0 <= i < r->rrs@.len() ==> (#[trigger] r->rrs@[i]).name == qname
    &&& r is Delegation ==> forall|i: int| 0 <= i < r->ns_rrs@.len() ==> (#[trigger] r->ns_rrs@[i]).name == r->ns_rrs@[0].name
    &&& r is Delegation && r->ns_rrs@.len() > 0 ==> is_suffix(r->ns_rrs@[0].name.labels@, qname.labels@)
}
"""


# C08: the time budgets.  In the synchronous reading (R32) `timeout(d, fut).await` reads `timeout(d, value)`: the stand-in hands
# the value back or reports Elapsed; its precondition pins the budget the property states, so the budget is a call-site obligation.
def timeout_standin(nanos, label):
    return """
pub uninterp spec fn dur(d: Duration) -> int;
pub assume_specification [Duration::from_secs] (s: u64) -> (r: Duration) ensures dur(r) == s * 1_000_000_000;
pub assume_specification [Duration::from_mins] (m: u64) -> (r: Duration) ensures dur(r) == m * 60_000_000_000;
pub struct Elapsed { e: u8 }
// marker: this value came out of `timeout` (it was computed under the budget); produced by nothing else
pub uninterp spec fn budgeted<T>(v: T) -> bool;
#[verifier::external_body]
pub fn timeout<T>(d: Duration, v: T) -> (r: Result<T, Elapsed>)
    requires dur(d) == %d, // [C08:%s]
    ensures r is Ok ==> r->Ok_0 == v && budgeted(r->Ok_0),
{ unimplemented!() }
""" % (nanos, label)
