"""Unit `hosts_back` (C14, in part): the conversions from a zone back to hosts data - `impl TryFrom<Zone> for Hosts` and
`Hosts::from_zone_lossy` (hosts/types.rs).  Every mapping of the result comes from an A / AAAA record of the zone with that owner and
address, every A / AAAA record's owner is mapped (in its family), a zone with wildcard records or records of another type is
refused by the strict conversion with the matching error, and the lossy conversion skips the other types.  What the zone holds is an
oracle here (`Zone::all_records` / `all_wildcard_records` walk the record tree with iterator adapters: outside the verifier's reach)."""
from units.base import *
import re

TRUSTED = TRUSTED_COMMON + [
    "Zone::all_records / all_wildcard_records: oracles (zone_listing / zone_wild_listing: names with their records); the zone itself is an opaque stand-in",
    "ZoneRecord::to_rr: contract assumed (proved in unit zone_lookup)",
    "HashMap<DomainName, _>: vstd specs + key model (prelude/hash.rs)",
]

STANDINS = """
pub struct Zone { pub z: u8 }
pub type Listing = Seq<(DomainName, Seq<ZoneRecord>)>;
pub uninterp spec fn zone_listing(z: Zone) -> Listing;
pub uninterp spec fn zone_wild_listing(z: Zone) -> Listing;
// R51: `zone.all_records()` consumed by a `for` loop: the same (name, records) pairs as a vector
#[verifier::external_body]
fn shim_all_records<'a>(z: &'a Zone) -> (r: Vec<(&'a DomainName, Vec<&'a ZoneRecord>)>)
    ensures r@.len() == zone_listing(*z).len(),
        forall|i: int| 0 <= i < r@.len() ==> *(#[trigger] r@[i]).0 == zone_listing(*z)[i].0 && r@[i].1@.len() == zone_listing(*z)[i].1.len(),
        forall|i: int, j: int| 0 <= i < r@.len() && 0 <= j < r@[i].1@.len() ==> *(#[trigger] r@[i].1@[j]) == zone_listing(*z)[i].1[j],
{ unimplemented!() }
// R51: `zone.all_wildcard_records().is_empty()`
#[verifier::external_body]
fn shim_no_wildcard_records(z: &Zone) -> (b: bool) ensures b == (zone_wild_listing(*z).len() == 0) { unimplemented!() }

pub open spec fn is_addr(d: RecordTypeWithData) -> bool { d is A || d is AAAA }
pub open spec fn at(l: Listing, i: int, j: int) -> bool { 0 <= i < l.len() && 0 <= j < l[i].1.len() }
// record (i, j) has been handled when the two loops stand at (i0, j0)
pub open spec fn before(l: Listing, i0: int, j0: int, i: int, j: int) -> bool { at(l, i, j) && (i < i0 || (i == i0 && j < j0)) }
pub open spec fn all_addr_before(l: Listing, i0: int, j0: int) -> bool {
    forall|i: int, j: int| #[trigger] before(l, i0, j0, i, j) ==> is_addr(l[i].1[j].rtype_with_data)
}
// the IPv4 map holds exactly what the A records handled so far say: every mapping has its record, every record's owner is mapped
pub open spec fn v4_from(m: Map<DomainName, Ipv4Addr>, l: Listing, i0: int, j0: int) -> bool {
    &&& forall|n: DomainName| #[trigger] m.contains_key(n) ==> exists|i: int, j: int| #[trigger] before(l, i0, j0, i, j) && l[i].0 == n && l[i].1[j].rtype_with_data == (RecordTypeWithData::A { address: m[n] })
    &&& forall|i: int, j: int| #[trigger] before(l, i0, j0, i, j) && l[i].1[j].rtype_with_data is A ==> m.contains_key(l[i].0)
}
pub open spec fn v6_from(m: Map<DomainName, Ipv6Addr>, l: Listing, i0: int, j0: int) -> bool {
    &&& forall|n: DomainName| #[trigger] m.contains_key(n) ==> exists|i: int, j: int| #[trigger] before(l, i0, j0, i, j) && l[i].0 == n && l[i].1[j].rtype_with_data == (RecordTypeWithData::AAAA { address: m[n] })
    &&& forall|i: int, j: int| #[trigger] before(l, i0, j0, i, j) && l[i].1[j].rtype_with_data is AAAA ==> m.contains_key(l[i].0)
}
// one more record handled: (i0, j0) itself
proof fn lemma_step(l: Listing, i0: int, j0: int)
    requires at(l, i0, j0)
    ensures forall|i: int, j: int| #[trigger] before(l, i0, j0 + 1, i, j) <==> before(l, i0, j0, i, j) || (i == i0 && j == j0)
{ }
// a whole name handled
proof fn lemma_next_name(l: Listing, i0: int)
    requires 0 <= i0 < l.len()
    ensures forall|i: int, j: int| #[trigger] before(l, i0 + 1, 0, i, j) <==> before(l, i0, l[i0].1.len() as int, i, j)
{ }
proof fn lemma_v4_insert(m: Map<DomainName, Ipv4Addr>, l: Listing, i0: int, j0: int, a: Ipv4Addr)
    requires at(l, i0, j0), v4_from(m, l, i0, j0), l[i0].1[j0].rtype_with_data == (RecordTypeWithData::A { address: a })
    ensures v4_from(m.insert(l[i0].0, a), l, i0, j0 + 1)
{
    lemma_step(l, i0, j0);
    let m2 = m.insert(l[i0].0, a);
    assert forall|n: DomainName| #[trigger] m2.contains_key(n) implies exists|i: int, j: int| #[trigger] before(l, i0, j0 + 1, i, j) && l[i].0 == n && l[i].1[j].rtype_with_data == (RecordTypeWithData::A { address: m2[n] }) by {
        if n == l[i0].0 { assert(before(l, i0, j0 + 1, i0, j0)); }
        else {
            assert(m.contains_key(n));
            let (i, j) = choose|i: int, j: int| #[trigger] before(l, i0, j0, i, j) && l[i].0 == n && l[i].1[j].rtype_with_data == (RecordTypeWithData::A { address: m[n] });
            assert(before(l, i0, j0 + 1, i, j));
        }
    }
    assert forall|i: int, j: int| #[trigger] before(l, i0, j0 + 1, i, j) && l[i].1[j].rtype_with_data is A implies m2.contains_key(l[i].0) by {
        if !(i == i0 && j == j0) { assert(before(l, i0, j0, i, j)); }
    }
}
proof fn lemma_v6_insert(m: Map<DomainName, Ipv6Addr>, l: Listing, i0: int, j0: int, a: Ipv6Addr)
    requires at(l, i0, j0), v6_from(m, l, i0, j0), l[i0].1[j0].rtype_with_data == (RecordTypeWithData::AAAA { address: a })
    ensures v6_from(m.insert(l[i0].0, a), l, i0, j0 + 1)
{
    lemma_step(l, i0, j0);
    let m2 = m.insert(l[i0].0, a);
    assert forall|n: DomainName| #[trigger] m2.contains_key(n) implies exists|i: int, j: int| #[trigger] before(l, i0, j0 + 1, i, j) && l[i].0 == n && l[i].1[j].rtype_with_data == (RecordTypeWithData::AAAA { address: m2[n] }) by {
        if n == l[i0].0 { assert(before(l, i0, j0 + 1, i0, j0)); }
        else {
            assert(m.contains_key(n));
            let (i, j) = choose|i: int, j: int| #[trigger] before(l, i0, j0, i, j) && l[i].0 == n && l[i].1[j].rtype_with_data == (RecordTypeWithData::AAAA { address: m[n] });
            assert(before(l, i0, j0 + 1, i, j));
        }
    }
    assert forall|i: int, j: int| #[trigger] before(l, i0, j0 + 1, i, j) && l[i].1[j].rtype_with_data is AAAA implies m2.contains_key(l[i].0) by {
        if !(i == i0 && j == j0) { assert(before(l, i0, j0, i, j)); }
    }
}
// a record that is not of the family leaves the family's map as it is
proof fn lemma_v4_skip(m: Map<DomainName, Ipv4Addr>, l: Listing, i0: int, j0: int)
    requires at(l, i0, j0), v4_from(m, l, i0, j0), !(l[i0].1[j0].rtype_with_data is A)
    ensures v4_from(m, l, i0, j0 + 1)
{
    lemma_step(l, i0, j0);
    assert forall|n: DomainName| #[trigger] m.contains_key(n) implies exists|i: int, j: int| #[trigger] before(l, i0, j0 + 1, i, j) && l[i].0 == n && l[i].1[j].rtype_with_data == (RecordTypeWithData::A { address: m[n] }) by {
        let (i, j) = choose|i: int, j: int| #[trigger] before(l, i0, j0, i, j) && l[i].0 == n && l[i].1[j].rtype_with_data == (RecordTypeWithData::A { address: m[n] });
        assert(before(l, i0, j0 + 1, i, j));
    }
    assert forall|i: int, j: int| #[trigger] before(l, i0, j0 + 1, i, j) && l[i].1[j].rtype_with_data is A implies m.contains_key(l[i].0) by {
        if !(i == i0 && j == j0) { assert(before(l, i0, j0, i, j)); }
    }
}
proof fn lemma_v6_skip(m: Map<DomainName, Ipv6Addr>, l: Listing, i0: int, j0: int)
    requires at(l, i0, j0), v6_from(m, l, i0, j0), !(l[i0].1[j0].rtype_with_data is AAAA)
    ensures v6_from(m, l, i0, j0 + 1)
{
    lemma_step(l, i0, j0);
    assert forall|n: DomainName| #[trigger] m.contains_key(n) implies exists|i: int, j: int| #[trigger] before(l, i0, j0 + 1, i, j) && l[i].0 == n && l[i].1[j].rtype_with_data == (RecordTypeWithData::AAAA { address: m[n] }) by {
        let (i, j) = choose|i: int, j: int| #[trigger] before(l, i0, j0, i, j) && l[i].0 == n && l[i].1[j].rtype_with_data == (RecordTypeWithData::AAAA { address: m[n] });
        assert(before(l, i0, j0 + 1, i, j));
    }
    assert forall|i: int, j: int| #[trigger] before(l, i0, j0 + 1, i, j) && l[i].1[j].rtype_with_data is AAAA implies m.contains_key(l[i].0) by {
        if !(i == i0 && j == j0) { assert(before(l, i0, j0, i, j)); }
    }
}
// from one name to the next
proof fn lemma_v_next(m4: Map<DomainName, Ipv4Addr>, m6: Map<DomainName, Ipv6Addr>, l: Listing, i0: int)
    requires 0 <= i0 < l.len(), v4_from(m4, l, i0, l[i0].1.len() as int), v6_from(m6, l, i0, l[i0].1.len() as int)
    ensures v4_from(m4, l, i0 + 1, 0), v6_from(m6, l, i0 + 1, 0),
        all_addr_before(l, i0, l[i0].1.len() as int) ==> all_addr_before(l, i0 + 1, 0),
{
    lemma_next_name(l, i0);
    let e = l[i0].1.len() as int;
    assert forall|n: DomainName| #[trigger] m4.contains_key(n) implies exists|i: int, j: int| #[trigger] before(l, i0 + 1, 0, i, j) && l[i].0 == n && l[i].1[j].rtype_with_data == (RecordTypeWithData::A { address: m4[n] }) by {
        let (i, j) = choose|i: int, j: int| #[trigger] before(l, i0, e, i, j) && l[i].0 == n && l[i].1[j].rtype_with_data == (RecordTypeWithData::A { address: m4[n] });
        assert(before(l, i0 + 1, 0, i, j));
    }
    assert forall|n: DomainName| #[trigger] m6.contains_key(n) implies exists|i: int, j: int| #[trigger] before(l, i0 + 1, 0, i, j) && l[i].0 == n && l[i].1[j].rtype_with_data == (RecordTypeWithData::AAAA { address: m6[n] }) by {
        let (i, j) = choose|i: int, j: int| #[trigger] before(l, i0, e, i, j) && l[i].0 == n && l[i].1[j].rtype_with_data == (RecordTypeWithData::AAAA { address: m6[n] });
        assert(before(l, i0 + 1, 0, i, j));
    }
    assert forall|i: int, j: int| #[trigger] before(l, i0 + 1, 0, i, j) && l[i].1[j].rtype_with_data is A implies m4.contains_key(l[i].0) by { assert(before(l, i0, e, i, j)); }
    assert forall|i: int, j: int| #[trigger] before(l, i0 + 1, 0, i, j) && l[i].1[j].rtype_with_data is AAAA implies m6.contains_key(l[i].0) by { assert(before(l, i0, e, i, j)); }
    if all_addr_before(l, i0, e) {
        assert forall|i: int, j: int| #[trigger] before(l, i0 + 1, 0, i, j) implies is_addr(l[i].1[j].rtype_with_data) by { assert(before(l, i0, e, i, j)); }
    }
}
"""

def _loops(strict):
    addr_o = ("zone_wild_listing(zone).len() == 0, // [C14:a_zone_with_wildcard_records_is_no_hosts_data]\n                all_addr_before(l__, it__.index@ as int, 0), // [C14:a_zone_with_records_other_than_addresses_is_no_hosts_data]\n                ") if strict else ""
    addr_i = ("zone_wild_listing(zone).len() == 0, // [C14:a_zone_with_wildcard_records_is_no_hosts_data]\n                    l__ == zone_listing(zone),\n                    all_addr_before(l__, i__, jt__.index@ as int), // [C14:a_zone_with_records_other_than_addresses_is_no_hosts_data]\n                    ") if strict else ""
    skip = "" if strict else " else { lemma_v4_skip(v4@, l__, i__, j__); lemma_v6_skip(v6@, l__, i__, j__); }"
    return {
        "0": {"kw": "for", "iter_name": "it__", "spec": f"""            invariant it__.seq() == recs__@, l__ == zone_listing({'zone' if strict else '*zone'}), recs__@.len() == l__.len(),
                forall|i: int| 0 <= i < recs__@.len() ==> *(#[trigger] recs__@[i]).0 == l__[i].0 && recs__@[i].1@.len() == l__[i].1.len(),
                forall|i: int, j: int| 0 <= i < recs__@.len() && 0 <= j < recs__@[i].1@.len() ==> *(#[trigger] recs__@[i].1@[j]) == l__[i].1[j],
                {addr_o}v4_from(v4@, l__, it__.index@ as int, 0), v6_from(v6@, l__, it__.index@ as int, 0), // [C14:every_mapping_comes_from_an_address_record_of_the_zone_and_every_address_record_is_mapped]""",
              "entry": "let ghost i__ = it__.index@ as int; assert(*recs__@[i__].0 == l__[i__].0);"},
        "1": {"kw": "for", "iter_name": "jt__", "spec": f"""                invariant jt__.seq() == zrs@, 0 <= i__ < l__.len(), zrs@.len() == l__[i__].1.len(), *name == l__[i__].0,
                    forall|j: int| 0 <= j < zrs@.len() ==> *(#[trigger] zrs@[j]) == l__[i__].1[j],
                    {addr_i}v4_from(v4@, l__, i__, jt__.index@ as int), v6_from(v6@, l__, i__, jt__.index@ as int), // [C14:every_mapping_comes_from_an_address_record_of_the_zone_and_every_address_record_is_mapped]""",
              "entry": "broadcast use vstd::std_specs::hash::group_hash_axioms, axiom_dn_key_model; let ghost j__ = jt__.index@ as int; assert(*zrs@[j__] == l__[i__].1[j__]); assert(at(l__, i__, j__)); proof { lemma_step(l__, i__, j__); }"},
    }

def _anchors(strict):
    tail = r"(Ok\(Self|Self) \{ v4, v6 \}"
    other = "" if strict else " else { lemma_v4_skip(v4_0__, l__, i__, j__); lemma_v6_skip(v6_0__, l__, i__, j__); }"
    return [
        {"after_re": r"let mut v6 = HashMap::new\(\);", "proof": f"let ghost l__ = zone_listing({'zone' if strict else '*zone'});"},
        {"after": "let rr = zr.to_rr(name);", "proof": "let ghost v4_0__ = v4@; let ghost v6_0__ = v6@;"},
        # where the body of the inner loop ends: one more record handled, whatever the arm did is measured against the record's kind
        {"after_re": r"(?<=\})\s*\}\s*\}\s*" + tail, "at": "before", "proof": """proof {
    let d__ = l__[i__].1[j__].rtype_with_data;
    assert(rr.rtype_with_data == d__ && rr.name == l__[i__].0);
    if d__ is A { lemma_v4_insert(v4_0__, l__, i__, j__, d__->A_address); lemma_v6_skip(v6_0__, l__, i__, j__); }
    else if d__ is AAAA { lemma_v6_insert(v6_0__, l__, i__, j__, d__->AAAA_address); lemma_v4_skip(v4_0__, l__, i__, j__); }""" + other + """
}"""},
        # where the body of the outer loop ends: a whole name handled
        {"after_re": r"(?<=\})\s*\}\s*" + tail, "at": "before", "proof": "proof { lemma_v_next(v4@, v6@, l__, i__); }"},
    ]

ERR = "TryFromZoneError"
SPECS = {
    "TryFrom::try_from": {"props": ["C14"], "ret": "r",
        "rewrites": [("R51", r"!zone\.all_wildcard_records\(\)\.is_empty\(\)", "!shim_no_wildcard_records(&zone)"),
                     ("R51", r"for \(name, zrs\) in it__: zone\.all_records\(\)", "let recs__ = shim_all_records(&zone); for (name, zrs) in it__: recs__")],
        "contract": f"""    ensures
        zone_wild_listing(zone).len() > 0 ==> r matches Err({ERR}::HasWildcardRecords), // [C14:a_zone_with_wildcard_records_is_no_hosts_data]
        r matches Err({ERR}::HasWildcardRecords) ==> zone_wild_listing(zone).len() > 0, // [C14:a_zone_with_wildcard_records_is_no_hosts_data]
        r matches Err({ERR}::HasRecordTypesOtherThanA) ==> exists|i: int, j: int| #[trigger] at(zone_listing(zone), i, j) && !is_addr(zone_listing(zone)[i].1[j].rtype_with_data), // [C14:a_zone_with_records_other_than_addresses_is_no_hosts_data]
        r is Ok ==> zone_wild_listing(zone).len() == 0 && all_addr_before(zone_listing(zone), zone_listing(zone).len() as int, 0), // [C14:a_zone_with_records_other_than_addresses_is_no_hosts_data]
        r is Ok ==> v4_from(r->Ok_0.v4@, zone_listing(zone), zone_listing(zone).len() as int, 0) && v6_from(r->Ok_0.v6@, zone_listing(zone), zone_listing(zone).len() as int, 0), // [C14:every_mapping_comes_from_an_address_record_of_the_zone_and_every_address_record_is_mapped]""",
        "entry": "broadcast use vstd::std_specs::hash::group_hash_axioms, axiom_dn_key_model;",
        "loops": _loops(True),
        "anchors": _anchors(True)},
    "Hosts::from_zone_lossy": {"props": ["C14"], "ret": "r",
        "rewrites": [("R51", r"for \(name, zrs\) in it__: zone\.all_records\(\)", "let recs__ = shim_all_records(zone); for (name, zrs) in it__: recs__")],
        "contract": """    ensures
        v4_from(r.v4@, zone_listing(*zone), zone_listing(*zone).len() as int, 0) && v6_from(r.v6@, zone_listing(*zone), zone_listing(*zone).len() as int, 0), // [C14:every_mapping_comes_from_an_address_record_of_the_zone_and_every_address_record_is_mapped]""",
        "entry": "broadcast use vstd::std_specs::hash::group_hash_axioms, axiom_dn_key_model;",
        "loops": _loops(False),
        "anchors": _anchors(False)},
}

CANARIES = [
    {"name": "ipv6_records_put_into_the_ipv4_map_key", "file": HTYPES, "old": "                    RecordTypeWithData::AAAA { address } => {\n                        v6.insert(rr.name, address);\n                    }\n                    _ => return", "new": "                    RecordTypeWithData::AAAA { address } => {\n                        v6.insert(name.clone(), address);\n                        v4.remove(name);\n                    }\n                    _ => return"},
    {"name": "wildcard_records_silently_dropped", "file": HTYPES, "old": "        if !zone.all_wildcard_records().is_empty() {\n            return Err(TryFromZoneError::HasWildcardRecords);\n        }\n", "new": ""},
    {"name": "other_record_types_silently_dropped_by_the_strict_conversion", "file": HTYPES, "old": "                    _ => return Err(TryFromZoneError::HasRecordTypesOtherThanA),", "new": "                    _ => (),"},
    {"name": "lossy_conversion_stops_at_the_first_other_record", "file": HTYPES, "old": "                    _ => (),", "new": "                    _ => break,"},
]


def build(G):
    begin(G, preludes=("bytes.rs", "std.rs"))
    name_types(G, tryfrom=False)
    wire_types(G, conv_props=[], conv_mode="assume")
    G.file(os.path.join(PRELUDE, "hash.rs"))
    H, Z = G.src(HTYPES), G.src(ZTYPES)
    G.item(Z, "struct", "ZoneRecord", drop_derive=("Clone", "Debug", "Eq", "PartialEq"))
    G.item(H, "struct", "Hosts", drop_derive=("Debug", "Clone", "Eq", "PartialEq"))
    G.item(H, "enum", "TryFromZoneError", drop_derive=("Debug", "Copy", "Clone", "Eq", "PartialEq", "Hash"))
    G.raw(STANDINS, ("spec", "hosts_back stand-ins"))
    specs = dict(SPECS)
    specs["ZoneRecord::to_rr"] = {"mode": "assume", "props": [], "contract": "    ensures r.name == *name, r.rtype_with_data == self.rtype_with_data, r.ttl == self.ttl,"}
    G.impl(Z, "ZoneRecord", ["to_rr"], "ZoneRecord::", specs)
    G.impl(H, "Hosts", ["from_zone_lossy"], "Hosts::", specs)
    G.raw("""impl vstd::std_specs::convert::TryFromSpecImpl<Zone> for Hosts {
    open spec fn obeys_try_from_spec() -> bool { false }
    open spec fn try_from_spec(v: Zone) -> Result<Self, Self::Error> { arbitrary() }
}""")
    G.impl(H, "TryFrom<Zone> for Hosts", ["try_from"], "TryFrom::", specs)
    end(G)
