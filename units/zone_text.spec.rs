// ---- master-file text (RFC 1035 section 5.1): the character stream, escapes, the token reader's meaning
// R46: the character iterator (`Peekable<Chars>`, generic `I: Iterator<Item = char>`) read as a finite sequence of characters not yet consumed
pub struct CharStream { pub rem: Ghost<Seq<char>> }
impl CharStream {
    #[verifier::external_body]
    pub fn next(&mut self) -> (r: Option<char>)
        ensures old(self).rem@.len() == 0 ==> r is None && final(self).rem@ == old(self).rem@,
                old(self).rem@.len() > 0 ==> r == Some(old(self).rem@[0]) && final(self).rem@ == old(self).rem@.skip(1),
    { unimplemented!() }
    #[verifier::external_body]
    pub fn peek(&mut self) -> (r: Option<&char>)
        ensures final(self).rem@ == old(self).rem@, r is None <==> old(self).rem@.len() == 0,
    { unimplemented!() }
}
pub open spec fn ascii(c: char) -> bool { (c as u32) <= 127 }
pub assume_specification [char::is_ascii] (c: &char) -> (r: bool) ensures r == ascii(*c);
pub open spec fn digit_of(c: char) -> Option<u32> { if '0' <= c && c <= '9' { Some(((c as u32) - 48) as u32) } else { None } }
pub assume_specification [char::to_digit] (c: char, radix: u32) -> (r: Option<u32>) ensures radix == 10 ==> r == digit_of(c);
pub assume_specification [String::with_capacity] (c: usize) -> (r: String) ensures r@ == Seq::<char>::empty();
pub assume_specification [bytes::BytesMut::freeze] (b: bytes::BytesMut) -> (r: bytes::Bytes) ensures bv(&r) == bmv(&b);
pub broadcast axiom fn axiom_slice_len(s: &[u8]) ensures #[trigger] s@.len() <= 0x7fff_ffff_ffff_ffff;

// -- writing: how one octet is written (RFC 1035 5.1: `\X` for a character with a special meaning, `\DDD` for an octet given in
// decimal); a space needs no escape inside quotes
pub open spec fn special(b: u8) -> bool { b == 34 || b == 92 || b == 59 || b == 40 || b == 41 }   // " \ ; ( )
pub open spec fn plain(b: u8, quoted: bool) -> bool { !special(b) && 32 <= b <= 126 && !(b == 32 && !quoted) }
pub open spec fn esc_one(b: u8, quoted: bool) -> Seq<char> {
    if special(b) { seq!['\\', b as char] }
    else if !plain(b, quoted) { seq!['\\', (((b / 100) % 10 + 48) as u8) as char, (((b / 10) % 10 + 48) as u8) as char, ((b % 10 + 48) as u8) as char] }
    else { seq![b as char] }
}
pub open spec fn esc_body(o: Seq<u8>, quoted: bool) -> Seq<char> decreases o.len() {
    if o.len() == 0 { Seq::<char>::empty() } else { esc_one(o[0], quoted) + esc_body(o.skip(1), quoted) }
}
pub open spec fn esc(o: Seq<u8>, quoted: bool) -> Seq<char> {
    if quoted { seq!['"'] + esc_body(o, true) + seq!['"'] } else { esc_body(o, false) }
}
pub proof fn lemma_esc_body_push(o: Seq<u8>, b: u8, quoted: bool)
    ensures esc_body(o.push(b), quoted) == esc_body(o, quoted) + esc_one(b, quoted)
    decreases o.len()
{
    if o.len() == 0 {
        assert(o.push(b).skip(1) =~= Seq::<u8>::empty());
        assert(esc_body(Seq::<u8>::empty(), quoted) =~= Seq::<char>::empty());
        assert(o.push(b)[0] == b);
        assert(esc_body(o.push(b), quoted) =~= esc_one(b, quoted) + Seq::<char>::empty());
        assert(esc_body(o, quoted) + esc_one(b, quoted) =~= esc_one(b, quoted));
        assert(esc_one(b, quoted) + Seq::<char>::empty() =~= esc_one(b, quoted));
    } else {
        assert(o.push(b).skip(1) =~= o.skip(1).push(b));
        assert(o.push(b)[0] == o[0]);
        lemma_esc_body_push(o.skip(1), b, quoted);
        assert(esc_one(o[0], quoted) + (esc_body(o.skip(1), quoted) + esc_one(b, quoted)) =~= (esc_one(o[0], quoted) + esc_body(o.skip(1), quoted)) + esc_one(b, quoted));
    }
}

// -- reading an escape: what follows the backslash.  `\DDD` is exactly three decimal digits with a value of at most 255; `\X` is
// any other ASCII character, standing for itself.  Some((octet, characters consumed)); None: malformed
pub open spec fn esc_at(s: Seq<char>) -> Option<(u8, int)> {
    if s.len() == 0 { None }
    else if digit_of(s[0]) is Some {
        if s.len() >= 3 && digit_of(s[1]) is Some && digit_of(s[2]) is Some && digit_of(s[0])->Some_0 * 100 + digit_of(s[1])->Some_0 * 10 + digit_of(s[2])->Some_0 <= 255 {
            Some(((digit_of(s[0])->Some_0 * 100 + digit_of(s[1])->Some_0 * 10 + digit_of(s[2])->Some_0) as u8, 3int))
        } else { None }
    } else if ascii(s[0]) { Some((s[0] as u8, 1int)) } else { None }
}

// -- the token reader's meaning.  One entry: tokens separated by white space; `;` starts a comment that runs to the end of the line;
// inside `( )` a line end is white space; a quoted string is one token and may hold anything but an unescaped quote; escapes stand
// for their octet and never separate or end anything.  None: a corner the property does not speak about (end of input inside a
// quoted string or a group, a nested or unmatched parenthesis, a quote or parenthesis in the middle of an unquoted token,
// non-ASCII text) - whatever the code does there is accepted.
pub enum TokRes { Done { tokens: Seq<Seq<u8>>, rest: Seq<char> }, Fail }
pub open spec fn done(tokens: Seq<Seq<u8>>, rest: Seq<char>) -> Option<TokRes> { Some(TokRes::Done { tokens, rest }) }
pub open spec fn flush(toks: Seq<Seq<u8>>, cur: Seq<u8>) -> Seq<Seq<u8>> { if cur.len() > 0 { toks.push(cur) } else { toks } }
spec fn tok_fn(s: Seq<char>, st: State, cont: bool, cur: Seq<u8>, toks: Seq<Seq<u8>>) -> Option<TokRes>
    decreases s.len()
{
    if s.len() == 0 {
        if st is QuotedString || cont { None } else { Some(TokRes::Done { tokens: flush(toks, cur), rest: s }) }
    } else {
        let c = s[0];
        let r = s.skip(1);
        match st {
            State::SkipToEndOfComment =>
                if c == '\n' { if cont { tok_fn(r, State::Initial, cont, cur, toks) } else { Some(TokRes::Done { tokens: flush(toks, cur), rest: r }) } }
                else { tok_fn(r, State::SkipToEndOfComment, cont, cur, toks) },
            State::QuotedString =>
                if c == '"' { tok_fn(r, State::Initial, cont, Seq::<u8>::empty(), toks.push(cur)) }
                else if c == '\\' { match esc_at(r) {
                    Some((v, n)) => if 0 < n <= r.len() { tok_fn(r.skip(n), State::QuotedString, cont, cur.push(v), toks) } else { None },
                    None => Some(TokRes::Fail) } }
                else if ascii(c) { tok_fn(r, State::QuotedString, cont, cur.push(c as u8), toks) }
                else { None },
            State::Initial =>
                if c == '\n' { if cont { tok_fn(r, State::Initial, cont, cur, toks) } else { Some(TokRes::Done { tokens: flush(toks, cur), rest: r }) } }
                else if c == ';' { tok_fn(r, State::SkipToEndOfComment, cont, cur, toks) }
                else if c == '(' { if cont { None } else { tok_fn(r, State::Initial, true, cur, toks) } }
                else if c == ')' { if cont { tok_fn(r, State::Initial, false, cur, toks) } else { None } }
                else if c == '"' { tok_fn(r, State::QuotedString, cont, cur, toks) }
                else if c == '\\' { match esc_at(r) {
                    Some((v, n)) => if 0 < n <= r.len() { tok_fn(r.skip(n), State::UnquotedString, cont, cur.push(v), toks) } else { None },
                    None => Some(TokRes::Fail) } }
                else if is_white_space(c) { tok_fn(r, State::Initial, cont, cur, toks) }
                else if ascii(c) { tok_fn(r, State::UnquotedString, cont, cur.push(c as u8), toks) }
                else { None },
            State::UnquotedString =>
                if c == '\n' { if cont { tok_fn(r, State::Initial, cont, Seq::<u8>::empty(), flush(toks, cur)) } else { Some(TokRes::Done { tokens: flush(toks, cur), rest: r }) } }
                else if c == ';' { tok_fn(r, State::SkipToEndOfComment, cont, Seq::<u8>::empty(), flush(toks, cur)) }
                else if c == '\\' { match esc_at(r) {
                    Some((v, n)) => if 0 < n <= r.len() { tok_fn(r.skip(n), State::UnquotedString, cont, cur.push(v), toks) } else { None },
                    None => Some(TokRes::Fail) } }
                else if is_white_space(c) { tok_fn(r, State::Initial, cont, Seq::<u8>::empty(), flush(toks, cur)) }
                else if c == '(' || c == ')' || c == '"' { None }
                else if ascii(c) { tok_fn(r, State::UnquotedString, cont, cur.push(c as u8), toks) }
                else { None },
        }
    }
}
// the tokens as the reader returns them: (text, octets) pairs; the text is the octets read as characters
pub open spec fn toks_view(v: Seq<(String, Bytes)>) -> Seq<Seq<u8>> { Seq::new(v.len(), |i: int| bv(&v[i].1)) }
pub open spec fn as_chars(o: Seq<u8>) -> Seq<char> { Seq::new(o.len(), |i: int| o[i] as char) }
pub open spec fn texts_ok(v: Seq<(String, Bytes)>) -> bool { forall|i: int| 0 <= i < v.len() ==> (#[trigger] v[i]).0@ == as_chars(bv(&v[i].1)) }
pub broadcast proof fn lemma_toks_push(v: Seq<(String, Bytes)>, s: String, b: Bytes)
    ensures #[trigger] toks_view(v.push((s, b))) == toks_view(v).push(bv(&b)),
{
    assert(toks_view(v.push((s, b))) =~= toks_view(v).push(bv(&b)));
}
pub broadcast proof fn lemma_chars_push(o: Seq<u8>, b: u8)
    ensures #[trigger] as_chars(o.push(b)) == as_chars(o).push(b as char),
{
    assert(as_chars(o.push(b)) =~= as_chars(o).push(b as char));
}
pub broadcast proof fn lemma_toks_nil(v: Seq<(String, Bytes)>)
    requires v.len() == 0
    ensures #[trigger] toks_view(v) == Seq::<Seq<u8>>::empty(),
{
    assert(toks_view(v) =~= Seq::<Seq<u8>>::empty());
}
pub broadcast proof fn lemma_len0_is_empty(s: Seq<u8>)
    requires #[trigger] s.len() == 0
    ensures s == Seq::<u8>::empty(),
{
    assert(s =~= Seq::<u8>::empty());
}

// ---- what the properties state, as lemmas over the two contracts (writer: esc; reader: tok_fn)
// one written octet is read back as that octet and neither separates nor ends the token it is part of
proof fn lemma_one_octet_back(b: u8, quoted: bool, x: Seq<char>, st: State, cont: bool, cur: Seq<u8>, toks: Seq<Seq<u8>>)
    requires (quoted && st is QuotedString) || (!quoted && (st is UnquotedString || st is Initial)),
    ensures tok_fn(esc_one(b, quoted) + x, st, cont, cur, toks)
        == tok_fn(x, if quoted { State::QuotedString } else { State::UnquotedString }, cont, cur.push(b), toks),
{
    let s = esc_one(b, quoted) + x;
    let r = s.skip(1);
    let c = b as char;
    assert(c as u8 == b);
    assert(33 <= b <= 126 ==> !is_white_space(c));
    if special(b) {
        assert(s[0] == '\\');
        assert(r =~= seq![c] + x);
        assert(r[0] == c);
        assert(digit_of(c) is None);
        assert(esc_at(r) == Some((b, 1int)));
        assert(r.skip(1) =~= x);
    } else if !plain(b, quoted) {
        let d1 = (((b / 100) % 10 + 48) as u8) as char;
        let d2 = (((b / 10) % 10 + 48) as u8) as char;
        let d3 = ((b % 10 + 48) as u8) as char;
        assert(s[0] == '\\');
        assert(r =~= seq![d1, d2, d3] + x);
        assert(r[0] == d1 && r[1] == d2 && r[2] == d3);
        assert(digit_of(d1) == Some(((b / 100) % 10) as u32));
        assert(digit_of(d2) == Some(((b / 10) % 10) as u32));
        assert(digit_of(d3) == Some((b % 10) as u32));
        assert(((b / 100) % 10) * 100 + ((b / 10) % 10) * 10 + (b % 10) == b);
        assert(esc_at(r) == Some((b, 3int)));
        assert(r.skip(3) =~= x);
    } else {
        assert(s[0] == c);
        assert(r =~= x);
    }
}
// the body of a quoted string, up to its closing quote
proof fn lemma_quoted_body_back(o: Seq<u8>, cur: Seq<u8>, rest: Seq<char>, cont: bool, toks: Seq<Seq<u8>>)
    ensures tok_fn(esc_body(o, true) + seq!['"'] + rest, State::QuotedString, cont, cur, toks)
        == tok_fn(rest, State::Initial, cont, Seq::<u8>::empty(), toks.push(cur + o)),
    decreases o.len()
{
    if o.len() == 0 {
        let s = esc_body(o, true) + seq!['"'] + rest;
        assert(s =~= seq!['"'] + rest);
        assert(s[0] == '"');
        assert(s.skip(1) =~= rest);
        assert(cur + o =~= cur);
    } else {
        let x = esc_body(o.skip(1), true) + seq!['"'] + rest;
        assert(esc_body(o, true) + seq!['"'] + rest =~= esc_one(o[0], true) + x);
        lemma_one_octet_back(o[0], true, x, State::QuotedString, cont, cur, toks);
        lemma_quoted_body_back(o.skip(1), cur.push(o[0]), rest, cont, toks);
        assert(cur.push(o[0]) + o.skip(1) =~= cur + o);
    }
}
// an unquoted string, up to whatever follows it
proof fn lemma_unquoted_body_back(o: Seq<u8>, cur: Seq<u8>, tail: Seq<char>, cont: bool, toks: Seq<Seq<u8>>)
    ensures tok_fn(esc_body(o, false) + tail, State::UnquotedString, cont, cur, toks) == tok_fn(tail, State::UnquotedString, cont, cur + o, toks),
    decreases o.len()
{
    if o.len() == 0 {
        assert(esc_body(o, false) + tail =~= tail);
        assert(cur + o =~= cur);
    } else {
        let x = esc_body(o.skip(1), false) + tail;
        assert(esc_body(o, false) + tail =~= esc_one(o[0], false) + x);
        lemma_one_octet_back(o[0], false, x, State::UnquotedString, cont, cur, toks);
        lemma_unquoted_body_back(o.skip(1), cur.push(o[0]), tail, cont, toks);
        assert(cur.push(o[0]) + o.skip(1) =~= cur + o);
    }
}
// C13: whatever octets a quoted string holds - quotes, backslashes, semicolons, parentheses, spaces, line ends, control and
// non-printing characters, none at all - it is read back as exactly one token holding exactly those octets, and reading goes on
// after it
proof fn lemma_quoted_string_reads_back(o: Seq<u8>, rest: Seq<char>, cont: bool, toks: Seq<Seq<u8>>)
    ensures tok_fn(esc(o, true) + rest, State::Initial, cont, Seq::<u8>::empty(), toks)
        == tok_fn(rest, State::Initial, cont, Seq::<u8>::empty(), toks.push(o)), // [C13:a_quoted_octet_string_reads_back_as_itself]
{
    let s = esc(o, true) + rest;
    assert(s[0] == '"');
    assert(s.skip(1) =~= esc_body(o, true) + seq!['"'] + rest);
    lemma_quoted_body_back(o, Seq::<u8>::empty(), rest, cont, toks);
    assert(Seq::<u8>::empty() + o =~= o);
}
// C13: the same for an unquoted string of at least one octet (a name, a number) followed by a blank: one token, those octets
proof fn lemma_unquoted_string_reads_back(o: Seq<u8>, w: char, rest: Seq<char>, cont: bool, toks: Seq<Seq<u8>>)
    requires o.len() > 0, w == ' ' || w == '\t',
    ensures tok_fn(esc(o, false) + seq![w] + rest, State::Initial, cont, Seq::<u8>::empty(), toks)
        == tok_fn(rest, State::Initial, cont, Seq::<u8>::empty(), toks.push(o)), // [C13:an_unquoted_octet_string_reads_back_as_itself]
{
    let tail = seq![w] + rest;
    let x = esc_body(o.skip(1), false) + tail;
    assert(esc(o, false) + seq![w] + rest =~= esc_one(o[0], false) + x);
    lemma_one_octet_back(o[0], false, x, State::Initial, cont, Seq::<u8>::empty(), toks);
    lemma_unquoted_body_back(o.skip(1), Seq::<u8>::empty().push(o[0]), tail, cont, toks);
    assert(Seq::<u8>::empty().push(o[0]) + o.skip(1) =~= o);
    assert(tail[0] == w);
    assert(is_white_space(w));
    assert(tail.skip(1) =~= rest);
    assert(flush(toks, o) == toks.push(o));
}
// C13: ... and at the end of a line outside parentheses: the entry ends there with that token as its last
proof fn lemma_unquoted_string_at_line_end_reads_back(o: Seq<u8>, rest: Seq<char>, toks: Seq<Seq<u8>>)
    requires o.len() > 0,
    ensures tok_fn(esc(o, false) + seq!['\n'] + rest, State::Initial, false, Seq::<u8>::empty(), toks) == done(toks.push(o), rest), // [C13:an_unquoted_octet_string_reads_back_as_itself]
{
    let tail = seq!['\n'] + rest;
    let x = esc_body(o.skip(1), false) + tail;
    assert(esc(o, false) + seq!['\n'] + rest =~= esc_one(o[0], false) + x);
    lemma_one_octet_back(o[0], false, x, State::Initial, false, Seq::<u8>::empty(), toks);
    lemma_unquoted_body_back(o.skip(1), Seq::<u8>::empty().push(o[0]), tail, false, toks);
    assert(Seq::<u8>::empty().push(o[0]) + o.skip(1) =~= o);
    assert(tail[0] == '\n');
    assert(tail.skip(1) =~= rest);
}
// C11: a comment runs from its semicolon to the end of the line and contributes nothing
proof fn lemma_comment_is_skipped(junk: Seq<char>, rest: Seq<char>, cont: bool, cur: Seq<u8>, toks: Seq<Seq<u8>>)
    requires forall|i: int| 0 <= i < junk.len() ==> junk[i] != '\n',
    ensures tok_fn(junk + seq!['\n'] + rest, State::SkipToEndOfComment, cont, cur, toks)
        == (if cont { tok_fn(rest, State::Initial, cont, cur, toks) } else { done(flush(toks, cur), rest) }), // [C11:a_comment_runs_to_the_end_of_its_line]
    decreases junk.len()
{
    let s = junk + seq!['\n'] + rest;
    if junk.len() == 0 {
        assert(s =~= seq!['\n'] + rest);
        assert(s[0] == '\n');
        assert(s.skip(1) =~= rest);
    } else {
        assert(s[0] == junk[0]);
        assert(s.skip(1) =~= junk.skip(1) + seq!['\n'] + rest);
        lemma_comment_is_skipped(junk.skip(1), rest, cont, cur, toks);
    }
}
// C11: inside parentheses a line end separates tokens like a blank and does not end the entry
proof fn lemma_line_end_in_a_group_is_white_space(r: Seq<char>, st: State, cur: Seq<u8>, toks: Seq<Seq<u8>>)
    requires st is Initial || st is UnquotedString,
    ensures tok_fn(seq!['\n'] + r, st, true, cur, toks) == tok_fn(seq![' '] + r, st, true, cur, toks), // [C11:inside_parentheses_a_line_end_is_white_space]
{
    let a = seq!['\n'] + r;
    let b = seq![' '] + r;
    assert(a[0] == '\n' && b[0] == ' ');
    assert(a.skip(1) =~= r && b.skip(1) =~= r);
    assert(is_white_space(' '));
}
