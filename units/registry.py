# unit -> properties it serves
UNITS = {
    "names": ["C16"],
    "wire_decode": ["C03", "C16"],
}
# property -> clauses of the statement that no contract decides (reported in the evidence)
UNDECIDED_CLAUSES = {
    "C16": ["text round trip from_dotted_string(to_dotted_string(n)) == n (str::split / String: outside the verifier's reach)",
            "Eq/Hash/Ord agreement of the derived impls (derived impls are structural: trusted)"],
}
