# unit -> properties it serves
UNITS = {
    "names": ["C16"],
    "wire_decode": ["C03", "C16"],
    "wire_codec": ["C04"],
    "zone_merge": ["C12"],
    "zone_lookup": ["C02"],
    "cache": ["C05", "C15"],
    "upstream_filter": ["C06"],
}
# property -> clauses of the statement that no contract decides (reported in the evidence)
UNDECIDED_CLAUSES = {
    "C06": ["that the async resolver passes exactly the validated records on to cache.insert_all and the answer (read, not proved)",
            "query_nameserver's transport (UDP/TCP fallback, timeouts)"],
    "C05": ["interleavings with other threads (single Mutex, trusted)", "a lookup through the async resolvers (only the cache API is under contract)"],
    "C15": ["concurrent use from 2..8 threads (single Mutex around every operation: trusted, not modelled)",
            "least-recently-used ORDER rests on the trusted PriorityQueue model (pop returns a minimal instant)"],
    "C02": ["that every Zone reaching resolve satisfies the representation invariant tree_wf (precondition; builders insert/insert_wildcard/merge not yet proved to establish it)",
            "corollaries named in the statement (existing name => never NameError, ...) are consequences of lookup_ok; not stated as separate lemmas"],
    "C12": ["children present on both sides: only 'merged by the same function' (recursion verified for termination and frame), no path-level union statement",
            "load_zone_configuration: directory listing sorted, hosts merged last into the root zone (tokio fs)",
            "'each zone answers every question with the union': follows from C02's lookup being a function of these maps; not stated as a lemma"],
    "C03": ["stack bytes per frame (recursion depth is bounded by the termination measure: strictly decreasing 14-bit starts)",
            "'accepts exactly the well-formed messages / reads like an independent decoder' for names: spec-decoder equivalence (stage 2)"],
    "C04": ["whole-message decode(encode(m)) == m: needs a global invariant tying the pointer table to the byte image",
            "re-encoding a decoded message decodes to it again"],
    "C16": ["text round trip from_dotted_string(to_dotted_string(n)) == n (str::split / String: outside the verifier's reach)",
            "Eq/Hash/Ord agreement of the derived impls (derived impls are structural: trusted)"],
}
