# unit -> properties it serves
UNITS = {
    "names": ["C16"],
    "wire_decode": ["C03", "C16", "C04"],
    "wire_codec": ["C04"],
    "zone_merge": ["C12", "C02"],
    "zone_lookup": ["C02", "C10", "C01"],
    "zone_build": ["C02"],
    "cache": ["C05", "C15", "C10"],
    "upstream_filter": ["C06", "C10"],
    "local": ["C01", "C10", "C09", "C18"],
    "recursive": ["C01", "C06", "C10", "C18"],
    "server": ["C09", "C18"],
    "family": ["C18"],
}
# property -> clauses of the statement that no contract decides (reported in the evidence)
UNDECIDED_CLAUSES = {
    "C18": ["the timeout wrappers resolve_recursive / resolve_forwarding (tokio timeout around the proved *_notimeout functions) are stand-ins; that the server passes its configured port / forwarder to dns_resolver::resolve is read off resolve_and_build_response",
            "'while it holds an address of the preferred family': addresses obtained from hints, glue or cache are looked up through the same function, but the holding itself is resolver state (not modelled)",
            "get_record (assumed)"],
    "C09": ["the server process keeps serving / never goes down; exactly one reply per message on the real sockets; interleavings of concurrent requests",
            "read_tcp_bytes (short reads, early close) and the listen loops",
            "'answer section holds only records for the question name or its CNAME chain': proved for the local (non-recursive) arm of dns_resolver::resolve and carried to the reply's answer section; ASSUMED for the results of resolve_recursive / resolve_forwarding (async-recursive, network); ANY questions excluded (see C10)",
            "that the authority section, AA and RCODE are exactly those the resolver produced is read off the match in resolve_and_build_response, not stated as a clause (the resolver's result is not a function of its arguments)"],
    "C01": [
            "'no upstream server is contacted': proved in the form 'a local answer fixes the result of the recursive and of the forwarding resolver' (synchronous reading, R32); the exchange itself is not observable in a contract",
            "'names beneath a delegation point excepted' (the exception itself; zone selection - the most specific enclosing zone - is proved for Zones::get / Zones::resolve in unit zone_lookup)",
            "NameError rcode only for AuthoritativeNameError in main.rs (see C09)"],
    "C10": [
            "ANY questions: excluded from the chain clause (a non-authoritative zone answer merged with a cached CNAME needs two cache look-ups to be atomic: not a per-call fact)",
            "upstream replies: the recursive and forwarding resolvers are proved to put local aliases first and keep the order of what the validator / forwarder hands over; that an upstream server lists its own part of the chain in order is ASSUMED (validate_nameserver_response keeps the upstream's order)"],
    "C06": ["the cache stand-in accepts only the record list of a reply that went through the validator (typestate marker `validated`), proved at the three insert_all call sites of resolve_with_nameserver_response in its synchronous reading; the forwarding resolver caches the forwarder's answer section unvalidated by design",
            "query_nameserver's transport (UDP/TCP fallback, timeouts)"],
    "C05": ["'a record that has neither expired nor been evicted is returned': proved in the form 'a tuple whose expiry lies after every clock reading is still stored after expiry / pruning unless its whole name was evicted' (live_kept) plus the lookup clause; the converse direction is the no-expired-record-left clause of C15",
            "interleavings with other threads (single Mutex, trusted)", "a lookup through the async resolvers (only the cache API is under contract)"],
    "C15": ["concurrent use from 2..8 threads (single Mutex around every operation: trusted, not modelled)",
            "least-recently-used ORDER rests on the trusted PriorityQueue model (pop returns a minimal instant)"],
    "C02": ["that the callers of the zone builders (zone-file and hosts-file parsers, load_zone_configuration) pass valid names: Zone::new/insert/insert_wildcard/merge and Zones::insert/insert_merge/merge are proved to establish and keep tree_wf (units zone_build, zone_merge), the parsers are outside the verifier's reach",
            "corollaries named in the statement (existing name => never NameError, ...) are consequences of lookup_ok; not stated as separate lemmas"],
    "C12": [
            "load_zone_configuration: directory listing sorted, hosts merged last into the root zone (tokio fs)",
            "'each zone answers every question with the union': follows from C02's lookup being a function of these maps; not stated as a lemma"],
    "C03": ["stack bytes per frame (recursion depth is bounded by the termination measure: strictly decreasing 14-bit starts)",
            "'reads them as an independent decoder does': the VALUES decoded are proved equal to the independent reading for names, questions and the fixed part of records; for RDATA only acceptance and extent (rdata_end per type) are specified, not the decoded field values (A/AAAA addresses, SOA numbers, MX preference, opaque octets)"],
    "C04": ["whole-message decode(encode(m)) == m: proved per name (with compression: the pointer-table invariant table_good), per question, and per record for owner / TYPE / CLASS / TTL / RDLENGTH-to-end; the RDATA contents of the 20 record types and the iteration over the four sections are not chained into one message-level statement",
            "re-encoding a decoded message decodes to it again"],
    "C16": ["text round trip from_dotted_string(to_dotted_string(n)) == n (str::split / String: outside the verifier's reach; only 'a name built from text is well-formed or rejected' is proved, with the string operations as shims without postconditions)",
            "Eq/Hash/Ord agreement of the derived impls (derived impls are structural: trusted)"],
}
