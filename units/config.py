"""Unit `config` (C19, C12): load_zone_configuration (crates/resolved/src/fs.rs) in its synchronous reading (R32).

The file system is an oracle (uninterpreted functions of the path: directory listing, parsed zone file, parsed hosts file);
Zones / Hosts are stand-ins that log what is merged into them, in order (the meaning of insert_merge / merge themselves is
proved in unit zone_merge).  Proved: the configuration is all-or-nothing, zone files are merged in the order given (files, then
each directory's listing in order), hosts files likewise, and the zone made of the hosts entries is merged last."""
from units.base import *
import re

FS = "crates/resolved/src/fs.rs"

TRUSTED = [
    "Verus 0.2026.09.13 + Z3; rustc front end; the extractor",
    "R32: synchronous reading (async / .await removed)",
    "the file system as an oracle: get_files_from_dir / zone_from_file / hosts_from_file are stand-ins whose results are functions of the path (one consistent snapshot per load)",
    "Zones::new / insert_merge, Hosts::default / merge, Zone::from(Hosts): stand-ins that log their arguments in order (their meaning: unit zone_merge)",
    "get_files_from_dir (module `listing` of the generated unit): tokio::fs::read_dir / next_entry / DirEntry::path as stand-ins over an oracle sequence of entries, Path::is_dir as an uninterpreted predicate, `out.sort()` as a sorted rearrangement (R44)",
    "R45 (reload): the body of reload_task's loop is read as `reload_once__(stream__, lock__, args) -> ZonesLock` (block text verbatim; added: the `let mut` rebindings at entry, the lock as the result); the lock is a stand-in whose `write()` hands out `&mut Zones` - the value in force - for the time of the borrow (tokio's write guard derefs to it); `Zones::merge` appends to the stand-in's log; the signal stream is a stand-in; that readers see either the old or the new value is the RwLock's, not proved",
    "R42: `Vec::from(slice)` as a shim with the same sequence; `Path::new(p)` dropped (the stand-ins take the PathBuf); R43: `hosts.into()` as shim_hosts_into_zone(hosts)",
]

STANDINS = """
use std::path::PathBuf;
#[verifier::external_type_specification]
#[verifier::external_body]
pub struct ExPathBuf(std::path::PathBuf);
pub struct IoError { e: u8 }
// std::io::Error::kind() / std::io::ErrorKind: any kind may come with any failed read
#[derive(PartialEq, Eq, Structural, Clone, Copy)]
pub enum IoErrorKind { NotFound, PermissionDenied, InvalidData, Other }
pub mod io { pub use super::IoErrorKind as ErrorKind; pub use super::IoError as Error; }
impl IoError { #[verifier::external_body] pub fn kind(&self) -> (r: IoErrorKind) { unimplemented!() } }
pub struct ParseError { e: u8 }
// what is loaded, in order
pub struct Zone { pub z: u64 }
pub struct Hosts { pub log: Ghost<Seq<HostsFile>> }
pub struct HostsFile { pub h: u64 }
pub struct Zones { pub log: Ghost<Seq<Zone>> }
impl Zones {
    #[verifier::external_body]
    pub fn new() -> (r: Zones) ensures r.log@ == Seq::<Zone>::empty() { unimplemented!() }
    #[verifier::external_body]
    pub fn insert_merge(&mut self, other_zone: Zone) ensures final(self).log@ == old(self).log@.push(other_zone) { unimplemented!() }
}
impl Hosts {
    #[verifier::external_body]
    pub fn default() -> (r: Hosts) ensures r.log@ == Seq::<HostsFile>::empty() { unimplemented!() }
    #[verifier::external_body]
    pub fn merge(&mut self, other: HostsFile) ensures final(self).log@ == old(self).log@.push(other) { unimplemented!() }
}
// the non-authoritative root zone made of the merged hosts entries (Zone::from(Hosts))
pub uninterp spec fn hosts_zone(files: Seq<HostsFile>) -> Zone;
#[verifier::external_body]
fn shim_hosts_into_zone(h: Hosts) -> (r: Zone) ensures r == hosts_zone(h.log@) { unimplemented!() }
#[verifier::external_body]
fn shim_paths_to_vec(s: &[PathBuf]) -> (r: Vec<PathBuf>) ensures r@ == s@ { Vec::from(s) }

// ---- the file system at the time of the load: one consistent snapshot
pub uninterp spec fn dir_listing(d: PathBuf) -> Option<Seq<PathBuf>>;   // the directory's files in sorted order, or unreadable
pub uninterp spec fn zone_of(p: PathBuf) -> Option<Zone>;               // the zone a file denotes, or unreadable / invalid
pub uninterp spec fn hosts_of(p: PathBuf) -> Option<HostsFile>;
#[verifier::external_body]
fn get_files_from_dir(dir: &PathBuf) -> (r: Result<Vec<PathBuf>, IoError>)
    ensures r is Ok <==> dir_listing(*dir) is Some, r is Ok ==> r->Ok_0@ == dir_listing(*dir)->Some_0,
{ unimplemented!() }
#[verifier::external_body]
fn zone_from_file(path: &PathBuf) -> (r: Result<Result<Zone, ParseError>, IoError>)
    ensures (r is Ok && r->Ok_0 is Ok) <==> zone_of(*path) is Some, r is Ok && r->Ok_0 is Ok ==> r->Ok_0->Ok_0 == zone_of(*path)->Some_0,
{ unimplemented!() }
#[verifier::external_body]
fn hosts_from_file(path: &PathBuf) -> (r: Result<Result<HostsFile, ParseError>, IoError>)
    ensures (r is Ok && r->Ok_0 is Ok) <==> hosts_of(*path) is Some, r is Ok && r->Ok_0 is Ok ==> r->Ok_0->Ok_0 == hosts_of(*path)->Some_0,
{ unimplemented!() }

// the files to load: those named on the command line, then the listing of each directory that could be listed, in the order given
pub open spec fn gather(files: Seq<PathBuf>, dirs: Seq<PathBuf>, k: int) -> Seq<PathBuf>
    decreases k
{ if k <= 0 { files } else { gather(files, dirs, k - 1) + (match dir_listing(dirs[k - 1]) { Some(l) => l, None => Seq::<PathBuf>::empty() }) } }
pub open spec fn dirs_ok(dirs: Seq<PathBuf>, k: int) -> bool { forall|j: int| 0 <= j < k ==> dir_listing(#[trigger] dirs[j]) is Some }
pub open spec fn zones_ok(paths: Seq<PathBuf>, k: int) -> bool { forall|j: int| 0 <= j < k ==> zone_of(#[trigger] paths[j]) is Some }
pub open spec fn hosts_ok(paths: Seq<PathBuf>, k: int) -> bool { forall|j: int| 0 <= j < k ==> hosts_of(#[trigger] paths[j]) is Some }
// the zones / hosts files of the first k paths that could be loaded, in order
pub open spec fn zones_loaded(paths: Seq<PathBuf>, k: int) -> Seq<Zone>
    decreases k
{ if k <= 0 { Seq::<Zone>::empty() } else { match zone_of(paths[k - 1]) { Some(z) => zones_loaded(paths, k - 1).push(z), None => zones_loaded(paths, k - 1) } } }
pub open spec fn hosts_loaded(paths: Seq<PathBuf>, k: int) -> Seq<HostsFile>
    decreases k
{ if k <= 0 { Seq::<HostsFile>::empty() } else { match hosts_of(paths[k - 1]) { Some(z) => hosts_loaded(paths, k - 1).push(z), None => hosts_loaded(paths, k - 1) } } }
"""

DIR_STANDINS = """
// ---- reading a directory (tokio::fs::read_dir): the entries come in some order, reading may fail at any point
pub struct Path { p: u8 }
pub struct DirEntry { pub e: PathBuf }
pub struct ReadDir { pub rest: Ghost<Seq<PathBuf>>, pub taken: Ghost<Seq<PathBuf>> }
pub uninterp spec fn dir_entries(d: &Path) -> Seq<PathBuf>;     // every entry of the directory (files, links, sub-directories)
pub uninterp spec fn is_dir_spec(p: PathBuf) -> bool;
#[verifier::external_body]
fn read_dir(dir: &Path) -> (r: Result<ReadDir, IoError>)
    ensures r is Ok ==> r->Ok_0.rest@ == dir_entries(dir) && r->Ok_0.taken@ == Seq::<PathBuf>::empty(),
{ unimplemented!() }
impl ReadDir {
    #[verifier::external_body]
    fn next_entry(&mut self) -> (r: Result<Option<DirEntry>, IoError>)
        ensures r is Ok && r->Ok_0 is Some ==> old(self).rest@.len() > 0 && r->Ok_0->Some_0.e == old(self).rest@[0] && final(self).rest@ == old(self).rest@.subrange(1, old(self).rest@.len() as int)
                    && final(self).taken@ == old(self).taken@.push(old(self).rest@[0]),
                r is Ok && r->Ok_0 is None ==> old(self).rest@.len() == 0 && final(self).rest@ == old(self).rest@ && final(self).taken@ == old(self).taken@,
    { unimplemented!() }
}
impl DirEntry {
    #[verifier::external_body]
    fn path(&self) -> (r: PathBuf) ensures r == self.e { unimplemented!() }
}
#[verifier::external_body]
fn shim_path_is_dir(p: &PathBuf) -> (r: bool) ensures r == is_dir_spec(*p) { p.is_dir() }
#[verifier::external_body]
fn shim_path_is_file(p: &PathBuf) -> (r: bool) { p.is_file() }
#[verifier::external_body]
fn shim_path_exists(p: &PathBuf) -> (r: bool) { p.exists() }
// `out.sort()`: a sorted rearrangement of the same paths
pub uninterp spec fn paths_sorted(s: Seq<PathBuf>) -> bool;
#[verifier::external_body]
fn shim_sort_paths(v: &mut Vec<PathBuf>)
    ensures paths_sorted(final(v)@), forall|p: PathBuf| final(v)@.contains(p) <==> old(v)@.contains(p), final(v)@.len() == old(v)@.len(),
{ v.sort() }
"""

DIR_SPEC = {
    "props": ["C19", "C12"],
    "header_rewrites": [("R32", r"\basync fn\b", "fn"), ("R9", r"io::Result<Vec<PathBuf>>", "Result<Vec<PathBuf>, IoError>")],
    "rewrites": [("R32", r"\s*\.await\b", ""), ("R44", r"\bpath\.is_dir\(\)", "shim_path_is_dir(&path)"), ("R44", r"\bpath\.is_file\(\)", "shim_path_is_file(&path)"), ("R44", r"\bpath\.exists\(\)", "shim_path_exists(&path)"), ("R44", r"out\.sort\(\);", "shim_sort_paths(&mut out);"), ("R24", None)],
    "contract": """    ensures
        // C19 / C12: every entry of the directory that is not itself a directory is listed (so that an unreadable one makes the load fail), nothing else is, in sorted order
        r is Ok ==> forall|p: PathBuf| r->Ok_0@.contains(p) <==> (dir_entries(dir).contains(p) && !is_dir_spec(p)), // [C19:every_file_of_a_configured_directory_is_loaded_or_the_load_fails]
        r is Ok ==> paths_sorted(r->Ok_0@), // [C12:directory_files_applied_in_sorted_order]""",
    "loops": {"0": {"kw": "while", "spec": """        invariant
            reader.taken@ + reader.rest@ == dir_entries(dir), tk__ == reader.taken@,
            forall|p: PathBuf| #[trigger] out@.contains(p) ==> reader.taken@.contains(p) && !is_dir_spec(p), // [C19:only_entries_of_the_directory_are_listed]
            forall|p: PathBuf| #[trigger] reader.taken@.contains(p) && !is_dir_spec(p) ==> out@.contains(p), // [C19:every_file_of_a_configured_directory_is_loaded_or_the_load_fails]
        ensures reader.rest@.len() == 0,
        decreases reader.rest@.len(),
""", "entry": "let ghost out0__ = out@;"}},
    "anchors": [{"after": "while let Some(entry)", "at": "before", "proof": "let ghost mut tk__ = reader.taken@;"},
                {"after": "let path = entry.path();", "proof": """let ghost pg__ = path;
proof {
    let t = reader.taken@;
    assert(t == tk__.push(path));
    assert(t + reader.rest@ =~= dir_entries(dir)) by { assert(tk__ + (seq![path] + reader.rest@) =~= t + reader.rest@); }
    assert forall|p: PathBuf| t.contains(p) <==> (tk__.contains(p) || p == path) by {
        if tk__.contains(p) { let j = choose|j: int| 0 <= j < tk__.len() && tk__[j] == p; assert(t[j] == p); }
        if p == path { assert(t[t.len() - 1] == p); }
        if t.contains(p) { let j = choose|j: int| 0 <= j < t.len() && t[j] == p; if j < tk__.len() { assert(tk__[j] == p); } }
    }
}"""},
                {"after": "out.push(path);", "proof": """proof {
    assert forall|p: PathBuf| out@.contains(p) <==> (out0__.contains(p) || p == path) by {
        if out0__.contains(p) { let j = choose|j: int| 0 <= j < out0__.len() && out0__[j] == p; assert(out@[j] == p); }
        if p == path { assert(out@[out0__.len() as int] == p); }
        if out@.contains(p) { let j = choose|j: int| 0 <= j < out@.len() && out@[j] == p; if j < out0__.len() { assert(out0__[j] == p); } }
    }
}"""},
                {"after": "out.push(path);\n        }", "proof": """proof {
    let t = reader.taken@;
    assert forall|p: PathBuf| #[trigger] out@.contains(p) implies t.contains(p) && !is_dir_spec(p) by {
        if out0__.contains(p) { assert(tk__.contains(p) && !is_dir_spec(p)); assert(t.contains(p)); }
    }
    assert forall|p: PathBuf| #[trigger] t.contains(p) && !is_dir_spec(p) implies out@.contains(p) by {
        if tk__.contains(p) { assert(out0__.contains(p)); if is_dir_spec(pg__) { assert(out@ == out0__); } }
        else { assert(p == pg__); assert(out@.contains(pg__)); }
    }
    tk__ = t;
}"""},
                {"after": "out.sort();", "at": "before", "proof": "proof { assert(reader.taken@ =~= dir_entries(dir)); }"}],
}

SPEC = {
    "props": ["C19", "C12"],
    "header_rewrites": [("R32", r"\basync fn\b", "fn")],
    "rewrites": [("R32", r"\s*\.await\b", ""),
                 ("R42", r"Vec::from\((\w+)\)", r"shim_paths_to_vec(\1)"),
                 ("R42", r"Path::new\((\w+)\)", r"\1"),
                 ("R43", r"combined_hosts\.into\(\)", "shim_hosts_into_zone(combined_hosts)")],
    "contract": """    ensures
        // C19: the freshly loaded configuration is all or nothing: it exists exactly when every directory could be listed and every file loaded
        r is Some <==> (dirs_ok(zone_dirs@, zone_dirs@.len() as int) && dirs_ok(hosts_dirs@, hosts_dirs@.len() as int)
            && zones_ok(gather(zone_files@, zone_dirs@, zone_dirs@.len() as int), gather(zone_files@, zone_dirs@, zone_dirs@.len() as int).len() as int)
            && hosts_ok(gather(hosts_files@, hosts_dirs@, hosts_dirs@.len() as int), gather(hosts_files@, hosts_dirs@, hosts_dirs@.len() as int).len() as int)), // [C19:configuration_is_loaded_as_a_whole_or_not_at_all]
        // C12: zone files are merged in the order given (files, then each directory's sorted listing), the zone made of all hosts files (merged in the same order) last
        r is Some ==> r->Some_0.log@ == zones_loaded(gather(zone_files@, zone_dirs@, zone_dirs@.len() as int), gather(zone_files@, zone_dirs@, zone_dirs@.len() as int).len() as int)
            .push(hosts_zone(hosts_loaded(gather(hosts_files@, hosts_dirs@, hosts_dirs@.len() as int), gather(hosts_files@, hosts_dirs@, hosts_dirs@.len() as int).len() as int))), // [C12,C19:files_merged_in_order_hosts_zone_last]""",
    "loops": {
        "0": {"kw": "for", "iter_name": "ita__", "spec": """        invariant
            ita__.seq().len() == zone_dirs@.len(), forall|j: int| 0 <= j < zone_dirs@.len() ==> *ita__.seq()[j] == zone_dirs@[j],
            hosts_file_paths@ == hosts_files@,
            zone_file_paths@ == gather(zone_files@, zone_dirs@, ita__.index@ as int),
            is_error <==> !dirs_ok(zone_dirs@, ita__.index@ as int),""",
              "entry": "let ghost i__ = ita__.index@ as int; assert(*path == zone_dirs@[i__]);"},
        "1": {"kw": "for", "iter_name": "itb__", "spec": """        invariant
            itb__.seq().len() == hosts_dirs@.len(), forall|j: int| 0 <= j < hosts_dirs@.len() ==> *itb__.seq()[j] == hosts_dirs@[j],
            zone_file_paths@ == gather(zone_files@, zone_dirs@, zone_dirs@.len() as int),
            hosts_file_paths@ == gather(hosts_files@, hosts_dirs@, itb__.index@ as int),
            is_error <==> !(dirs_ok(zone_dirs@, zone_dirs@.len() as int) && dirs_ok(hosts_dirs@, itb__.index@ as int)),""",
              "entry": "let ghost i__ = itb__.index@ as int; assert(*path == hosts_dirs@[i__]);"},
        "2": {"kw": "for", "iter_name": "itc__", "spec": """        invariant
            itc__.seq().len() == zone_file_paths@.len(), forall|j: int| 0 <= j < zone_file_paths@.len() ==> *itc__.seq()[j] == zone_file_paths@[j],
            zone_file_paths@ == gather(zone_files@, zone_dirs@, zone_dirs@.len() as int),
            hosts_file_paths@ == gather(hosts_files@, hosts_dirs@, hosts_dirs@.len() as int),
            combined_zones.log@ == zones_loaded(zone_file_paths@, itc__.index@ as int),
            is_error <==> !(dirs_ok(zone_dirs@, zone_dirs@.len() as int) && dirs_ok(hosts_dirs@, hosts_dirs@.len() as int) && zones_ok(zone_file_paths@, itc__.index@ as int)),""",
              "entry": "let ghost i__ = itc__.index@ as int; assert(*path == zone_file_paths@[i__]);"},
        "3": {"kw": "for", "iter_name": "itd__", "spec": """        invariant
            itd__.seq().len() == hosts_file_paths@.len(), forall|j: int| 0 <= j < hosts_file_paths@.len() ==> *itd__.seq()[j] == hosts_file_paths@[j],
            zone_file_paths@ == gather(zone_files@, zone_dirs@, zone_dirs@.len() as int),
            hosts_file_paths@ == gather(hosts_files@, hosts_dirs@, hosts_dirs@.len() as int),
            combined_zones.log@ == zones_loaded(zone_file_paths@, zone_file_paths@.len() as int),
            combined_hosts.log@ == hosts_loaded(hosts_file_paths@, itd__.index@ as int),
            is_error <==> !(dirs_ok(zone_dirs@, zone_dirs@.len() as int) && dirs_ok(hosts_dirs@, hosts_dirs@.len() as int)
                && zones_ok(zone_file_paths@, zone_file_paths@.len() as int) && hosts_ok(hosts_file_paths@, itd__.index@ as int)),""",
              "entry": "let ghost i__ = itd__.index@ as int; assert(*path == hosts_file_paths@[i__]);"},
    },
}


MAIN = "crates/resolved/src/main.rs"

RELOAD_STANDINS = """
// ---- one turn of reload_task's loop (R45): SIGUSR1 arrives, the configuration is loaded afresh and put in place of the old one
pub struct Args { pub hosts_file: Vec<PathBuf>, pub hosts_dir: Vec<PathBuf>, pub zone_file: Vec<PathBuf>, pub zones_dir: Vec<PathBuf> }
pub struct SignalStream { s: u8 }
impl SignalStream {
    #[verifier::external_body]
    pub fn recv(&mut self) -> (r: Option<()>) { unimplemented!() }
}
// R9: Arc<RwLock<Zones>>; cur: the configuration in force (a Zones stand-in: what was merged into it, in order).  `write()` hands out the
// guarded value for the time of the borrow (tokio's RwLockWriteGuard derefs to it): whatever the task does to it is what is in force after
pub struct ZonesLock { pub cur: Zones }
impl ZonesLock {
    #[verifier::external_body]
    pub fn write(&mut self) -> (r: &mut Zones)
        ensures *r == old(self).cur, final(self).cur == *final(r),
    { unimplemented!() }
}
impl Zones {
    // Zones::merge: everything of the other configuration is merged into this one (meaning: unit zone_merge)
    #[verifier::external_body]
    pub fn merge(&mut self, other: Zones) ensures final(self).log@ == old(self).log@ + other.log@ { unimplemented!() }
}
// the configuration the files named by the arguments denote at this moment, if every one of them loads
pub open spec fn fresh_config(a: Args) -> Option<Seq<Zone>> {
    let zp = gather(a.zone_file@, a.zones_dir@, a.zones_dir@.len() as int);
    let hp = gather(a.hosts_file@, a.hosts_dir@, a.hosts_dir@.len() as int);
    if dirs_ok(a.zones_dir@, a.zones_dir@.len() as int) && dirs_ok(a.hosts_dir@, a.hosts_dir@.len() as int) && zones_ok(zp, zp.len() as int) && hosts_ok(hp, hp.len() as int) {
        Some(zones_loaded(zp, zp.len() as int).push(hosts_zone(hosts_loaded(hp, hp.len() as int))))
    } else { None }
}
#[verifier::external_body]
fn shim_paths(v: &Vec<PathBuf>) -> (r: &[PathBuf]) ensures r@ == v@ { v.as_slice() }
"""

RELOAD_SPEC = {
    "props": ["C19"], "ret": "fin",
    "rewrites": [("R30", r"\s*\.instrument\(tracing::\w+!\((?:[^()]|\([^()]*\))*\)\)", ""), ("R32", r"\s*\.await\b", ""),
                 ("R29", r"let start = Instant::now\(\);", ""),
                 ("R42", r"&args\.(hosts_file|hosts_dir|zone_file|zones_dir)\b", r"shim_paths(&args.\1)"),
                 ],
    "contract": """    ensures
        fin.cur.log@ == (match fresh_config(args) { Some(z) => z, None => lock__.cur.log@ }), // [C19:the_configuration_is_replaced_as_a_whole_by_the_freshly_loaded_one_or_stays_fully_in_force]""",
    "entry": "let mut stream = stream__; let mut zones_lock = lock__; // R45: the captured values, mutable as in the task",
}


def build(G):
    G.file(os.path.join(PRELUDE, "header.rs"))
    G.raw("verus! {")
    G.raw("global size_of usize == 8;")
    G.raw(STANDINS, ("spec", "config stand-ins"))
    F = G.src(FS)
    G.top_fn(F, "load_zone_configuration", {"load_zone_configuration": dict(SPEC, depub=True)})
    G.raw("} // verus!")
    G.raw("mod listing { use super::*; verus! {")
    G.raw(DIR_STANDINS, ("spec", "directory stand-ins"))
    from units.upstream_filter import _r24
    ds = dict(DIR_SPEC)
    ds["rewrites"] = [r if r[0] != "R24" else ("R24", _r24) for r in DIR_SPEC["rewrites"]]
    G.top_fn(F, "get_files_from_dir", {"get_files_from_dir": ds})
    G.raw("} }")
    # R45: the body of reload_task's loop, read as a function over what the task holds
    G.raw("verus! {")
    G.raw(RELOAD_STANDINS, ("spec", "reload stand-ins"))
    G.block_fn(G.src(MAIN), "reload_task", r"loop \{", "fn reload_once__(stream__: SignalStream, lock__: ZonesLock, args: Args) -> ZonesLock", "reload_once__", {"reload_once__": dict(RELOAD_SPEC)}, tail="zones_lock ")
    G.raw("} // verus!")
    G.raw("fn main() {}")


CANARIES = [
    {"name": "reload_falls_back_to_an_empty_configuration", "file": MAIN, "old": "            let mut lock = zones_lock.write().await;\n            *lock = zones;", "new": "            let mut lock = zones_lock.write().await;\n            *lock = zones;\n        } else if args.zone_file.is_empty() {\n            let mut lock = zones_lock.write().await;\n            *lock = Zones::new();"},
    {"name": "reload_swaps_the_zone_and_hosts_directories", "file": MAIN, "old": "            &args.hosts_dir,\n            &args.zone_file,\n            &args.zones_dir,\n        )\n        .instrument(tracing::error_span!(\"SIGUSR1\"))", "new": "            &args.zones_dir,\n            &args.zone_file,\n            &args.hosts_dir,\n        )\n        .instrument(tracing::error_span!(\"SIGUSR1\"))"},
    {"name": "only_regular_files_are_listed", "file": FS, "old": "        if !path.is_dir() {", "new": "        if path.is_file() {"},
    {"name": "unreadable_hosts_file_ignored", "file": FS, "old": "            Err(error) => {\n                tracing::warn!(?path, ?error, \"could not read hosts file\");\n                is_error = true;\n            }", "new": "            Err(error) => {\n                tracing::warn!(?path, ?error, \"could not read hosts file\");\n            }"},
    {"name": "partial_configuration_returned_on_error", "file": FS, "old": "    if is_error {\n        None\n    } else {", "new": "    if is_error && zone_file_paths.is_empty() {\n        None\n    } else {"},
    {"name": "unlistable_zone_directory_ignored", "file": FS, "old": "                tracing::warn!(?path, ?error, \"could not read zone directory\");\n                is_error = true;", "new": "                tracing::warn!(?path, ?error, \"could not read zone directory\");"},
    {"name": "directory_files_before_named_files", "file": FS, "old": "            Ok(mut paths) => zone_file_paths.append(&mut paths),", "new": "            Ok(mut paths) => { paths.append(&mut zone_file_paths); zone_file_paths = paths; }"},
]
