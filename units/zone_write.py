"""Unit `zone_write` (C13, in part): `Zone::serialise` (zones/serialise.rs) as a whole - what is written.  An authoritative zone starts
with `$ORIGIN <apex>` (unless the apex is the root) and its SOA line; then, for every name that has records or wildcard records, once:
one line per record other than the SOA (owner, TTL, `IN`, type, RDATA), then one `*.`-line per wildcard record, then an empty line;
nothing else is written.  The texts of names, RDATA, numbers and type mnemonics are oracles here (names and RDATA: units zone_names,
zone_rr, zone_text); what the zone holds (`all_records` / `all_wildcard_records`) is an oracle; that the text reads back as the same
zone is not composed."""
from units.base import *
import re

ZSER = "crates/dns-types/src/zones/serialise.rs"

TRUSTED = TRUSTED_COMMON + [
    "Zone as an opaque stand-in: get_soa / get_apex / all_records / all_wildcard_records / serialise_domain / serialise_rdata answer from oracles (apex, SOA, the names with their records and wildcard records, the text of a name and of RDATA); the record maps are a stand-in type `RecMap` with `get` / `contains_key` over the oracle",
    "R55: the block that collects the keys of both record maps into a set of references, collects and sorts them (exact text) is read as shim_sorted_names(&all_records, &all_wildcard_records): every name of either map, once",
    "R56: the four `writeln!` calls (exact format strings) are read as shims that append the same pieces; how a u32 and a RecordType print (`Display`) are oracles; R33: the apex text expression (to_dotted_string, bytes, collect, serialise_octets) is read as one shim over an oracle; `if c { \"@\" } else { &s }` as shim_pick",
]

STANDINS = """
pub assume_specification [String::with_capacity] (c: usize) -> (r: String) ensures r@ == Seq::<char>::empty();
pub struct Zone { pub z: u8 }
pub type Listing = Map<DomainName, Seq<ZoneRecord>>;
pub uninterp spec fn zone_apex(z: Zone) -> DomainName;
pub uninterp spec fn zone_soa(z: Zone) -> Option<SOA>;
pub uninterp spec fn zone_recs(z: Zone) -> Listing;
pub uninterp spec fn zone_wild(z: Zone) -> Listing;
// oracles for the pieces of text
pub uninterp spec fn apex_text(z: Zone) -> Seq<char>;                          // the apex in dotted form, escaped
pub uninterp spec fn domain_text(z: Zone, n: DomainName) -> Seq<char>;         // serialise_domain (unit zone_names)
pub uninterp spec fn rdata_text(z: Zone, d: RecordTypeWithData) -> Seq<char>;  // serialise_rdata (unit zone_rr)
pub uninterp spec fn u32_text(n: u32) -> Seq<char>;
pub uninterp spec fn rtype_text(t: RecordType) -> Seq<char>;
pub uninterp spec fn soa_rdata(s: SOA) -> RecordTypeWithData;
pub uninterp spec fn is_root_spec(n: DomainName) -> bool;
pub struct RecMap { pub view: Ghost<Listing> }
impl RecMap {
    #[verifier::external_body]
    pub fn get(&self, d: &DomainName) -> (r: Option<&Vec<ZoneRecord>>)
        ensures r is Some <==> self.view@.contains_key(*d), r is Some ==> r->Some_0@ == self.view@[*d],
    { unimplemented!() }
    #[verifier::external_body]
    pub fn contains_key(&self, d: &DomainName) -> (r: bool) ensures r == self.view@.contains_key(*d) { unimplemented!() }
}
impl Zone {
    #[verifier::external_body]
    pub fn get_soa(&self) -> (r: Option<&SOA>) ensures r is Some <==> zone_soa(*self) is Some, r is Some ==> *r->Some_0 == zone_soa(*self)->Some_0 { unimplemented!() }
    #[verifier::external_body]
    pub fn get_apex(&self) -> (r: &DomainName) ensures *r == zone_apex(*self) { unimplemented!() }
    #[verifier::external_body]
    pub fn all_records(&self) -> (r: RecMap) ensures r.view@ == zone_recs(*self) { unimplemented!() }
    #[verifier::external_body]
    pub fn all_wildcard_records(&self) -> (r: RecMap) ensures r.view@ == zone_wild(*self) { unimplemented!() }
    #[verifier::external_body]
    pub fn serialise_domain(&self, name: &DomainName) -> (r: String) ensures r@ == domain_text(*self, *name) { unimplemented!() }
    #[verifier::external_body]
    pub fn serialise_rdata(&self, d: &RecordTypeWithData) -> (r: String) ensures r@ == rdata_text(*self, *d) { unimplemented!() }
}
#[verifier::external_body]
fn shim_apex_text(z: &Zone) -> (r: String) ensures r@ == apex_text(*z) { unimplemented!() }
#[verifier::external_body]
fn shim_pick(c: bool, a: &str, b: &String) -> (r: String) ensures r@ == (if c { a@ } else { b@ }) { unimplemented!() }
#[verifier::external_body]
fn shim_sorted_names<'a>(a: &'a RecMap, b: &'a RecMap) -> (r: Vec<&'a DomainName>)
    ensures forall|i: int| 0 <= i < r@.len() ==> a.view@.contains_key(*#[trigger] r@[i]) || b.view@.contains_key(*r@[i]),
        forall|n: DomainName| a.view@.contains_key(n) || b.view@.contains_key(n) ==> exists|i: int| 0 <= i < r@.len() && *#[trigger] r@[i] == n,
        forall|i: int, j: int| 0 <= i < j < r@.len() ==> *r@[i] != *r@[j],
{ unimplemented!() }
pub open spec fn origin_line(s: Seq<char>) -> Seq<char> { seq!['$', 'O', 'R', 'I', 'G', 'I', 'N', ' '] + s + seq!['\\n'] }
pub open spec fn soa_line(owner: Seq<char>, rdata: Seq<char>) -> Seq<char> { owner + seq![' ', 'I', 'N', ' ', 'S', 'O', 'A', ' '] + rdata + seq!['\\n'] }
pub open spec fn rr_line(owner: Seq<char>, pad: Seq<char>, ttl: u32, t: RecordType, rdata: Seq<char>) -> Seq<char> {
    owner + pad + seq![' '] + u32_text(ttl) + seq![' ', 'I', 'N', ' '] + rtype_text(t) + seq![' '] + rdata + seq!['\\n']
}
pub open spec fn wild_line(owner: Seq<char>, ttl: u32, t: RecordType, rdata: Seq<char>) -> Seq<char> {
    seq!['*', '.'] + owner + seq![' '] + u32_text(ttl) + seq![' ', 'I', 'N', ' '] + rtype_text(t) + seq![' '] + rdata + seq!['\\n']
}
#[verifier::external_body]
fn shim_write_origin(out: &mut String, s: &String) ensures final(out)@ == old(out)@ + origin_line(s@) { unimplemented!() }
#[verifier::external_body]
fn shim_write_soa(out: &mut String, owner: String, rdata: String) ensures final(out)@ == old(out)@ + soa_line(owner@, rdata@) { unimplemented!() }
#[verifier::external_body]
fn shim_write_rr(out: &mut String, owner: String, pad: &str, ttl: u32, t: RecordType, rdata: String)
    ensures final(out)@ == old(out)@ + rr_line(owner@, pad@, ttl, t, rdata@) { unimplemented!() }
#[verifier::external_body]
fn shim_write_wild_rr(out: &mut String, owner: String, ttl: u32, t: RecordType, rdata: String)
    ensures final(out)@ == old(out)@ + wild_line(owner@, ttl, t, rdata@) { unimplemented!() }

// ---- what Zone::serialise writes
pub open spec fn header(z: Zone) -> Seq<char> {
    match zone_soa(z) {
        Some(soa) => {
            let show = !is_root_spec(zone_apex(z));
            (if show { origin_line(apex_text(z)) + seq!['\\n'] } else { Seq::<char>::empty() })
            + soa_line(if show { seq!['@'] } else { apex_text(z) }, rdata_text(z, soa_rdata(soa))) + seq!['\\n']
        }
        None => Seq::<char>::empty(),
    }
}
// layout only: the blank padding written after the owner of a name that also has wildcard records (the two literals are taken from
// the code as it stands; the generator checks that they hold nothing but blanks)
pub open spec fn pad_of(z: Zone, n: DomainName) -> Seq<char> { if zone_wild(z).contains_key(n) { "@PAD_A@"@ } else { "@PAD_B@"@ } }
// the lines of the first k records of a name (the SOA record is written in the header, not here)
pub open spec fn rr_lines(z: Zone, n: DomainName, zrs: Seq<ZoneRecord>, k: int) -> Seq<char>
    decreases k
{
    if k <= 0 { Seq::<char>::empty() }
    else if spec_rtype_of(zrs[k - 1].rtype_with_data) == RecordType::SOA { rr_lines(z, n, zrs, k - 1) }
    else { rr_lines(z, n, zrs, k - 1) + rr_line(domain_text(z, n), pad_of(z, n), zrs[k - 1].ttl, spec_rtype_of(zrs[k - 1].rtype_with_data), rdata_text(z, zrs[k - 1].rtype_with_data)) }
}
pub open spec fn wild_lines(z: Zone, n: DomainName, zrs: Seq<ZoneRecord>, k: int) -> Seq<char>
    decreases k
{
    if k <= 0 { Seq::<char>::empty() }
    else { wild_lines(z, n, zrs, k - 1) + wild_line(domain_text(z, n), zrs[k - 1].ttl, spec_rtype_of(zrs[k - 1].rtype_with_data), rdata_text(z, zrs[k - 1].rtype_with_data)) }
}
pub open spec fn name_block(z: Zone, n: DomainName) -> Seq<char> {
    (if zone_recs(z).contains_key(n) { rr_lines(z, n, zone_recs(z)[n], zone_recs(z)[n].len() as int) } else { Seq::<char>::empty() })
    + (if zone_wild(z).contains_key(n) { wild_lines(z, n, zone_wild(z)[n], zone_wild(z)[n].len() as int) } else { Seq::<char>::empty() })
    + seq!['\\n']
}
pub open spec fn blocks(z: Zone, names: Seq<&DomainName>, k: int) -> Seq<char>
    decreases k
{ if k <= 0 { Seq::<char>::empty() } else { blocks(z, names, k - 1) + name_block(z, *names[k - 1]) } }
"""


def _r56(txt):
    n = 0
    pats = [
        (r"_ = writeln!\(&mut out, \"\$ORIGIN \{serialised_apex\}\"\);", lambda m: "shim_write_origin(&mut out, &serialised_apex);"),
        (r"_ = writeln!\(\s*&mut out,\s*\"\{\} IN SOA \{\}\",\s*if (\w+) \{ \"@\" \} else \{ &(\w+) \},\s*([^;]*?),?\s*\);",
         lambda m: "shim_write_soa(&mut out, shim_pick(%s, \"@\", &%s), %s);" % (m.group(1), m.group(2), m.group(3).strip().rstrip(","))),
        (r"_ = writeln!\(\s*&mut out,\s*\"\{\}\{\} \{\} IN \{\} \{\}\",\s*([^,]+),\s*([^,]+),\s*([^,]+),\s*([^,]+),\s*([^;]*?),?\s*\);",
         lambda m: "shim_write_rr(&mut out, %s, %s, %s, %s, %s);" % tuple(x.strip() for x in m.groups())),
        (r"_ = writeln!\(\s*&mut out,\s*\"\*\.\{\} \{\} IN \{\} \{\}\",\s*([^,]+),\s*([^,]+),\s*([^,]+),\s*([^;]*?),?\s*\);",
         lambda m: "shim_write_wild_rr(&mut out, %s, %s, %s, %s);" % tuple(x.strip() for x in m.groups())),
    ]
    for p, f in pats:
        def rep(m, f=f):
            return f(m) + "\n" * m.group(0).count("\n")
        txt, k = re.subn(p, rep, txt)
        n += k
    return txt, n


Z = "*self"
SPECS = {
    "Zone::serialise": {"props": ["C13"], "ret": "r",
        "rewrites": [("R33", r"serialise_octets\(\s*&self\s*\.get_apex\(\)\s*\.to_dotted_string\(\)\s*\.bytes\(\)\s*\.collect::<Bytes>\(\),\s*false,\s*\)", lambda m: "shim_apex_text(self)" + "\n" * m.group(0).count("\n")),
                     ("R55", r"let sorted_domains = \{\s*let mut set = HashSet::new\(\);\s*for name in all_records\.keys\(\) \{\s*set\.insert\(\*name\);\s*\}\s*for name in all_wildcard_records\.keys\(\) \{\s*set\.insert\(\*name\);\s*\}\s*let mut vec = set\.into_iter\(\)\.collect::<Vec<&DomainName>>\(\);\s*vec\.sort\(\);\s*vec\s*\};",
                      lambda m: "let sorted_domains = shim_sorted_names(&all_records, &all_wildcard_records); let ghost names__ = sorted_domains@; let ghost hdr__ = out@;" + "\n" * m.group(0).count("\n")),
                     ("R56", _r56),
                     # R5: `if c { continue; } S` where S is the rest of the loop body (Verus: no `continue` in for loops)
                     ("R5", r"if ([^{}]+) \{\s*continue;\s*\}(\s*)(shim_write_rr\([^;]*\);)", lambda m: "if !(%s) {%s%s }" % (m.group(1), m.group(2), m.group(3)))],
        "contract": """    ensures
        exists|names: Seq<&DomainName>| (forall|i: int| 0 <= i < names.len() ==> zone_recs(*self).contains_key(*#[trigger] names[i]) || zone_wild(*self).contains_key(*names[i]))
            && (forall|n: DomainName| zone_recs(*self).contains_key(n) || zone_wild(*self).contains_key(n) ==> exists|i: int| 0 <= i < names.len() && *#[trigger] names[i] == n)
            && (forall|i: int, j: int| 0 <= i < j < names.len() ==> *names[i] != *names[j])
            && r@ == header(*self) + #[trigger] blocks(*self, names, names.len() as int), // [C13:the_origin_and_soa_come_first_then_every_name_with_its_records_and_wildcard_records_and_nothing_else]""",
        "loops": {
            "2": {"kw": "for", "iter_name": "it__", "spec": """            invariant it__.seq() == names__, hdr__ == header(*self), all_records.view@ == zone_recs(*self), all_wildcard_records.view@ == zone_wild(*self),
                out@ == hdr__ + blocks(*self, names__, it__.index@ as int), // [C13:the_origin_and_soa_come_first_then_every_name_with_its_records_and_wildcard_records_and_nothing_else]""",
                  "entry": "let ghost k__ = it__.index@ as int; let ghost n__ = *names__[k__]; let ghost out0__ = out@; assert(*domain == n__); let ghost mut o1__ = out@;"},
            "3": {"kw": "for", "iter_name": "jt__", "spec": """                    invariant jt__.seq().len() == zrs@.len(), forall|j: int| 0 <= j < zrs@.len() ==> *(#[trigger] jt__.seq()[j]) == zrs@[j],
                        zrs@ == zone_recs(*self)[n__], *domain == n__, has_wildcards == zone_wild(*self).contains_key(n__),
                        out@ == out0__ + rr_lines(*self, n__, zrs@, jt__.index@ as int), // [C13:every_record_of_a_name_other_than_the_soa_is_written_as_one_line_with_its_own_ttl_type_and_rdata]""",
                  "entry": "broadcast use group_eq_axioms; let ghost j__ = jt__.index@ as int; assert(*zr == zrs@[j__]); let ghost oj__ = out@;"},
            "4": {"kw": "for", "iter_name": "lt__", "spec": """                    invariant lt__.seq().len() == zrs@.len(), forall|j: int| 0 <= j < zrs@.len() ==> *(#[trigger] lt__.seq()[j]) == zrs@[j],
                        zrs@ == zone_wild(*self)[n__], *domain == n__,
                        out@ == o1__ + wild_lines(*self, n__, zrs@, lt__.index@ as int), // [C13:every_wildcard_record_of_a_name_is_written_as_one_line_with_the_star_prefix]""",
                  "entry": "let ghost j__ = lt__.index@ as int; assert(*zr == zrs@[j__]);"},
        },
        "entry": "broadcast use group_eq_axioms;",
        "anchors": [
            {"after": "let all_records = self.all_records();", "at": "before", "proof": "proof { reveal_strlit(\"@\"); assert(out@ =~= header(*self)); } // [C13:an_authoritative_zone_starts_with_its_origin_line_and_its_soa_line]"},
            # between the two halves of a name's block: what the record half wrote
            {"after_re": r"if let [^=]*= [^{]*all_wildcard_records\.get\(domain\)\)? \{", "at": "before", "proof": "proof { o1__ = out@; assert(o1__ =~= out0__ + (if zone_recs(*self).contains_key(n__) { rr_lines(*self, n__, zone_recs(*self)[n__], zone_recs(*self)[n__].len() as int) } else { Seq::<char>::empty() })); }"},
            # where the body of the outer loop ends
            {"after_re": r"\}\s*out\s*\}\s*$", "at": "before", "proof": """proof {
    assert(out@ =~= o1__ + (if zone_wild(*self).contains_key(n__) { wild_lines(*self, n__, zone_wild(*self)[n__], zone_wild(*self)[n__].len() as int) } else { Seq::<char>::empty() }) + seq!['\\n']); // [C13:after_the_records_of_a_name_come_its_wildcard_records_then_an_empty_line]
    assert(out@ =~= out0__ + name_block(*self, n__));
    assert(blocks(*self, names__, k__ + 1) == blocks(*self, names__, k__) + name_block(*self, n__));
    assert(out@ =~= hdr__ + blocks(*self, names__, k__ + 1));
}"""},
        ]},
}

CANARIES = [
    {"name": "record_ttls_halved", "file": ZSER, "old": "                        if has_wildcards { \"  \" } else { \"\" },\n                        zr.ttl,", "new": "                        if has_wildcards { \"  \" } else { \"\" },\n                        zr.ttl / 2,"},
    {"name": "wildcard_lines_only_for_names_without_records", "file": ZSER, "old": "            if let Some(zrs) = all_wildcard_records.get(domain) {", "new": "            if let (false, Some(zrs)) = (all_records.contains_key(domain), all_wildcard_records.get(domain)) {"},
    {"name": "origin_line_left_out", "file": ZSER, "old": "            if show_origin {\n                _ = writeln!(&mut out, \"$ORIGIN {serialised_apex}\");\n                out.push('\\n');\n            }\n", "new": ""},
    {"name": "ns_records_skipped_like_the_soa", "file": ZSER, "old": "                    if zr.rtype_with_data.rtype() == RecordType::SOA {", "new": "                    if zr.rtype_with_data.rtype() == RecordType::SOA || zr.rtype_with_data.rtype() == RecordType::NS {"},
    {"name": "no_empty_line_after_a_name", "file": ZSER, "old": "            out.push('\\n');\n        }\n\n        out", "new": "        }\n\n        out"},
]


def build(G):
    begin(G, preludes=("bytes.rs", "std.rs", "net.rs"))
    name_types(G, tryfrom=False)
    wire_types(G, conv_props=[], conv_mode="assume")
    G.file(os.path.join(PRELUDE, "wire_spec.rs"))
    G.file(os.path.join(PRELUDE, "eq.rs"))
    Zt, S, T = G.src(ZTYPES), G.src(ZSER), G.src(TYPES)
    G.item(Zt, "struct", "SOA", drop_derive=("Clone", "Debug", "Eq", "PartialEq"))
    G.item(Zt, "struct", "ZoneRecord", drop_derive=("Clone", "Debug", "Eq", "PartialEq"))
    pm = re.search(r'if has_wildcards \{ "([^"\\\\]*)" \} else \{ "([^"\\\\]*)" \}', S.s)
    if not pm or pm.group(1).strip(" ") or pm.group(2).strip(" "):
        from gen import GenError
        raise GenError("Zone::serialise: the padding after the owner field is not a choice between two blank literals")
    G.raw(STANDINS.replace("@PAD_A@", pm.group(1)).replace("@PAD_B@", pm.group(2)), ("spec", "zone_write stand-ins"))
    specs = {k: dict(v) for k, v in SPECS.items()}
    specs["RecordTypeWithData::rtype"] = {"mode": "assume", "props": [], "contract": "    ensures r == spec_rtype_of(*self),"}
    specs["SOA::to_rdata"] = {"mode": "assume", "props": [], "contract": "    ensures r == soa_rdata(*self),"}
    specs["DomainName::is_root"] = {"mode": "assume", "props": [], "contract": "    ensures r == is_root_spec(*self),"}
    G.impl(T, "DomainName", ["is_root"], "DomainName::", specs)
    G.impl(T, "RecordTypeWithData", ["rtype"], "RecordTypeWithData::", specs)
    G.impl(Zt, "SOA", ["to_rdata"], "SOA::", specs)
    G.impl(S, "Zone", ["serialise"], "Zone::", specs)
    end(G)
