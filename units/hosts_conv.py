"""Unit `hosts_conv` (C14, in part): `impl From<Hosts> for Zone` (hosts/types.rs) - converting hosts data to a zone inserts exactly
one A record per IPv4 mapping and exactly one AAAA record per IPv6 mapping (owner = the mapped name, TTL = hosts::TTL), nothing
else, into the root, non-authoritative zone.  The zone is a stand-in that logs insertions (what an insertion means for look-ups:
units zone_build / zone_lookup)."""
from units.base import *
from units.zone_merge import R3
import re

TRUSTED = TRUSTED_COMMON + [
    "R3 shim_hashmap_into_vec: consuming a HashMap yields each (key, value) pair once",
    "Zone::default / insert: stand-ins that record the inserted records in order (see unit zone_file)",
]

STANDINS = """
pub struct Ins { pub wild: bool, pub name: DomainName, pub data: RecordTypeWithData, pub ttl: u32 }
pub struct Zone { pub apex: DomainName, pub soa: Option<u8>, pub log: Ghost<Seq<Ins>> }
impl Zone {
    #[verifier::external_body]
    pub fn default() -> (r: Zone) ensures r.apex.labels@.len() == 1, r.soa is None, r.log@ == Seq::<Ins>::empty() { unimplemented!() }
    #[verifier::external_body]
    pub fn insert(&mut self, name: &DomainName, rtype_with_data: RecordTypeWithData, ttl: u32)
        ensures final(self).apex == old(self).apex, final(self).soa == old(self).soa,
            final(self).log@ == old(self).log@.push(Ins { wild: false, name: *name, data: rtype_with_data, ttl }),
    { unimplemented!() }
}
// s lists the mappings of m, each exactly once
pub open spec fn enumerates<V>(s: Seq<(DomainName, V)>, m: Map<DomainName, V>) -> bool {
    &&& s.len() == m.dom().len()
    &&& forall|i: int| 0 <= i < s.len() ==> m.contains_key(#[trigger] s[i].0) && m[s[i].0] == s[i].1
    &&& forall|k: DomainName| m.contains_key(k) ==> exists|i: int| 0 <= i < s.len() && #[trigger] s[i].0 == k
    &&& forall|i: int, j: int| 0 <= i < j < s.len() ==> s[i].0 != s[j].0
}
pub open spec fn a_recs(s: Seq<(DomainName, Ipv4Addr)>) -> Seq<Ins> { Seq::new(s.len(), |i: int| Ins { wild: false, name: s[i].0, data: RecordTypeWithData::A { address: s[i].1 }, ttl: 5 }) }
pub open spec fn aaaa_recs(s: Seq<(DomainName, Ipv6Addr)>) -> Seq<Ins> { Seq::new(s.len(), |i: int| Ins { wild: false, name: s[i].0, data: RecordTypeWithData::AAAA { address: s[i].1 }, ttl: 5 }) }
pub open spec fn one_record_per_mapping(v4: Map<DomainName, Ipv4Addr>, v6: Map<DomainName, Ipv6Addr>, log: Seq<Ins>) -> bool {
    exists|s4: Seq<(DomainName, Ipv4Addr)>, s6: Seq<(DomainName, Ipv6Addr)>| enumerates(s4, v4) && enumerates(s6, v6) && #[trigger] (a_recs(s4) + aaaa_recs(s6)) == log
}
"""

SPECS = {
    "From::from": {"props": ["C14"], "rewrites": [("R3", r"for \(name, address\) in it__: hosts\.v4", "let v4vec__ = shim_hashmap_into_vec(hosts.v4); let ghost s4__ = v4vec__@; proof { assert(a_recs(s4__.take(0)) =~= Seq::<Ins>::empty()); } for (name, address) in it__: v4vec__"),
                                                   ("R3", r"for \(name, address\) in jt__: hosts\.v6", "let v6vec__ = shim_hashmap_into_vec(hosts.v6); let ghost s6__ = v6vec__@; proof { assert(s4__.take(s4__.len() as int) =~= s4__); assert(a_recs(s4__) + aaaa_recs(s6__.take(0)) =~= a_recs(s4__)); } for (name, address) in jt__: v6vec__")], "ret": "zone_out",
        "contract": """    ensures
        zone_out.apex.labels@.len() == 1 && zone_out.soa is None, // [C14:hosts_data_becomes_a_zone_at_the_root_without_soa]
        one_record_per_mapping(hosts.v4@, hosts.v6@, zone_out.log@), // [C14:exactly_one_a_or_aaaa_record_per_mapping]""",
        "entry": "broadcast use vstd::std_specs::hash::group_hash_axioms, axiom_dn_key_model;",
        "loops": {
            "0": {"kw": "for", "iter_name": "it__", "spec": """        invariant
            it__.seq() == s4__, enumerates(s4__, v4__), zone.apex.labels@.len() == 1, zone.soa is None,
            zone.log@ == a_recs(it__.seq().take(it__.index@ as int)), // [C14:exactly_one_a_or_aaaa_record_per_mapping]""",
                  "entry": "let ghost k__ = it__.index@ as int; proof { assert(a_recs(it__.seq().take(k__ + 1)) =~= a_recs(it__.seq().take(k__)).push(Ins { wild: false, name: name, data: RecordTypeWithData::A { address }, ttl: 5 })); }"},
            "1": {"kw": "for", "iter_name": "jt__", "spec": """        invariant
            jt__.seq() == s6__, enumerates(s6__, v6__), enumerates(s4__, v4__), zone.apex.labels@.len() == 1, zone.soa is None,
            zone.log@ == a_recs(s4__) + aaaa_recs(jt__.seq().take(jt__.index@ as int)), // [C14:exactly_one_a_or_aaaa_record_per_mapping]""",
                  "entry": "let ghost k__ = jt__.index@ as int; proof { assert(a_recs(s4__) + aaaa_recs(jt__.seq().take(k__ + 1)) =~= (a_recs(s4__) + aaaa_recs(jt__.seq().take(k__))).push(Ins { wild: false, name: name, data: RecordTypeWithData::AAAA { address }, ttl: 5 })); }"},
        },
        "anchors": [
            {"after": "for (name, address) in hosts.v4", "at": "before", "proof": "let ghost v4__ = hosts.v4@; let ghost v6__ = hosts.v6@;"},
            {"after": "zone\n    }", "nth": -1, "at": "before", "proof": "proof { assert(s6__.take(s6__.len() as int) =~= s6__); assert(enumerates(s4__, v4__) && enumerates(s6__, v6__) && (a_recs(s4__) + aaaa_recs(s6__)) == zone.log@); }"},
        ]},
}

CANARIES = [
    {"name": "ipv6_mappings_converted_to_nothing", "file": HTYPES, "old": "            zone.insert(&name, RecordTypeWithData::AAAA { address }, TTL);", "new": "            let _ = (&name, address);"},
    {"name": "converted_records_get_ttl_zero", "file": HTYPES, "old": "            zone.insert(&name, RecordTypeWithData::A { address }, TTL);", "new": "            zone.insert(&name, RecordTypeWithData::A { address }, 0);"},
    {"name": "a_record_inserted_twice", "file": HTYPES, "old": "            zone.insert(&name, RecordTypeWithData::A { address }, TTL);", "new": "            zone.insert(&name, RecordTypeWithData::A { address }, TTL);\n            zone.insert(&name, RecordTypeWithData::A { address }, TTL);"},
]


def build(G):
    begin(G, preludes=("bytes.rs", "std.rs"))
    name_types(G, tryfrom=False)
    wire_types(G, conv_props=[], conv_mode="assume")
    G.file(os.path.join(PRELUDE, "hash.rs"))
    H = G.src(HTYPES)
    G.item(H, "const", "TTL")
    G.item(H, "struct", "Hosts", drop_derive=("Debug", "Clone", "Eq", "PartialEq"))
    G.raw(STANDINS, ("spec", "hosts_conv stand-ins"))
    G.raw("""impl vstd::std_specs::convert::FromSpecImpl<Hosts> for Zone {
    open spec fn obeys_from_spec() -> bool { false }
    open spec fn from_spec(v: Hosts) -> Self { arbitrary() }
}""")
    G.impl(H, "From<Hosts> for Zone", ["from"], "From::", SPECS)
    end(G)
