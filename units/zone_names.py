"""Unit `zone_names` (C13, in part): how a zone writes a domain name and that the reader gets the same name back.

`DomainName::to_dotted_string` (protocol/types.rs) against `dotted` (labels joined by dots, "." for the root);
`Zone::serialise_domain` (zones/serialise.rs): the full name with its final dot, or - in an authoritative zone with a non-root apex,
for names within it - `@` for the apex and the labels in front of the apex otherwise, all passed through serialise_octets.  Over
these contracts and the reader's (`parse_domain`, unit zone_rr: `name_den`), the lemma the property states: read back with the apex
as origin, the written text denotes the name that was written.  The lemma rests on two stated assumptions about the dotted-name
parsers (which are oracles: C16's text round trip is not proved): a name's own dotted form parses back to it, and so does the dotted
form of its leading labels relative to the rest."""
from units.base import *
import re

ZSER = "crates/dns-types/src/zones/serialise.rs"

TRUSTED = TRUSTED_COMMON + [
    "T1 / T2 (axiom_abs_round_trip, axiom_rel_round_trip): DomainName::from_dotted_string(to_dotted_string(n)) == n and from_relative_dotted_string(apex, dotted(front labels)) == n for names whose labels are ASCII and hold no dot - both are proved in unit names_text at the level of label octets (lemma_dotted_text_reads_back, lemma_relative_text_reads_back); what the axioms add is the extensionality of Label / DomainName values (same octets, same value)",
    "`domain_str.bytes().collect::<Bytes>()` as a shim: for ASCII text the octets are the characters; serialise_octets: contract assumed (proved in unit zone_text); Zone::get_apex / is_authoritative, DomainName::is_root / is_subdomain_of / == : contracts assumed (units names, zone_build)",
    "axiom_dn_ext: two DomainName values with the same labels and recorded length are equal (what the derived PartialEq compares)",
    "`for octet in &label.octets`: iteration over the label's octets as a slice (shim_label_octets)",
]

STANDINS = """
pub open spec fn ascii(c: char) -> bool { (c as u32) <= 127 }
pub open spec fn all_ascii(s: Seq<char>) -> bool { forall|i: int| 0 <= i < s.len() ==> ascii(#[trigger] s[i]) }
pub assume_specification [String::with_capacity] (c: usize) -> (r: String) ensures r@ == Seq::<char>::empty();
// the characters a label's octets are written as
pub open spec fn lchars(l: Label) -> Seq<char> { Seq::new(l.v().len(), |i: int| l.v()[i] as char) }
// labels joined by dots
pub open spec fn joined(ls: Seq<Label>) -> Seq<char> decreases ls.len() {
    if ls.len() == 0 { Seq::<char>::empty() } else if ls.len() == 1 { lchars(ls[0]) } else { joined(ls.drop_last()) + seq!['.'] + lchars(ls.last()) }
}
pub open spec fn is_root_labels(ls: Seq<Label>) -> bool { ls.len() == 1 && ls[0].v().len() == 0 }
// a name as dotted text: "." for the root, else its labels joined by dots (the empty root label last gives the final dot)
pub open spec fn dotted(ls: Seq<Label>) -> Seq<char> { if is_root_labels(ls) { seq!['.'] } else { joined(ls) } }
// ... as to_dotted_string computes it for any label list with a recorded length (is_root looks at the recorded length)
pub open spec fn is_root_spec(n: DomainName) -> bool { n.len == 1 && n.labels@[0].v().len() == 0 }
pub open spec fn dotted_of(n: DomainName) -> Seq<char> { if is_root_spec(n) { seq!['.'] } else { joined(n.labels@) } }
#[verifier::external_body]
fn shim_label_octets<'a>(l: &'a Label) -> (r: &'a [u8]) ensures r@ == l.v() { &l.octets }
#[verifier::external_body]
fn shim_lit(s: &str) -> (r: String) ensures r@ == s@ { s.to_string() }
"""

WRITER = """
// ---- the zone as the writer sees it
pub struct Zone { pub apex: DomainName, pub auth: bool }
impl Zone {
    #[verifier::external_body]
    pub fn get_apex(&self) -> (r: &DomainName) ensures *r == self.apex { unimplemented!() }
    #[verifier::external_body]
    pub fn is_authoritative(&self) -> (r: bool) ensures r == self.auth { unimplemented!() }
}
#[verifier::external_body]
fn shim_string_bytes(s: &String) -> (r: Bytes) ensures all_ascii(s@) ==> bv(&r) == as_octets(s@) { s.bytes().collect() }
#[verifier::external_body]
fn shim_front_labels(name: &DomainName, k: usize) -> (r: Vec<Label>) requires k <= name.labels@.len(), ensures r@ == name.labels@.take(k as int) { Vec::from(&name.labels[..k]) }
#[verifier::external_body]
fn shim_string_is(a: &String, b: &str) -> (r: bool) ensures r == (a@ == b@) { a == b }
pub assume_specification<'a> [<bytes::Bytes as std::ops::Deref>::deref] (b: &'a bytes::Bytes) -> (r: &'a [u8]) ensures r@ == bv(b);
#[verifier::external_body]
fn serialise_octets(octets: &[u8], quoted: bool) -> (out: String) ensures out@ == esc(octets@, quoted) { unimplemented!() }
pub open spec fn as_octets(s: Seq<char>) -> Seq<u8> { Seq::new(s.len(), |i: int| s[i] as u8) }
"""

READ_RS = """
// ---- reading it back: what a name token denotes with the apex as origin (the reader's contract: zone_rr/parse_domain)
pub uninterp spec fn abs_name(s: Seq<char>) -> Option<DomainName>;
pub uninterp spec fn rel_name(origin: DomainName, s: Seq<char>) -> Option<DomainName>;
pub enum NameDen { Name(DomainName), NeedsOrigin, Bad }
pub open spec fn name_den(origin: Option<DomainName>, s: Seq<char>) -> NameDen {
    if s.len() == 0 || !all_ascii(s) { NameDen::Bad }
    else if s == seq!['@'] { match origin { Some(o) => NameDen::Name(o), None => NameDen::NeedsOrigin } }
    else if s.last() == '.' { match abs_name(s) { Some(n) => NameDen::Name(n), None => NameDen::Bad } }
    else { match origin { Some(o) => match rel_name(o, s) { Some(n) => NameDen::Name(n), None => NameDen::Bad }, None => NameDen::NeedsOrigin } }
}
// names in the scope of the property: every label ASCII and free of dots
pub open spec fn plain_label(l: Label) -> bool { forall|i: int| 0 <= i < l.v().len() ==> (#[trigger] l.v()[i]) <= 127 && l.v()[i] != 46 }
pub open spec fn plain_name(n: DomainName) -> bool { n.wf() && forall|i: int| 0 <= i < n.labels@.len() ==> plain_label(#[trigger] n.labels@[i]) }
// T1, T2: the dotted-name parsers invert dotted (assumed; see the unit's trusted list)
pub broadcast axiom fn axiom_abs_round_trip(n: DomainName)
    requires plain_name(n)
    ensures #[trigger] abs_name(dotted(n.labels@)) == Some(n);
pub broadcast axiom fn axiom_rel_round_trip(apex: DomainName, n: DomainName, k: int)
    requires plain_name(n), plain_name(apex), 0 < k, k + apex.labels@.len() == n.labels@.len(), n.labels@.skip(k) == apex.labels@
    ensures #[trigger] rel_name(apex, joined(n.labels@.take(k))) == Some(n);
proof fn lemma_joined_ascii(ls: Seq<Label>)
    requires forall|i: int| 0 <= i < ls.len() ==> plain_label(#[trigger] ls[i])
    ensures all_ascii(joined(ls))
    decreases ls.len()
{
    if ls.len() > 1 {
        lemma_joined_ascii(ls.drop_last());
        assert(plain_label(ls.last()));
    } else if ls.len() == 1 { assert(plain_label(ls[0])); }
}
// a name (not the root) ends with its empty root label: its dotted form ends with a dot
proof fn lemma_dotted_ends_with_dot(n: DomainName)
    requires n.wf()
    ensures dotted(n.labels@).len() > 0, dotted(n.labels@).last() == '.'
{
    let ls = n.labels@;
    if !is_root_labels(ls) {
        assert(ls.len() >= 2);
        assert(ls.last().v().len() == 0);
        assert(lchars(ls.last()) =~= Seq::<char>::empty());
        assert(joined(ls) =~= joined(ls.drop_last()) + seq!['.']);
    }
}
// the leading labels of a name are not empty, so their joined form is not empty and does not end with a dot
proof fn lemma_front_not_dot_terminated(n: DomainName, k: int)
    requires plain_name(n), 0 < k < n.labels@.len()
    ensures joined(n.labels@.take(k)).len() > 0, joined(n.labels@.take(k)).last() != '.'
{
    let f = n.labels@.take(k);
    let l = f.last();
    assert(l == n.labels@[k - 1]);
    assert(l.v().len() > 0);
    assert(plain_label(l));
    assert(lchars(l).len() > 0 && lchars(l).last() == l.v()[l.v().len() - 1] as char);
    assert(l.v()[l.v().len() - 1] != 46);
    if k > 1 { assert(joined(f) =~= joined(f.drop_last()) + seq!['.'] + lchars(l)); }
}
// the text w, read with `apex` as the origin in force, denotes the name n
pub open spec fn reads_as(apex: DomainName, w: Seq<char>, n: DomainName) -> bool { all_ascii(w) && name_den(Some(apex), w) == NameDen::Name(n) }
// a name's full dotted form reads back as that name, whatever the origin
proof fn lemma_full_form_reads_back(apex: DomainName, n: DomainName)
    requires plain_name(n)
    ensures reads_as(apex, dotted(n.labels@), n)
{
    broadcast use axiom_abs_round_trip;
    lemma_dotted_ends_with_dot(n);
    if is_root_labels(n.labels@) { assert(all_ascii(seq!['.'])); } else { lemma_joined_ascii(n.labels@); }
    let w = dotted(n.labels@);
    assert(w != seq!['@']) by { assert(w.last() == '.'); assert(seq!['@'].last() == '@'); }
}
// the labels in front of the apex, joined, read back as the name - unless that text is `@`, which denotes the apex itself
proof fn lemma_relative_form_reads_back(apex: DomainName, n: DomainName, k: int)
    requires plain_name(n), plain_name(apex), 0 < k, k + apex.labels@.len() == n.labels@.len(), n.labels@.skip(k) == apex.labels@, joined(n.labels@.take(k)) != seq!['@']
    ensures reads_as(apex, joined(n.labels@.take(k)), n)
{
    broadcast use axiom_rel_round_trip;
    lemma_front_not_dot_terminated(n, k);
    lemma_joined_ascii(n.labels@.take(k));
}
// a domain name is its labels and its recorded length (derived PartialEq compares exactly these)
pub broadcast axiom fn axiom_dn_ext(a: DomainName, b: DomainName)
    requires #[trigger] a.labels@ == #[trigger] b.labels@, a.len == b.len
    ensures a == b;
proof fn lemma_root_iff(n: DomainName)
    requires n.wf()
    ensures is_root_spec(n) == is_root_labels(n.labels@), dotted_of(n) == dotted(n.labels@)
{
    lemma_labels_sum_lower(n.labels@);
    if n.labels@.len() == 1 { lemma_labels_sum_one(n.labels@); }
}
proof fn lemma_suffix_sum(n: DomainName, apex: DomainName)
    requires n.wf(), apex.wf(), is_suffix(apex.labels@, n.labels@)
    ensures apex.labels@.len() <= n.labels@.len(), apex.len <= n.len,
        n.labels@.skip(n.labels@.len() - apex.labels@.len()) == apex.labels@,
        n.len - apex.len == labels_sum(n.labels@.take(n.labels@.len() - apex.labels@.len())),
        n.labels@.len() == apex.labels@.len() ==> n == apex,
{
    let k = n.labels@.len() - apex.labels@.len();
    assert(n.labels@.skip(k) =~= apex.labels@);
    assert(n.labels@ =~= n.labels@.take(k) + n.labels@.skip(k));
    lemma_labels_sum_concat(n.labels@.take(k), n.labels@.skip(k));
    if k == 0 { assert(n.labels@ =~= apex.labels@); axiom_dn_ext(n, apex); }
}
"""

SPECS = {
    "Zone::serialise_domain": {"props": ["C13"],
        "rewrites": [("R33", r"\"@\"\.to_string\(\)", "shim_lit(\"@\")"), ("R33", r"relative == \"@\"", "shim_string_is(&relative, \"@\")"),
                     ("R42", r"Vec::from\(&name\.labels\[\.\.labels_to_keep\]\)", "shim_front_labels(name, labels_to_keep)"),
                     ("R33", r"&domain_str\.bytes\(\)\.collect::<Bytes>\(\)", "&shim_string_bytes(&domain_str)")],
        "contract": """    requires plain_name(*name), plain_name(self.apex),
    ensures exists|w: Seq<char>| #[trigger] reads_as(self.apex, w, *name) && r@ == esc(as_octets(w), false), // [C13:a_written_name_read_with_the_apex_as_origin_is_the_same_name]""",
        "entry": "broadcast use group_eq_axioms; proof { reveal_strlit(\"@\"); assert(\"@\"@ == seq!['@']); assert(all_ascii(seq!['@'])); lemma_full_form_reads_back(self.apex, *name); lemma_root_iff(*name); lemma_root_iff(self.apex); if is_suffix(self.apex.labels@, name.labels@) { lemma_suffix_sum(*name, self.apex); } }",
        "anchors": [
            {"after_re": r"let labels_to_keep = [^;]*;", "proof": "proof { let k = labels_to_keep as int; assert(k > 0); assert(name.labels@.take(k)[0] == name.labels@[0]); assert(name.labels@[0].v().len() > 0); if joined(name.labels@.take(k)) != seq!['@'] { lemma_relative_form_reads_back(self.apex, *name, k); } }"},
            {"after_re": r"serialise_octets\(", "at": "before", "proof": "proof { assert(reads_as(self.apex, domain_str@, *name)); } // [C13:a_written_name_read_with_the_apex_as_origin_is_the_same_name]"},
        ]},
    "DomainName::to_dotted_string": {"props": ["C13"],
        "rewrites": [("R33", r"\"\.\"\.to_string\(\)", "shim_lit(\".\")"), ("R47", r"jt__: &label\.octets", "jt__: shim_label_octets(label).iter()")],
        "contract": """    requires self.labels@.len() >= 1,
    ensures r@ == dotted_of(*self), // [C13:a_name_is_written_as_its_labels_joined_by_dots]""",
        "entry": "proof { reveal_strlit(\".\"); assert(\".\"@ == seq!['.']); }",
        "loops": {
            "0": {"kw": "for", "iter_name": "it__", "spec": """            invariant
                it__.seq().len() == self.labels@.len(), forall|j: int| 0 <= j < it__.seq().len() ==> *it__.seq()[j] == self.labels@[j],
                !is_root_spec(*self),
                first == (it__.index@ == 0), out@ == joined(self.labels@.take(it__.index@ as int)),""",
                  "entry": "let ghost k__ = it__.index@ as int; let ghost out0__ = out@; proof { assert(*label == self.labels@[k__]); assert(self.labels@.take(k__ + 1).drop_last() =~= self.labels@.take(k__)); assert(self.labels@.take(k__ + 1).last() == *label); }"},
            "1": {"kw": "for", "iter_name": "jt__", "spec": """                invariant
                    jt__.seq().len() == label.v().len(), forall|j: int| 0 <= j < jt__.seq().len() ==> *jt__.seq()[j] == label.v()[j],
                    out@ == pre__ + lchars(*label).take(jt__.index@ as int),""",
                  "entry": "proof { let j = jt__.index@ as int; assert(lchars(*label).take(j + 1) =~= lchars(*label).take(j).push(*octet as char)); }"},
        },
        "anchors": [
            {"after": "for octet in &label.octets {", "at": "before", "proof": "let ghost pre__ = out@; proof { assert(lchars(*label).take(0) =~= Seq::<char>::empty()); assert(out@ =~= pre__ + lchars(*label).take(0)); }"},
            {"after_re": r"(?s)for octet in &label\.octets \{.*?\n            \}", "proof": "proof { assert(lchars(*label).take(lchars(*label).len() as int) =~= lchars(*label)); if k__ == 0 { assert(out0__ =~= Seq::<char>::empty()); assert(out@ =~= lchars(*label)); } }"},
            {"after": "        out\n    }", "nth": -1, "at": "before", "proof": "proof { assert(self.labels@.take(self.labels@.len() as int) =~= self.labels@); }"},
        ]},
}

CANARIES = [
    {"name": "at_sign_guard_removed", "file": ZSER, "old": "                if relative == \"@\" {", "new": "                if relative == \"@@\" {"},
    {"name": "one_label_too_few_kept", "file": ZSER, "old": "                let labels_to_keep = name.labels.len() - apex.labels.len();", "new": "                let labels_to_keep = name.labels.len() - apex.labels.len() - 1;"},
    {"name": "apex_written_as_a_dot", "file": ZSER, "old": "                \"@\".to_string()\n            } else {\n                let labels_to_keep", "new": "                \".\".to_string()\n            } else {\n                let labels_to_keep"},
    {"name": "labels_joined_without_dots", "file": TYPES, "old": "            if first {\n                first = false;\n            } else {\n                out.push('.');\n            }", "new": "            if first {\n                first = false;\n            }"},
]


def build(G):
    begin(G, preludes=("bytes.rs", "std.rs"))
    name_types(G, tryfrom=False)
    T = G.src(TYPES)
    G.raw(STANDINS, ("spec", "zone_names stand-ins"))
    specs = {k: dict(v) for k, v in SPECS.items()}
    specs["DomainName::is_root"] = {"props": ["C13"], "contract": "    requires self.labels@.len() >= 1,\n    ensures r == is_root_spec(*self),"}
    specs["Label::is_empty"] = dict(NAME_SPECS["Label::is_empty"], mode="assume", props=[])
    G.impl(T, "Label", ["is_empty"], "Label::", specs)
    G.impl(T, "DomainName", ["is_root", "to_dotted_string"], "DomainName::", specs)
    specs["DomainName::is_subdomain_of"] = dict(NAME_SPECS["DomainName::is_subdomain_of"], mode="assume", props=[])
    G.impl(T, "DomainName", ["is_subdomain_of"], "DomainName::", specs)
    G.file(os.path.join(PRELUDE, "eq_dn.rs")) if os.path.exists(os.path.join(PRELUDE, "eq_dn.rs")) else G.raw("""pub broadcast axiom fn axiom_eq_dn(a: DomainName, b: DomainName) ensures #[trigger] a.eq_spec(&b) == (a == b);
pub broadcast axiom fn axiom_eq_dn_obeys() ensures #[trigger] <DomainName as vstd::std_specs::cmp::PartialEqSpec>::obeys_eq_spec();
pub broadcast group group_eq_axioms { axiom_eq_dn, axiom_eq_dn_obeys }""")
    zt = open(os.path.join(os.path.dirname(__file__), "zone_text.spec.rs")).read()
    G.raw(zt[zt.index("// -- writing: how one octet is written"):zt.index("pub proof fn lemma_esc_body_push")], ("spec", "esc (shared with zone_text)"))
    G.raw(WRITER, ("spec", "zone_names writer stand-ins"))
    G.raw(READ_RS, ("spec", "zone_names reader spec"))
    ZS = G.src(ZSER)
    G.impl(ZS, "Zone", ["serialise_domain"], "Zone::", specs)
    end(G)
