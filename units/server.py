"""Unit `server` (C09, partial): triage, make_response / make_format_error_response, handle_raw_message, the UDP/TCP framing
functions of util/net.rs (tokio sockets as recorded stand-ins, R9), resolve_and_build_response (header / rcode logic)."""
from units.base import *
import re

MAIN = "crates/resolved/src/main.rs"
NET = "crates/dns-resolver/src/util/net.rs"
UTYPES = "crates/dns-resolver/src/util/types.rs"

TRUSTED = TRUSTED_COMMON + [
    "R9 socket stand-ins: UdpSocket::send/send_to append the datagram and its destination to a ghost log, or fail, sending nothing and setting the ghost `failed` (R52: borrowed mutably for that, tokio's take `&self`); the reply channel of the UDP listener (mpsc::Sender) likewise records what is queued; TcpStream::write_all appends to a ghost byte log (or fails, leaving a prefix of it and setting the ghost `failed`), read_u16 / read_buf deliver arbitrary data, any number of octets at a time, EOF or an error at any point (ghost `prefix`, `inp`); no interleaving between awaits is modelled",
    "BytesMut::with_capacity(n) has capacity exactly n and tokio's read_buf fills a buffer that is not full at most to its capacity (it reads into BytesMut::chunk_mut(), the spare capacity): used to show a TCP message body handed to the decoder has exactly the announced length (<= 65535)",
    "R45 (UDP): the block listen_udp_task hands to tokio::spawn for each datagram is read as `udp_request__(args, bytes, reply__, peer) -> ReplySender`, the select! arm that sends a finished reply as `udp_reply__(sock__, message, peer) -> UdpSocket` (block text verbatim; added: the `let mut` rebinding at entry, the captured value as the result); the Prometheus timer is a stand-in value; the select! arm that receives a datagram as `udp_received__(args, buf, size, peer, tx)` whose result is what the spawned task is given (R53: the `tokio::spawn(async move { .. })` statement is read as the tuple of its captures); not covered: select! itself, recv_from (assumed to report a size within the buffer), the bounded channel between the blocks",
    "R45: the block listen_tcp_task hands to tokio::spawn for each accepted connection is read as the body of `tcp_connection__(args, conn__, peer) -> TcpStream` (block text verbatim; added: `let mut stream = conn__;` at entry and the expression `stream` at the end, so that the contract can speak about what was written)",
    "Message::to_octets: contract assumed here (>= 12 octets, header octets as header_flags1/2, a message without records always serialises), proved in unit wire_codec under msg_names_wf (the DomainName type invariant, C16)",
    "Message::from_octets: contract assumed here, proved in unit wire_decode",
    "resolve(): stand-in (any metrics, any Ok/Err result) assumed to satisfy the answer-chain clause proved in unit local for the real `resolve`; RwLock read stand-in; Prometheus statics dropped (section 3.2-4); logging strings via shims (R27)",
    "== / != on Opcode, Rcode structural",
]

BU = "broadcast use group_eq_axioms;"

NET_STANDINS = """
// ---- R9: stand-ins for tokio sockets (same method names; effects recorded so that contracts can speak about them)
// log: every datagram handed to the socket so far with its destination (None: the connected peer); failed: a send returned an error
pub struct UdpSocket { pub log: Ghost<Seq<(Seq<u8>, Option<SocketAddr>)>>, pub failed: Ghost<bool> }
// log: every octet written to the peer so far; failed: a write returned an error; prefix: the length prefix of the current message, once
// read; inp: the octets of its body received so far
pub struct TcpStream { pub log: Ghost<Seq<u8>>, pub failed: Ghost<bool>, pub prefix: Ghost<Option<u16>>, pub inp: Ghost<Seq<u8>> }
pub struct IoError { e: u8 }
pub uninterp spec fn last_read(s: &TcpStream) -> Seq<u8>;
pub open spec fn same_out(a: &TcpStream, b: &TcpStream) -> bool { a.log@ == b.log@ && a.failed@ == b.failed@ }
pub open spec fn same_in(a: &TcpStream, b: &TcpStream) -> bool { a.prefix@ == b.prefix@ && a.inp@ == b.inp@ }
impl UdpSocket {
    // R52: tokio's send / send_to take `&self`; the stand-in is borrowed mutably so that it can record the datagram
    #[verifier::external_body]
    pub async fn send(&mut self, buf: &[u8]) -> (r: Result<usize, IoError>)
        requires buf@.len() <= 512, // [C09:udp_reply_at_most_512_bytes]
        ensures r is Ok ==> final(self).log@ == old(self).log@.push((buf@, None::<SocketAddr>)) && final(self).failed@ == old(self).failed@,
            r is Err ==> final(self).log@ == old(self).log@ && final(self).failed@,
    { unimplemented!() }
    #[verifier::external_body]
    pub async fn send_to(&mut self, buf: &[u8], target: SocketAddr) -> (r: Result<usize, IoError>)
        requires buf@.len() <= 512, // [C09:udp_reply_at_most_512_bytes]
        ensures r is Ok ==> final(self).log@ == old(self).log@.push((buf@, Some(target))) && final(self).failed@ == old(self).failed@,
            r is Err ==> final(self).log@ == old(self).log@ && final(self).failed@,
    { unimplemented!() }
}
impl TcpStream {
    #[verifier::external_body]
    pub async fn write_all(&mut self, buf: &[u8]) -> (r: Result<(), IoError>)
        ensures same_in(old(self), final(self)),
            r is Ok ==> final(self).log@ == old(self).log@ + buf@ && final(self).failed@ == old(self).failed@,
            r is Err ==> is_prefix_u8(old(self).log@, final(self).log@) && final(self).failed@,
    { unimplemented!() }
    // AsyncReadExt::read_u16: the two-octet length prefix, or an I/O error (EOF included); no body octet has been received yet
    #[verifier::external_body]
    pub async fn read_u16(&mut self) -> (r: Result<u16, IoError>)
        ensures same_out(old(self), final(self)), final(self).inp@ == Seq::<u8>::empty(),
            r is Ok ==> final(self).prefix@ == Some(r->Ok_0), r is Err ==> final(self).prefix@ is None,
    { unimplemented!() }
    // AsyncReadExt::read_buf: appends the n >= 0 octets that arrived to the buffer (0 = the peer closed), or fails and leaves it as
    // it was; a buffer that is not full is filled at most up to its capacity (tokio reads into BytesMut::chunk_mut(), the spare capacity)
    #[verifier::external_body]
    pub async fn read_buf(&mut self, buf: &mut BytesMut) -> (r: Result<usize, IoError>)
        ensures same_out(old(self), final(self)), final(self).prefix@ == old(self).prefix@,
            r is Ok ==> last_read(final(self)).len() == r->Ok_0 && bmv(final(buf)) == bmv(old(buf)) + last_read(final(self))
                && final(self).inp@ == old(self).inp@ + last_read(final(self)),
            r is Err ==> bmv(final(buf)) == bmv(old(buf)) && final(self).inp@ == old(self).inp@,
            bmv(old(buf)).len() < bm_cap(old(buf)) ==> bmv(final(buf)).len() <= bm_cap(old(buf)) && bm_cap(final(buf)) == bm_cap(old(buf)),
    { unimplemented!() }
}
// the ID of a message of which only `s` arrived: its first two octets, if it has them
pub open spec fn id_of_partial(s: Seq<u8>) -> Option<u16> { if s.len() >= 2 { Some(be16(s[0], s[1])) } else { None } }
pub open spec fn is_prefix_u8(a: Seq<u8>, b: Seq<u8>) -> bool { a.len() <= b.len() && forall|i: int| 0 <= i < a.len() ==> a[i] == #[trigger] b[i] }
#[verifier::external_type_specification]
#[verifier::external_body]
pub struct ExSocketAddr(std::net::SocketAddr);
// the TC bit is bit 1 of the third octet (RFC 1035 section 4.1.1)
pub open spec fn tc_set(b: u8) -> bool { b & 0x02 != 0 }
pub open spec fn same_but_tc(a: u8, b: u8) -> bool { a & 0xfd == b & 0xfd }
pub proof fn lemma_tc_bits(x: u8)
    ensures tc_set(x | 0x02), same_but_tc(x, x | 0x02), !tc_set(x & 0xfd), same_but_tc(x, x & 0xfd)
{
    assert((x | 0x02) & 0x02 != 0 && (x | 0x02) & 0xfd == x & 0xfd && (x & 0xfd) & 0x02 == 0 && (x & 0xfd) & 0xfd == x & 0xfd) by(bit_vector);
}
// the reply image: as given, except that octet 2 has its TC bit set exactly when the reply had to be cut
pub open spec fn framed(orig: Seq<u8>, fin: Seq<u8>, cut: bool) -> bool {
    fin.len() == orig.len() && fin.len() >= 12 && tc_set(fin[2]) == cut && same_but_tc(orig[2], fin[2])
    && forall|i: int| 0 <= i < orig.len() && i != 2 ==> fin[i] == orig[i]
}
"""

def _udp_contract(target):
    return f"""    requires old(bytes)@.len() >= 12, // [C09:reply_is_a_complete_message]
    ensures
        framed(old(bytes)@, final(bytes)@, old(bytes)@.len() > 512), // [C09:tc_set_exactly_when_cut_short]
        r is Ok ==> final(sock).failed@ == old(sock).failed@ && final(sock).log@ == old(sock).log@.push((final(bytes)@.take(if old(bytes)@.len() > 512 {{ 512 }} else {{ old(bytes)@.len() as int }}), {target})), // [C09:udp_sends_the_first_512_bytes_as_one_datagram_to_the_given_peer]
        r is Err ==> final(sock).failed@ && final(sock).log@ == old(sock).log@, // [C09:a_failed_udp_send_sends_nothing]"""

SPECS = {
    "send_udp_bytes": {"props": ["C09"], "contract": _udp_contract("None::<SocketAddr>"), "entry": "proof { lemma_tc_bits(bytes@[2]); }",
                       "anchors": [{"after": "Ok(())", "nth": -1, "at": "before", "proof": "assert(bytes@.take(bytes@.len() as int) =~= bytes@);"}]},
    "send_udp_bytes_to": {"props": ["C09"], "contract": _udp_contract("Some(target)"), "entry": "proof { lemma_tc_bits(bytes@[2]); }",
                          "anchors": [{"after": "Ok(())", "nth": -1, "at": "before", "proof": "assert(bytes@.take(bytes@.len() as int) =~= bytes@);"}]},
    "send_tcp_bytes": {"props": ["C09"], "rewrites": ["R2c"],
        "contract": """    requires old(bytes)@.len() >= 12, // [C09:reply_is_a_complete_message]
    ensures
        framed(old(bytes)@, final(bytes)@, old(bytes)@.len() > 0xffff), // [C09:tc_set_exactly_when_cut_short]
        same_in(old(stream), final(stream)), is_prefix_u8(old(stream).log@, final(stream).log@),
        r is Ok ==> final(stream).failed@ == old(stream).failed@, r is Err ==> final(stream).failed@,
        r is Ok ==> ({ let n = if old(bytes)@.len() > 0xffff { 0xffff } else { old(bytes)@.len() as int };
            final(stream).log@ == old(stream).log@ + seq![(n / 256) as u8, (n % 256) as u8] + final(bytes)@.take(n) }), // [C09:tcp_reply_carries_its_exact_length_prefix]""",
        "entry": "proof { lemma_tc_bits(bytes@[2]); }",
        "anchors": [{"after": "stream.write_all(&bytes[..(len as usize)]).await?;", "proof": """proof {
    let n = if old(bytes)@.len() > 0xffff { 0xffff } else { old(bytes)@.len() as int };
    assert(len as int == n);
    assert(bytes@.subrange(0, n) =~= bytes@.take(n));
    assert(stream.log@ =~= old(stream).log@ + seq![(n / 256) as u8, (n % 256) as u8] + bytes@.take(n));
}"""}]},
    "read_tcp_bytes": {"props": ["C09"], "rewrites": ["R2a"], "ret": "res",
        "contract": """    ensures
        same_out(old(stream), final(stream)),
        res is Ok ==> bmv(&res->Ok_0) == final(stream).inp@ && final(stream).prefix@ is Some && final(stream).inp@.len() == final(stream).prefix@->Some_0, // [C09:tcp_message_is_read_to_its_length_prefix]
        res is Err ==> (match res->Err_0 {
            TcpError::TooShort { id, expected, actual } => id == id_of_partial(final(stream).inp@) && actual == final(stream).inp@.len() && actual < expected
                && final(stream).prefix@ == Some(expected as u16),
            TcpError::IO { id, .. } => id == id_of_partial(final(stream).inp@),
        }), // [C09:tcp_message_cut_short_keeps_its_id_when_it_has_one]""",
        "loops": {0: {"kw": "while", "spec": """invariant same_out(old(stream), &*stream), bmv(&bytes) == stream.inp@, stream.prefix@ == Some(size), expected == size,
                bm_cap(&bytes) == expected, bmv(&bytes).len() <= expected,
            decreases (if bmv(&bytes).len() < expected { expected - bmv(&bytes).len() } else { 0 }),"""}},
        },
}


MAIN_STANDINS = """
// ---- stand-ins for what resolve_and_build_response / handle_raw_message call outside this unit (assumed, listed in the evidence)
pub struct SharedCache { c: u8 }
pub struct ZonesLock { z: u8 }
pub struct ZonesGuard { g: u8 }
impl ZonesLock {
    #[verifier::external_body]
    pub async fn read(&self) -> (r: ZonesGuard) { unimplemented!() }
}
pub struct ListenArgs {
    pub authoritative_only: bool,
    pub protocol_mode: ProtocolMode,
    pub upstream_dns_port: u16,
    pub forward_address: Option<SocketAddr>,
    pub zones_lock: ZonesLock,
    pub cache: SharedCache,
}
pub struct Metrics { pub authoritative_hits: u64, pub override_hits: u64, pub blocked: u64, pub cache_misses: u64, pub cache_hits: u64, pub nameserver_hits: u64, pub nameserver_misses: u64 }
// C10 / C09 vocabulary (same definitions as in unit local)
pub open spec fn reached(rrs: Seq<ResourceRecord>, q: DomainName, k: int) -> DomainName { if k <= 0 { q } else { rrs[k - 1].rtype_with_data->CNAME_cname } }
pub open spec fn chain_k(rrs: Seq<ResourceRecord>, q: DomainName, k: int) -> bool {
    &&& 0 <= k <= rrs.len()
    &&& forall|i: int| 0 <= i < k ==> (#[trigger] rrs[i]).rtype_with_data is CNAME && rrs[i].name == reached(rrs, q, i)
    &&& forall|i: int| k <= i < rrs.len() ==> (#[trigger] rrs[i]).name == reached(rrs, q, k)
}
pub open spec fn chain_ok(rrs: Seq<ResourceRecord>, q: DomainName) -> bool { exists|k: int| #[trigger] chain_k(rrs, q, k) }
pub open spec fn qmatch(t: RecordType, q: QueryType) -> bool { q == QueryType::Wildcard || q == QueryType::Record(t) }
pub open spec fn typed_ok(rrs: Seq<ResourceRecord>, q: QueryType) -> bool {
    forall|i: int| 0 <= i < rrs.len() ==> (#[trigger] rrs[i]).rtype_with_data is CNAME || qmatch(spec_rtype_of(rrs[i].rtype_with_data), q)
}
pub open spec fn resolved_rrs(r: ResolvedRecord) -> Seq<ResourceRecord> {
    match r {
        ResolvedRecord::Authoritative { rrs, .. } => rrs@,
        ResolvedRecord::NonAuthoritative { rrs, .. } => rrs@,
        _ => Seq::<ResourceRecord>::empty(),
    }
}
pub broadcast proof fn lemma_chain_nil(a: Seq<ResourceRecord>, q: DomainName)
    requires a.len() == 0
    ensures chain_k(a, q, 0), #[trigger] chain_ok(a, q)
{ assert(chain_k(a, q, 0)); }
pub broadcast proof fn lemma_append_to_nil(a: Seq<ResourceRecord>, b: Seq<ResourceRecord>)
    requires a.len() == 0
    ensures #[trigger] (a + b) == b
{ assert(a + b =~= b); }
pub broadcast group group_answer { lemma_chain_nil, lemma_append_to_nil }
// C18: what this server process was configured with (ListenArgs); same constants as in units local / recursive
pub uninterp spec fn configured_forwarder() -> SocketAddr;
pub uninterp spec fn configured_port() -> u16;
pub uninterp spec fn forwarding_mode() -> bool;
// the resolver: any metrics, any result, except for the clause unit `local` proves for `resolve` (local/resolve/post:answer_holds_only_the_question_name_and_its_alias_chain)
#[verifier::external_body]
pub async fn resolve(is_recursive: bool, protocol_mode: ProtocolMode, upstream_dns_port: u16, forward_address: Option<SocketAddr>,
    zones: &ZonesGuard, cache: &SharedCache, question: &Question) -> (r: (Metrics, Result<ResolvedRecord, ResolutionError>))
    requires upstream_dns_port == configured_port(), forward_address is Some ==> forward_address->Some_0 == configured_forwarder(), // [C18:the_resolver_is_given_the_configured_port_and_forwarder]
        forwarding_mode() == (forward_address is Some), // [C18:the_resolver_is_given_the_configured_port_and_forwarder]
    ensures question.qtype != QueryType::Wildcard && r.1 is Ok ==> chain_ok(resolved_rrs(r.1->Ok_0), question.name),
            r.1 is Ok ==> typed_ok(resolved_rrs(r.1->Ok_0), question.qtype),
{ unimplemented!() }
#[verifier::external_body]
fn prune_cache_and_update_metrics(cache: &SharedCache) { unimplemented!() }
// R27: strings that only feed the log line
#[verifier::external_body] fn shim_log_ok() -> (r: String) { "ok".to_string() }
#[verifier::external_body] fn shim_log_err(err: &ResolutionError) -> (r: String) { unimplemented!() }
// Message::to_octets: contract proved in unit wire_codec (there under msg_names_wf, the DomainName type invariant of C16)
pub struct SerError { e: u8 }
impl Message {
    #[verifier::external_body]
    pub fn to_octets(&self) -> (r: Result<BytesMut, SerError>)
        ensures r is Ok ==> bmv(&r->Ok_0).len() >= 12 && bmv(&r->Ok_0)[0] == (self.header.id / 256) as u8 && bmv(&r->Ok_0)[1] == (self.header.id % 256) as u8
                && bmv(&r->Ok_0)[2] == header_flags1(self.header) && bmv(&r->Ok_0)[3] == header_flags2(self.header),
            self.questions@.len() <= 0xffff && self.answers@.len() == 0 && self.authority@.len() == 0 && self.additional@.len() == 0 ==> r is Ok,
            r is Ok <==> serialisable(*self), r is Ok ==> bmv(&r->Ok_0).len() == wire_len(*self),
    { unimplemented!() }
}
// R9: the channel on which a task hands its finished reply to the UDP sender loop (tokio mpsc::Sender), recorded; the Prometheus timer
pub struct Timer { t: u8 }
#[verifier::external_body]
fn shim_start_timer() -> Timer { unimplemented!() }
pub struct SendError { e: u8 }
pub struct ReplySender { pub log: Ghost<Seq<(Message, SocketAddr)>>, pub closed: Ghost<bool> }
impl ReplySender {
    #[verifier::external_body]
    pub async fn send(&mut self, v: (Message, SocketAddr, Timer)) -> (r: Result<(), SendError>)
        ensures r is Ok ==> final(self).log@ == old(self).log@.push((v.0, v.1)) && final(self).closed@ == old(self).closed@,
            r is Err ==> final(self).log@ == old(self).log@ && final(self).closed@,
    { unimplemented!() }
}
impl Clone for ReplySender {
    #[verifier::external_body]
    fn clone(&self) -> (r: Self) ensures r == *self { unimplemented!() }
}
impl Clone for ListenArgs {
    #[verifier::external_body]
    fn clone(&self) -> (r: Self) ensures r == *self { unimplemented!() }
}
// R42: `BytesMut::from(slice)` - a buffer holding a copy of the slice
#[verifier::external_body]
fn shim_bytesmut_from_slice(s: &[u8]) -> (r: BytesMut)
    ensures bmv(&r) == s@,
{ BytesMut::from(s) }
// the reply queued for a datagram: its ID, QR set, not truncated; a datagram flagged as a response is answered with FORMERR at most
pub open spec fn reply_for(m: Message, b: Seq<u8>) -> bool {
    &&& b.len() >= 2 &&& m.header.id == be16(b[0], b[1]) &&& m.header.is_response &&& !m.header.is_truncated
    &&& (b.len() >= 12 && b[2] & 0x80 != 0 ==> m.header.rcode == Rcode::FormatError)
}
// the message can be encoded (names compressible, counts within 16 bits): decided by Message::to_octets (unit wire_codec)
pub uninterp spec fn serialisable(m: Message) -> bool;
// the length of the message's encoding (when it has one)
pub uninterp spec fn wire_len(m: Message) -> int;
// what one reply looks like on the UDP socket: one datagram to the asker's address, a whole header at least and 512 octets at most,
// the first 512 octets of the reply's encoding at most, starting with the reply's ID, QR as in the reply, TC set exactly when the
// encoding is longer than that
pub open spec fn udp_reply_ok(d: (Seq<u8>, Option<SocketAddr>), m: Message, peer: SocketAddr) -> bool {
    &&& d.1 == Some(peer) &&& 12 <= d.0.len() <= 512
    &&& d.0.len() == (if wire_len(m) > 512 { 512 } else { wire_len(m) })
    &&& tc_set(d.0[2]) == (wire_len(m) > 512)
    &&& be16(d.0[0], d.0[1]) == m.header.id
    &&& (d.0[2] & 0x80 != 0) == m.header.is_response
    &&& d.0[3] & 0x0f == spec_rcode_to(m.header.rcode) & 0x0f
}
// what one reply looks like on a TCP connection: a two-octet big-endian length, then exactly that many octets (at least a header),
// which start with the given ID and have QR set
pub open spec fn tcp_reply(pre: Seq<u8>, post: Seq<u8>, id: u16) -> bool {
    let n = post.len() - pre.len() - 2;
    let p = pre.len() as int;
    &&& is_prefix_u8(pre, post) &&& 12 <= n <= 0xffff
    &&& post[p] == (n / 256) as u8 &&& post[p + 1] == (n % 256) as u8
    &&& be16(post[p + 2], post[p + 3]) == id
    &&& post[p + 4] & 0x80 != 0
}
pub open spec fn tcp_rcode_bits(pre: Seq<u8>, post: Seq<u8>) -> u8 { post[pre.len() as int + 5] & 0x0f }
proof fn lemma_wire_qr_rcode(h: Header, f1: u8)
    requires same_but_tc(header_flags1(h), f1)
    ensures (f1 & 0x80 != 0) == h.is_response, header_flags2(h) & 0x0f == spec_rcode_to(h.rcode) & 0x0f
{
    let b7 = bit(h.is_response, 7); let b2 = bit(h.is_authoritative, 2); let b1 = bit(h.is_truncated, 1); let b0 = bit(h.recursion_desired, 0);
    let a7 = bit(h.recursion_available, 7); let op = spec_opcode_to(h.opcode); let rc = spec_rcode_to(h.rcode);
    assert((1u8 << 7u8) == 0x80 && (1u8 << 2u8) == 4 && (1u8 << 1u8) == 2 && (1u8 << 0u8) == 1) by(bit_vector);
    assert(b7 == (if h.is_response { 0x80u8 } else { 0u8 }));
    assert(b2 == (if h.is_authoritative { 4u8 } else { 0u8 }));
    assert(a7 == (if h.recursion_available { 0x80u8 } else { 0u8 }));
    let g = b7 | (((op & 0x0f) << 3) as u8) | b2 | b1 | b0;
    assert((b7 == 0 || b7 == 0x80) && (b2 == 0 || b2 == 4) && (b1 == 0 || b1 == 2) && (b0 == 0 || b0 == 1) && g & 0xfd == f1 & 0xfd
        && g == b7 | (((op & 0x0f) << 3) as u8) | b2 | b1 | b0 ==> ((f1 & 0x80 != 0) == (b7 != 0))) by(bit_vector);
    assert((a7 == 0 || a7 == 0x80) ==> (a7 | (rc & 0x0f)) & 0x0f == rc & 0x0f) by(bit_vector);
}
pub const REFUSED_FOR_MULTIPLE_QUESTIONS: &'static str = "multiple_questions";
pub const REFUSED_FOR_UNKNOWN_QTYPE_OR_QCLASS: &'static str = "unknown_qtype_or_qclass";
pub open spec fn err_id(e: Error) -> Option<u16> {
    match e {
        Error::CompletelyBusted => None,
        Error::HeaderTooShort(id) => Some(id),
        Error::QuestionTooShort(id) => Some(id),
        Error::ResourceRecordTooShort(id) => Some(id),
        Error::ResourceRecordInvalid(id) => Some(id),
        Error::DomainTooShort(id) => Some(id),
        Error::DomainTooLong(id) => Some(id),
        Error::DomainPointerInvalid(id) => Some(id),
        Error::DomainLabelInvalid(id) => Some(id),
    }
}
pub closed spec fn question_unknown(q: Question) -> bool {
    (q.qtype is Record && q.qtype->Record_0 is Unknown) || (q.qclass is Record && q.qclass->Record_0 is Unknown)
}
// the reply to a parseable query: ID, opcode, RD and the question echoed, QR set, not truncated
pub open spec fn echoes(q: Message, r: Message) -> bool {
    r.header.id == q.header.id && r.header.is_response && r.header.opcode == q.header.opcode
    && r.header.recursion_desired == q.header.recursion_desired && !r.header.is_truncated && r.questions@ == q.questions@
}
"""

MAIN_SPECS = {
    "Message::make_response": {"props": ["C09"], "contract": """    ensures echoes(*self, r), r.header.rcode == Rcode::NoError, !r.header.is_authoritative, r.header.recursion_available, // [C09:response_header_construction]
        r.answers@.len() == 0, r.authority@.len() == 0, r.additional@.len() == 0,"""},
    "Message::make_format_error_response": {"props": ["C09"], "contract": """    ensures r.header.id == id, r.header.is_response, r.header.rcode == Rcode::FormatError, !r.header.is_truncated, // [C09:formerr_header_construction]
        r.header.opcode == Opcode::Standard, r.questions@.len() == 0, r.answers@.len() == 0, r.authority@.len() == 0, r.additional@.len() == 0,"""},
    "Question::is_unknown": {"props": ["C09"], "contract": "    ensures r == question_unknown(*self),"},
    "QueryType::is_unknown": {"props": ["C09"], "contract": "    ensures r == (self is Record && self->Record_0 is Unknown),"},
    "QueryClass::is_unknown": {"props": ["C09"], "contract": "    ensures r == (self is Record && self->Record_0 is Unknown),"},
    "RecordType::is_unknown": {"props": ["C09"], "contract": "    ensures r == (self is Unknown),"},
    "RecordClass::is_unknown": {"props": ["C09"], "contract": "    ensures r == (self is Unknown),"},
    "Error::id": {"props": ["C09"], "mode": "assume", "contract": "    ensures r == err_id(self),"},
    "Message::from_octets": {"props": ["C09"], "mode": "assume", "contract": """    requires octets@.len() <= 0xffff,
    ensures
        r is Ok ==> octets@.len() >= 12 && r->Ok_0.header == header_unpack(be16(octets@[0], octets@[1]), octets@[2], octets@[3]),
        r is Err && octets@.len() >= 2 ==> err_id(r->Err_0) == Some(be16(octets@[0], octets@[1])),
        r is Err && octets@.len() < 2 ==> err_id(r->Err_0) is None,"""},
    "triage": {"props": ["C09"], "contract": """    ensures
        query.questions@.len() == 0 ==> r is Ok && r->Ok_0 is None,
        query.questions@.len() == 1 && !question_unknown(query.questions@[0]) ==> r is Ok && r->Ok_0 is Some && *r->Ok_0->Some_0 == query.questions@[0],
        query.questions@.len() == 1 && question_unknown(query.questions@[0]) ==> r is Err, // [C09:refused_for_unknown_type_or_class]
        query.questions@.len() > 1 ==> r is Err, // [C09:refused_for_several_questions]"""},
    "resolve_and_build_response": {"props": ["C09", "C01", "C18"],
        "contract": """    requires args.upstream_dns_port == configured_port(), args.forward_address is Some ==> args.forward_address->Some_0 == configured_forwarder(), forwarding_mode() == (args.forward_address is Some),
    ensures
        echoes(query, r), // [C09:reply_echoes_id_opcode_rd_question]
        r.header.recursion_available == !args.authoritative_only, // [C09:ra_exactly_when_recursion_offered]
        query.questions@.len() > 1 || (query.questions@.len() == 1 && question_unknown(query.questions@[0]))
            ==> r.header.rcode == Rcode::Refused && r.answers@.len() == 0 && r.authority@.len() == 0, // [C09:refused_for_several_questions_or_unknown]
        r.header.rcode == Rcode::NameError ==> r.header.is_authoritative && r.answers@.len() == 0 && r.authority@.len() == 1, // [C01,C09:name_error_only_from_an_authoritative_name_error]
        r.answers@.len() == 0 && r.authority@.len() == 0 ==> r.header.rcode != Rcode::NoError, // [C09:servfail_when_nothing_was_resolved]
        r.header.rcode == Rcode::NoError || r.header.rcode == Rcode::NameError || r.header.rcode == Rcode::Refused || r.header.rcode == Rcode::ServerFailure,
        r.additional@.len() == 0,
        // the answer section holds only records for the question name or its CNAME chain (ANY questions: see unit local)
        query.questions@.len() == 1 && query.questions@[0].qtype != QueryType::Wildcard ==> chain_ok(r.answers@, query.questions@[0].name), // [C09:answer_section_holds_only_the_question_name_and_its_alias_chain]
        query.questions@.len() == 1 ==> typed_ok(r.answers@, query.questions@[0].qtype), // [C09,C10:answer_section_holds_only_aliases_and_records_of_the_asked_type]""",
        "entry": BU + " broadcast use group_answer;"},
    "tcp_connection__": {"props": ["C09"], "ret": "fin",
        "contract": """    requires !conn__.failed@, args.upstream_dns_port == configured_port(), args.forward_address is Some ==> args.forward_address->Some_0 == configured_forwarder(), forwarding_mode() == (args.forward_address is Some),
    ensures
        is_prefix_u8(conn__.log@, fin.log@),
        id_of_partial(fin.inp@) is None ==> fin.log@ == conn__.log@, // [C09:tcp_nothing_is_sent_when_no_id_arrived]
        !fin.failed@ ==> fin.log@ == conn__.log@
            || (id_of_partial(fin.inp@) is Some && tcp_reply(conn__.log@, fin.log@, id_of_partial(fin.inp@)->Some_0)), // [C09:tcp_at_most_one_reply_with_the_senders_id_qr_set_and_its_exact_length_prefix]
        !fin.failed@ && fin.prefix@ is Some && fin.inp@.len() < fin.prefix@->Some_0 && id_of_partial(fin.inp@) is Some
            ==> tcp_reply(conn__.log@, fin.log@, id_of_partial(fin.inp@)->Some_0) && tcp_rcode_bits(conn__.log@, fin.log@) == 1, // [C09:tcp_message_cut_short_gets_one_formerr_with_its_id]""",
        "entry": "let mut stream = conn__; // R45: the captured connection, mutable as in the block\n" + BU,
        "anchors": [
            {"after_re": r"if let Err\(error\) =\s*send_tcp_bytes\(", "at": "before", "proof": "let ghost orig__ = bmv(&serialised); let ghost pre__ = stream.log@;"},
            {"after_re": r"send_tcp_bytes\(&mut stream, &mut serialised\)\s*\.await\s*\{[^}]*\}", "proof": """proof {
    let fin = bmv(&serialised);
    lemma_wire_qr_rcode(message.header, fin[2]);
    lemma_be16_div_mod(message.header.id);
    assert(1u8 & 0x0f == 1) by(bit_vector);
    if !stream.failed@ {
        let n = if orig__.len() > 0xffff { 0xffff } else { orig__.len() as int };
        let post = stream.log@;
        let p = pre__.len() as int;
        assert(post == pre__ + seq![(n / 256) as u8, (n % 256) as u8] + fin.take(n));
        assert(post.len() == p + 2 + n);
        assert(post[p] == (n / 256) as u8 && post[p + 1] == (n % 256) as u8);
        assert(post[p + 2] == fin[0] && post[p + 3] == fin[1] && post[p + 4] == fin[2] && post[p + 5] == fin[3]);
    }
}"""}]},
    "udp_reply__": {"props": ["C09"], "ret": "fin",
        "contract": """    requires !sock__.failed@,
    ensures
        fin.log@ == sock__.log@ || (fin.log@.len() == sock__.log@.len() + 1 && fin.log@.drop_last() == sock__.log@
            && udp_reply_ok(fin.log@.last(), message, peer)), // [C09:udp_at_most_one_datagram_per_reply_to_the_askers_address_with_the_replys_id_and_flags]
        serialisable(message) && !fin.failed@ ==> fin.log@.len() == sock__.log@.len() + 1, // [C09:udp_a_reply_that_serialises_is_sent]""",
        "entry": "let mut socket = sock__; // R45: the captured socket, mutable so that the stand-in can record (R52)\n" + BU,
        "anchors": [
            {"after_re": r"if let Err\(error\) =\s*send_udp_bytes_to\(", "at": "before", "proof": "let ghost orig__ = bmv(&serialised);"},
            {"after_re": r"send_udp_bytes_to\(&socket, peer, &mut serialised\)\s*\.await\s*\{[^}]*\}", "proof": """proof {
    let fin = bmv(&serialised);
    lemma_wire_qr_rcode(message.header, fin[2]);
    lemma_be16_div_mod(message.header.id);
    if !socket.failed@ {
        let n = if orig__.len() > 512 { 512 } else { orig__.len() as int };
        let d = socket.log@.last();
        assert(d.0 == fin.take(n));
        assert(d.0[0] == fin[0] && d.0[1] == fin[1] && d.0[2] == fin[2] && d.0[3] == fin[3]);
        assert(socket.log@.drop_last() =~= sock__.log@);
    }
}"""}]},
    "udp_request__": {"props": ["C09"], "ret": "fin",
        "contract": """    requires !reply__.closed@, bmv(&bytes).len() <= 0xffff, args.upstream_dns_port == configured_port(), args.forward_address is Some ==> args.forward_address->Some_0 == configured_forwarder(), forwarding_mode() == (args.forward_address is Some),
    ensures
        fin.log@ == reply__.log@ || (fin.log@.len() == reply__.log@.len() + 1 && fin.log@.drop_last() == reply__.log@
            && fin.log@.last().1 == peer && reply_for(fin.log@.last().0, bmv(&bytes))), // [C09:udp_at_most_one_reply_is_queued_per_datagram_addressed_to_its_sender_with_its_id]
        bmv(&bytes).len() < 2 ==> fin.log@ == reply__.log@, // [C09:no_reply_to_a_message_too_short_for_an_id]
        !fin.closed@ && bmv(&bytes).len() >= 2 && !(bmv(&bytes).len() >= 12 && bmv(&bytes)[2] & 0x80 != 0)
            ==> fin.log@.len() == reply__.log@.len() + 1, // [C09:udp_every_datagram_with_an_id_that_is_not_a_response_gets_one_reply_queued]""",
        "entry": "let mut reply = reply__; // R45: the captured sender, mutable so that the stand-in can record (R52)\n" + BU,
        "anchors": [{"after_re": r"(?<=\})\s*\}\s*reply\s*\}\s*$", "at": "before", "proof": "proof { if !reply.closed@ { assert(reply.log@.drop_last() =~= reply__.log@); } }"}]},
    "udp_received__": {"props": ["C09"], "ret": "task",
        "contract": """    requires size <= buf@.len(),
    ensures
        size >= 2 ==> task is Some, // [C09:every_datagram_that_can_hold_an_id_is_handed_to_a_task]
        task is Some ==> bmv(&task->Some_0.1) == buf@.take(size as int), // [C09:the_task_for_a_datagram_is_given_exactly_the_octets_received]
        task is Some ==> task->Some_0.3 == peer, // [C09:the_task_for_a_datagram_is_given_its_senders_address]
        task is Some ==> task->Some_0.0 == args && task->Some_0.2 == tx,""",
        "forbid": [r"BytesMut::from\("],
        "entry": BU},
    "handle_raw_message": {"props": ["C09"],
        "contract": """    requires buf@.len() <= 0xffff, args.upstream_dns_port == configured_port(), args.forward_address is Some ==> args.forward_address->Some_0 == configured_forwarder(), forwarding_mode() == (args.forward_address is Some),
    ensures
        buf@.len() < 2 ==> r is None, // [C09:no_reply_to_a_message_too_short_for_an_id]
        r is None ==> buf@.len() < 2 || (buf@.len() >= 12 && buf@[2] & 0x80 != 0), // [C09:every_message_with_an_id_that_is_not_a_response_is_answered]
        r is Some ==> r->Some_0.header.is_response && !r->Some_0.header.is_truncated, // [C09:reply_has_qr_set]
        r is Some ==> buf@.len() >= 2 && r->Some_0.header.id == be16(buf@[0], buf@[1]), // [C09:reply_carries_the_senders_id]
        buf@.len() >= 12 && (buf@[2] & 0x80 != 0) ==> r is None || r->Some_0.header.rcode == Rcode::FormatError, // [C09:no_reply_to_a_response]
        r is Some && r->Some_0.header.rcode == Rcode::NotImplemented ==> buf@.len() >= 12 && r->Some_0.header.opcode != Opcode::Standard
            && r->Some_0.header.opcode == spec_opcode_from(((buf@[2] >> 3) & 0x0f) as u8), // [C09:notimp_for_non_standard_opcodes]""",
        "entry": BU},
}


def _r29(txt):
    """R29 (DESIGN 3.2-4): statements whose head is a Prometheus static of resolved::metrics, and the bindings that only feed them."""
    n = 0
    pats = [r"\n\s*DNS_[A-Z_]+\s*(?:\n\s*)?\.[^;]*;", r"\n\s*let question_labels: &\[&str\] = &\[[^\]]*\];", r"\n\s*let question_timer = DNS_[A-Z_]+[^;]*;",
            r"\n\s*let duration_seconds = question_timer\.stop_and_record\(\);"]
    for p in pats:
        txt, k = re.subn(p, lambda m: "\n" * m.group(0).count("\n"), txt)
        n += k
    return txt, n


def build(G):
    begin(G, preludes=("bytes.rs", "std.rs", "bytesmut.rs", "net.rs", "std_slices.rs"))
    name_types(G, tryfrom=False)
    wire_types(G, conv_props=[], conv_mode="assume")
    G.file(os.path.join(PRELUDE, "wire_spec.rs"))
    G.file(os.path.join(PRELUDE, "eq.rs"))
    G.raw(NET_STANDINS, ("spec", "socket stand-ins (R9)"))
    N = G.src(NET)
    specs = {k: dict(v) for k, v in SPECS.items()}
    io = ("R9", r"io::Error", "IoError")
    for k in ("send_udp_bytes", "send_udp_bytes_to", "send_tcp_bytes"):
        specs[k]["header_rewrites"] = [io, ("R52", r"sock: &UdpSocket", "sock: &mut UdpSocket")]
        specs[k]["rewrites"] = list(specs[k].get("rewrites", [])) + [("R28", r"if bytes\.len\(\) < 12 \{\s*panic!\(\"expected complete message\"\);\s*\}", "if bytes.len() < 12 { shim_panic_incomplete(); }")]
    G.raw("""// R28: `panic!("expected complete message")` -> a call whose precondition is `false` (the panic must be unreachable)
#[verifier::external_body]
fn shim_panic_incomplete() requires false, // [C09:server_never_panics_on_a_short_reply]
{ panic!("expected complete message"); }""")
    for k in ("send_udp_bytes", "send_udp_bytes_to", "send_tcp_bytes"):
        G.top_fn(N, k, specs)
    G.item(N, "enum", "TcpError", drop_derive=("Debug",), rewrites=[io])
    G.top_fn(N, "read_tcp_bytes", specs)
    # main.rs
    M, T, U, D = G.src(MAIN), G.src(TYPES), G.src(UTYPES), G.src(DESER)
    G.item(D, "enum", "Error")
    for (k, n) in (("enum", "ProtocolMode"),):
        G.item(U, k, n)
    for (k, n) in (("enum", "ResolvedRecord"), ("enum", "ResolutionError")):
        G.item(U, k, n, drop_derive=("Clone",))
    G.raw(MAIN_STANDINS, ("spec", "main.rs stand-ins"))
    ms = {k: dict(v) for k, v in MAIN_SPECS.items()}
    ms["resolve_and_build_response"]["rewrites"] = [("R29", _r29),
        ("R27", r'"ok"\.to_string\(\)', "shim_log_ok()"), ("R27", r'format!\("error: \{err\}"\)', "shim_log_err(&err)")]
    ms["handle_raw_message"]["rewrites"] = [("R16", r"err\.id\(\)\.map\(Message::make_format_error_response\)", "match err.id() { Some(id) => Some(Message::make_format_error_response(id)), None => None }")]
    G.impl(T, "Message", ["make_response", "make_format_error_response"], "Message::", ms)
    G.impl(T, "Question", ["is_unknown"], "Question::", ms)
    G.impl(T, "QueryType", ["is_unknown"], "QueryType::", ms)
    G.impl(T, "QueryClass", ["is_unknown"], "QueryClass::", ms)
    G.impl(T, "RecordType", ["is_unknown"], "RecordType::", ms)
    G.impl(T, "RecordClass", ["is_unknown"], "RecordClass::", ms)
    G.impl(D, "Error", ["id"], "Error::", ms)
    G.impl(D, "Message", ["from_octets"], "Message::", ms)
    G.top_fn(M, "triage", ms)
    G.top_fn(M, "resolve_and_build_response", ms)
    G.top_fn(M, "handle_raw_message", ms)
    ms["tcp_connection__"]["rewrites"] = [("R29", _r29), ("R29", r"\n\s*let response_timer = DNS_[A-Z_]+[^;]*;", "\n\n\n"), ("R29", r"\n\s*response_timer\.observe_duration\(\);", "\n"),
        ("R16", r"id\.map\(Message::make_format_error_response\)", "match id { Some(id) => Some(Message::make_format_error_response(id)), None => None }")]
    # R45 / R53: the select! arm that receives a datagram; the task it spawns is read as the arm's result (what the task is given)
    def _r53(txt):
        k = txt.find("tokio::spawn(async move {")
        if k < 0:
            return txt, 0
        depth, j = 0, txt.index("{", k)
        for j in range(j, len(txt)):
            depth += txt[j] == "{"
            depth -= txt[j] == "}"
            if depth == 0:
                break
        e = txt.index(";", j) + 1
        return txt[:k] + "\n" * txt[k:e].count("\n") + "Some((args, bytes, reply, peer))" + txt[e:], 1
    ms["udp_received__"]["rewrites"] = [("R29", _r29), ("R42", r"BytesMut::from\((&\w+\[[^\]]*\])\)", r"shim_bytesmut_from_slice(\1)"), ("R53", _r53),
        # R53: the arm sits in `loop { select! { .. } }`: a `continue` in it means that no task is spawned for this datagram
        ("R53", r"\bcontinue;", "return None;")]
    G.block_fn(M, "listen_udp_task", r"Ok\(\(size, peer\)\) = socket\.recv_from\(&mut buf\) => \{", "fn udp_received__(args: ListenArgs, buf: Vec<u8>, size: usize, peer: SocketAddr, tx: ReplySender) -> Option<(ListenArgs, BytesMut, ReplySender, SocketAddr)>", "udp_received__", ms)
    # R45: the block listen_udp_task hands to tokio::spawn for each datagram
    ms["udp_request__"]["rewrites"] = [("R29", r"let response_timer = DNS_RESPONSE_TIME_SECONDS\s*\.with_label_values\(&\[\"udp\"\]\)\s*\.start_timer\(\);", lambda m: "let response_timer = shim_start_timer();" + "\n" * m.group(0).count("\n")),
        ("R30", r"=> tracing::\w+!\((?:[^()]|\([^()]*\))*\)", "=> ()")]
    G.block_fn(M, "listen_udp_task", r"tokio::spawn\(async move \{", "async fn udp_request__(args: ListenArgs, bytes: BytesMut, reply__: ReplySender, peer: SocketAddr) -> ReplySender", "udp_request__", ms, tail="reply ")
    # R45: the arm of listen_udp_task's select! that sends a finished reply, read as a function over what it captures
    ms["udp_reply__"]["rewrites"] = [("R29", _r29), ("R29", r"\n\s*response_timer\.observe_duration\(\);", "\n"),
        ("R52", r"send_udp_bytes_to\(&socket,", "send_udp_bytes_to(&mut socket,")]
    G.block_fn(M, "listen_udp_task", r"Some\(\(message, peer, response_timer\)\) = rx\.recv\(\) => \{", "async fn udp_reply__(sock__: UdpSocket, message: Message, peer: SocketAddr) -> UdpSocket", "udp_reply__", ms, tail="socket ")
    # R45: the block listen_tcp_task hands to tokio::spawn for each accepted connection, read as a function over what it captures
    G.block_fn(M, "listen_tcp_task", r"tokio::spawn\(async move \{", "async fn tcp_connection__(args: ListenArgs, conn__: TcpStream, peer: SocketAddr) -> TcpStream", "tcp_connection__", ms, tail="stream ")
    end(G)


CANARIES = [
    {"name": "resolver_given_a_fixed_port", "file": MAIN, "old": "                args.upstream_dns_port,\n                args.forward_address,", "new": "                53,\n                args.forward_address,"},
    {"name": "referral_ns_records_in_the_answer_section", "file": MAIN, "old": "                            response.authority.append(&mut ns_rrs);", "new": "                            response.answers.append(&mut ns_rrs);"},
    {"name": "udp_cut_at_513", "file": NET, "old": "        sock.send_to(&bytes[..512], target).await?;", "new": "        sock.send_to(&bytes[..513], target).await?;"},
    {"name": "udp_tc_not_cleared", "file": NET, "old": "        bytes[2] &= 0b1111_1101;\n        sock.send_to(bytes, target).await?;", "new": "        sock.send_to(bytes, target).await?;"},
    {"name": "udp_tc_wrong_bit", "file": NET, "old": "        bytes[2] |= 0b0000_0010;\n        sock.send_to(&bytes[..512], target).await?;", "new": "        bytes[2] |= 0b0000_0100;\n        sock.send_to(&bytes[..512], target).await?;"},
    {"name": "tcp_prefix_little_endian", "file": NET, "old": "stream.write_all(&len.to_be_bytes()).await?;", "new": "let swapped = (len % 256) * 256 + len / 256;\n    stream.write_all(&swapped.to_be_bytes()).await?;"},
    {"name": "tcp_body_before_prefix", "file": NET, "old": "    stream.write_all(&len.to_be_bytes()).await?;\n    stream.write_all(&bytes[..(len as usize)]).await?;", "new": "    stream.write_all(&bytes[..(len as usize)]).await?;\n    stream.write_all(&len.to_be_bytes()).await?;"},
    {"name": "reply_to_responses", "file": MAIN, "old": "            if msg.header.is_response {", "new": "            if msg.header.is_response && msg.header.is_truncated {"},
    {"name": "notimp_for_standard_too", "file": MAIN, "old": "} else if msg.header.opcode == Opcode::Standard {", "new": "} else if msg.header.opcode == Opcode::Inverse {"},
    {"name": "ra_always_set", "file": MAIN, "old": "    response.header.recursion_available = !args.authoritative_only;\n", "new": ""},
    {"name": "multiple_questions_answered", "file": MAIN, "old": "    } else {\n        Err(REFUSED_FOR_MULTIPLE_QUESTIONS)\n    }", "new": "    } else {\n        Ok(Some(&query.questions[0]))\n    }"},
    {"name": "nameerror_for_nonauth", "file": MAIN, "old": "                            if let Some(soa_rr) = soa_rr {\n                                response.authority.push(soa_rr);\n                            }", "new": "                            if let Some(soa_rr) = soa_rr {\n                                response.authority.push(soa_rr);\n                                if rrs.is_empty() { response.header.rcode = Rcode::NameError; }\n                            }"},
    {"name": "no_servfail", "file": MAIN, "old": "        response.header.rcode = Rcode::ServerFailure;\n", "new": ""},
    {"name": "formerr_wrong_id", "file": TYPES, "old": "    pub fn make_format_error_response(id: u16) -> Self {\n        Self {\n            header: Header {\n                id,", "new": "    pub fn make_format_error_response(id: u16) -> Self {\n        Self {\n            header: Header {\n                id: !id,"},
    {"name": "tcp_partial_id_needs_three_octets", "file": NET, "old": "                    Ok(0) if bytes.len() < expected => {\n                        let id = if bytes.len() >= 2 {", "new": "                    Ok(0) if bytes.len() < expected => {\n                        let id = if bytes.len() > 2 {"},
    {"name": "tcp_partial_id_little_endian", "file": NET, "old": "                    Err(err) => {\n                        let id = if bytes.len() >= 2 {\n                            Some(u16::from_be_bytes([bytes[0], bytes[1]]))", "new": "                    Err(err) => {\n                        let id = if bytes.len() >= 2 {\n                            Some(u16::from_be_bytes([bytes[1], bytes[0]]))"},
    {"name": "tcp_short_message_passed_on_as_complete", "file": NET, "old": "            while bytes.len() < expected {", "new": "            while bytes.len() + 1 < expected {"},
    {"name": "tcp_no_formerr_for_a_short_message", "file": MAIN, "old": "                                TcpError::TooShort { id, .. } => id,", "new": "                                TcpError::TooShort { .. } => None,"},
    {"name": "udp_task_given_the_whole_receive_buffer", "file": MAIN, "old": "                let bytes = BytesMut::from(&buf[..size]);", "new": "                let bytes = BytesMut::from(&buf[..]);"},
    {"name": "udp_reply_sent_twice", "file": MAIN, "old": "                        if let Err(error) = send_udp_bytes_to(&socket, peer, &mut serialised).await\n                        {", "new": "                        let _ = send_udp_bytes_to(&socket, peer, &mut serialised).await;\n                        if let Err(error) = send_udp_bytes_to(&socket, peer, &mut serialised).await\n                        {"},
    {"name": "udp_reply_only_when_short", "file": MAIN, "old": "                        if let Err(error) = send_udp_bytes_to(&socket, peer, &mut serialised).await\n                        {\n                            tracing::debug!(?peer, ?error, \"UDP send error\");\n                        }\n", "new": "                        if serialised.len() <= 512 {\n                        if let Err(error) = send_udp_bytes_to(&socket, peer, &mut serialised).await\n                        {\n                            tracing::debug!(?peer, ?error, \"UDP send error\");\n                        }\n                        }\n"},
    {"name": "udp_formerr_replies_not_queued", "file": MAIN, "old": "                        match reply.send((response_message, peer, response_timer)).await {\n                            Ok(_) => (),\n                            Err(error) => tracing::debug!(?peer, ?error, \"UDP send error\")\n                        }", "new": "                        if response_message.header.rcode != Rcode::FormatError {\n                        match reply.send((response_message, peer, response_timer)).await {\n                            Ok(_) => (),\n                            Err(error) => tracing::debug!(?peer, ?error, \"UDP send error\")\n                        }\n                        }"},
    {"name": "udp_reply_goes_to_the_connected_peer", "file": NET, "old": "        sock.send_to(bytes, target).await?;", "new": "        sock.send(bytes).await?;"},
    {"name": "tcp_reply_sent_twice", "file": MAIN, "old": "                                if let Err(error) =\n                                    send_tcp_bytes(&mut stream, &mut serialised).await\n                                {", "new": "                                let _ = send_tcp_bytes(&mut stream, &mut serialised).await;\n                                if let Err(error) =\n                                    send_tcp_bytes(&mut stream, &mut serialised).await\n                                {"},
    {"name": "queries_with_aa_set_dropped", "file": MAIN, "old": "            if msg.header.is_response {", "new": "            if msg.header.is_response || msg.header.is_authoritative {"},
    {"name": "response_drops_rd", "file": TYPES, "old": "                recursion_desired: self.header.recursion_desired,", "new": "                recursion_desired: false,"},
]
