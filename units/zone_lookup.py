"""Unit `zone_lookup` (C02): ZoneRecords::resolve, zone_result_helper, Zone::resolve, Zone::relative_domain, ZoneRecord::to_rr
against the lookup relation `lookup_ok` written from the property statement (units/zone_lookup.spec.rs)."""
from units.base import *

TRUSTED = TRUSTED_COMMON + [
    "HashMap: vstd specs + obeys_key_model for Label/RecordType (prelude/hash.rs)",
    "R15 shim_zrs_to_rrs: `zrs.iter().map(|zr| zr.to_rr(n)).collect()` yields to_rr of each element in order (body is the original expression)",
    "R17 shim_hashmap_values: `map.values()` yields each stored value exactly once (order unspecified)",
    "RecordType == / != and QueryType == / != are structural (derived PartialEq)",
]

R15 = ("R15", r"([a-z_]+)\.iter\(\)\.map\(\|zr\| zr\.to_rr\(&?([a-z_\.]+)\)\)\.collect\(\)", r"shim_zrs_to_rrs(\1, &\2)")
R16 = ("R16", r"self\.relative_domain\(name\)\s*\.map\(\|relative\| (self\.records\.resolve\(name, qtype, relative(?:, true)?\))\)",
       r"match self.relative_domain(name) { Some(relative) => Some(\1), None => None }")
R17 = ("R17", r"for zrs in records\.values\(\)", r"for zrs in it__: shim_hashmap_values(records)")

SPECS = {
    "ZoneRecord::to_rr": {"props": ["C02"], "contract": "    ensures r == to_rr_spec(*self, *name), // [C02:record_data_ttl_unchanged]"},
    "zone_result_helper": {"props": ["C02", "C10"], "rewrites": [R15, R17],
        "contract": """    requires recs_typed(records@),
    ensures terminal_ok(r, records@, *name, qtype, *nsdname, true), // [C02,C10:terminal_classification]""",
        "entry": "broadcast use vstd::std_specs::hash::group_hash_axioms, axiom_rt_key_model, axiom_qt_eq, axiom_rt_eq, axiom_qt_obeys, axiom_rt_obeys;",
        "loops": {"0": {"kw": "for", "spec": """                invariant
                    forall|j: int, i: int| #![trigger it__.seq()[j]@[i]] 0 <= j < it__.index@ && 0 <= i < it__.seq()[j]@.len() ==> rrs@.contains(to_rr_spec(it__.seq()[j]@[i], *name)),
                    forall|x: int| 0 <= x < rrs@.len() ==> exists|j: int, i: int| 0 <= j < it__.index@ && 0 <= i < it__.seq()[j]@.len() && #[trigger] rrs@[x] == to_rr_spec(#[trigger] it__.seq()[j]@[i], *name),
                    values_of(records@, it__.seq()),
                    it__.index@ == it__.seq().len() ==> any_answer_ok(rrs@, records@, *name),""",
            "entry": "let ghost before__ = rrs@; let ghost idx = it__.index@ as int;"}},
        "anchors": [{"after_re": r"rrs\.append\(&mut zrs\.iter\(\)\.map\(\|zr\| zr\.to_rr\(\w+\)\)\.collect\(\)\);", "proof": """proof {
    let add = rrs_of(zrs@, *name);
    assert(rrs@ =~= before__ + add);
    assert forall|j: int, i: int| 0 <= j < idx + 1 && 0 <= i < it__.seq()[j]@.len() implies rrs@.contains(to_rr_spec(#[trigger] it__.seq()[j]@[i], *name)) by {
        if j < idx {
            let w = choose|w: int| 0 <= w < before__.len() && before__[w] == to_rr_spec(it__.seq()[j]@[i], *name);
            assert(rrs@[w] == before__[w]);
        } else { assert(rrs@[before__.len() + i] == add[i]); }
    }
    assert forall|x: int| 0 <= x < rrs@.len() implies exists|j: int, i: int| 0 <= j < idx + 1 && 0 <= i < it__.seq()[j]@.len() && #[trigger] rrs@[x] == to_rr_spec(#[trigger] it__.seq()[j]@[i], *name) by {
        if x < before__.len() {
            assert(rrs@[x] == before__[x]);
            let (j, i) = choose|j: int, i: int| 0 <= j < idx && 0 <= i < it__.seq()[j]@.len() && #[trigger] before__[x] == to_rr_spec(#[trigger] it__.seq()[j]@[i], *name);
            assert(rrs@[x] == to_rr_spec(it__.seq()[j]@[i], *name));
        } else {
            let i = x - before__.len();
            assert(rrs@[x] == add[i]);
            assert(rrs@[x] == to_rr_spec(it__.seq()[idx]@[i], *name));
        }
    }
}
assert(idx + 1 == it__.seq().len() ==> any_answer_ok(rrs@, records@, *name)) by {
    if idx + 1 == it__.seq().len() {
        assert forall|t: RecordType, i: int| #![trigger records@[t]@[i]] records@.contains_key(t) && 0 <= i < records@[t]@.len() implies rrs@.contains(to_rr_spec(records@[t]@[i], *name)) by {
            let j = lemma_values_of_key(records@, it__.seq(), t);
            assert(it__.seq()[j]@[i] == records@[t]@[i]);
        }
        assert forall|x: int| 0 <= x < rrs@.len() implies exists|t: RecordType, i: int| records@.contains_key(t) && 0 <= i < records@[t]@.len() && #[trigger] rrs@[x] == to_rr_spec(#[trigger] records@[t]@[i], *name) by {
            let (j, i) = choose|j: int, i: int| 0 <= j < idx + 1 && 0 <= i < it__.seq()[j]@.len() && #[trigger] rrs@[x] == to_rr_spec(#[trigger] it__.seq()[j]@[i], *name);
            let t = lemma_values_of_index(records@, it__.seq(), j);
            assert(rrs@[x] == to_rr_spec(records@[t]@[i], *name));
        }
    }
}"""}],
    },
    "ZoneRecords::resolve": {"props": ["C02"], "depub": True, "rewrites": [R15],
        "contract": """    requires name.wf(), name.labels@ == relative_domain@ + self.nsdname.labels@, tree_wf(*self),
    ensures lookup_ok(r, *self, *name, qtype, relative_domain@, false), // [C02:lookup_algorithm]
    decreases relative_domain@.len(),""",
        "entry": """broadcast use vstd::std_specs::hash::group_hash_axioms, axiom_rt_key_model, axiom_label_key_model;
proof {
    lemma_tree_wf_root(*self);
    if relative_domain@.len() > 0 {
        let k = relative_domain@.len() - 1;
        let l = relative_domain@.last();
        assert(name.labels@.subrange(k as int, name.labels@.len() as int) =~= seq![l] + self.nsdname.labels@);
        lemma_suffix_wf(name.labels@, k as int);
        if self.children@.contains_key(l) {
            lemma_tree_wf_child(*self, l);
            assert(relative_domain@.subrange(0, k as int) + (seq![l] + self.nsdname.labels@) =~= relative_domain@ + self.nsdname.labels@);
            assert(relative_domain@.subrange(0, k as int) =~= relative_domain@.drop_last());
        }
    }
}""",
        "anchors": [{"after": "labels.insert(0, relative_domain[pos].clone());", "proof": "assert(labels@ =~= seq![relative_domain@[pos as int]] + self.nsdname.labels@);"}]},
    "Zone::relative_domain": {"props": ["C02"], "depub": True,
        "contract": """    ensures r is Some <==> is_suffix(self.apex.labels@, name.labels@),
        r is Some ==> r->Some_0@ == rel_labels(*name, self.apex), // [C02:apex_relative_split]
        r is Some ==> rel_labels(*name, self.apex) + self.apex.labels@ == name.labels@, // [C02:apex_relative_split]"""},
    "Zone::resolve": {"props": ["C02"], "depub": True, "rewrites": [R16],
        "contract": """    requires name.wf(), zone_wf(*self),
    ensures r is Some <==> is_suffix(self.apex.labels@, name.labels@),
        r is Some ==> lookup_ok(r->Some_0, self.records, *name, qtype, rel_labels(*name, self.apex), true), // [C02:lookup_algorithm_at_apex]
        r is Some ==> owners_ok(r->Some_0, *name), // [C02,C10:answer_records_owned_by_the_query_name]
        r is Some ==> answer_typed(r->Some_0, qtype), // [C02,C10:answer_records_have_the_asked_type]""",
        "entry": "broadcast use lemma_result_owners, lemma_result_typed;"},
}

SPEC2 = """
pub open spec fn rel_labels(name: DomainName, apex: DomainName) -> Seq<Label> { name.labels@.subrange(0, name.labels@.len() - apex.labels@.len()) }
spec fn zone_wf(z: Zone) -> bool { tree_wf(z.records) && z.records.nsdname == z.apex }
pub broadcast axiom fn axiom_qt_eq(a: QueryType, b: QueryType) ensures #[trigger] a.eq_spec(&b) == (a == b);
pub broadcast axiom fn axiom_rt_eq(a: RecordType, b: RecordType) ensures #[trigger] a.eq_spec(&b) == (a == b);
pub broadcast axiom fn axiom_qt_obeys() ensures #[trigger] <QueryType as vstd::std_specs::cmp::PartialEqSpec>::obeys_eq_spec();
pub broadcast axiom fn axiom_rt_obeys() ensures #[trigger] <RecordType as vstd::std_specs::cmp::PartialEqSpec>::obeys_eq_spec();
// R15
#[verifier::external_body]
fn shim_zrs_to_rrs(zrs: &Vec<ZoneRecord>, name: &DomainName) -> (r: Vec<ResourceRecord>)
    ensures r@ == rrs_of(zrs@, *name)
{ zrs.iter().map(|zr| zr.to_rr(name)).collect() }
"""


ZONES_SPEC_RS = """
// every configured zone is keyed by its own apex and satisfies the representation invariant (established by Zones::insert /
// insert_merge / merge in unit zone_merge)
spec fn zones_wf(zs: Zones) -> bool {
    forall|k: DomainName| #[trigger] zs.zones@.contains_key(k) ==> zs.zones@[k].apex == k && zone_wf(zs.zones@[k]) && k.wf()
}
// TRUSTED companion of the key model: equality of DomainName is equality of its labels (derived PartialEq / Hash on Vec<Label>)
pub closed spec fn same_labels(a: DomainName, b: DomainName) -> bool { a.labels@ == b.labels@ }
pub broadcast axiom fn axiom_dn_ext(a: DomainName, b: DomainName)
    requires a.wf(), b.wf(), #[trigger] same_labels(a, b)
    ensures a == b;
pub broadcast axiom fn axiom_dn_eq_structural(a: DomainName, b: DomainName)
    ensures #[trigger] a.eq_spec(&b) == (a == b);
// R40: `slice.into()` (From<&[T]> for Vec<T>: clones the elements)
#[verifier::external_body]
fn shim_labels_to_vec(s: &[Label]) -> (r: Vec<Label>) ensures r@ == s@ { s.into() }
// C01: "the most specific configured zone enclosing a name"
spec fn most_specific(zs: Zones, name: DomainName, apex: DomainName) -> bool {
    zs.zones@.contains_key(apex) && is_suffix(apex.labels@, name.labels@)
    && forall|k: DomainName| #[trigger] zs.zones@.contains_key(k) && is_suffix(k.labels@, name.labels@) ==> k.labels@.len() <= apex.labels@.len()
}
proof fn lemma_suffix_by_len(a: Seq<Label>, full: Seq<Label>)
    requires is_suffix(a, full)
    ensures a == full.subrange(full.len() - a.len(), full.len() as int)
{}
"""

ZONES_SPECS = {
    "Zones::get": {"props": ["C01", "C02"], "depub": True,
        "rewrites": [("R40", r"DomainName::from_labels\(labels\.into\(\)\)", "DomainName::from_labels(shim_labels_to_vec(labels))")],
        "contract": """    requires name.wf(), zones_wf(*self),
    ensures
        r is Some ==> most_specific(*self, *name, r->Some_0.apex) && *r->Some_0 == self.zones@[r->Some_0.apex], // [C01,C02:most_specific_enclosing_zone_is_chosen]
        r is None ==> forall|k: DomainName| #[trigger] self.zones@.contains_key(k) ==> !is_suffix(k.labels@, name.labels@), // [C01,C02:no_zone_only_when_none_encloses_the_name]""",
        "entry": "broadcast use vstd::std_specs::hash::group_hash_axioms, axiom_dn_key_model, axiom_dn_ext; proof { lemma_labels_sum_lower(name.labels@); }",
        "loops": {"0": {"kw": "for", "iter_name": "it__", "spec": """        invariant name.wf(), zones_wf(*self), name.labels@.len() <= 255,
            forall|k: DomainName| #[trigger] self.zones@.contains_key(k) && is_suffix(k.labels@, name.labels@) ==> k.labels@.len() <= name.labels@.len() - it__.index@,""",
            "entry": "broadcast use vstd::std_specs::hash::group_hash_axioms, axiom_dn_key_model, axiom_dn_ext; let ghost i__ = i as int; let ghost qn__ = *name;"}},
        "anchors": [{"after": "let labels = &name.labels[i..];", "proof": """proof {
    assert(labels@ == name.labels@.subrange(i__, name.labels@.len() as int));
    lemma_suffix_wf(name.labels@, i__);
}"""},
                    {"after": "if let Some(name) = DomainName::from_labels(labels.into()) {", "proof": """proof {
    // a zone whose apex has exactly this many labels and encloses the name is keyed by this very suffix
    assert forall|k: DomainName| #[trigger] self.zones@.contains_key(k) && is_suffix(k.labels@, qn__.labels@) && k.labels@.len() == qn__.labels@.len() - i__ implies k == name by {
        lemma_suffix_by_len(k.labels@, qn__.labels@);
        assert(same_labels(k, name));
    }
    assert(qn__.labels@.subrange(0, i__) + name.labels@ =~= qn__.labels@);
    lemma_suffix_of_concat(qn__.labels@.subrange(0, i__), name.labels@, qn__.labels@);
}"""}]},
    "Zones::resolve": {"props": ["C01", "C02", "C10"], "depub": True,
        "contract": """    requires name.wf(), zones_wf(*self),
    ensures
        r is Some ==> most_specific(*self, *name, r->Some_0.0.apex) && *r->Some_0.0 == self.zones@[r->Some_0.0.apex], // [C01,C02:most_specific_enclosing_zone_is_chosen]
        r is Some ==> lookup_ok(r->Some_0.1, r->Some_0.0.records, *name, qtype, rel_labels(*name, r->Some_0.0.apex), true), // [C02:lookup_algorithm_at_apex]
        r is Some ==> owners_ok(r->Some_0.1, *name), // [C02,C10:answer_records_owned_by_the_query_name]
        r is Some ==> answer_typed(r->Some_0.1, qtype), // [C02,C10:answer_records_have_the_asked_type]
        r is None ==> forall|k: DomainName| #[trigger] self.zones@.contains_key(k) ==> !is_suffix(k.labels@, name.labels@), // [C01,C02:no_zone_only_when_none_encloses_the_name]"""},
}


def adapt(specs, Z):
    """The lookup functions exist in two shapes: with an explicit `at_apex` / `delegable` parameter (after fix D-d) or
    without.  The contract is the same relation `lookup_ok`; only the argument naming the apex flag differs."""
    specs = {k: dict(v) for k, v in specs.items()}
    if "at_apex: bool" in Z.s and "delegable: bool" in Z.s:
        specs["zone_result_helper"]["contract"] = specs["zone_result_helper"]["contract"].replace("*nsdname, true)", "*nsdname, delegable)")
        specs["ZoneRecords::resolve"]["contract"] = specs["ZoneRecords::resolve"]["contract"].replace("relative_domain@, false)", "relative_domain@, at_apex)")
    return specs


def build(G):
    begin(G, preludes=("bytes.rs", "std.rs", "net.rs", "std_slices.rs"))
    name_types(G, tryfrom=False)
    wire_types(G, conv_props=[], conv_mode="assume")
    G.file(os.path.join(PRELUDE, "wire_spec.rs"))
    zone_types(G, with_zones=True)
    G.file(os.path.join(PRELUDE, "hash.rs"))
    G.raw(OWNERS_OK_RS, ("spec", "owners_ok"))
    G.raw(QMATCH_RS, ("spec", "qmatch"))
    G.raw(ANSWER_TYPED_RS, ("spec", "answer_typed"))
    G.file(os.path.join(VERIF, "units", "zone_lookup.spec.rs"))
    G.raw(SPEC2, ("spec", "zone_lookup spec2"))
    T, Z = G.src(TYPES), G.src(ZTYPES)
    specs = adapt(SPECS, Z)
    specs.update(as_assumed(NAME_SPECS, ["DomainName::from_labels", "DomainName::is_subdomain_of"]))
    specs["RecordType::matches"] = {"props": ["C02"], "mode": "prove", "contract": "    ensures r == (qtype == QueryType::Wildcard || qtype == QueryType::Record(*self)),",
                                    "entry": "broadcast use axiom_rt_eq, axiom_rt_obeys;"}
    G.impl(T, "DomainName", ["from_labels", "is_subdomain_of"], "DomainName::", specs)
    G.impl(T, "RecordType", ["matches"], "RecordType::", specs)
    G.impl(Z, "ZoneRecord", ["to_rr"], "ZoneRecord::", specs)
    G.top_fn(Z, "zone_result_helper", specs)
    G.impl(Z, "ZoneRecords", ["resolve"], "ZoneRecords::", specs)
    G.impl(Z, "Zone", ["relative_domain", "resolve"], "Zone::", specs)
    G.raw(ZONES_SPEC_RS, ("spec", "zones spec"))
    specs.update({k: dict(v) for k, v in ZONES_SPECS.items()})
    G.impl(Z, "Zones", ["get", "resolve"], "Zones::", specs)
    end(G)


CANARIES = [
    {"name": "least_specific_zone_first", "file": ZTYPES, "old": "        for i in 0..name.labels.len() {\n            let labels = &name.labels[i..];\n            if let Some(name) = DomainName::from_labels(labels.into()) {\n                if let Some(zone) = self.zones.get(&name) {", "new": "        for i in (0..name.labels.len()).rev() {\n            let labels = &name.labels[i..];\n            if let Some(name) = DomainName::from_labels(labels.into()) {\n                if let Some(zone) = self.zones.get(&name) {"},
    {"name": "zone_lookup_skips_the_name_itself", "file": ZTYPES, "old": "        for i in 0..name.labels.len() {\n            let labels = &name.labels[i..];\n            if let Some(name) = DomainName::from_labels(labels.into()) {\n                if let Some(zone) = self.zones.get(&name) {", "new": "        for i in 1..name.labels.len() {\n            let labels = &name.labels[i..];\n            if let Some(name) = DomainName::from_labels(labels.into()) {\n                if let Some(zone) = self.zones.get(&name) {"},
    {"name": "ns_check_eq", "file": ZTYPES, "old": "QueryType::Record(RecordType::NS) != qtype {", "new": "QueryType::Record(RecordType::NS) == qtype {"},
    {"name": "wildcard_owner", "file": ZTYPES, "old": "zone_result_helper(name, qtype, wildcards, &nsdname, true)", "new": "zone_result_helper(&nsdname, qtype, wildcards, &nsdname, true)"},
    {"name": "cname_for_any", "file": ZTYPES, "old": "if !RecordType::CNAME.matches(qtype) {", "new": "if QueryType::Record(RecordType::CNAME) != qtype {"},
    {"name": "apex_delegates_again", "file": ZTYPES, "old": "zone_result_helper(name, qtype, &self.this, &self.nsdname, !at_apex)", "new": "zone_result_helper(name, qtype, &self.this, &self.nsdname, true)"},
    {"name": "nameerror_instead_of_delegation", "file": ZTYPES, "old": "if at_apex || ns_zrs.is_empty() {", "new": "if true || ns_zrs.is_empty() {"},
    {"name": "answer_wrong_type", "file": ZTYPES, "old": "rrs: if let Some(zrs) = records.get(&rtype) {", "new": "rrs: if let Some(zrs) = records.get(&RecordType::A) {"},
]
