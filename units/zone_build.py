"""Unit `zone_build` (C02): the record-tree builders establish the representation invariant `tree_wf` that Zone::resolve
requires (unit zone_lookup takes it as a precondition)."""
from units.base import *

TRUSTED = TRUSTED_COMMON + [
    "HashMap: vstd specs + get_mut prophecy spec + key models (prelude/hash.rs)",
    "R8 shim_vec_contains (derived PartialEq structural)",
    "DomainName::from_labels: contract assumed here, proved in unit names",
]

BU = "broadcast use vstd::std_specs::hash::group_hash_axioms, axiom_rt_key_model, axiom_label_key_model, axiom_borrowed_key_updated;"

BUILD_SPEC_RS = """
// the label sequence of a valid domain name
pub open spec fn name_ok(ls: Seq<Label>) -> bool { shape_ok(ls) && all_labels_wf(ls) && labels_sum(ls) <= 255 }
spec fn zr_of(d: RecordTypeWithData, ttl: u32) -> ZoneRecord { ZoneRecord { rtype_with_data: d, ttl } }
// the record maps of one node: its own records, or its wildcard records
spec fn recs_of(n: ZoneRecords, wild: bool) -> Map<RecordType, Vec<ZoneRecord>> {
    if !wild { n.this@ } else if n.wildcards is Some { n.wildcards->Some_0@ } else { Map::empty() }
}
spec fn node_stores(n: ZoneRecords, wild: bool, d: RecordTypeWithData, ttl: u32) -> bool {
    recs_of(n, wild).contains_key(spec_rtype_of(d)) && recs_of(n, wild)[spec_rtype_of(d)]@.contains(zr_of(d, ttl))
}
// the node reached by `path` exists and files the record under its type
spec fn stored(root: ZoneRecords, wild: bool, path: Seq<Label>, d: RecordTypeWithData, ttl: u32) -> bool {
    node_at(root, path) is Some && node_stores(node_at(root, path)->Some_0, wild, d, ttl)
}
spec fn holds(root: ZoneRecords, path: Seq<Label>, d: RecordTypeWithData, ttl: u32) -> bool { stored(root, false, path, d, ttl) }
spec fn holds_wild(root: ZoneRecords, path: Seq<Label>, d: RecordTypeWithData, ttl: u32) -> bool { stored(root, true, path, d, ttl) }
// what an insertion of (d, ttl) at `target` does to what a tree stores: that record is stored, every stored record is kept, nothing else appears
#[verifier::opaque]
spec fn stores_one_more(a: ZoneRecords, b: ZoneRecords, wild: bool, target: Seq<Label>, d: RecordTypeWithData, ttl: u32) -> bool {
    &&& stored(b, wild, target, d, ttl)
    &&& forall|p: Seq<Label>, d2: RecordTypeWithData, t2: u32| #![trigger stored(b, wild, p, d2, t2)] #![trigger stored(a, wild, p, d2, t2)] stored(a, wild, p, d2, t2) ==> stored(b, wild, p, d2, t2)
    &&& forall|p: Seq<Label>, d2: RecordTypeWithData, t2: u32| #![trigger stored(b, wild, p, d2, t2)] stored(b, wild, p, d2, t2) ==> stored(a, wild, p, d2, t2) || (p =~= target && d2 == d && t2 == ttl)
    &&& forall|w: bool, p: Seq<Label>, d2: RecordTypeWithData, t2: u32| #![trigger stored(b, w, p, d2, t2)] #![trigger stored(a, w, p, d2, t2)] w != wild ==> (stored(b, w, p, d2, t2) <==> stored(a, w, p, d2, t2))
}
// a freshly made node stores nothing
proof fn lemma_new_stores_nothing(c: ZoneRecords)
    requires forall|k: Label| !c.children@.contains_key(k), c.wildcards is None, forall|t: RecordType| !c.this@.contains_key(t),
    ensures forall|w: bool, p: Seq<Label>, d: RecordTypeWithData, t: u32| !#[trigger] stored(c, w, p, d, t)
{
    assert forall|w: bool, p: Seq<Label>, d: RecordTypeWithData, t: u32| !#[trigger] stored(c, w, p, d, t) by {
        if p.len() == 0 { assert(node_at(c, p) == Some(c)); } else { assert(node_at(c, p) is None); }
    }
}
proof fn lemma_push_contains<T>(s: Seq<T>, x: T)
    ensures forall|y: T| #[trigger] s.push(x).contains(y) <==> s.contains(y) || y == x
{
    assert forall|y: T| #[trigger] s.push(x).contains(y) <==> s.contains(y) || y == x by {
        if s.contains(y) { let i = choose|i: int| 0 <= i < s.len() && s[i] == y; assert(s.push(x)[i] == y); }
        if y == x { assert(s.push(x)[s.len() as int] == x); }
        if s.push(x).contains(y) { let i = choose|i: int| 0 <= i < s.push(x).len() && s.push(x)[i] == y; if i < s.len() { assert(s[i] == y); } }
    }
}
// the record is added to (or already in) this node's own map of its kind, everything else as before
proof fn lemma_store_leaf(a: ZoneRecords, b: ZoneRecords, wild: bool, d: RecordTypeWithData, ttl: u32)
    requires b.children == a.children, // [C02:inserting_at_a_node_leaves_the_nodes_below_it_alone]
        forall|w: bool| w != wild ==> recs_of(b, w) == recs_of(a, w), // [C02:own_and_wildcard_records_are_kept_apart]
        recs_of(b, wild).contains_key(spec_rtype_of(d)), // [C02:an_inserted_record_is_filed_under_its_own_type]
        forall|t: RecordType| t != spec_rtype_of(d) ==> (#[trigger] recs_of(b, wild).contains_key(t) <==> recs_of(a, wild).contains_key(t)), // [C02:inserting_leaves_records_of_other_types_alone]
        forall|t: RecordType| t != spec_rtype_of(d) && recs_of(a, wild).contains_key(t) ==> #[trigger] recs_of(b, wild)[t] == recs_of(a, wild)[t], // [C02:inserting_leaves_records_of_other_types_alone]
        forall|zr: ZoneRecord| #[trigger] recs_of(b, wild)[spec_rtype_of(d)]@.contains(zr)
            <==> (recs_of(a, wild).contains_key(spec_rtype_of(d)) && recs_of(a, wild)[spec_rtype_of(d)]@.contains(zr)) || zr == zr_of(d, ttl), // [C02:the_records_of_the_type_are_the_old_ones_and_the_inserted_one]
    ensures stores_one_more(a, b, wild, Seq::<Label>::empty(), d, ttl)
{
    reveal(stores_one_more);
    let e = Seq::<Label>::empty();
    assert(node_at(b, e) == Some(b) && node_at(a, e) == Some(a));
    assert forall|p: Seq<Label>| p.len() > 0 implies #[trigger] node_at(b, p) == node_at(a, p) by { }
    assert forall|w: bool, p: Seq<Label>, d2: RecordTypeWithData, t2: u32| p.len() > 0 implies (#[trigger] stored(b, w, p, d2, t2) <==> stored(a, w, p, d2, t2)) by { assert(node_at(b, p) == node_at(a, p)); }
    assert forall|w: bool, p: Seq<Label>, d2: RecordTypeWithData, t2: u32| p.len() == 0 implies (#[trigger] stored(b, w, p, d2, t2) <==> node_stores(b, w, d2, t2)) && (stored(a, w, p, d2, t2) <==> node_stores(a, w, d2, t2)) by { assert(p =~= e); }
    assert(recs_of(b, wild)[spec_rtype_of(d)]@.contains(zr_of(d, ttl)));
    assert forall|d2: RecordTypeWithData, t2: u32| #[trigger] node_stores(b, wild, d2, t2) <==> node_stores(a, wild, d2, t2) || (d2 == d && t2 == ttl) by {
        if spec_rtype_of(d2) == spec_rtype_of(d) { assert(recs_of(b, wild)[spec_rtype_of(d)]@.contains(zr_of(d2, t2)) <==> (recs_of(a, wild).contains_key(spec_rtype_of(d)) && recs_of(a, wild)[spec_rtype_of(d)]@.contains(zr_of(d2, t2))) || zr_of(d2, t2) == zr_of(d, ttl)); }
    }
}
// the record is added below child `l` (c0: that child before - the old child, or a fresh node that stores nothing), everything else as before
proof fn lemma_store_child(a: ZoneRecords, b: ZoneRecords, c0: ZoneRecords, wild: bool, l: Label, rem: Seq<Label>, target: Seq<Label>, d: RecordTypeWithData, ttl: u32)
    requires b.this == a.this, b.wildcards == a.wildcards, // [C02:inserting_below_a_node_leaves_its_own_records_alone]
        target =~= rem.push(l), // [C02:a_record_is_filed_along_its_labels_from_the_right]
        b.children@.contains_key(l), // [C02:the_child_node_is_attached_under_its_label]
        stores_one_more(c0, b.children@[l], wild, rem, d, ttl), // [C02:the_child_node_stores_the_record_and_nothing_else_new]
        a.children@.contains_key(l) ==> a.children@[l] == c0,
        !a.children@.contains_key(l) ==> forall|w: bool, p: Seq<Label>, d2: RecordTypeWithData, t2: u32| !#[trigger] stored(c0, w, p, d2, t2),
        forall|k: Label| k != l ==> (#[trigger] b.children@.contains_key(k) <==> a.children@.contains_key(k)), // [C02:inserting_leaves_the_other_children_alone]
        forall|k: Label| k != l && a.children@.contains_key(k) ==> #[trigger] b.children@[k] == a.children@[k], // [C02:inserting_leaves_the_other_children_alone]
    ensures stores_one_more(a, b, wild, target, d, ttl)
{
    reveal(stores_one_more);
    let cb = b.children@[l];
    assert(target.last() == l && target.drop_last() =~= rem);
    assert(node_at(b, target) == node_at(cb, rem));
    // what either tree stores at a path, in terms of the child
    assert forall|w: bool, p: Seq<Label>, d2: RecordTypeWithData, t2: u32| true implies
        (#[trigger] stored(b, w, p, d2, t2) <==> (if p.len() == 0 { node_stores(b, w, d2, t2) } else if p.last() == l { stored(cb, w, p.drop_last(), d2, t2) } else { stored(a, w, p, d2, t2) })) by {
        if p.len() == 0 { assert(node_at(b, p) == Some(b)); }
        else if p.last() == l { assert(node_at(b, p) == node_at(cb, p.drop_last())); }
        else { assert(node_at(b, p) == node_at(a, p)); }
    }
    assert forall|w: bool, p: Seq<Label>, d2: RecordTypeWithData, t2: u32| true implies
        (#[trigger] stored(a, w, p, d2, t2) <==> (if p.len() == 0 { node_stores(a, w, d2, t2) } else if p.last() == l { stored(c0, w, p.drop_last(), d2, t2) } else { stored(a, w, p, d2, t2) })) by {
        if p.len() == 0 { assert(node_at(a, p) == Some(a)); }
        else if p.last() == l { if a.children@.contains_key(l) { assert(node_at(a, p) == node_at(c0, p.drop_last())); } else { assert(node_at(a, p) is None); } }
    }
    assert forall|w: bool, d2: RecordTypeWithData, t2: u32| node_stores(b, w, d2, t2) == node_stores(a, w, d2, t2) by { }
    assert forall|p: Seq<Label>, d2: RecordTypeWithData, t2: u32| #[trigger] stored(b, wild, p, d2, t2) implies stored(a, wild, p, d2, t2) || (p =~= target && d2 == d && t2 == ttl) by {
        if p.len() > 0 && p.last() == l && !stored(a, wild, p, d2, t2) {
            assert(stored(cb, wild, p.drop_last(), d2, t2));
            assert(p.drop_last() =~= rem);
            assert(p =~= p.drop_last().push(l));
        }
    }
}
// a tree that differs from `a` only in the subtree under child `l` (and possibly a new child `l`)
proof fn lemma_tree_wf_update(a: ZoneRecords, b: ZoneRecords, l: Label)
    requires tree_wf(a),
        b.nsdname == a.nsdname, b.this == a.this, b.wildcards == a.wildcards,
        b.children@.contains_key(l), tree_wf(b.children@[l]), b.children@[l].nsdname.labels@ == seq![l] + a.nsdname.labels@,
        forall|k: Label| k != l ==> (#[trigger] b.children@.contains_key(k) <==> a.children@.contains_key(k)),
        forall|k: Label| k != l && a.children@.contains_key(k) ==> #[trigger] b.children@[k] == a.children@[k],
    ensures tree_wf(b)
{
    assert(node_at(a, Seq::<Label>::empty()) == Some(a));
    assert(Seq::<Label>::empty() + a.nsdname.labels@ =~= a.nsdname.labels@);
    assert forall|path: Seq<Label>| (#[trigger] node_at(b, path)) is Some implies node_ok(node_at(b, path)->Some_0, path + b.nsdname.labels@) by {
        if path.len() == 0 {
            assert(path + b.nsdname.labels@ =~= b.nsdname.labels@);
        } else if path.last() == l {
            let q = path.drop_last();
            assert(node_at(b, path) == node_at(b.children@[l], q));
            assert(q + (seq![l] + a.nsdname.labels@) =~= path + b.nsdname.labels@) by { assert(q.push(l) =~= path); }
        } else {
            assert(node_at(b, path) == node_at(a, path));
        }
    }
}
proof fn lemma_tree_wf_leaf(a: ZoneRecords)
    requires node_ok(a, a.nsdname.labels@), forall|k: Label| a.children@.contains_key(k) ==> tree_wf(#[trigger] a.children@[k]) && a.children@[k].nsdname.labels@ == seq![k] + a.nsdname.labels@,
    ensures tree_wf(a)
{
    assert forall|path: Seq<Label>| (#[trigger] node_at(a, path)) is Some implies node_ok(node_at(a, path)->Some_0, path + a.nsdname.labels@) by {
        if path.len() == 0 {
            assert(path + a.nsdname.labels@ =~= a.nsdname.labels@);
        } else {
            let l = path.last(); let q = path.drop_last();
            assert(node_at(a, path) == node_at(a.children@[l], q));
            assert(q + (seq![l] + a.nsdname.labels@) =~= path + a.nsdname.labels@) by { assert(q.push(l) =~= path); }
        }
    }
}
proof fn lemma_tree_wf_children(a: ZoneRecords)
    requires tree_wf(a)
    ensures node_ok(a, a.nsdname.labels@), forall|k: Label| a.children@.contains_key(k) ==> tree_wf(#[trigger] a.children@[k]) && a.children@[k].nsdname.labels@ == seq![k] + a.nsdname.labels@,
{
    lemma_tree_wf_root(a);
    assert forall|k: Label| a.children@.contains_key(k) implies tree_wf(#[trigger] a.children@[k]) && a.children@[k].nsdname.labels@ == seq![k] + a.nsdname.labels@ by {
        lemma_tree_wf_child(a, k);
    }
}
"""

def _insert_contract(kind):
    wild = "false" if kind == "this" else "true"
    return f"""    requires tree_wf(*old(self)), name_ok(relative_domain@ + old(self).nsdname.labels@),
    ensures tree_wf(*final(self)), // [C02:builders_establish_the_tree_invariant]
        final(self).nsdname == old(self).nsdname,
        stores_one_more(*old(self), *final(self), {wild}, relative_domain@, rtype_with_data, ttl), // [C02:inserting_a_record_stores_it_under_its_name_and_type_keeps_every_stored_record_and_stores_nothing_else]
    decreases relative_domain@.len(),"""

def _entry(kind):
    return BU + """
let ghost d0 = rtype_with_data;
proof {
    lemma_tree_wf_children(*old(self));
    let a = *old(self);
    // any tree that differs from the old one only in this node's own record maps (still filed by type) is well-formed
    assert forall|b: ZoneRecords| b.nsdname == a.nsdname && b.children == a.children && recs_typed(b.this@)
        && (b.wildcards is Some ==> recs_typed(b.wildcards->Some_0@)) implies #[trigger] tree_wf(b) by { lemma_tree_wf_leaf(b); }
    if relative_domain@.len() > 0 {
        let k = relative_domain@.len() - 1;
        let l = relative_domain@.last();
        let full = relative_domain@ + self.nsdname.labels@;
        assert(full.subrange(k as int, full.len() as int) =~= seq![l] + self.nsdname.labels@);
        lemma_suffix_wf(full, k as int);
        assert(relative_domain@.subrange(0, k as int) + (seq![l] + self.nsdname.labels@) =~= full);
        assert(relative_domain@.subrange(0, k as int) =~= relative_domain@.drop_last());
        lemma_labels_sum_lower(full);
        // any tree that differs from the old one only below child `l` (whose subtree is well-formed and correctly named) is well-formed
        assert forall|b: ZoneRecords| b.nsdname == a.nsdname && b.this == a.this && b.wildcards == a.wildcards
            && b.children@.contains_key(l) && tree_wf(b.children@[l]) && b.children@[l].nsdname.labels@ == seq![l] + a.nsdname.labels@
            && (forall|k2: Label| k2 != l ==> (#[trigger] b.children@.contains_key(k2) <==> a.children@.contains_key(k2)))
            && (forall|k2: Label| k2 != l && a.children@.contains_key(k2) ==> #[trigger] b.children@[k2] == a.children@[k2])
            implies #[trigger] tree_wf(b) by { lemma_tree_wf_update(a, b, l); }
    }
}"""

def _anchors(kind):
    w = "false" if kind == "this" else "true"
    call = "child.insert(remainder, rtype_with_data, ttl);" if kind == "this" else "child.insert_wildcard(remainder, rtype_with_data, ttl);"
    leaf = (f"proof {{ let ghost olds__ = if recs_of(*old(self), {w}).contains_key(spec_rtype_of(d0)) {{ recs_of(*old(self), {w})[spec_rtype_of(d0)]@ }} else {{ Seq::<ZoneRecord>::empty() }};"
            f" lemma_push_contains(olds__, zr_of(d0, ttl)); assert(seq![zr_of(d0, ttl)] =~= Seq::<ZoneRecord>::empty().push(zr_of(d0, ttl)));"
            f" assert(relative_domain@ =~= Seq::<Label>::empty()); lemma_store_leaf(*old(self), *self, {w}, d0, ttl); }}")
    # the lemmas are called where the branches end, so that whatever a branch does is measured against the contract
    A = [{"after": "labels.insert(0, label.clone());", "proof": "assert(labels@ =~= seq![label] + self.nsdname.labels@);"},
         {"after": "return;", "at": "before", "optional": True, "proof": leaf},
         {"after_re": r"\}\s*else\s*\{\s*let label = ", "at": "before", "proof": leaf},
         {"after_re": r"\}\s*else\s*\{\s*let mut labels = ", "at": "before", "proof": f"proof {{ lemma_store_child(*old(self), *self, old(self).children@[label], {w}, label, remainder@, relative_domain@, d0, ttl); }}"},
         {"after": call, "nth": 1, "at": "before", "proof": "let ghost c0 = child; proof { lemma_new_stores_nothing(c0); }"},
         {"after_re": r"\}\s*\}\s*\}\s*$", "at": "before", "proof": f"proof {{ lemma_store_child(*old(self), *self, c0, {w}, label, remainder@, relative_domain@, d0, ttl); }}"}]
    return A


BUILD_SPECS = {
    "ZoneRecords::new": {"props": ["C02"], "depub": True, "contract": """    ensures r.nsdname == nsdname, tree_wf(r), forall|k: Label| !r.children@.contains_key(k), r.wildcards is None, forall|t: RecordType| !r.this@.contains_key(t),""",
        "entry": BU, "anchors": []},
    "ZoneRecords::insert": {"props": ["C02"], "depub": True, "attrs": "#[verifier::rlimit(100)] #[verifier::spinoff_prover]", "contract": _insert_contract("this"), "entry": _entry("this"),
        "rewrites_extra": True,
        "anchors": _anchors("this")},
    "ZoneRecords::insert_wildcard": {"props": ["C02"], "depub": True, "attrs": "#[verifier::rlimit(100)] #[verifier::spinoff_prover] // nested Option<HashMap> borrows", "contract": _insert_contract("wild"), "entry": _entry("wild"),
        "rewrites_extra": True,
        "anchors": _anchors("wild")},
}


ZONE_SPECS = {
    "Zone::new": {"props": ["C02"], "depub": True, "contract": """    requires apex.wf(),
    ensures zone_wf(r), r.apex == apex, r.soa == soa, // [C02:builders_establish_the_tree_invariant]""",
        "entry": "proof { assert(Seq::<Label>::empty() + apex.labels@ =~= apex.labels@); }"},
    "Zone::relative_domain": {"props": ["C02"], "mode": "assume", "depub": True, "contract": """    ensures r is Some <==> is_suffix(self.apex.labels@, name.labels@),
        r is Some ==> r->Some_0@ + self.apex.labels@ == name.labels@,"""},
    "Zone::actual_ttl": {"props": ["C02", "C11"], "depub": True, "rewrites": ["R2d"], "contract": """    ensures r >= ttl, self.soa is Some ==> r >= self.soa->Some_0.minimum, self.soa is None ==> r == ttl,
        self.soa is Some ==> (r == ttl || r == self.soa->Some_0.minimum), // [C02,C11:ttl_raised_to_the_soa_minimum_only]"""},
    "Zone::insert": {"props": ["C02", "C11"], "depub": True, "contract": """    requires zone_wf(*old(self)), name.wf(),
    ensures zone_wf(*final(self)), final(self).apex == old(self).apex, final(self).soa == old(self).soa, // [C02:builders_establish_the_tree_invariant]
        is_suffix(old(self).apex.labels@, name.labels@) ==> stores_one_more(old(self).records, final(self).records, false, rel_of(old(self).apex, *name), rtype_with_data, eff_ttl(old(self).soa, ttl)), // [C02,C11:a_record_put_into_a_zone_is_stored_under_its_name_with_the_ttl_raised_to_the_soa_minimum_and_nothing_else_changes]
        !is_suffix(old(self).apex.labels@, name.labels@) ==> final(self).records == old(self).records, // [C02:a_record_outside_the_zone_changes_nothing]""",
        "anchors": [{"after": "if let Some(relative_domain) = self.relative_domain(name) {", "proof": "proof { assert(relative_domain@ =~= (relative_domain@ + self.apex.labels@).subrange(0, relative_domain@.len() as int)); }"}]},
    "Zone::insert_wildcard": {"props": ["C02", "C11"], "depub": True, "contract": """    requires zone_wf(*old(self)), name.wf(),
    ensures zone_wf(*final(self)), final(self).apex == old(self).apex, final(self).soa == old(self).soa, // [C02:builders_establish_the_tree_invariant]
        is_suffix(old(self).apex.labels@, name.labels@) ==> stores_one_more(old(self).records, final(self).records, true, rel_of(old(self).apex, *name), rtype_with_data, eff_ttl(old(self).soa, ttl)), // [C02,C11:a_record_put_into_a_zone_is_stored_under_its_name_with_the_ttl_raised_to_the_soa_minimum_and_nothing_else_changes]
        !is_suffix(old(self).apex.labels@, name.labels@) ==> final(self).records == old(self).records, // [C02:a_record_outside_the_zone_changes_nothing]""",
        "anchors": [{"after": "if let Some(relative_domain) = self.relative_domain(name) {", "proof": "proof { assert(relative_domain@ =~= (relative_domain@ + self.apex.labels@).subrange(0, relative_domain@.len() as int)); }"}]},
}


def build(G):
    begin(G, preludes=("bytes.rs", "std.rs", "net.rs", "std_slices.rs"))
    name_types(G, tryfrom=False)
    wire_types(G, conv_props=[], conv_mode="assume")
    G.file(os.path.join(PRELUDE, "wire_spec.rs"))
    zone_types(G, with_zones=False)
    G.file(os.path.join(PRELUDE, "hash.rs"))
    G.raw(OWNERS_OK_RS, ("spec", "owners_ok"))
    G.raw(QMATCH_RS, ("spec", "qmatch"))
    G.raw(ANSWER_TYPED_RS, ("spec", "answer_typed"))
    G.file(os.path.join(VERIF, "units", "zone_lookup.spec.rs"))
    G.raw(BUILD_SPEC_RS, ("spec", "zone_build spec"))
    T, Z = G.src(TYPES), G.src(ZTYPES)
    specs = {}
    r8 = ("R8", r"entries\.iter\(\)\.any\(\|e\| e == &new\)|entries\.contains\(&new\)", "shim_vec_contains(entries, &new)")
    for k, v in BUILD_SPECS.items():
        v = dict(v)
        if v.pop("rewrites_extra", None):
            v["rewrites"] = [r8]
        specs[k] = v
    specs.update(as_assumed(NAME_SPECS, ["DomainName::from_labels"]))
    specs["RecordTypeWithData::rtype"] = {"mode": "assume", "props": [], "contract": "    ensures r == spec_rtype_of(*self),"}
    G.impl(T, "DomainName", ["from_labels"], "DomainName::", specs)
    G.impl(T, "RecordTypeWithData", ["rtype"], "RecordTypeWithData::", specs)
    G.impl(Z, "ZoneRecords", ["new", "insert", "insert_wildcard"], "ZoneRecords::", specs)
    G.raw("""spec fn zone_wf(z: Zone) -> bool { tree_wf(z.records) && z.records.nsdname == z.apex }
// the part of a name below the apex
spec fn rel_of(apex: DomainName, name: DomainName) -> Seq<Label> { name.labels@.subrange(0, name.labels@.len() - apex.labels@.len()) }
// the TTL a record is stored with: raised to the SOA minimum of an authoritative zone
spec fn eff_ttl(soa: Option<SOA>, ttl: u32) -> u32 { if soa is Some && soa->Some_0.minimum > ttl { soa->Some_0.minimum } else { ttl } }""")
    specs.update({k: dict(v) for k, v in ZONE_SPECS.items()})
    specs["SOA::to_rr"] = {"mode": "plain"}
    specs["SOA::to_rdata"] = {"mode": "plain"}
    G.impl(Z, "SOA", ["to_rr", "to_rdata"], "SOA::", specs)
    G.impl(Z, "Zone", ["new", "relative_domain", "actual_ttl", "insert", "insert_wildcard"], "Zone::", specs)
    end(G)


CANARIES = [
    {"name": "record_with_another_ttl_taken_for_a_duplicate", "file": ZTYPES, "old": "                if entries.iter().any(|e| e == &new) {\n                    return;\n                }\n\n                entries.push(new);\n            } else {\n                self.this.insert", "new": "                if entries.iter().any(|e| e.rtype_with_data == new.rtype_with_data) {\n                    return;\n                }\n\n                entries.push(new);\n            } else {\n                self.this.insert"},
    {"name": "inserted_ttl_not_raised_to_soa_minimum", "file": ZTYPES, "old": "                .insert(relative_domain, rtype_with_data, self.actual_ttl(ttl));", "new": "                .insert(relative_domain, rtype_with_data, ttl);"},
    {"name": "new_child_node_not_attached", "file": ZTYPES, "old": "                child.insert(remainder, rtype_with_data, ttl);\n                self.children.insert(label, child);", "new": "                child.insert(remainder, rtype_with_data, ttl);"},
    {"name": "first_wildcard_record_replaces_own_records", "file": ZTYPES, "old": "                self.wildcards = Some(wildcards);", "new": "                self.wildcards = Some(wildcards);\n                self.this.clear();"},
    {"name": "filed_under_wrong_type", "file": ZTYPES, "old": "                self.this.insert(rtype, vec![new]);", "new": "                self.this.insert(RecordType::A, vec![new]);"},
    {"name": "child_looked_up_by_leftmost_label", "file": ZTYPES, "old": "            let label = relative_domain[relative_domain.len() - 1].clone();\n            let remainder = &relative_domain[0..relative_domain.len() - 1];\n            if let Some(child) = self.children.get_mut(&label) {\n                child.insert(remainder", "new": "            let label = relative_domain[0].clone();\n            let remainder = &relative_domain[0..relative_domain.len() - 1];\n            if let Some(child) = self.children.get_mut(&label) {\n                child.insert(remainder"},
    {"name": "wildcard_child_filed_under_other_label", "file": ZTYPES, "old": "                child.insert_wildcard(remainder, rtype_with_data, ttl);\n                self.children.insert(label, child);", "new": "                child.insert_wildcard(remainder, rtype_with_data, ttl);\n                self.children.insert(relative_domain[0].clone(), child);"},
]
