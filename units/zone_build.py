"""Unit `zone_build` (C02): the record-tree builders establish the representation invariant `tree_wf` that Zone::resolve
requires (unit zone_lookup takes it as a precondition)."""
from units.base import *

TRUSTED = TRUSTED_COMMON + [
    "HashMap: vstd specs + get_mut prophecy spec + key models (prelude/hash.rs)",
    "R8 shim_vec_contains (derived PartialEq structural)",
    "DomainName::from_labels: contract assumed here, proved in unit names",
]

BU = "broadcast use vstd::std_specs::hash::group_hash_axioms, axiom_rt_key_model, axiom_label_key_model, axiom_borrowed_key_updated;"

BUILD_SPEC_RS = """
// the label sequence of a valid domain name
pub open spec fn name_ok(ls: Seq<Label>) -> bool { shape_ok(ls) && all_labels_wf(ls) && labels_sum(ls) <= 255 }
spec fn zr_of(d: RecordTypeWithData, ttl: u32) -> ZoneRecord { ZoneRecord { rtype_with_data: d, ttl } }
// the node reached by `path` exists and files the record under its type
spec fn holds(root: ZoneRecords, path: Seq<Label>, d: RecordTypeWithData, ttl: u32) -> bool {
    node_at(root, path) is Some && node_at(root, path)->Some_0.this@.contains_key(spec_rtype_of(d))
    && node_at(root, path)->Some_0.this@[spec_rtype_of(d)]@.contains(zr_of(d, ttl))
}
spec fn holds_wild(root: ZoneRecords, path: Seq<Label>, d: RecordTypeWithData, ttl: u32) -> bool {
    node_at(root, path) is Some && node_at(root, path)->Some_0.wildcards is Some
    && node_at(root, path)->Some_0.wildcards->Some_0@.contains_key(spec_rtype_of(d))
    && node_at(root, path)->Some_0.wildcards->Some_0@[spec_rtype_of(d)]@.contains(zr_of(d, ttl))
}
// a tree that differs from `a` only in the subtree under child `l` (and possibly a new child `l`)
proof fn lemma_tree_wf_update(a: ZoneRecords, b: ZoneRecords, l: Label)
    requires tree_wf(a),
        b.nsdname == a.nsdname, b.this == a.this, b.wildcards == a.wildcards,
        b.children@.contains_key(l), tree_wf(b.children@[l]), b.children@[l].nsdname.labels@ == seq![l] + a.nsdname.labels@,
        forall|k: Label| k != l ==> (#[trigger] b.children@.contains_key(k) <==> a.children@.contains_key(k)),
        forall|k: Label| k != l && a.children@.contains_key(k) ==> #[trigger] b.children@[k] == a.children@[k],
    ensures tree_wf(b)
{
    assert(node_at(a, Seq::<Label>::empty()) == Some(a));
    assert(Seq::<Label>::empty() + a.nsdname.labels@ =~= a.nsdname.labels@);
    assert forall|path: Seq<Label>| (#[trigger] node_at(b, path)) is Some implies node_ok(node_at(b, path)->Some_0, path + b.nsdname.labels@) by {
        if path.len() == 0 {
            assert(path + b.nsdname.labels@ =~= b.nsdname.labels@);
        } else if path.last() == l {
            let q = path.drop_last();
            assert(node_at(b, path) == node_at(b.children@[l], q));
            assert(q + (seq![l] + a.nsdname.labels@) =~= path + b.nsdname.labels@) by { assert(q.push(l) =~= path); }
        } else {
            assert(node_at(b, path) == node_at(a, path));
        }
    }
}
proof fn lemma_tree_wf_leaf(a: ZoneRecords)
    requires node_ok(a, a.nsdname.labels@), forall|k: Label| a.children@.contains_key(k) ==> tree_wf(#[trigger] a.children@[k]) && a.children@[k].nsdname.labels@ == seq![k] + a.nsdname.labels@,
    ensures tree_wf(a)
{
    assert forall|path: Seq<Label>| (#[trigger] node_at(a, path)) is Some implies node_ok(node_at(a, path)->Some_0, path + a.nsdname.labels@) by {
        if path.len() == 0 {
            assert(path + a.nsdname.labels@ =~= a.nsdname.labels@);
        } else {
            let l = path.last(); let q = path.drop_last();
            assert(node_at(a, path) == node_at(a.children@[l], q));
            assert(q + (seq![l] + a.nsdname.labels@) =~= path + a.nsdname.labels@) by { assert(q.push(l) =~= path); }
        }
    }
}
proof fn lemma_tree_wf_children(a: ZoneRecords)
    requires tree_wf(a)
    ensures node_ok(a, a.nsdname.labels@), forall|k: Label| a.children@.contains_key(k) ==> tree_wf(#[trigger] a.children@[k]) && a.children@[k].nsdname.labels@ == seq![k] + a.nsdname.labels@,
{
    lemma_tree_wf_root(a);
    assert forall|k: Label| a.children@.contains_key(k) implies tree_wf(#[trigger] a.children@[k]) && a.children@[k].nsdname.labels@ == seq![k] + a.nsdname.labels@ by {
        lemma_tree_wf_child(a, k);
    }
}
"""

INSERT_CONTRACT = """    requires tree_wf(*old(self)), name_ok(relative_domain@ + old(self).nsdname.labels@),
    ensures tree_wf(*final(self)), // [C02:builders_establish_the_tree_invariant]
        final(self).nsdname == old(self).nsdname,
    decreases relative_domain@.len(),"""

def _entry(kind):
    return BU + """
let ghost d0 = rtype_with_data;
proof {
    lemma_tree_wf_children(*old(self));
    let a = *old(self);
    // any tree that differs from the old one only in this node's own record maps (still filed by type) is well-formed
    assert forall|b: ZoneRecords| b.nsdname == a.nsdname && b.children == a.children && recs_typed(b.this@)
        && (b.wildcards is Some ==> recs_typed(b.wildcards->Some_0@)) implies #[trigger] tree_wf(b) by { lemma_tree_wf_leaf(b); }
    if relative_domain@.len() > 0 {
        let k = relative_domain@.len() - 1;
        let l = relative_domain@.last();
        let full = relative_domain@ + self.nsdname.labels@;
        assert(full.subrange(k as int, full.len() as int) =~= seq![l] + self.nsdname.labels@);
        lemma_suffix_wf(full, k as int);
        assert(relative_domain@.subrange(0, k as int) + (seq![l] + self.nsdname.labels@) =~= full);
        assert(relative_domain@.subrange(0, k as int) =~= relative_domain@.drop_last());
        lemma_labels_sum_lower(full);
        // any tree that differs from the old one only below child `l` (whose subtree is well-formed and correctly named) is well-formed
        assert forall|b: ZoneRecords| b.nsdname == a.nsdname && b.this == a.this && b.wildcards == a.wildcards
            && b.children@.contains_key(l) && tree_wf(b.children@[l]) && b.children@[l].nsdname.labels@ == seq![l] + a.nsdname.labels@
            && (forall|k2: Label| k2 != l ==> (#[trigger] b.children@.contains_key(k2) <==> a.children@.contains_key(k2)))
            && (forall|k2: Label| k2 != l && a.children@.contains_key(k2) ==> #[trigger] b.children@[k2] == a.children@[k2])
            implies #[trigger] tree_wf(b) by { lemma_tree_wf_update(a, b, l); }
    }
}"""

BUILD_SPECS = {
    "ZoneRecords::new": {"props": ["C02"], "depub": True, "contract": """    ensures r.nsdname == nsdname, tree_wf(r), forall|k: Label| !r.children@.contains_key(k), r.wildcards is None, forall|t: RecordType| !r.this@.contains_key(t),""",
        "entry": BU, "anchors": []},
    "ZoneRecords::insert": {"props": ["C02"], "depub": True, "contract": INSERT_CONTRACT, "entry": _entry("this"),
        "rewrites_extra": True,
        "anchors": [{"after": "labels.insert(0, label.clone());", "proof": "assert(labels@ =~= seq![label] + self.nsdname.labels@);"}]},
    "ZoneRecords::insert_wildcard": {"props": ["C02"], "depub": True, "contract": INSERT_CONTRACT, "entry": _entry("wild"),
        "rewrites_extra": True,
        "anchors": [{"after": "labels.insert(0, label.clone());", "proof": "assert(labels@ =~= seq![label] + self.nsdname.labels@);"}]},
}


ZONE_SPECS = {
    "Zone::new": {"props": ["C02"], "depub": True, "contract": """    requires apex.wf(),
    ensures zone_wf(r), r.apex == apex, r.soa == soa, // [C02:builders_establish_the_tree_invariant]""",
        "entry": "proof { assert(Seq::<Label>::empty() + apex.labels@ =~= apex.labels@); }"},
    "Zone::relative_domain": {"props": ["C02"], "mode": "assume", "depub": True, "contract": """    ensures r is Some <==> is_suffix(self.apex.labels@, name.labels@),
        r is Some ==> r->Some_0@ + self.apex.labels@ == name.labels@,"""},
    "Zone::actual_ttl": {"props": ["C02"], "depub": True, "rewrites": ["R2d"], "contract": """    ensures r >= ttl, self.soa is Some ==> r >= self.soa->Some_0.minimum, self.soa is None ==> r == ttl,
        self.soa is Some ==> (r == ttl || r == self.soa->Some_0.minimum), // [C02:ttl_raised_to_the_soa_minimum_only]"""},
    "Zone::insert": {"props": ["C02"], "depub": True, "contract": """    requires zone_wf(*old(self)), name.wf(),
    ensures zone_wf(*final(self)), final(self).apex == old(self).apex, final(self).soa == old(self).soa, // [C02:builders_establish_the_tree_invariant]"""},
    "Zone::insert_wildcard": {"props": ["C02"], "depub": True, "contract": """    requires zone_wf(*old(self)), name.wf(),
    ensures zone_wf(*final(self)), final(self).apex == old(self).apex, final(self).soa == old(self).soa, // [C02:builders_establish_the_tree_invariant]"""},
}


def build(G):
    begin(G, preludes=("bytes.rs", "std.rs", "net.rs", "std_slices.rs"))
    name_types(G, tryfrom=False)
    wire_types(G, conv_props=[], conv_mode="assume")
    G.file(os.path.join(PRELUDE, "wire_spec.rs"))
    zone_types(G, with_zones=False)
    G.file(os.path.join(PRELUDE, "hash.rs"))
    G.raw(OWNERS_OK_RS, ("spec", "owners_ok"))
    G.raw(QMATCH_RS, ("spec", "qmatch"))
    G.raw(ANSWER_TYPED_RS, ("spec", "answer_typed"))
    G.file(os.path.join(VERIF, "units", "zone_lookup.spec.rs"))
    G.raw(BUILD_SPEC_RS, ("spec", "zone_build spec"))
    T, Z = G.src(TYPES), G.src(ZTYPES)
    specs = {}
    r8 = ("R8", r"if entries\.iter\(\)\.any\(\|e\| e == &new\) \{", "if shim_vec_contains(entries, &new) {")
    for k, v in BUILD_SPECS.items():
        v = dict(v)
        if v.pop("rewrites_extra", None):
            v["rewrites"] = [r8]
        specs[k] = v
    specs.update(as_assumed(NAME_SPECS, ["DomainName::from_labels"]))
    specs["RecordTypeWithData::rtype"] = {"mode": "assume", "props": [], "contract": "    ensures r == spec_rtype_of(*self),"}
    G.impl(T, "DomainName", ["from_labels"], "DomainName::", specs)
    G.impl(T, "RecordTypeWithData", ["rtype"], "RecordTypeWithData::", specs)
    G.impl(Z, "ZoneRecords", ["new", "insert", "insert_wildcard"], "ZoneRecords::", specs)
    G.raw("spec fn zone_wf(z: Zone) -> bool { tree_wf(z.records) && z.records.nsdname == z.apex }")
    specs.update({k: dict(v) for k, v in ZONE_SPECS.items()})
    specs["SOA::to_rr"] = {"mode": "plain"}
    specs["SOA::to_rdata"] = {"mode": "plain"}
    G.impl(Z, "SOA", ["to_rr", "to_rdata"], "SOA::", specs)
    G.impl(Z, "Zone", ["new", "relative_domain", "actual_ttl", "insert", "insert_wildcard"], "Zone::", specs)
    end(G)


CANARIES = [
    {"name": "filed_under_wrong_type", "file": ZTYPES, "old": "                self.this.insert(rtype, vec![new]);", "new": "                self.this.insert(RecordType::A, vec![new]);"},
    {"name": "child_looked_up_by_leftmost_label", "file": ZTYPES, "old": "            let label = relative_domain[relative_domain.len() - 1].clone();\n            let remainder = &relative_domain[0..relative_domain.len() - 1];\n            if let Some(child) = self.children.get_mut(&label) {\n                child.insert(remainder", "new": "            let label = relative_domain[0].clone();\n            let remainder = &relative_domain[0..relative_domain.len() - 1];\n            if let Some(child) = self.children.get_mut(&label) {\n                child.insert(remainder"},
    {"name": "wildcard_child_filed_under_other_label", "file": ZTYPES, "old": "                child.insert_wildcard(remainder, rtype_with_data, ttl);\n                self.children.insert(label, child);", "new": "                child.insert_wildcard(remainder, rtype_with_data, ttl);\n                self.children.insert(relative_domain[0].clone(), child);"},
]
