"""Unit `names_text` (C16, the text clause): `DomainName::from_dotted_string` (protocol/types.rs) against what dotted text denotes -
the pieces between the dots, lower-cased, as labels; `.` alone is the root - and, over that contract and `to_dotted_string`'s (unit
zone_names), the lemma the property states: a name made of ASCII labels without dots, written as dotted text, reads back as the same
labels.  `str::split('.')` is modelled by `split_dot`, a function over the characters (trusted to be what std computes)."""
from units.base import *
import re

TRUSTED = TRUSTED_COMMON + [
    "R33: `s.split('.').collect::<Vec<_>>()` yields the pieces `split_dot(s)` (the maximal dot-free runs, in order; n dots give n + 1 pieces) - std's str::split, trusted; `s == \".\"`, `is_empty`, `as_bytes` (for ASCII text the octets are the characters) as shims over the character sequence",
    "R34: `for (i, x) in v.iter().enumerate()` written as an index loop; R35: `bytes.try_into()` as `Label::try_from(bytes)`",
    "Label::try_from, DomainName::from_labels, root_domain: contracts assumed here, proved in unit names",
]

STANDINS = """
pub open spec fn ascii(c: char) -> bool { (c as u32) <= 127 }
pub open spec fn all_ascii(s: Seq<char>) -> bool { forall|i: int| 0 <= i < s.len() ==> ascii(#[trigger] s[i]) }
pub open spec fn as_octets(s: Seq<char>) -> Seq<u8> { Seq::new(s.len(), |i: int| s[i] as u8) }
pub open spec fn lower_seq(s: Seq<u8>) -> Seq<u8> { Seq::new(s.len(), |i: int| lower(s[i])) }
pub open spec fn vals(ls: Seq<Label>) -> Seq<Seq<u8>> { Seq::new(ls.len(), |i: int| ls[i].v()) }
pub open spec fn vsum(vs: Seq<Seq<u8>>) -> nat decreases vs.len() { if vs.len() == 0 { 0 } else { vsum(vs.drop_last()) + 1 + vs.last().len() } }
pub proof fn lemma_vsum_vals(ls: Seq<Label>)
    ensures vsum(vals(ls)) == labels_sum(ls)
    decreases ls.len()
{
    if ls.len() > 0 { assert(vals(ls).drop_last() =~= vals(ls.drop_last())); lemma_vsum_vals(ls.drop_last()); }
}
// the pieces of a text between its dots
pub open spec fn split_dot(s: Seq<char>) -> Seq<Seq<char>> decreases s.len() {
    if s.len() == 0 { seq![Seq::<char>::empty()] }
    else if s.last() == '.' { split_dot(s.drop_last()).push(Seq::<char>::empty()) }
    else { let p = split_dot(s.drop_last()); p.update(p.len() - 1, p.last().push(s.last())) }
}
pub proof fn lemma_split_nonempty(s: Seq<char>)
    ensures split_dot(s).len() >= 1
    decreases s.len()
{ if s.len() > 0 { lemma_split_nonempty(s.drop_last()); } }
#[verifier::external_body] fn shim_str_eq(a: &str, b: &str) -> (r: bool) ensures r == (a@ == b@) { a == b }
#[verifier::external_body] fn shim_split_dots<'a>(s: &'a str) -> (r: Vec<&'a str>)
    ensures r@.len() == split_dot(s@).len(), forall|i: int| 0 <= i < r@.len() ==> (#[trigger] r@[i])@ == split_dot(s@)[i], all_ascii(s@) ==> forall|i: int| 0 <= i < r@.len() ==> all_ascii((#[trigger] r@[i])@),
{ s.split('.').collect::<Vec<_>>() }
#[verifier::external_body] fn shim_str_is_empty(s: &str) -> (r: bool) ensures r == (s@.len() == 0) { s.is_empty() }
#[verifier::external_body] fn shim_str_as_bytes<'a>(s: &'a str) -> (r: &'a [u8]) ensures all_ascii(s@) ==> r@ == as_octets(s@) { s.as_bytes() }
#[verifier::external_body] fn shim_ends_with_dot(s: &str) -> (r: bool) ensures r == (s@.len() > 0 && s@.last() == '.') { s.to_string().ends_with('.') }
#[verifier::external_body] fn shim_starts_with_dot(s: &str) -> (r: bool) ensures r == (s@.len() > 0 && s@[0] == '.') { s.starts_with('.') }
// R36: format!("{a}{b}") / format!("{a}.{b}") of two strings: their concatenation (with a dot between)
#[verifier::external_body] fn shim_concat(a: &str, b: &str) -> (r: String) ensures r@ == a@ + b@ { format!("{a}{b}") }
#[verifier::external_body] fn shim_concat_dot(a: &str, b: &str) -> (r: String) ensures r@ == a@ + seq!['.'] + b@ { format!("{a}.{b}") }
pub broadcast proof fn lemma_root_vals(n: DomainName)
    requires n.wf(), n.labels@.len() == 1
    ensures #[trigger] vals(n.labels@) == seq![Seq::<u8>::empty()]
{
    assert(n.labels@[0].v() =~= Seq::<u8>::empty());
    assert(vals(n.labels@) =~= seq![Seq::<u8>::empty()]);
}
pub broadcast axiom fn axiom_label_vec_len(v: Vec<Label>)
    ensures #[trigger] v@.len() <= 0x03ff_ffff_ffff_ffff;
pub open spec fn lchars(l: Label) -> Seq<char> { Seq::new(l.v().len(), |i: int| l.v()[i] as char) }
pub open spec fn joined(ls: Seq<Label>) -> Seq<char> decreases ls.len() {
    if ls.len() == 0 { Seq::<char>::empty() } else if ls.len() == 1 { lchars(ls[0]) } else { joined(ls.drop_last()) + seq!['.'] + lchars(ls.last()) }
}
pub open spec fn is_root_labels(ls: Seq<Label>) -> bool { ls.len() == 1 && ls[0].v().len() == 0 }
pub open spec fn dotted(ls: Seq<Label>) -> Seq<char> { if is_root_labels(ls) { seq!['.'] } else { joined(ls) } }
pub open spec fn is_root_spec(n: DomainName) -> bool { n.len == 1 && n.labels@[0].v().len() == 0 }
pub open spec fn dotted_of(n: DomainName) -> Seq<char> { if is_root_spec(n) { seq!['.'] } else { joined(n.labels@) } }
// the text a relative name stands for: itself if it ends with a dot, else the origin's dotted form appended after a dot
pub open spec fn rel_text(origin: DomainName, s: Seq<char>) -> Seq<char> {
    if s.last() == '.' { s } else if dotted_of(origin).len() > 0 && dotted_of(origin)[0] == '.' { s + dotted_of(origin) } else { s + seq!['.'] + dotted_of(origin) }
}
// ---- what dotted text denotes: `.` is the root; otherwise the pieces between the dots, lower-cased, are the labels - none but the
// last may be empty, the last must be (the text ends with a dot), none longer than 63 octets, 255 octets in all
pub open spec fn piece_label(c: Seq<char>) -> Seq<u8> { lower_seq(as_octets(c)) }
pub open spec fn pieces_ok(cs: Seq<Seq<char>>) -> bool {
    &&& cs.len() >= 1 && cs.last().len() == 0
    &&& forall|i: int| 0 <= i < cs.len() - 1 ==> (#[trigger] cs[i]).len() > 0
    &&& forall|i: int| 0 <= i < cs.len() ==> (#[trigger] cs[i]).len() <= 63
}
pub open spec fn text_name(s: Seq<char>) -> Option<Seq<Seq<u8>>> {
    if s == seq!['.'] { Some(seq![Seq::<u8>::empty()]) }
    else {
        let cs = split_dot(s);
        let vs = Seq::new(cs.len(), |i: int| piece_label(cs[i]));
        if pieces_ok(cs) && vsum(vs) <= 255 { Some(vs) } else { None }
    }
}
"""

LEMMAS = """
// ---- the text clause of C16: a name made of ASCII labels without dots, written as dotted text, reads back as the same labels
pub open spec fn nodot(x: Seq<char>) -> bool { forall|i: int| 0 <= i < x.len() ==> #[trigger] x[i] != '.' }
pub open spec fn plain_label(l: Label) -> bool { forall|i: int| 0 <= i < l.v().len() ==> (#[trigger] l.v()[i]) <= 127 && l.v()[i] != 46 }
pub open spec fn plain_name(n: DomainName) -> bool { n.wf() && forall|i: int| 0 <= i < n.labels@.len() ==> plain_label(#[trigger] n.labels@[i]) }
proof fn lemma_split_nodot(x: Seq<char>)
    requires nodot(x)
    ensures split_dot(x) == seq![x]
    decreases x.len()
{
    if x.len() == 0 { assert(x =~= Seq::<char>::empty()); }
    else {
        lemma_split_nodot(x.drop_last());
        assert(x.last() != '.');
        assert(seq![x.drop_last()].update(0, x.drop_last().push(x.last())) =~= seq![x]) by { assert(x.drop_last().push(x.last()) =~= x); }
    }
}
proof fn lemma_split_append_piece(a: Seq<char>, x: Seq<char>)
    requires nodot(x)
    ensures split_dot(a + seq!['.'] + x) == split_dot(a).push(x)
    decreases x.len()
{
    let s = a + seq!['.'] + x;
    if x.len() == 0 {
        assert(s.last() == '.');
        assert(s.drop_last() =~= a);
        assert(x =~= Seq::<char>::empty());
    } else {
        let x0 = x.drop_last();
        lemma_split_append_piece(a, x0);
        assert(s.last() == x.last() && x.last() != '.');
        assert(s.drop_last() =~= a + seq!['.'] + x0);
        let p = split_dot(a).push(x0);
        assert(p.update(p.len() - 1, p.last().push(x.last())) =~= split_dot(a).push(x)) by { assert(x0.push(x.last()) =~= x); }
    }
}
proof fn lemma_split_joined(ls: Seq<Label>)
    requires ls.len() >= 1, forall|i: int| 0 <= i < ls.len() ==> plain_label(#[trigger] ls[i])
    ensures split_dot(joined(ls)) == Seq::new(ls.len(), |i: int| lchars(ls[i]))
    decreases ls.len()
{
    assert forall|i: int| 0 <= i < ls.len() implies nodot(lchars(#[trigger] ls[i])) by {
        assert(plain_label(ls[i]));
        assert forall|j: int| 0 <= j < lchars(ls[i]).len() implies #[trigger] lchars(ls[i])[j] != '.' by { assert(ls[i].v()[j] != 46); }
    }
    if ls.len() == 1 {
        lemma_split_nodot(lchars(ls[0]));
        assert(seq![lchars(ls[0])] =~= Seq::new(ls.len(), |i: int| lchars(ls[i])));
    } else {
        lemma_split_joined(ls.drop_last());
        lemma_split_append_piece(joined(ls.drop_last()), lchars(ls.last()));
        assert(Seq::new(ls.drop_last().len(), |i: int| lchars(ls.drop_last()[i])).push(lchars(ls.last())) =~= Seq::new(ls.len(), |i: int| lchars(ls[i])));
    }
}
proof fn lemma_label_text_back(l: Label)
    requires l.wf(), plain_label(l)
    ensures piece_label(lchars(l)) == l.v(), all_ascii(lchars(l)), lchars(l).len() == l.v().len()
{
    assert forall|i: int| 0 <= i < l.v().len() implies #[trigger] piece_label(lchars(l))[i] == l.v()[i] by {
        let b = l.v()[i];
        assert(b <= 127 && !(65 <= b <= 90));
        assert((b as char) as u8 == b);
    }
    assert(piece_label(lchars(l)) =~= l.v());
}
proof fn lemma_joined_ascii(ls: Seq<Label>)
    requires forall|i: int| 0 <= i < ls.len() ==> plain_label(#[trigger] ls[i])
    ensures all_ascii(joined(ls))
    decreases ls.len()
{
    if ls.len() > 1 { lemma_joined_ascii(ls.drop_last()); assert(plain_label(ls.last())); } else if ls.len() == 1 { assert(plain_label(ls[0])); }
}
pub proof fn lemma_dotted_text_reads_back(n: DomainName)
    requires plain_name(n)
    ensures all_ascii(dotted(n.labels@)), text_name(dotted(n.labels@)) == Some(vals(n.labels@)), // [C16:a_name_written_as_dotted_text_reads_back_as_the_same_labels]
{
    let ls = n.labels@;
    if is_root_labels(ls) {
        assert(vals(ls) =~= seq![Seq::<u8>::empty()]) by { assert(ls[0].v() =~= Seq::<u8>::empty()); }
        assert(all_ascii(seq!['.']));
    } else {
        lemma_split_joined(ls);
        lemma_joined_ascii(ls);
        let cs = split_dot(joined(ls));
        let vs = Seq::new(cs.len(), |i: int| piece_label(cs[i]));
        assert forall|i: int| 0 <= i < ls.len() implies #[trigger] vs[i] == ls[i].v() && cs[i].len() == ls[i].v().len() by {
            assert(ls[i].wf() && plain_label(ls[i]));
            lemma_label_text_back(ls[i]);
        }
        assert(vs =~= vals(ls));
        lemma_vsum_vals(ls);
        assert(pieces_ok(cs)) by {
            assert(cs.last().len() == ls.last().v().len());
            assert forall|i: int| 0 <= i < cs.len() - 1 implies (#[trigger] cs[i]).len() > 0 by { assert(ls[i].v().len() > 0); }
            assert forall|i: int| 0 <= i < cs.len() implies (#[trigger] cs[i]).len() <= 63 by { assert(ls[i].wf()); }
        }
        // the joined form of a name other than the root is not the single dot: it ends with the dot before the empty root label and has more in front
        assert(joined(ls) != seq!['.']) by {
            assert(ls.len() >= 2);
            assert(cs.len() == ls.len());
            lemma_split_nodot(Seq::<char>::empty());
            if joined(ls) == seq!['.'] {
                assert(seq!['.'].drop_last() =~= Seq::<char>::empty());
                assert(split_dot(seq!['.']) =~= seq![Seq::<char>::empty(), Seq::<char>::empty()]);
                assert(cs[0].len() == 0);
                assert(ls[0].v().len() > 0);
            }
        }
    }
}
proof fn lemma_joined_concat(a: Seq<Label>, b: Seq<Label>)
    requires a.len() >= 1, b.len() >= 1
    ensures joined(a + b) == joined(a) + seq!['.'] + joined(b)
    decreases b.len()
{
    let ab = a + b;
    assert(ab.drop_last() =~= a + b.drop_last());
    assert(ab.last() == b.last());
    if b.len() == 1 {
        assert(a + b.drop_last() =~= a);
        assert(joined(b) == lchars(b[0]));
    } else {
        lemma_joined_concat(a, b.drop_last());
        assert(joined(a) + seq!['.'] + joined(b.drop_last()) + seq!['.'] + lchars(b.last()) =~= joined(a) + seq!['.'] + (joined(b.drop_last()) + seq!['.'] + lchars(b.last())));
    }
}
proof fn lemma_joined_first_last(ls: Seq<Label>)
    requires ls.len() >= 1, forall|i: int| 0 <= i < ls.len() ==> plain_label(#[trigger] ls[i]), ls[0].v().len() > 0
    ensures joined(ls).len() > 0, joined(ls)[0] != '.', ls.last().v().len() > 0 ==> joined(ls).last() != '.'
    decreases ls.len()
{
    assert(plain_label(ls[0]) && plain_label(ls.last()));
    if ls.len() == 1 {
        assert(lchars(ls[0])[0] == ls[0].v()[0] as char && ls[0].v()[0] != 46);
        if ls.last().v().len() > 0 { let m = ls[0].v().len() - 1; assert(lchars(ls[0]).last() == ls[0].v()[m] as char && ls[0].v()[m] != 46); }
    } else {
        assert forall|i: int| 0 <= i < ls.drop_last().len() implies plain_label(#[trigger] ls.drop_last()[i]) by { assert(ls.drop_last()[i] == ls[i]); }
        lemma_joined_first_last(ls.drop_last());
        let j = joined(ls.drop_last()) + seq!['.'] + lchars(ls.last());
        assert(j[0] == joined(ls.drop_last())[0]);
        if ls.last().v().len() > 0 { let m = ls.last().v().len() - 1; assert(j.last() == lchars(ls.last())[m]); assert(ls.last().v()[m] != 46); }
    }
}
// C16: a name written relative to an origin - the labels in front of the origin's, joined by dots - reads back, joined to that origin, as the same labels
pub proof fn lemma_relative_text_reads_back(apex: DomainName, n: DomainName, k: int)
    requires plain_name(n), plain_name(apex), 0 < k, k + apex.labels@.len() == n.labels@.len(), n.labels@.skip(k) == apex.labels@
    ensures ({ let t = rel_text(apex, joined(n.labels@.take(k))); all_ascii(t) && text_name(t) == Some(vals(n.labels@)) }), // [C16:a_name_written_relative_to_an_origin_reads_back_as_the_same_labels]
{
    let front = n.labels@.take(k); let back = apex.labels@;
    assert(n.labels@ =~= front + back);
    assert forall|i: int| 0 <= i < front.len() implies plain_label(#[trigger] front[i]) by { assert(front[i] == n.labels@[i]); }
    assert(front[0] == n.labels@[0] && front.last() == n.labels@[k - 1]);
    lemma_joined_first_last(front);
    lemma_joined_concat(front, back);
    lemma_dotted_text_reads_back(n);
    lemma_labels_sum_lower(back);
    if back.len() == 1 {
        lemma_labels_sum_one(back);
        assert(back[0].v().len() == 0);
        assert(lchars(back[0]) =~= Seq::<char>::empty());
        assert(joined(front) + seq!['.'] + joined(back) =~= joined(front) + seq!['.']);
        assert(dotted_of(apex) == seq!['.']);
    } else {
        assert(!is_root_spec(apex));
        assert(back[0].v().len() > 0);
        lemma_joined_first_last(back);
    }
}
"""

SPECS = {
    "DomainName::from_relative_dotted_string": {"props": ["C16"],
        "rewrites": [("R33", r"s\.is_empty\(\)", "shim_str_is_empty(s)"),
                     ("R33", r"s\.to_string\(\)\.ends_with\('\.'\)", "shim_ends_with_dot(s)"),
                     ("R33", r"suffix\.starts_with\('\.'\)", "shim_starts_with_dot(suffix.as_str())"),
                     ("R36", r"&format!\(\"\{s\}\{suffix\}\"\)", "shim_concat(s, suffix.as_str()).as_str()"),
                     ("R36", r"&format!\(\"\{s\}\.\{suffix\}\"\)", "shim_concat_dot(s, suffix.as_str()).as_str()")],
        "contract": """    requires origin.wf(),
    ensures
        r is Some ==> r->Some_0.wf(), // [C16:name_joined_to_an_origin_is_well_formed_or_rejected]
        s@.len() == 0 ==> r == Some(*origin),
        s@.len() > 0 && all_ascii(rel_text(*origin, s@)) ==> (match text_name(rel_text(*origin, s@)) { Some(vs) => r is Some && vals(r->Some_0.labels@) == vs, None => r is None }), // [C16:a_relative_name_is_the_text_with_the_origin_appended]"""},
    "DomainName::from_dotted_string": {"props": ["C16"],
        "rewrites": [("R33", r's == "\."', 'shim_str_eq(s, ".")'),
                     ("R33", r"s\.split\('\.'\)\.collect::<Vec<_>>\(\)", "shim_split_dots(s)"),
                     ("R34", r"for \((\w+), (\w+)\) in (\w+)\.iter\(\)\.enumerate\(\)([^{]*)\{", r"for \1 in it__: 0..\3.len() \4{ let \2 = &\3[\1];"),
                     ("R33", r"label_chars\.is_empty\(\)", "shim_str_is_empty(label_chars)"),
                     ("R35", r"match label_chars\.as_bytes\(\)\.try_into\(\) \{", "match Label::try_from(shim_str_as_bytes(label_chars)) {"),
                     # proof splice inside a match arm (an anchor cannot be placed between arms): the arm becomes a block
                     ("anchor", r"Ok\(label\) => labels\.push\(label\),", "Ok(label) => { proof { if all_ascii(s@) { assert(label.v() =~= piece_label(label_chars@)); } } labels.push(label); }")],
        "contract": """    ensures
        r is Some ==> r->Some_0.wf(), // [C16:name_from_text_is_well_formed_or_rejected]
        all_ascii(s@) ==> (match text_name(s@) { Some(vs) => r is Some && vals(r->Some_0.labels@) == vs, None => r is None }), // [C16:dotted_text_denotes_the_pieces_between_its_dots_as_lower_cased_labels]""",
        "entry": "broadcast use axiom_label_vec_len, lemma_root_vals; proof { reveal_strlit(\".\"); assert(\".\"@ == seq!['.']); lemma_split_nonempty(s@); }",
        "loops": {"0": {"kw": "for", "spec": """        invariant s@ != seq!['.'], all_labels_wf(labels@), labels@.len() == it__.index@, chunks@.len() == split_dot(s@).len(), chunks@.len() >= 1,
            forall|j: int| 0 <= j < chunks@.len() ==> (#[trigger] chunks@[j])@ == split_dot(s@)[j],
            all_ascii(s@) ==> forall|j: int| 0 <= j < chunks@.len() ==> all_ascii((#[trigger] chunks@[j])@),
            all_ascii(s@) ==> forall|j: int| 0 <= j < labels@.len() ==> (#[trigger] labels@[j]).v() == piece_label(split_dot(s@)[j]), // [C16:dotted_text_denotes_the_pieces_between_its_dots_as_lower_cased_labels]
            all_ascii(s@) ==> forall|j: int| 0 <= j < labels@.len() ==> (#[trigger] split_dot(s@)[j]).len() <= 63,""",
                        "entry": "broadcast use axiom_label_vec_len;"}},
        "anchors": [{"after_re": r"if label_chars\.is_empty\(\)[^{]*\{", "proof": "proof { assert(split_dot(s@)[i as int].len() == 0 && (i as int) < split_dot(s@).len() - 1); }"},
                    {"after": "match label_chars.as_bytes().try_into() {", "at": "before", "proof": "proof { if all_ascii(s@) { assert(label_chars@ == split_dot(s@)[i as int]); assert(all_ascii(label_chars@)); assert(as_octets(label_chars@).len() == split_dot(s@)[i as int].len()); } }"},
                    {"after": "Self::from_labels(labels)", "nth": -1, "at": "before", "proof": """proof {
    if all_ascii(s@) {
        let cs = split_dot(s@);
        let vs = Seq::new(cs.len(), |i: int| piece_label(cs[i]));
        assert(vals(labels@) =~= vs);
        lemma_vsum_vals(labels@);
        assert forall|j: int| 0 <= j < cs.len() implies labels@[j].v().len() == (#[trigger] cs[j]).len() by { }
        assert(shape_ok(labels@) <==> (cs.last().len() == 0 && forall|i: int| 0 <= i < cs.len() - 1 ==> (#[trigger] cs[i]).len() > 0)) by {
            if shape_ok(labels@) { assert forall|i: int| 0 <= i < cs.len() - 1 implies (#[trigger] cs[i]).len() > 0 by { assert(labels@[i].v().len() > 0); } }
        }
    }
}"""}]},
}

CANARIES = [
    {"name": "empty_last_piece_rejected", "file": TYPES, "old": "            if label_chars.is_empty() && i != chunks.len() - 1 {", "new": "            if label_chars.is_empty() {"},
    {"name": "single_dot_not_the_root", "file": TYPES, "old": "        if s == \".\" {\n            return Some(Self::root_domain());\n        }\n", "new": ""},
]


def build(G):
    begin(G, preludes=("bytes.rs", "std.rs", "std_slices.rs"))
    name_types(G)
    T = G.src(TYPES)
    G.raw(STANDINS, ("spec", "names_text stand-ins"))
    specs = {k: dict(v) for k, v in SPECS.items()}
    specs.update(as_assumed(NAME_SPECS, ["Label::try_from", "DomainName::root_domain", "DomainName::from_labels"]))
    specs["DomainName::from_labels"] = dict(specs["DomainName::from_labels"])
    G.impl(T, "TryFrom<&[u8]> for Label", ["try_from"], "Label::", specs)
    specs["DomainName::to_dotted_string"] = {"props": [], "mode": "assume", "contract": "    requires self.labels@.len() >= 1,\n    ensures r@ == dotted_of(*self), // zone_names: DomainName::to_dotted_string"}
    G.impl(T, "DomainName", ["root_domain", "from_labels", "to_dotted_string", "from_dotted_string", "from_relative_dotted_string"], "DomainName::", specs)
    G.raw(LEMMAS, ("spec", "names_text lemmas"))
    end(G)
