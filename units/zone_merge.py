"""Unit `zone_merge` (C12): merging configuration -- record-set union, recursive merge of children and wildcard sets,
SOA replacement, Zones::insert_merge, Hosts::merge."""
from units.base import *

TRUSTED = TRUSTED_COMMON + [
    "HashMap: vstd specs + get_mut prophecy spec + obeys_key_model for DomainName/Label/RecordType (prelude/hash.rs)",
    "R3 shim_hashmap_into_vec: consuming a HashMap yields each (key, value) pair once, values structurally smaller than the map (decreases_to)",
    "R8 shim_vec_contains: `xs.iter().any(|e| e == &y)` == xs@.contains(y) (derived PartialEq structural)",
]

R3 = ("R3", r"for \(([a-z_, ]+)\) in ([a-z_\.]+)(?=\s)", r"for (\1) in it__: shim_hashmap_into_vec(\2)")
R5R8 = ("R5+R8", r"if ([a-z_]+)\.iter\(\)\.any\(\|e\| e == &([a-z_]+)\) \{\s*continue;\s*\}\s*([a-z_]+\.push\([a-z_]+\);)",
        r"if !(shim_vec_contains(\1, &\2)) { \3 }")

SPECS = {
    "merge_zrs_helper": {"props": ["C12"], "rewrites": [R3, R5R8],
        "contract": """    ensures
        forall|t: RecordType| #[trigger] final(this)@.contains_key(t) <==> (old(this)@.contains_key(t) || other@.contains_key(t)), // [C12:record_types_are_union]
        forall|t: RecordType| #![trigger final(this)@[t]] old(this)@.contains_key(t) ==> is_prefix_of(old(this)@[t]@, final(this)@[t]@), // [C12:existing_records_kept]
        forall|t: RecordType, i: int| #![trigger other@[t]@[i]] other@.contains_key(t) && 0 <= i < other@[t]@.len() ==> final(this)@[t]@.contains(other@[t]@[i]), // [C12:merged_records_present]
        forall|t: RecordType, j: int| #![trigger final(this)@[t]@[j]] final(this)@.contains_key(t) && 0 <= j < final(this)@[t]@.len() ==>
            (old(this)@.contains_key(t) && old(this)@[t]@.contains(final(this)@[t]@[j])) || (other@.contains_key(t) && other@[t]@.contains(final(this)@[t]@[j])), // [C12:nothing_invented]
        forall|t: RecordType| #![trigger final(this)@[t]] old(this)@.contains_key(t) && old(this)@[t]@.no_duplicates() ==> final(this)@[t]@.no_duplicates(), // [C12:duplicates_removed]
        forall|t: RecordType| #![trigger final(this)@[t]] !old(this)@.contains_key(t) && other@.contains_key(t) ==> final(this)@[t] == other@[t], // [C12:new_type_taken_whole]""",
        "entry": "broadcast use vstd::std_specs::hash::group_hash_axioms, axiom_rt_key_model, axiom_borrowed_key_updated;",
        "loops": {
            "0": {"kw": "for", "spec": """        invariant
            it__.seq().len() == other@.dom().len(),
            forall|i: int| 0 <= i < it__.seq().len() ==> other@.contains_key(#[trigger] it__.seq()[i].0) && other@[it__.seq()[i].0] == it__.seq()[i].1,
            forall|k: RecordType| other@.contains_key(k) ==> exists|i: int| 0 <= i < it__.seq().len() && #[trigger] it__.seq()[i].0 == k,
            forall|i: int, j: int| 0 <= i < j < it__.seq().len() ==> it__.seq()[i].0 != it__.seq()[j].0,
            forall|t: RecordType| #[trigger] this@.contains_key(t) <==> (old(this)@.contains_key(t) || exists|j: int| 0 <= j < it__.index@ && #[trigger] it__.seq()[j].0 == t),
            forall|t: RecordType| #![trigger this@[t]] old(this)@.contains_key(t) ==> is_prefix_of(old(this)@[t]@, this@[t]@),
            forall|j: int, m: int| #![trigger it__.seq()[j].1@[m]] 0 <= j < it__.index@ && 0 <= m < it__.seq()[j].1@.len() ==> this@[it__.seq()[j].0]@.contains(it__.seq()[j].1@[m]),
            forall|t: RecordType, x: int| #![trigger this@[t]@[x]] this@.contains_key(t) && 0 <= x < this@[t]@.len() ==>
                (old(this)@.contains_key(t) && old(this)@[t]@.contains(this@[t]@[x])) || (other@.contains_key(t) && other@[t]@.contains(this@[t]@[x])),
            forall|t: RecordType| #![trigger this@[t]] old(this)@.contains_key(t) && old(this)@[t]@.no_duplicates() ==> this@[t]@.no_duplicates(),
            forall|t: RecordType| #![trigger this@[t]] !old(this)@.contains_key(t) && this@.contains_key(t) ==> other@.contains_key(t) && this@[t] == other@[t],
            forall|j: int| it__.index@ <= j < it__.seq().len() && !old(this)@.contains_key(#[trigger] it__.seq()[j].0) ==> !this@.contains_key(it__.seq()[j].0),
            forall|j: int| it__.index@ <= j < it__.seq().len() && old(this)@.contains_key(#[trigger] it__.seq()[j].0) ==> this@[it__.seq()[j].0] == old(this)@[it__.seq()[j].0],""",
                  "entry": "broadcast use vstd::std_specs::hash::group_hash_axioms, axiom_rt_key_model, axiom_borrowed_key_updated; let ghost this0__ = this@; let ghost idx__ = it__.index@ as int;"},
            "1": {"kw": "for", "iter_name": "jt__", "spec": """            invariant
                jt__.seq() == it__.seq()[idx__].1@,
                is_prefix_of(this0__[k]@, my_zrs@),
                forall|m: int| #![trigger jt__.seq()[m]] 0 <= m < jt__.index@ ==> my_zrs@.contains(jt__.seq()[m]),
                forall|x: int| #![trigger my_zrs@[x]] 0 <= x < my_zrs@.len() ==> this0__[k]@.contains(my_zrs@[x]) || jt__.seq().contains(my_zrs@[x]),
                this0__[k]@.no_duplicates() ==> my_zrs@.no_duplicates(),""",
                  "entry": "let ghost before__ = my_zrs@;"},
        },
        "anchors": [{"after": "my_zrs.push(new);", "proof": """proof {
    let nw = jt__.seq()[jt__.index@ as int];
    if !before__.contains(nw) { assert(my_zrs@ == before__.push(nw)); assert(my_zrs@[my_zrs@.len() - 1] == nw); }
    assert forall|m: int| 0 <= m < jt__.index@ implies my_zrs@.contains(#[trigger] jt__.seq()[m]) by {
        let w = choose|w: int| 0 <= w < before__.len() && before__[w] == jt__.seq()[m];
        assert(my_zrs@[w] == jt__.seq()[m]);
    }
}"""}],
    },
}

SPEC_RS = """
pub open spec fn is_prefix_of<T>(a: Seq<T>, b: Seq<T>) -> bool { a.len() <= b.len() && forall|i: int| 0 <= i < a.len() ==> a[i] == #[trigger] b[i] }
"""


def build(G):
    begin(G, preludes=("bytes.rs", "std.rs", "net.rs"))
    name_types(G, tryfrom=False)
    wire_types(G, conv_props=[], conv_mode="assume")
    G.file(os.path.join(PRELUDE, "wire_spec.rs"))
    zone_types(G)
    G.file(os.path.join(PRELUDE, "hash.rs"))
    G.raw(SPEC_RS, ("spec", "zone_merge spec"))
    Z = G.src(ZTYPES)
    G.top_fn(Z, "merge_zrs_helper", SPECS)
    end(G)


CANARIES = [
    {"name": "no_dedup", "file": ZTYPES, "old": "                if my_zrs.iter().any(|e| e == &new) {\n                    continue;\n                }\n", "new": ""},
    {"name": "drop_new_types", "file": ZTYPES, "old": "            this.insert(k, other_zrs);\n        }\n    }\n}", "new": "            let _ = other_zrs;\n        }\n    }\n}"},
    {"name": "replace_instead_of_merge", "file": ZTYPES, "old": "        if let Some(my_zrs) = this.get_mut(&k) {\n            for new in other_zrs {", "new": "        if let Some(my_zrs) = this.get_mut(&k) {\n            my_zrs.clear();\n            for new in other_zrs {"},
]
