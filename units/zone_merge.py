"""Unit `zone_merge` (C12): merging configuration -- record-set union, recursive merge of children and wildcard sets,
SOA replacement, Zones::insert_merge, Hosts::merge."""
from units.base import *
from units.zone_build import BUILD_SPEC_RS

TRUSTED = TRUSTED_COMMON + [
    "HashMap: vstd specs + get_mut prophecy spec + obeys_key_model for DomainName/Label/RecordType (prelude/hash.rs)",
    "R3 shim_hashmap_into_vec: consuming a HashMap yields each (key, value) pair once, values structurally smaller than the map (decreases_to)",
    "DomainName == / != is structural (PartialEqSpec axioms for the derived impl)",
    "R8 shim_vec_contains: `xs.iter().any(|e| e == &y)` == xs@.contains(y) (derived PartialEq structural)",
]

def _r3(txt):
    # R3: `for (PAT) in [name:] MAP` consuming a HashMap -> `for (PAT) in name: shim_hashmap_into_vec(MAP)`
    import re
    return re.subn(r"for \(([a-z_, ]+)\) in (?:([a-z_]+): )?([a-z_0-9\.]+)(?=\s)",
                   lambda m: f"for ({m.group(1)}) in {m.group(2) or 'it__'}: shim_hashmap_into_vec({m.group(3)})", txt)
R3 = ("R3", _r3)
R5R8 = ("R5+R8", r"if ([a-z_]+)\.iter\(\)\.any\(\|e\| e == &([a-z_]+)\) \{\s*continue;\s*\}\s*([a-z_]+\.push\([a-z_]+\);)",
        r"if !(shim_vec_contains(\1, &\2)) { \3 }")

SPECS = {
    "merge_zrs_helper": {"props": ["C12"], "rewrites": [R3, R5R8],
        "contract": """    ensures
        forall|t: RecordType| #[trigger] final(this)@.contains_key(t) <==> (old(this)@.contains_key(t) || other@.contains_key(t)), // [C12:record_types_are_union]
        forall|t: RecordType| #![trigger final(this)@[t]] old(this)@.contains_key(t) ==> is_prefix_of(old(this)@[t]@, final(this)@[t]@), // [C12:existing_records_kept]
        forall|t: RecordType, i: int| #![trigger other@[t]@[i]] other@.contains_key(t) && 0 <= i < other@[t]@.len() ==> final(this)@[t]@.contains(other@[t]@[i]), // [C12:merged_records_present]
        forall|t: RecordType, j: int| #![trigger final(this)@[t]@[j]] final(this)@.contains_key(t) && 0 <= j < final(this)@[t]@.len() ==>
            (old(this)@.contains_key(t) && old(this)@[t]@.contains(final(this)@[t]@[j])) || (other@.contains_key(t) && other@[t]@.contains(final(this)@[t]@[j])), // [C12:nothing_invented]
        forall|t: RecordType| #![trigger final(this)@[t]] old(this)@.contains_key(t) && old(this)@[t]@.no_duplicates() ==> final(this)@[t]@.no_duplicates(), // [C12:duplicates_removed]
        forall|t: RecordType| #![trigger final(this)@[t]] !old(this)@.contains_key(t) && other@.contains_key(t) ==> final(this)@[t] == other@[t], // [C12:new_type_taken_whole]""",
        "entry": "broadcast use vstd::std_specs::hash::group_hash_axioms, axiom_rt_key_model, axiom_borrowed_key_updated;",
        "loops": {
            "0": {"kw": "for", "spec": """        invariant
            it__.seq().len() == other@.dom().len(),
            forall|i: int| 0 <= i < it__.seq().len() ==> other@.contains_key(#[trigger] it__.seq()[i].0) && other@[it__.seq()[i].0] == it__.seq()[i].1,
            forall|k: RecordType| other@.contains_key(k) ==> exists|i: int| 0 <= i < it__.seq().len() && #[trigger] it__.seq()[i].0 == k,
            forall|i: int, j: int| 0 <= i < j < it__.seq().len() ==> it__.seq()[i].0 != it__.seq()[j].0,
            forall|t: RecordType| #[trigger] this@.contains_key(t) <==> (old(this)@.contains_key(t) || exists|j: int| 0 <= j < it__.index@ && #[trigger] it__.seq()[j].0 == t),
            forall|t: RecordType| #![trigger this@[t]] old(this)@.contains_key(t) ==> is_prefix_of(old(this)@[t]@, this@[t]@),
            forall|j: int, m: int| #![trigger it__.seq()[j].1@[m]] 0 <= j < it__.index@ && 0 <= m < it__.seq()[j].1@.len() ==> this@[it__.seq()[j].0]@.contains(it__.seq()[j].1@[m]),
            forall|t: RecordType, x: int| #![trigger this@[t]@[x]] this@.contains_key(t) && 0 <= x < this@[t]@.len() ==>
                (old(this)@.contains_key(t) && old(this)@[t]@.contains(this@[t]@[x])) || (other@.contains_key(t) && other@[t]@.contains(this@[t]@[x])),
            forall|t: RecordType| #![trigger this@[t]] old(this)@.contains_key(t) && old(this)@[t]@.no_duplicates() ==> this@[t]@.no_duplicates(),
            forall|t: RecordType| #![trigger this@[t]] !old(this)@.contains_key(t) && this@.contains_key(t) ==> other@.contains_key(t) && this@[t] == other@[t],
            forall|j: int| it__.index@ <= j < it__.seq().len() && !old(this)@.contains_key(#[trigger] it__.seq()[j].0) ==> !this@.contains_key(it__.seq()[j].0),
            forall|j: int| it__.index@ <= j < it__.seq().len() && old(this)@.contains_key(#[trigger] it__.seq()[j].0) ==> this@[it__.seq()[j].0] == old(this)@[it__.seq()[j].0],""",
                  "entry": "broadcast use vstd::std_specs::hash::group_hash_axioms, axiom_rt_key_model, axiom_borrowed_key_updated; let ghost this0__ = this@; let ghost idx__ = it__.index@ as int;"},
            "1": {"kw": "for", "iter_name": "jt__", "spec": """            invariant
                jt__.seq() == it__.seq()[idx__].1@,
                is_prefix_of(this0__[k]@, my_zrs@),
                forall|m: int| #![trigger jt__.seq()[m]] 0 <= m < jt__.index@ ==> my_zrs@.contains(jt__.seq()[m]),
                forall|x: int| #![trigger my_zrs@[x]] 0 <= x < my_zrs@.len() ==> this0__[k]@.contains(my_zrs@[x]) || jt__.seq().contains(my_zrs@[x]),
                this0__[k]@.no_duplicates() ==> my_zrs@.no_duplicates(),""",
                  "entry": "let ghost before__ = my_zrs@;"},
        },
        "anchors": [{"after": "my_zrs.push(new);", "proof": """proof {
    let nw = jt__.seq()[jt__.index@ as int];
    if !before__.contains(nw) { assert(my_zrs@ == before__.push(nw)); assert(my_zrs@[my_zrs@.len() - 1] == nw); }
    assert forall|m: int| 0 <= m < jt__.index@ implies my_zrs@.contains(#[trigger] jt__.seq()[m]) by {
        let w = choose|w: int| 0 <= w < before__.len() && before__[w] == jt__.seq()[m];
        assert(my_zrs@[w] == jt__.seq()[m]);
    }
}"""}],
    },
}

SPECS["ZoneRecords::merge"] = {"props": ["C12"], "rewrites": [R3], "depub": True,
    "contract": """    requires tree_wf(*old(self)), tree_wf(other), old(self).nsdname.labels@ == other.nsdname.labels@,
    ensures
        tree_wf(*final(self)), // [C02,C12:merge_keeps_the_tree_invariant]
        final(self).nsdname == old(self).nsdname,
        zrs_merged(old(self).this@, other.this@, final(self).this@), // [C12:node_records_are_union]
        other.wildcards is Some ==> final(self).wildcards is Some, // [C12:wildcard_records_kept]
        old(self).wildcards is Some ==> final(self).wildcards is Some, // [C12:wildcard_records_kept]
        old(self).wildcards is None && other.wildcards is None ==> final(self).wildcards is None,
        old(self).wildcards is Some && other.wildcards is Some ==> zrs_merged(old(self).wildcards->Some_0@, other.wildcards->Some_0@, final(self).wildcards->Some_0@), // [C12:wildcard_records_are_union]
        old(self).wildcards is None && other.wildcards is Some ==> final(self).wildcards == other.wildcards, // [C12:wildcard_records_are_union]
        old(self).wildcards is Some && other.wildcards is None ==> final(self).wildcards == old(self).wildcards, // [C12:wildcard_records_are_union]
        forall|l: Label| #[trigger] final(self).children@.contains_key(l) <==> (old(self).children@.contains_key(l) || other.children@.contains_key(l)), // [C12:child_names_are_union]
        forall|l: Label| #![trigger final(self).children@[l]] old(self).children@.contains_key(l) && !other.children@.contains_key(l) ==> final(self).children@[l] == old(self).children@[l], // [C12:child_only_here_unchanged]
        forall|l: Label| #![trigger final(self).children@[l]] !old(self).children@.contains_key(l) && other.children@.contains_key(l) ==> final(self).children@[l] == other.children@[l], // [C12:child_only_there_taken_whole]
        tree_merged(*old(self), other, *final(self)), // [C12:every_node_of_the_merged_tree_holds_the_union]
    decreases other,""",
    "entry": "broadcast use vstd::std_specs::hash::group_hash_axioms, axiom_rt_key_model, axiom_label_key_model, axiom_borrowed_key_updated; proof { lemma_tree_wf_children(*old(self)); lemma_tree_wf_children(other); }",
    "loops": {"0": {"kw": "for", "spec": """        invariant
            self.nsdname == old(self).nsdname, self.this == mid_this__@, self.wildcards == mid_wild__@,
            recs_typed(self.this@), self.wildcards is Some ==> recs_typed(self.wildcards->Some_0@),
            forall|l: Label| self.children@.contains_key(l) ==> tree_wf(#[trigger] self.children@[l]) && self.children@[l].nsdname.labels@ == seq![l] + self.nsdname.labels@,
            forall|l: Label| other.children@.contains_key(l) ==> tree_wf(#[trigger] other.children@[l]) && other.children@[l].nsdname.labels@ == seq![l] + self.nsdname.labels@,
            it__.seq().len() == other.children@.dom().len(),
            forall|i: int| 0 <= i < it__.seq().len() ==> other.children@.contains_key(#[trigger] it__.seq()[i].0) && other.children@[it__.seq()[i].0] == it__.seq()[i].1,
            forall|k: Label| other.children@.contains_key(k) ==> exists|i: int| 0 <= i < it__.seq().len() && #[trigger] it__.seq()[i].0 == k,
            forall|i: int, j: int| 0 <= i < j < it__.seq().len() ==> it__.seq()[i].0 != it__.seq()[j].0,
            forall|i: int| 0 <= i < it__.seq().len() ==> decreases_to!(other => #[trigger] it__.seq()[i].1),
            forall|l: Label| #[trigger] self.children@.contains_key(l) <==> (old(self).children@.contains_key(l) || exists|j: int| 0 <= j < it__.index@ && #[trigger] it__.seq()[j].0 == l),
            forall|l: Label| #![trigger self.children@[l]] old(self).children@.contains_key(l) && !other.children@.contains_key(l) ==> self.children@[l] == old(self).children@[l],
            forall|j: int| 0 <= j < it__.index@ && !old(self).children@.contains_key(#[trigger] it__.seq()[j].0) ==> self.children@[it__.seq()[j].0] == it__.seq()[j].1,
            forall|j: int| 0 <= j < it__.index@ && old(self).children@.contains_key(#[trigger] it__.seq()[j].0) ==> tree_merged(old(self).children@[it__.seq()[j].0], it__.seq()[j].1, self.children@[it__.seq()[j].0]), // [C12:child_on_both_sides_merged_node_by_node]
            forall|j: int| it__.index@ <= j < it__.seq().len() && old(self).children@.contains_key(#[trigger] it__.seq()[j].0) ==> self.children@[it__.seq()[j].0] == old(self).children@[it__.seq()[j].0],
            it__.index@ == it__.seq().len() ==> forall|l: Label| old(self).children@.contains_key(l) && other.children@.contains_key(l) ==> #[trigger] tree_merged(old(self).children@[l], other.children@[l], self.children@[l]), // [C12:child_on_both_sides_merged_node_by_node]""",
        "entry": "broadcast use vstd::std_specs::hash::group_hash_axioms, axiom_label_key_model, axiom_borrowed_key_updated;"}},
    "anchors": [{"after": "for (k, other_zrs) in other.children", "at": "before",
                 "proof": """let ghost mid_this__ = Ghost(self.this); let ghost mid_wild__ = Ghost(self.wildcards);
proof {
    lemma_merged_typed(old(self).this@, other.this@, self.this@);
    if old(self).wildcards is Some && other.wildcards is Some { lemma_merged_typed(old(self).wildcards->Some_0@, other.wildcards->Some_0@, self.wildcards->Some_0@); }
}"""},
                {"after": "self.children.insert(k, other_zrs);\n            }\n        }", "proof": """proof {
    lemma_tree_wf_leaf(*self);
    let a = *old(self); let r = *self;
    assert forall|p: Seq<Label>| #[trigger] path_merged(a, other, r, p) by {
        if p.len() > 0 {
            let l = p.last(); let q = p.drop_last();
            if other.children@.contains_key(l) && a.children@.contains_key(l) { lemma_tree_merged_at(a.children@[l], other.children@[l], r.children@[l], q); }
        }
    }
    assert(tree_merged(a, other, r)) by { reveal(tree_merged); }
}"""}],
}

ZM_NODE = """        node_rest_merged(*old(self), other, *final(self)),"""
SPECS["Zone::merge"] = {"props": ["C12"], "depub": True,
    "contract": """    requires zone_soa_ok(*old(self)), zone_soa_ok(other), zone_wf(*old(self)), zone_wf(other),
    ensures
        r is Ok ==> zone_wf(*final(self)), // [C02,C12:merge_keeps_the_tree_invariant]
        r is Err <==> old(self).apex != other.apex, // [C12:merge_rejects_only_foreign_apex]
        r is Err ==> *final(self) == *old(self),
        r is Ok ==> final(self).apex == old(self).apex,
        r is Ok ==> final(self).soa == (if other.soa is Some { other.soa } else { old(self).soa }), // [C12:last_soa_wins]
        r is Ok ==> zone_soa_ok(*final(self)), // [C12:exactly_one_soa]
        r is Ok ==> zrs_merged(old(self).records.this@.remove(RecordType::SOA), other.records.this@.remove(RecordType::SOA), final(self).records.this@.remove(RecordType::SOA)), // [C12:zone_records_are_union]
        r is Ok ==> node_rest_merged(old(self).records, other.records, final(self).records), // [C12:zone_wildcards_and_children_merged]""",
    "entry": "broadcast use vstd::std_specs::hash::group_hash_axioms, axiom_rt_key_model, axiom_dn_eq_structural, axiom_dn_obeys_eq;",
    "anchors": [{"after": "self.records.merge(other.records);", "at": "before", "proof": """proof {
    lemma_tree_wf_children(old(self).records);
    lemma_tree_wf_leaf(self.records);
}
let ghost pre_merge__ = self.records;"""}, {"after": "self.records.merge(other.records);", "proof": """proof {
    if other.soa is None && old(self).soa is Some {
        let f = self.records.this@[RecordType::SOA]@; let o = old(self).records.this@[RecordType::SOA]@;
        assert(o.no_duplicates());
        assert(f.no_duplicates());
        assert(f[0] == o[0]);
        if f.len() > 1 { assert(o.contains(f[1])); assert(f[1] == o[0]); assert(false); }
        assert(f =~= o);
    }
    lemma_below_merged(old(self).records, pre_merge__, other.records, self.records);
}"""}],
}
SPECS["Zones::insert"] = {"props": ["C12"], "depub": True,
    "contract": """    requires old(self).wf(), zone_soa_ok(zone), zone_wf(zone),
    ensures final(self).zones@ == old(self).zones@.insert(zone.apex, zone), final(self).wf(),""",
    "entry": "broadcast use vstd::std_specs::hash::group_hash_axioms, axiom_dn_key_model;"}
SPECS["Zones::insert_merge"] = {"props": ["C12"], "depub": True,
    "contract": """    requires old(self).wf(), zone_soa_ok(other_zone), zone_wf(other_zone),
    ensures final(self).wf(), // [C02,C12:every_configured_zone_keeps_the_tree_invariant]
        forall|k: DomainName| #[trigger] final(self).zones@.contains_key(k) <==> (old(self).zones@.contains_key(k) || k == other_zone.apex), // [C12:zone_set_is_union]
        forall|k: DomainName| #![trigger final(self).zones@[k]] old(self).zones@.contains_key(k) && k != other_zone.apex ==> final(self).zones@[k] == old(self).zones@[k], // [C12:other_zones_untouched]
        !old(self).zones@.contains_key(other_zone.apex) ==> final(self).zones@[other_zone.apex] == other_zone, // [C12:new_apex_inserted_whole]
        old(self).zones@.contains_key(other_zone.apex) ==> zone_merged(old(self).zones@[other_zone.apex], other_zone, final(self).zones@[other_zone.apex]), // [C12:same_apex_merged]""",
    "entry": "broadcast use vstd::std_specs::hash::group_hash_axioms, axiom_dn_key_model, axiom_borrowed_key_updated;"}
SPECS["Zones::merge"] = {"props": ["C12"], "depub": True, "rewrites": [R3],
    "contract": """    requires old(self).wf(), other.wf(),
    ensures final(self).wf(), // [C02,C12:every_configured_zone_keeps_the_tree_invariant]
        forall|k: DomainName| #[trigger] final(self).zones@.contains_key(k) <==> (old(self).zones@.contains_key(k) || other.zones@.contains_key(k)), // [C12:zone_set_is_union]
        forall|k: DomainName| #![trigger final(self).zones@[k]] old(self).zones@.contains_key(k) && !other.zones@.contains_key(k) ==> final(self).zones@[k] == old(self).zones@[k], // [C12:other_zones_untouched]
        forall|k: DomainName| #![trigger final(self).zones@[k]] !old(self).zones@.contains_key(k) && other.zones@.contains_key(k) ==> final(self).zones@[k] == other.zones@[k], // [C12:new_apex_inserted_whole]
        forall|k: DomainName| #![trigger final(self).zones@[k]] old(self).zones@.contains_key(k) && other.zones@.contains_key(k) ==> zone_merged(old(self).zones@[k], other.zones@[k], final(self).zones@[k]), // [C12:same_apex_merged]""",
    "entry": "broadcast use vstd::std_specs::hash::group_hash_axioms, axiom_dn_key_model, axiom_borrowed_key_updated;",
    "loops": {"0": {"kw": "for", "spec": """        invariant self.wf(), other.wf(),
            it__.seq().len() == other.zones@.dom().len(),
            forall|i: int| 0 <= i < it__.seq().len() ==> other.zones@.contains_key(#[trigger] it__.seq()[i].0) && other.zones@[it__.seq()[i].0] == it__.seq()[i].1,
            forall|k: DomainName| other.zones@.contains_key(k) ==> exists|i: int| 0 <= i < it__.seq().len() && #[trigger] it__.seq()[i].0 == k,
            forall|i: int, j: int| 0 <= i < j < it__.seq().len() ==> it__.seq()[i].0 != it__.seq()[j].0,
            forall|k: DomainName| #[trigger] self.zones@.contains_key(k) <==> (old(self).zones@.contains_key(k) || exists|j: int| 0 <= j < it__.index@ && #[trigger] it__.seq()[j].0 == k),
            forall|k: DomainName| #![trigger self.zones@[k]] old(self).zones@.contains_key(k) && !(exists|j: int| 0 <= j < it__.index@ && #[trigger] it__.seq()[j].0 == k) ==> self.zones@[k] == old(self).zones@[k],
            forall|j: int| 0 <= j < it__.index@ && !old(self).zones@.contains_key(#[trigger] it__.seq()[j].0) ==> self.zones@[it__.seq()[j].0] == it__.seq()[j].1,
            forall|j: int| 0 <= j < it__.index@ && old(self).zones@.contains_key(#[trigger] it__.seq()[j].0) ==> zone_merged(old(self).zones@[it__.seq()[j].0], it__.seq()[j].1, self.zones@[it__.seq()[j].0]),""",
        "entry": "broadcast use vstd::std_specs::hash::group_hash_axioms, axiom_dn_key_model, axiom_borrowed_key_updated;"}},
}
SPECS["Hosts::merge"] = {"props": ["C12"], "rewrites": [R3, ("R3b", r"(\w+(?:\.\w+)*)\.extend\((\w+(?:\.\w+)*)\);", r"shim_hashmap_extend(&mut \1, \2);")], "loops_if_present": True,
    "contract": """    ensures
        final(self).v4@ == old(self).v4@.union_prefer_right(other.v4@), // [C12:hosts_later_file_wins_v4]
        final(self).v6@ == old(self).v6@.union_prefer_right(other.v6@), // [C12:hosts_later_file_wins_v6]""",
    "entry": "broadcast use vstd::std_specs::hash::group_hash_axioms, axiom_dn_key_model;",
    "loops": {
        "0": {"kw": "for", "spec": """        invariant self.v6 == old(self).v6,
            it__.seq().len() == other.v4@.dom().len(),
            forall|i: int| 0 <= i < it__.seq().len() ==> other.v4@.contains_key(#[trigger] it__.seq()[i].0) && other.v4@[it__.seq()[i].0] == it__.seq()[i].1,
            forall|k: DomainName| other.v4@.contains_key(k) ==> exists|i: int| 0 <= i < it__.seq().len() && #[trigger] it__.seq()[i].0 == k,
            forall|i: int, j: int| 0 <= i < j < it__.seq().len() ==> it__.seq()[i].0 != it__.seq()[j].0,
            forall|k: DomainName| #[trigger] self.v4@.contains_key(k) <==> (old(self).v4@.contains_key(k) || exists|j: int| 0 <= j < it__.index@ && #[trigger] it__.seq()[j].0 == k),
            forall|j: int| 0 <= j < it__.index@ ==> self.v4@[#[trigger] it__.seq()[j].0] == it__.seq()[j].1,
            forall|k: DomainName| #![trigger self.v4@[k]] old(self).v4@.contains_key(k) && !(exists|j: int| 0 <= j < it__.index@ && #[trigger] it__.seq()[j].0 == k) ==> self.v4@[k] == old(self).v4@[k],""",
              "entry": "broadcast use vstd::std_specs::hash::group_hash_axioms, axiom_dn_key_model;"},
        "1": {"kw": "for", "iter_name": "jt__", "spec": """        invariant self.v4@ == old(self).v4@.union_prefer_right(other.v4@),
            jt__.seq().len() == other.v6@.dom().len(),
            forall|i: int| 0 <= i < jt__.seq().len() ==> other.v6@.contains_key(#[trigger] jt__.seq()[i].0) && other.v6@[jt__.seq()[i].0] == jt__.seq()[i].1,
            forall|k: DomainName| other.v6@.contains_key(k) ==> exists|i: int| 0 <= i < jt__.seq().len() && #[trigger] jt__.seq()[i].0 == k,
            forall|i: int, j: int| 0 <= i < j < jt__.seq().len() ==> jt__.seq()[i].0 != jt__.seq()[j].0,
            forall|k: DomainName| #[trigger] self.v6@.contains_key(k) <==> (old(self).v6@.contains_key(k) || exists|j: int| 0 <= j < jt__.index@ && #[trigger] jt__.seq()[j].0 == k),
            forall|j: int| 0 <= j < jt__.index@ ==> self.v6@[#[trigger] jt__.seq()[j].0] == jt__.seq()[j].1,
            forall|k: DomainName| #![trigger self.v6@[k]] old(self).v6@.contains_key(k) && !(exists|j: int| 0 <= j < jt__.index@ && #[trigger] jt__.seq()[j].0 == k) ==> self.v6@[k] == old(self).v6@[k],""",
              "entry": "broadcast use vstd::std_specs::hash::group_hash_axioms, axiom_dn_key_model;"},
    },
    "anchors": [{"after": "for (name, address) in other.v6", "at": "before", "with_loops": True,
                 "proof": "assert(self.v4@ =~= old(self).v4@.union_prefer_right(other.v4@));"}],
}

SPEC_RS = """
// C12 at every node of the tree: what the merged tree holds at a path is the union of what the two trees hold there
spec fn wild_merged(x: Option<HashMap<RecordType, Vec<ZoneRecord>>>, y: Option<HashMap<RecordType, Vec<ZoneRecord>>>, z: Option<HashMap<RecordType, Vec<ZoneRecord>>>) -> bool {
    &&& (z is Some <==> (x is Some || y is Some))
    &&& (x is Some && y is Some ==> zrs_merged(x->Some_0@, y->Some_0@, z->Some_0@))
    &&& (x is None && y is Some ==> z == y)
    &&& (x is Some && y is None ==> z == x)
}
spec fn path_merged(a: ZoneRecords, b: ZoneRecords, r: ZoneRecords, p: Seq<Label>) -> bool {
    let na = node_at(a, p); let nb = node_at(b, p); let nr = node_at(r, p);
    &&& (nr is Some <==> (na is Some || nb is Some))
    &&& (na is Some && nb is Some ==> zrs_merged(na->Some_0.this@, nb->Some_0.this@, nr->Some_0.this@) && wild_merged(na->Some_0.wildcards, nb->Some_0.wildcards, nr->Some_0.wildcards))
    &&& (na is Some && nb is None ==> nr == na)
    &&& (na is None && nb is Some ==> nr == nb)
}
#[verifier::opaque]
spec fn tree_merged(a: ZoneRecords, b: ZoneRecords, r: ZoneRecords) -> bool { forall|p: Seq<Label>| #[trigger] path_merged(a, b, r, p) }
proof fn lemma_tree_merged_at(a: ZoneRecords, b: ZoneRecords, r: ZoneRecords, p: Seq<Label>)
    requires tree_merged(a, b, r) ensures path_merged(a, b, r, p)
{ reveal(tree_merged); }

proof fn lemma_merged_typed(a: Map<RecordType, Vec<ZoneRecord>>, b: Map<RecordType, Vec<ZoneRecord>>, r: Map<RecordType, Vec<ZoneRecord>>)
    requires zrs_merged(a, b, r), recs_typed(a), recs_typed(b)
    ensures recs_typed(r)
{
    assert forall|t: RecordType, j: int| #![trigger r[t]@[j]] r.contains_key(t) && 0 <= j < r[t]@.len() implies spec_rtype_of(r[t]@[j].rtype_with_data) == t by {
        if a.contains_key(t) && a[t]@.contains(r[t]@[j]) {
            let i = choose|i: int| 0 <= i < a[t]@.len() && a[t]@[i] == r[t]@[j];
            assert(spec_rtype_of(a[t]@[i].rtype_with_data) == t);
        } else {
            let i = choose|i: int| 0 <= i < b[t]@.len() && b[t]@[i] == r[t]@[j];
            assert(spec_rtype_of(b[t]@[i].rtype_with_data) == t);
        }
    }
}
pub open spec fn soa_zr(s: SOA) -> ZoneRecord {
    ZoneRecord { rtype_with_data: RecordTypeWithData::SOA { mname: s.mname, rname: s.rname, serial: s.serial, refresh: s.refresh, retry: s.retry, expire: s.expire, minimum: s.minimum }, ttl: s.minimum }
}
// "has exactly one SOA": the zone's SOA field and the SOA record set at its apex agree
spec fn zone_soa_ok(z: Zone) -> bool {
    match z.soa {
        Some(s) => z.records.this@.contains_key(RecordType::SOA) && z.records.this@[RecordType::SOA]@ == seq![soa_zr(s)],
        None => !z.records.this@.contains_key(RecordType::SOA),
    }
}
// wildcard and children clauses of a node merge (the `this` map is stated separately)
spec fn node_rest_merged(a: ZoneRecords, b: ZoneRecords, r: ZoneRecords) -> bool {
    &&& r.nsdname == a.nsdname
    &&& (b.wildcards is Some ==> r.wildcards is Some)
    &&& (a.wildcards is Some ==> r.wildcards is Some)
    &&& (a.wildcards is None && b.wildcards is None ==> r.wildcards is None)
    &&& (a.wildcards is Some && b.wildcards is Some ==> zrs_merged(a.wildcards->Some_0@, b.wildcards->Some_0@, r.wildcards->Some_0@))
    &&& (a.wildcards is None && b.wildcards is Some ==> r.wildcards == b.wildcards)
    &&& (a.wildcards is Some && b.wildcards is None ==> r.wildcards == a.wildcards)
    &&& forall|l: Label| #[trigger] r.children@.contains_key(l) <==> (a.children@.contains_key(l) || b.children@.contains_key(l))
    &&& forall|l: Label| #![trigger r.children@[l]] a.children@.contains_key(l) && !b.children@.contains_key(l) ==> r.children@[l] == a.children@[l]
    &&& forall|l: Label| #![trigger r.children@[l]] !a.children@.contains_key(l) && b.children@.contains_key(l) ==> r.children@[l] == b.children@[l]
    &&& below_merged(a, b, r)
}
// every node strictly below the root of the tree holds the union (the root's own records are stated separately: SOA handling)
#[verifier::opaque]
spec fn below_merged(a: ZoneRecords, b: ZoneRecords, r: ZoneRecords) -> bool { forall|p: Seq<Label>| p.len() > 0 ==> #[trigger] path_merged(a, b, r, p) }
proof fn lemma_below_merged(a0: ZoneRecords, a: ZoneRecords, b: ZoneRecords, r: ZoneRecords)
    requires tree_merged(a, b, r), a0.children == a.children
    ensures below_merged(a0, b, r)
{
    reveal(below_merged);
    assert forall|p: Seq<Label>| p.len() > 0 implies #[trigger] path_merged(a0, b, r, p) by {
        lemma_tree_merged_at(a, b, r, p);
        assert(node_at(a0, p) == node_at(a, p));
    }
}
spec fn zone_merged(a: Zone, b: Zone, r: Zone) -> bool {
    &&& r.apex == a.apex
    &&& r.soa == (if b.soa is Some { b.soa } else { a.soa }) // C12: the SOA of the last file supplying one
    &&& zone_soa_ok(r)                                       // C12: exactly one SOA
    &&& zrs_merged(a.records.this@.remove(RecordType::SOA), b.records.this@.remove(RecordType::SOA), r.records.this@.remove(RecordType::SOA))
    &&& node_rest_merged(a.records, b.records, r.records)
}
spec fn zone_wf(z: Zone) -> bool { tree_wf(z.records) && z.records.nsdname == z.apex }
impl Zones {
    spec fn wf(&self) -> bool {
        forall|k: DomainName| #[trigger] self.zones@.contains_key(k) ==> self.zones@[k].apex == k && zone_soa_ok(self.zones@[k]) && zone_wf(self.zones@[k])
    }
}
pub broadcast axiom fn axiom_dn_eq_structural(a: DomainName, b: DomainName)
    ensures #[trigger] a.eq_spec(&b) == (a == b);
pub broadcast axiom fn axiom_dn_obeys_eq()
    ensures #[trigger] <DomainName as vstd::std_specs::cmp::PartialEqSpec>::obeys_eq_spec();

// the five clauses merge_zrs_helper guarantees, as one predicate (old, other, result)
pub open spec fn zrs_merged(a: Map<RecordType, Vec<ZoneRecord>>, b: Map<RecordType, Vec<ZoneRecord>>, r: Map<RecordType, Vec<ZoneRecord>>) -> bool {
    &&& forall|t: RecordType| #[trigger] r.contains_key(t) <==> (a.contains_key(t) || b.contains_key(t))
    &&& forall|t: RecordType| #![trigger r[t]] a.contains_key(t) ==> is_prefix_of(a[t]@, r[t]@)
    &&& forall|t: RecordType, i: int| #![trigger b[t]@[i]] b.contains_key(t) && 0 <= i < b[t]@.len() ==> r[t]@.contains(b[t]@[i])
    &&& forall|t: RecordType, j: int| #![trigger r[t]@[j]] r.contains_key(t) && 0 <= j < r[t]@.len() ==>
            (a.contains_key(t) && a[t]@.contains(r[t]@[j])) || (b.contains_key(t) && b[t]@.contains(r[t]@[j]))
    &&& forall|t: RecordType| #![trigger r[t]] a.contains_key(t) && a[t]@.no_duplicates() ==> r[t]@.no_duplicates()
    &&& forall|t: RecordType| #![trigger r[t]] !a.contains_key(t) && b.contains_key(t) ==> r[t] == b[t]
}
pub open spec fn is_prefix_of<T>(a: Seq<T>, b: Seq<T>) -> bool { a.len() <= b.len() && forall|i: int| 0 <= i < a.len() ==> a[i] == #[trigger] b[i] }
"""


def build(G):
    begin(G, preludes=("bytes.rs", "std.rs", "net.rs"))
    name_types(G, tryfrom=False)
    wire_types(G, conv_props=[], conv_mode="assume")
    G.file(os.path.join(PRELUDE, "wire_spec.rs"))
    zone_types(G)
    G.file(os.path.join(PRELUDE, "hash.rs"))
    G.raw(OWNERS_OK_RS, ("spec", "owners_ok"))
    G.raw(QMATCH_RS, ("spec", "qmatch"))
    G.raw(ANSWER_TYPED_RS, ("spec", "answer_typed"))
    G.file(os.path.join(VERIF, "units", "zone_lookup.spec.rs"))
    G.raw(BUILD_SPEC_RS, ("spec", "zone_build spec"))
    G.raw(SPEC_RS, ("spec", "zone_merge spec"))
    Z = G.src(ZTYPES)
    G.top_fn(Z, "merge_zrs_helper", SPECS)
    G.impl(Z, "ZoneRecords", ["merge"], "ZoneRecords::", SPECS)
    G.impl(Z, "Zone", ["merge"], "Zone::", SPECS)
    G.impl(Z, "Zones", ["insert", "insert_merge", "merge"], "Zones::", SPECS)
    H = G.src(HTYPES)
    G.item(H, "struct", "Hosts", drop_derive=("Clone",))
    G.impl(H, "Hosts", ["merge"], "Hosts::", SPECS)
    end(G)


CANARIES = [
    {"name": "no_dedup", "file": ZTYPES, "old": "                if my_zrs.iter().any(|e| e == &new) {\n                    continue;\n                }\n", "new": ""},
    {"name": "drop_new_types", "file": ZTYPES, "old": "            this.insert(k, other_zrs);\n        }\n    }\n}", "new": "            let _ = other_zrs;\n        }\n    }\n}"},
    {"name": "replace_instead_of_merge", "file": ZTYPES, "old": "        if let Some(my_zrs) = this.get_mut(&k) {\n            for new in other_zrs {", "new": "        if let Some(my_zrs) = this.get_mut(&k) {\n            my_zrs.clear();\n            for new in other_zrs {"},
]
