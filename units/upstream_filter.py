"""Unit `upstream_filter` (C06, and C07's 'each referral strictly closer'): which records of an upstream reply are used."""
from units.base import *
from units.upstream_validate import VALIDATE_SPEC, VALIDATE_SPEC_RS
import re

REC = "crates/dns-resolver/src/recursive.rs"
NSRV = "crates/dns-resolver/src/util/nameserver.rs"
UTYPES = "crates/dns-resolver/src/util/types.rs"

TRUSTED = TRUSTED_COMMON + [
    "HashMap/HashSet: vstd specs + key model of DomainName (prelude/hash.rs)",
    "R4 shims: `a.union(&b).cloned().collect()` is set union, `set.into_iter().collect()` lists each element once (bodies are the original expressions)",
    "== / != on DomainName, RecordType, Rcode, Opcode, Question vectors are structural (derived PartialEq; PartialEqSpec axioms)",
    "usize::cmp is the integer order",
]


def _r5(txt):
    """R5: `if COND { continue; } REST` at the top of a loop body  ->  `if !(COND) { REST }`"""
    m = re.search(r"if ([a-z_\.\(\)]+) \{\s*continue;\s*\}", txt)
    if not m:
        return txt, 0
    depth, j = 0, m.end()
    while j < len(txt):
        if txt[j] == "{":
            depth += 1
        elif txt[j] == "}":
            depth -= 1
            if depth < 0:
                break
        j += 1
    new = txt[:m.start()] + "if !(" + m.group(1) + ") {" + "\n" * m.group(0).count("\n") + txt[m.end():j] + "}\n" + txt[j:]
    return new, 1


def _r16(txt):
    """R16: `return F(..).map(|x| EXPR);` on an Option  ->  `return match F(..) { Some(x) => Some(EXPR), None => None };`"""
    m = re.search(r"return (get_nxdomain_nodata_soa\([^)]*\))\.map\(\s*\|([a-z_]+)\| ", txt)
    if not m:
        return txt, 0
    # find the closing paren of .map(
    start = txt.index(".map(", m.start()) + 4
    depth, j = 0, start
    while True:
        if txt[j] in "([{":
            depth += 1
        elif txt[j] in ")]}":
            depth -= 1
            if depth == 0:
                break
        j += 1
    inner = txt[m.end():j].rstrip().rstrip(",")
    new = txt[:m.start()] + f"return match {m.group(1)} {{ Some({m.group(2)}) => Some({inner}), None => None }}" + txt[j + 1:]
    return new, 1


def _r24(txt):
    """R24: `while let PAT = EXPR SPEC { BODY }` -> `loop SPEC { ENTRY if let PAT = EXPR { BODY } else { break; } }` (Rust's own desugaring of
    while-let); lets the spliced loop entry (broadcast use ...) run before EXPR is evaluated."""
    m = re.search(r"while let (Some\([a-z_]+\)) = ([^\n]+?)\s*\n(\s*(?:invariant|ensures|decreases)[^{]*)\{", txt)
    if not m:
        return txt, 0
    open_i = m.end() - 1
    depth, j = 0, open_i
    while True:
        if txt[j] == "{":
            depth += 1
        elif txt[j] == "}":
            depth -= 1
            if depth == 0:
                break
        j += 1
    body = txt[open_i + 1:j]
    # the spliced entry block is the first lines of the body up to the marker comment
    k = body.find("// @entry-end")
    entry, rest = (body[:k], body[k:]) if k >= 0 else ("", body)
    new = txt[:m.start()] + "loop\n" + m.group(3) + "{" + entry + f"if let {m.group(1)} = {m.group(2)} {{" + rest + "} else { break; } }" + txt[j + 1:]
    return new, 1


R4a = ("R4", r"([a-z_0-9]+)\.union\(&([a-z_0-9]+)\)\.cloned\(\)\.collect\(\)", r"shim_hashset_union(&\1, &\2)")
R4b = ("R4", r"([a-z_0-9]+)\.into_iter\(\)\.collect\(\)", r"shim_hashset_into_vec(\1)")
R16m = ("R16", r"match_name\.map\(\|mn\| \(mn, ns_names\)\)", "match match_name { Some(mn) => Some((mn, ns_names)), None => None }")

SPECS = {
    "response_matches_request": {"props": ["C06"],
        "contract": """    ensures r ==> request.header.id == response.header.id, // [C06:reply_id_matches]
        r ==> response.header.is_response, // [C06:reply_is_a_response]
        r ==> request.header.opcode == response.header.opcode, // [C06:reply_opcode_matches]
        r ==> !response.header.is_truncated, // [C06:truncated_reply_discarded]
        r ==> response.header.rcode == Rcode::NoError || response.header.rcode == Rcode::NameError, // [C06:error_reply_discarded]
        r ==> request.questions@ == response.questions@, // [C06:reply_question_matches]""",
        "entry": "broadcast use group_eq_axioms;"},
    "get_nxdomain_nodata_soa": {"props": ["C06", "C07"],
        "contract": """    ensures r is Some ==> response.answers@.len() == 0,
        r is Some ==> exists|i: int| 0 <= i < response.authority@.len() && #[trigger] response.authority@[i] == *r->Some_0, // [C06,C07:soa_is_from_the_reply]
        r is Some ==> spec_rtype_of(r->Some_0.rtype_with_data) == RecordType::SOA,
        r is Some ==> forall|i: int| 0 <= i < response.authority@.len() && spec_rtype_of(#[trigger] response.authority@[i].rtype_with_data) == RecordType::SOA ==> response.authority@[i] == *r->Some_0, // [C06:soa_is_unique]
        r is Some ==> is_suffix(r->Some_0.name.labels@, question.name.labels@), // [C06,C07:soa_owner_is_ancestor_of_question]
        r is Some ==> r->Some_0.name.labels@.len() >= current_match_count, // [C06,C07:soa_not_above_delegation_in_use]""",
        "entry": "broadcast use group_eq_axioms;",
        "loops": {"0": {"kw": "for", "iter_name": "it__", "spec": """        invariant
            it__.seq().len() == response.authority@.len(), forall|j: int| 0 <= j < it__.seq().len() ==> *it__.seq()[j] == response.authority@[j],
            none_rr(soa_rr) ==> forall|j: int| 0 <= j < it__.index@ ==> spec_rtype_of(#[trigger] response.authority@[j].rtype_with_data) != RecordType::SOA,
            soa_rr is Some ==> exists|i: int| 0 <= i < it__.index@ && #[trigger] response.authority@[i] == *some_rr(soa_rr) && spec_rtype_of(response.authority@[i].rtype_with_data) == RecordType::SOA
                && forall|j: int| 0 <= j < it__.index@ && j != i ==> spec_rtype_of(#[trigger] response.authority@[j].rtype_with_data) != RecordType::SOA,""",
            "entry": "broadcast use group_eq_axioms;"}}},
    "get_better_ns_names": {"props": ["C06", "C07"], "rewrites": [R16m],
        "contract": """    ensures
        r is Some ==> is_suffix(r->Some_0.0.labels@, target.labels@), // [C06,C07:delegation_name_is_ancestor_of_question]
        r is Some ==> r->Some_0.0.labels@.len() > current_match_count, // [C06,C07:referral_strictly_closer]
        r is Some ==> nonempty_set(r->Some_0.1@), // [C06:delegation_has_nameservers]
        r is Some ==> r->Some_0.1@.len() <= rrs@.len(),
        r is Some ==> forall|h: DomainName| #[trigger] r->Some_0.1@.contains(h) ==> exists|i: int| 0 <= i < rrs@.len() && ns_rr_for(#[trigger] rrs@[i], r->Some_0.0, h), // [C06:nameserver_names_come_from_ns_records_of_the_delegation]""",
        "entry": "broadcast use group_eq_axioms, vstd::std_specs::hash::group_hash_axioms, axiom_dn_key_model;",
        "loops": {"0": {"kw": "for", "iter_name": "it__", "spec": """        invariant
            it__.seq().len() == rrs@.len(), forall|j: int| 0 <= j < it__.seq().len() ==> *it__.seq()[j] == rrs@[j],
            match_count >= current_match_count, ns_names@.len() <= it__.index@,
            none_dn(match_name) ==> match_count == current_match_count,
            match_name is Some ==> some_dn(match_name).labels@.len() == match_count && match_count > current_match_count,
            match_name is Some ==> is_suffix(some_dn(match_name).labels@, target.labels@),
            match_name is Some ==> nonempty_set(ns_names@),
            match_name is Some ==> forall|h: DomainName| #[trigger] ns_names@.contains(h) ==> exists|i: int| 0 <= i < it__.index@ && ns_rr_for(#[trigger] rrs@[i], some_dn(match_name), h),""",
            "entry": "broadcast use group_eq_axioms, vstd::std_specs::hash::group_hash_axioms, axiom_dn_key_model; let ghost idx = it__.index@ as int; assert(*rr == rrs@[idx]); proof { if match_name is Some && rr.name.labels@.len() == match_count && is_suffix(rr.name.labels@, target.labels@) { lemma_suffix_same_len(rr.name.labels@, some_dn(match_name).labels@, target.labels@); } }"}},
        "anchors": [{"after": "ns_names.insert(nsdname.clone());", "nth": 0, "proof": "assert(ns_names@.contains(*nsdname));"},
                    {"after": "ns_names.insert(nsdname.clone());", "nth": 1, "proof": "assert(ns_names@.contains(*nsdname));"}]},
    "follow_cnames": {"props": ["C06", "C10", "C08"], "rewrites": [("R24", _r24)],
        "contract": """    ensures
        r is Some ==> cmap_from(r->Some_0.1@, rrs@), // [C06:cname_links_come_from_the_reply]
        r is Some ==> path_ok(r->Some_0.1@, rrs@, *target, r->Some_0.0, qtype), // [C06:final_name_reached_by_following_cnames]
        r is Some ==> !r->Some_0.1@.contains_key(r->Some_0.0), // [C06:chain_followed_to_its_end]""",
        "entry": "broadcast use group_eq_axioms, vstd::std_specs::hash::group_hash_axioms, axiom_dn_key_model;",
        "loops": {
            "0": {"kw": "for", "iter_name": "it__", "spec": """        invariant
            it__.seq().len() == rrs@.len(), forall|j: int| 0 <= j < it__.seq().len() ==> *it__.seq()[j] == rrs@[j],
            cmap_from(cname_map@, rrs@),
            got_match ==> exists|i: int| 0 <= i < rrs@.len() && direct_match(#[trigger] rrs@[i], *target, qtype),""",
                  "entry": "broadcast use group_eq_axioms, vstd::std_specs::hash::group_hash_axioms, axiom_dn_key_model; let ghost idx = it__.index@ as int; assert(*rr == rrs@[idx]);"},
            "1": {"kw": "while", "spec": """        invariant
            reach(cname_map@, tgt0, final_name, steps), steps == seen@.len(),
            seen@.subset_of(cname_map@.values()),
        ensures !cname_map@.contains_key(final_name),
        decreases cname_map@.dom().len() - seen@.len(),
""",
                  "entry": """broadcast use group_eq_axioms, vstd::std_specs::hash::group_hash_axioms, axiom_dn_key_model;
proof { cname_map@.lemma_values_len(); vstd::set_lib::lemma_len_subset(seen@, cname_map@.values()); lemma_reach_extend(cname_map@, tgt0, final_name, steps); }
let ghost fin_b = final_name;
// @entry-end"""},
        },
        "anchors": [
            {"after": "let mut final_name = target.clone();", "proof": "let ghost tgt0 = *target; let ghost mut steps: nat = 0;"},
            {"after_re": r"seen\.insert\(\w+\.clone\(\)\);", "proof": """proof {
    assert(cname_map@.values().contains(*target)) by { assert(cname_map@.contains_key(fin_b) && cname_map@[fin_b] == *target); }
    steps = steps + 1;
    let s_new = seen@;
    cname_map@.lemma_values_len(); vstd::set_lib::lemma_len_subset(s_new, cname_map@.values());
}"""},
            {"after": "if got_match || !seen.is_empty() {", "at": "before", "proof": """proof {
    assert(reach(cname_map@, *target, final_name, steps));
    assert(!seen@.is_empty() ==> steps > 0) by { if seen@.len() == 0 { assert(seen@ =~= Set::<DomainName>::empty()); } }
}"""},
            {"after": "if got_match || !seen.is_empty() {", "proof": """proof {
    assert(steps > 0 || got_match);
    assert(got_match ==> exists|i: int| 0 <= i < rrs@.len() && direct_match(#[trigger] rrs@[i], *target, qtype));
    assert(reach(cname_map@, *target, final_name, steps) && (steps > 0 || exists|i: int| 0 <= i < rrs@.len() && direct_match(#[trigger] rrs@[i], *target, qtype)));
    assert(path_ok(cname_map@, rrs@, *target, final_name, qtype));
}"""},
        ]},
}

SPEC_RS = """
// every entry of the CNAME map is a CNAME record of the reply section it was built from
pub open spec fn cmap_from(m: Map<DomainName, DomainName>, rrs: Seq<ResourceRecord>) -> bool {
    forall|o: DomainName| #[trigger] m.contains_key(o) ==> exists|i: int| 0 <= i < rrs.len() && cname_rr(#[trigger] rrs[i], o, m[o])
}
pub open spec fn cname_rr(rr: ResourceRecord, owner: DomainName, tgt: DomainName) -> bool {
    rr.name == owner && rr.rtype_with_data is CNAME && rr.rtype_with_data->CNAME_cname == tgt
}
// `to` is reached from `from` by following exactly n links of the CNAME map
pub open spec fn reach(m: Map<DomainName, DomainName>, from: DomainName, to: DomainName, n: nat) -> bool
    decreases n
{ if n == 0 { from == to } else { m.contains_key(from) && reach(m, m[from], to, (n - 1) as nat) } }
pub proof fn lemma_reach_extend(m: Map<DomainName, DomainName>, a: DomainName, b: DomainName, n: nat)
    requires reach(m, a, b, n)
    ensures m.contains_key(b) ==> reach(m, a, m[b], n + 1)
    decreases n
{
    reveal_with_fuel(reach, 2);
    if n > 0 && m.contains_key(b) {
        lemma_reach_extend(m, m[a], b, (n - 1) as nat);
        assert(((n - 1) as nat + 1) as nat == n);
        assert(reach(m, m[a], m[b], n));
    }
}
// the final name is reached from the question name by following n CNAME links of the reply; with n == 0 the reply holds a record of
// the asked type at the question name itself
pub open spec fn path_ok(m: Map<DomainName, DomainName>, rrs: Seq<ResourceRecord>, target: DomainName, fin: DomainName, q: QueryType) -> bool {
    exists|n: nat| #[trigger] reach(m, target, fin, n) && (n > 0 || exists|i: int| 0 <= i < rrs.len() && direct_match(#[trigger] rrs[i], target, q))
}
pub open spec fn direct_match(rr: ResourceRecord, target: DomainName, q: QueryType) -> bool { rr.name == target && qtype_matches(spec_rtype_of(rr.rtype_with_data), q) }
pub open spec fn qtype_matches(t: RecordType, q: QueryType) -> bool { q == QueryType::Wildcard || q == QueryType::Record(t) }

pub open spec fn nonempty_set(s: Set<DomainName>) -> bool { exists|h: DomainName| #[trigger] s.contains(h) }
spec fn none_rr(o: Option<&ResourceRecord>) -> bool { o is None }
spec fn some_rr(o: Option<&ResourceRecord>) -> &ResourceRecord { o->Some_0 }
spec fn none_dn(o: Option<DomainName>) -> bool { o is None }
spec fn some_dn(o: Option<DomainName>) -> DomainName { o->Some_0 }
// rr is an NS record owned by `owner` naming the host `h`
pub open spec fn ns_rr_for(rr: ResourceRecord, owner: DomainName, h: DomainName) -> bool {
    rr.name.labels@ == owner.labels@ && rr.rtype_with_data is NS && rr.rtype_with_data->NS_nsdname == h
}
// two ancestors (label suffixes) of one name with the same number of labels are the same label sequence
pub proof fn lemma_suffix_same_len<T>(a: Seq<T>, b: Seq<T>, of: Seq<T>)
    requires is_suffix(a, of), is_suffix(b, of), a.len() == b.len()
    ensures a == b
{}
"""


TRANSPORT_STANDINS = """
// ---- the transport: sockets are stand-ins without postconditions; what is checked is the 5-second budget around each exchange and
// that a reply is handed on only if it matches the request
pub struct WireRequest { b: u8 }
#[verifier::external_body]
fn shim_random_id() -> (r: u16) { unimplemented!() }
#[verifier::external_body]
fn shim_to_octets(m: &Message) -> (r: Result<WireRequest, Error>) { unimplemented!() }
pub struct Error { e: u8 }
#[verifier::external_body]
fn query_nameserver_udp_notimeout(address: SocketAddr, serialised_request: &mut WireRequest) -> (r: Option<Message>) { unimplemented!() }
#[verifier::external_body]
fn query_nameserver_tcp_notimeout(address: SocketAddr, serialised_request: &mut WireRequest) -> (r: Option<Message>) { unimplemented!() }
#[verifier::external_type_specification]
#[verifier::external_body]
pub struct ExSocketAddr(std::net::SocketAddr);
"""

_TO = r"(timeout\((?:[^()]|\([^()]*\))*\))\s*\.unwrap_or_default\(\)"
TRANSPORT_SPECS = {
    "Message::from_question": {"props": [], "mode": "assume", "contract": """    ensures r.header.id == id, !r.header.is_response, r.header.opcode == Opcode::Standard, !r.header.recursion_desired, r.questions@ == seq![question],"""},
    "query_nameserver_udp": {"props": ["C08"],
        "header_rewrites": [("R32", r"\basync fn\b", "fn"), ("R9", r"&mut \[u8\]", "&mut WireRequest")],
        "rewrites": [("R32", r"\s*\.await\b", ""), ("R41", _TO, r"(match \1 { Ok(v__) => v__, Err(_) => None })")],
        "contract": """    ensures r is None || budgeted(r), // [C08:every_upstream_exchange_runs_under_its_budget]"""},
    "query_nameserver_tcp": {"props": ["C08"],
        "header_rewrites": [("R32", r"\basync fn\b", "fn"), ("R9", r"&mut \[u8\]", "&mut WireRequest")],
        "rewrites": [("R32", r"\s*\.await\b", ""), ("R41", _TO, r"(match \1 { Ok(v__) => v__, Err(_) => None })")],
        "contract": """    ensures r is None || budgeted(r), // [C08:every_upstream_exchange_runs_under_its_budget]"""},
    "query_nameserver": {"props": ["C06", "C08"],
        "header_rewrites": [("R32", r"\basync fn\b", "fn")],
        "rewrites": [("R32", r"\s*\.await\b", ""), ("R9", r"rand::rng\(\)\.random\(\)", "shim_random_id()"), ("R9", r"request\.to_octets\(\)", "shim_to_octets(&request)")],
        "contract": """    ensures
        // C06: a reply is handed to the resolver only if it is a response to this very question: anything else is discarded as a whole
        r is Some ==> r->Some_0.header.is_response, // [C06:reply_is_a_response]
        r is Some ==> r->Some_0.header.opcode == Opcode::Standard, // [C06:reply_opcode_matches]
        r is Some ==> !r->Some_0.header.is_truncated, // [C06:truncated_reply_discarded]
        r is Some ==> r->Some_0.header.rcode == Rcode::NoError || r->Some_0.header.rcode == Rcode::NameError, // [C06:error_reply_discarded]
        r is Some ==> r->Some_0.questions@ == seq![question], // [C06:reply_question_matches]"""},
}


def build(G):
    begin(G, preludes=("bytes.rs", "std.rs", "net.rs", "std_slices.rs"))
    name_types(G, tryfrom=False)
    wire_types(G, conv_props=[], conv_mode="assume")
    G.file(os.path.join(PRELUDE, "wire_spec.rs"))
    G.file(os.path.join(PRELUDE, "hash.rs"))
    G.file(os.path.join(PRELUDE, "eq.rs"))
    R, N, U, T = G.src(REC), G.src(NSRV), G.src(UTYPES), G.src(TYPES)
    G.raw("use std::cmp::Ordering;")
    G.item(U, "struct", "Nameservers", drop_derive=("Clone",))
    G.raw(UNIMPL_CLONE % {"T": "Nameservers"})
    G.item(R, "enum", "NameserverResponse", drop_derive=("Clone",))
    G.raw(SPEC_RS, ("spec", "upstream_filter spec"))
    specs = dict(SPECS)
    specs.update(as_assumed(NAME_SPECS, ["DomainName::is_subdomain_of"]))
    specs["RecordTypeWithData::rtype"] = {"mode": "assume", "props": [], "contract": "    ensures r == spec_rtype_of(*self),"}
    G.impl(T, "DomainName", ["is_subdomain_of"], "DomainName::", specs)
    specs["Nameservers::match_count"] = {"props": ["C06", "C07"], "contract": "    ensures r == self.name.labels@.len(), // [C06,C07:depth_of_the_delegation_in_use_is_its_label_count]"}
    G.impl(U, "Nameservers", ["match_count"], "Nameservers::", specs)
    G.top_fn(N, "response_matches_request", specs)
    G.raw(TRANSPORT_STANDINS, ("spec", "transport stand-ins"))
    G.raw(timeout_standin(5_000_000_000, "every_upstream_exchange_has_a_5_second_budget_per_transport"), ("spec", "timeout stand-in"))
    specs.update({k: dict(v) for k, v in TRANSPORT_SPECS.items()})
    G.impl(T, "Message", ["from_question"], "Message::", specs)
    G.top_fn(N, "query_nameserver_udp", specs)
    G.top_fn(N, "query_nameserver_tcp", specs)
    G.top_fn(N, "query_nameserver", specs)
    G.top_fn(N, "get_nxdomain_nodata_soa", specs)
    specs["RecordType::matches"] = {"props": ["C06"], "mode": "prove", "contract": "    ensures r == qtype_matches(*self, qtype),", "entry": "broadcast use group_eq_axioms;"}
    specs["RecordTypeWithData::matches"] = {"props": ["C06"], "mode": "prove", "contract": "    ensures r == qtype_matches(spec_rtype_of(*self), qtype),"}
    G.impl(T, "RecordType", ["matches"], "RecordType::", specs)
    G.impl(T, "RecordTypeWithData", ["matches", "rtype"], "RecordTypeWithData::", specs)
    G.top_fn(R, "get_better_ns_names", specs)
    G.top_fn(R, "follow_cnames", specs)
    G.raw(VALIDATE_SPEC_RS, ("spec", "validate spec"))
    G.raw("""// R4 shims
#[verifier::external_body]
pub fn shim_hashset_union<T: std::cmp::Eq + std::hash::Hash + Clone>(a: &HashSet<T>, b: &HashSet<T>) -> (r: HashSet<T>)
    ensures obeys_key_model::<T>() ==> r@ == a@.union(b@) && r@.len() <= a@.len() + b@.len() && (forall|x: T| #[trigger] a@.contains(x) ==> r@.contains(x))
{ a.union(b).cloned().collect() }
#[verifier::external_body]
pub fn shim_hashset_into_vec<T: std::cmp::Eq + std::hash::Hash>(a: HashSet<T>) -> (r: Vec<T>)
    ensures obeys_key_model::<T>() ==> (forall|x: T| r@.contains(x) <==> a@.contains(x)) && r@.no_duplicates() && ((exists|x: T| a@.contains(x)) ==> r@.len() > 0)
{ a.into_iter().collect() }
""", ("spec", "R4 shims"))
    v = dict(VALIDATE_SPEC)
    if "let mut on_path = HashSet::new();" not in R.s:
        # shape before fix D-e: no on-path walk.  Same contract; the loop contracts follow the loops that are there.
        lp = {}
        for k in ("1", "2", "3", "4"):
            d = dict(VALIDATE_SPEC["loops"][k])
            d["spec"] = "\n".join(l for l in d["spec"].split("\n") if "on_path@" not in l)
            lp[str(int(k) - 1)] = d
        v["loops"] = lp
        v["anchors"] = [a for a in VALIDATE_SPEC["anchors"] if "path_name" not in a["after"]]
    v["rewrites"] = [("R24", _r24), ("R5", _r5), ("R16", _r16), R4a, R4b]
    specs["validate_nameserver_response"] = v
    specs["ResourceRecord::is_unknown"] = {"mode": "assume", "props": [], "contract": ""}
    G.impl(T, "ResourceRecord", ["is_unknown"], "ResourceRecord::", specs)
    G.top_fn(R, "validate_nameserver_response", specs)
    end(G)


CANARIES = [
    {"name": "udp_exchange_budget_50s", "file": NSRV, "old": "        Duration::from_secs(5),\n        query_nameserver_udp_notimeout(address, serialised_request),", "new": "        Duration::from_secs(50),\n        query_nameserver_udp_notimeout(address, serialised_request),"},
    {"name": "tcp_reply_not_matched_against_the_request", "file": NSRV, "old": "            if let Some(response) = query_nameserver_tcp(address, &mut serialised_request).await {\n                if response_matches_request(&request, &response) {\n                    return Some(response);\n                }\n            }", "new": "            if let Some(response) = query_nameserver_tcp(address, &mut serialised_request).await {\n                return Some(response);\n            }"},
    {"name": "skip_id_check", "file": NSRV, "old": "    if request.header.id != response.header.id {\n        return false;\n    }\n", "new": ""},
    {"name": "accept_truncated", "file": NSRV, "old": "    if response.header.is_truncated {\n        return false;\n    }\n", "new": ""},
    {"name": "accept_servfail", "file": NSRV, "old": "response.header.rcode == Rcode::NoError || response.header.rcode == Rcode::NameError) {\n        return false;", "new": "response.header.rcode == Rcode::NoError || response.header.rcode == Rcode::NameError || response.header.rcode == Rcode::ServerFailure) {\n        return false;"},
    {"name": "ns_not_strictly_better", "file": REC, "old": "                    Ordering::Equal => {\n                        ns_names.insert(nsdname.clone());\n                    }\n                    Ordering::Less => (),", "new": "                    Ordering::Equal => {\n                        match_name = Some(rr.name.clone());\n                        ns_names.insert(nsdname.clone());\n                    }\n                    Ordering::Less => (),"},
    {"name": "ns_for_non_ancestor", "file": REC, "old": "            if target.is_subdomain_of(&rr.name) {", "new": "            if target.is_subdomain_of(&rr.name) || rr.name.is_subdomain_of(target) {"},
    {"name": "glue_for_any_host", "file": REC, "old": "                RecordTypeWithData::A { .. } if ns_names.contains(&rr.name) => {\n                    nameserver_rrs.push(rr.clone());\n                }\n                RecordTypeWithData::AAAA { .. } if ns_names.contains(&rr.name) => {\n                    nameserver_rrs.push(rr.clone());\n                }\n                _ => (),\n            }\n        }\n\n        // this is a delegation", "new": "                RecordTypeWithData::A { .. } => {\n                    nameserver_rrs.push(rr.clone());\n                }\n                RecordTypeWithData::AAAA { .. } if ns_names.contains(&rr.name) => {\n                    nameserver_rrs.push(rr.clone());\n                }\n                _ => (),\n            }\n        }\n\n        // this is a delegation"},
    {"name": "cname_any_owner", "file": REC, "old": "if on_path.contains(&an.name) && cname_map.get(&an.name) == Some(cname) {", "new": "if cname_map.get(&an.name) == Some(cname) {"},
    {"name": "ns_any_owner", "file": REC, "old": "if rr.name == match_name && ns_names.contains(nsdname) =>\n                {\n                    nameserver_rrs.push(rr.clone());\n                }\n                _ => (),", "new": "if ns_names.contains(nsdname) =>\n                {\n                    nameserver_rrs.push(rr.clone());\n                }\n                _ => (),"},
    {"name": "soa_any_owner", "file": NSRV, "old": "        if !question.name.is_subdomain_of(&rr.name) {\n            return None;\n        }\n", "new": ""},
    {"name": "no_loop_detection", "file": REC, "old": "        if seen.contains(target) {\n            return None;\n        }\n", "new": ""},
]
