"""Unit `upstream_filter` (C06, and C07's 'each referral strictly closer'): which records of an upstream reply are used."""
from units.base import *
import re

REC = "crates/dns-resolver/src/recursive.rs"
NSRV = "crates/dns-resolver/src/util/nameserver.rs"
UTYPES = "crates/dns-resolver/src/util/types.rs"

TRUSTED = TRUSTED_COMMON + [
    "HashMap/HashSet: vstd specs + key model of DomainName (prelude/hash.rs)",
    "R4 shims: `a.union(&b).cloned().collect()` is set union, `set.into_iter().collect()` lists each element once (bodies are the original expressions)",
    "== / != on DomainName, RecordType, Rcode, Opcode, Question vectors are structural (derived PartialEq; PartialEqSpec axioms)",
    "usize::cmp is the integer order",
]


def _r5(txt):
    """R5: `if COND { continue; } REST` at the top of a loop body  ->  `if !(COND) { REST }`"""
    m = re.search(r"if ([a-z_\.\(\)]+) \{\s*continue;\s*\}", txt)
    if not m:
        return txt, 0
    depth, j = 0, m.end()
    while j < len(txt):
        if txt[j] == "{":
            depth += 1
        elif txt[j] == "}":
            depth -= 1
            if depth < 0:
                break
        j += 1
    new = txt[:m.start()] + "if !(" + m.group(1) + ") {" + "\n" * m.group(0).count("\n") + txt[m.end():j] + "}\n" + txt[j:]
    return new, 1


def _r16(txt):
    """R16: `return F(..).map(|x| EXPR);` on an Option  ->  `return match F(..) { Some(x) => Some(EXPR), None => None };`"""
    m = re.search(r"return (get_nxdomain_nodata_soa\([^)]*\))\.map\(\s*\|([a-z_]+)\| ", txt)
    if not m:
        return txt, 0
    # find the closing paren of .map(
    start = txt.index(".map(", m.start()) + 4
    depth, j = 0, start
    while True:
        if txt[j] in "([{":
            depth += 1
        elif txt[j] in ")]}":
            depth -= 1
            if depth == 0:
                break
        j += 1
    inner = txt[m.end():j].rstrip().rstrip(",")
    new = txt[:m.start()] + f"return match {m.group(1)} {{ Some({m.group(2)}) => Some({inner}), None => None }}" + txt[j + 1:]
    return new, 1


R4a = ("R4", r"([a-z_0-9]+)\.union\(&([a-z_0-9]+)\)\.cloned\(\)\.collect\(\)", r"shim_hashset_union(&\1, &\2)")
R4b = ("R4", r"([a-z_0-9]+)\.into_iter\(\)\.collect\(\)", r"shim_hashset_into_vec(\1)")
R16m = ("R16", r"match_name\.map\(\|mn\| \(mn, ns_names\)\)", "match match_name { Some(mn) => Some((mn, ns_names)), None => None }")

SPECS = {
    "response_matches_request": {"props": ["C06"],
        "contract": """    ensures r ==> request.header.id == response.header.id, // [C06:reply_id_matches]
        r ==> response.header.is_response, // [C06:reply_is_a_response]
        r ==> request.header.opcode == response.header.opcode, // [C06:reply_opcode_matches]
        r ==> !response.header.is_truncated, // [C06:truncated_reply_discarded]
        r ==> response.header.rcode == Rcode::NoError || response.header.rcode == Rcode::NameError, // [C06:error_reply_discarded]
        r ==> request.questions@ == response.questions@, // [C06:reply_question_matches]""",
        "entry": "broadcast use group_eq_axioms;"},
    "get_nxdomain_nodata_soa": {"props": ["C06"],
        "contract": """    ensures r is Some ==> response.answers@.len() == 0,
        r is Some ==> exists|i: int| 0 <= i < response.authority@.len() && #[trigger] response.authority@[i] == *r->Some_0, // [C06:soa_is_from_the_reply]
        r is Some ==> spec_rtype_of(r->Some_0.rtype_with_data) == RecordType::SOA,
        r is Some ==> forall|i: int| 0 <= i < response.authority@.len() && spec_rtype_of(#[trigger] response.authority@[i].rtype_with_data) == RecordType::SOA ==> response.authority@[i] == *r->Some_0, // [C06:soa_is_unique]
        r is Some ==> is_suffix(r->Some_0.name.labels@, question.name.labels@), // [C06:soa_owner_is_ancestor_of_question]
        r is Some ==> r->Some_0.name.labels@.len() >= current_match_count, // [C06:soa_not_above_delegation_in_use]""",
        "entry": "broadcast use group_eq_axioms;",
        "loops": {"0": {"kw": "for", "iter_name": "it__", "spec": """        invariant
            it__.seq().len() == response.authority@.len(), forall|j: int| 0 <= j < it__.seq().len() ==> *it__.seq()[j] == response.authority@[j],
            none_rr(soa_rr) ==> forall|j: int| 0 <= j < it__.index@ ==> spec_rtype_of(#[trigger] response.authority@[j].rtype_with_data) != RecordType::SOA,
            soa_rr is Some ==> exists|i: int| 0 <= i < it__.index@ && #[trigger] response.authority@[i] == *some_rr(soa_rr) && spec_rtype_of(response.authority@[i].rtype_with_data) == RecordType::SOA
                && forall|j: int| 0 <= j < it__.index@ && j != i ==> spec_rtype_of(#[trigger] response.authority@[j].rtype_with_data) != RecordType::SOA,""",
            "entry": "broadcast use group_eq_axioms;"}}},
    "get_better_ns_names": {"props": ["C06", "C07"], "rewrites": [R16m],
        "contract": """    ensures
        r is Some ==> is_suffix(r->Some_0.0.labels@, target.labels@), // [C06:delegation_name_is_ancestor_of_question]
        r is Some ==> r->Some_0.0.labels@.len() > current_match_count, // [C06,C07:referral_strictly_closer]
        r is Some ==> nonempty_set(r->Some_0.1@), // [C06:delegation_has_nameservers]
        r is Some ==> forall|h: DomainName| #[trigger] r->Some_0.1@.contains(h) ==> exists|i: int| 0 <= i < rrs@.len() && ns_rr_for(#[trigger] rrs@[i], r->Some_0.0, h), // [C06:nameserver_names_come_from_ns_records_of_the_delegation]""",
        "entry": "broadcast use group_eq_axioms, vstd::std_specs::hash::group_hash_axioms, axiom_dn_key_model;",
        "loops": {"0": {"kw": "for", "iter_name": "it__", "spec": """        invariant
            it__.seq().len() == rrs@.len(), forall|j: int| 0 <= j < it__.seq().len() ==> *it__.seq()[j] == rrs@[j],
            match_count >= current_match_count,
            none_dn(match_name) ==> match_count == current_match_count,
            match_name is Some ==> some_dn(match_name).labels@.len() == match_count && match_count > current_match_count,
            match_name is Some ==> is_suffix(some_dn(match_name).labels@, target.labels@),
            match_name is Some ==> nonempty_set(ns_names@),
            match_name is Some ==> forall|h: DomainName| #[trigger] ns_names@.contains(h) ==> exists|i: int| 0 <= i < it__.index@ && ns_rr_for(#[trigger] rrs@[i], some_dn(match_name), h),""",
            "entry": "broadcast use group_eq_axioms, vstd::std_specs::hash::group_hash_axioms, axiom_dn_key_model; let ghost idx = it__.index@ as int; assert(*rr == rrs@[idx]); proof { if match_name is Some && rr.name.labels@.len() == match_count && is_suffix(rr.name.labels@, target.labels@) { lemma_suffix_same_len(rr.name.labels@, some_dn(match_name).labels@, target.labels@); } }"}},
        "anchors": [{"after": "ns_names.insert(nsdname.clone());", "nth": 0, "proof": "assert(ns_names@.contains(*nsdname));"},
                    {"after": "ns_names.insert(nsdname.clone());", "nth": 1, "proof": "assert(ns_names@.contains(*nsdname));"}]},
}

SPEC_RS = """
pub open spec fn nonempty_set(s: Set<DomainName>) -> bool { exists|h: DomainName| #[trigger] s.contains(h) }
spec fn none_rr(o: Option<&ResourceRecord>) -> bool { o is None }
spec fn some_rr(o: Option<&ResourceRecord>) -> &ResourceRecord { o->Some_0 }
spec fn none_dn(o: Option<DomainName>) -> bool { o is None }
spec fn some_dn(o: Option<DomainName>) -> DomainName { o->Some_0 }
// rr is an NS record owned by `owner` naming the host `h`
pub open spec fn ns_rr_for(rr: ResourceRecord, owner: DomainName, h: DomainName) -> bool {
    rr.name.labels@ == owner.labels@ && rr.rtype_with_data is NS && rr.rtype_with_data->NS_nsdname == h
}
// two ancestors (label suffixes) of one name with the same number of labels are the same label sequence
pub proof fn lemma_suffix_same_len<T>(a: Seq<T>, b: Seq<T>, of: Seq<T>)
    requires is_suffix(a, of), is_suffix(b, of), a.len() == b.len()
    ensures a == b
{}
"""


def build(G):
    begin(G, preludes=("bytes.rs", "std.rs", "net.rs", "std_slices.rs"))
    name_types(G, tryfrom=False)
    wire_types(G, conv_props=[], conv_mode="assume")
    G.file(os.path.join(PRELUDE, "wire_spec.rs"))
    G.file(os.path.join(PRELUDE, "hash.rs"))
    G.file(os.path.join(PRELUDE, "eq.rs"))
    R, N, U, T = G.src(REC), G.src(NSRV), G.src(UTYPES), G.src(TYPES)
    G.raw("use std::cmp::Ordering;")
    G.item(U, "struct", "Nameservers", drop_derive=("Clone",))
    G.raw(UNIMPL_CLONE % {"T": "Nameservers"})
    G.item(R, "enum", "NameserverResponse", drop_derive=("Clone",))
    G.raw(SPEC_RS, ("spec", "upstream_filter spec"))
    specs = dict(SPECS)
    specs.update(as_assumed(NAME_SPECS, ["DomainName::is_subdomain_of"]))
    specs["RecordTypeWithData::rtype"] = {"mode": "assume", "props": [], "contract": "    ensures r == spec_rtype_of(*self),"}
    G.impl(T, "DomainName", ["is_subdomain_of"], "DomainName::", specs)
    G.impl(T, "RecordTypeWithData", ["rtype"], "RecordTypeWithData::", specs)
    G.top_fn(N, "response_matches_request", specs)
    G.top_fn(N, "get_nxdomain_nodata_soa", specs)
    G.top_fn(R, "get_better_ns_names", specs)
    end(G)


CANARIES = []
