"""Contract, loop contracts and proof anchors for validate_nameserver_response (shape after fix D-e)."""

VALIDATE_SPEC_RS = """
// x is a name whose CNAME was followed when walking the reply's CNAME map from `start`
pub open spec fn is_on_path(m: Map<DomainName, DomainName>, start: DomainName, x: DomainName) -> bool {
    m.contains_key(x) && exists|k: nat| #[trigger] reach(m, start, x, k)
}
pub open spec fn in_section(rr: ResourceRecord, sec: Seq<ResourceRecord>) -> bool { exists|i: int| 0 <= i < sec.len() && #[trigger] sec[i] == rr }
// C06 (a): a record of the asked type at the name reached by following CNAMEs, or a CNAME record on that path
pub open spec fn answer_rr_ok(rr: ResourceRecord, m: Map<DomainName, DomainName>, qname: DomainName, fin: DomainName, q: QueryType) -> bool {
    (qtype_matches(spec_rtype_of(rr.rtype_with_data), q) && rr.name == fin)
    || (rr.rtype_with_data is CNAME && is_on_path(m, qname, rr.name) && m[rr.name] == rr.rtype_with_data->CNAME_cname)
}
pub open spec fn answer_ok(rrs: Seq<ResourceRecord>, answers: Seq<ResourceRecord>, qname: DomainName, fin: DomainName, q: QueryType) -> bool {
    exists|m: Map<DomainName, DomainName>| #[trigger] cmap_from(m, answers) && path_ok(m, answers, qname, fin, q)
        && forall|j: int| 0 <= j < rrs.len() ==> in_section(#[trigger] rrs[j], answers) && answer_rr_ok(rrs[j], m, qname, fin, q)
}
// C06 (b), (c): NS records owned by the chosen ancestor and naming one of the chosen hosts; address records owned by one of those hosts
pub open spec fn deleg_rr_ok(rr: ResourceRecord, owner: DomainName, hosts: Set<DomainName>) -> bool {
    match rr.rtype_with_data {
        RecordTypeWithData::NS { nsdname } => rr.name == owner && hosts.contains(nsdname),
        RecordTypeWithData::A { .. } => hosts.contains(rr.name),
        RecordTypeWithData::AAAA { .. } => hosts.contains(rr.name),
        _ => false,
    }
}
pub open spec fn all_aliases(rrs: Seq<ResourceRecord>) -> bool { forall|j: int| 0 <= j < rrs.len() ==> (#[trigger] rrs[j]).rtype_with_data is CNAME }
pub open spec fn response_ok(r: NameserverResponse, question: Question, response: Message, count: usize) -> bool {
    match r {
        NameserverResponse::Answer { rrs, soa_rr } =>
            (soa_rr is None ==> rrs@.len() > 0 && exists|fin: DomainName| #[trigger] answer_ok(rrs@, response.answers@, question.name, fin, question.qtype))
            && (soa_rr is Some ==> rrs@.len() == 0 && response.answers@.len() == 0 && in_section(soa_rr->Some_0, response.authority@)
                    && spec_rtype_of(soa_rr->Some_0.rtype_with_data) == RecordType::SOA
                    && is_suffix(soa_rr->Some_0.name.labels@, question.name.labels@) && soa_rr->Some_0.name.labels@.len() >= count),
        NameserverResponse::CNAME { rrs, cname } => rrs@.len() > 0 && answer_ok(rrs@, response.answers@, question.name, cname, question.qtype)
            && all_aliases(rrs@), // a reply that only leads to another name holds alias records only
        NameserverResponse::Delegation { rrs, delegation } =>
            is_suffix(delegation.name.labels@, question.name.labels@) && delegation.name.labels@.len() > count
            && delegation.hostnames@.len() > 0
            && forall|j: int| 0 <= j < rrs@.len() ==>
                (in_section(#[trigger] rrs@[j], response.answers@) || in_section(rrs@[j], response.authority@) || in_section(rrs@[j], response.additional@))
                && deleg_rr_ok(rrs@[j], delegation.name, delegation.hostnames@.to_set()),
    }
}
pub proof fn lemma_in_section(sec: Seq<ResourceRecord>, i: int)
    requires 0 <= i < sec.len()
    ensures in_section(sec[i], sec)
{}
"""

BU = "broadcast use group_eq_axioms, vstd::std_specs::hash::group_hash_axioms, axiom_dn_key_model;"

VALIDATE_SPEC = {
    "props": ["C06", "C07", "C08", "C10"],
    "contract": """    requires response.answers@.len() <= 0xffff, response.authority@.len() <= 0xffff,
    ensures r is Some ==> response_ok(r->Some_0, *question, *response, current_match_count), // [C06,C07,C10:only_relevant_records_of_the_reply_are_used_and_the_continuation_is_the_end_of_the_alias_chain]""",
    "entry": BU,
    "loops": {
        # on_path walk
        "0": {"kw": "while", "spec": """        invariant
            cmap_from(cname_map@, response.answers@), path_ok(cname_map@, response.answers@, question.name, final_name, question.qtype),
            reach(cname_map@, question.name, *path_name, ksteps),
            forall|x: DomainName| #[trigger] on_path@.contains(x) ==> is_on_path(cname_map@, question.name, x),
            on_path@.subset_of(cname_map@.dom()),
        decreases cname_map@.dom().len() - on_path@.len(),
""",
              "entry": BU + """
proof { vstd::set_lib::lemma_len_subset(on_path@, cname_map@.dom()); lemma_reach_extend(cname_map@, question.name, *path_name, ksteps); }
let ghost pn_b = *path_name;
// @entry-end"""},
        "1": {"kw": "for", "iter_name": "ita__", "spec": """        invariant
            ita__.seq().len() == response.answers@.len(), forall|j: int| 0 <= j < ita__.seq().len() ==> *ita__.seq()[j] == response.answers@[j],
            cmap_from(cname_map@, response.answers@), path_ok(cname_map@, response.answers@, question.name, final_name, question.qtype),
            forall|x: DomainName| #[trigger] on_path@.contains(x) ==> is_on_path(cname_map@, question.name, x),
            forall|j: int| 0 <= j < rrs_for_query@.len() ==> in_section(#[trigger] rrs_for_query@[j], response.answers@) // [C06:answer_records_on_cname_path]
                && answer_rr_ok(rrs_for_query@[j], cname_map@, question.name, final_name, question.qtype),
            !seen_final_record ==> all_aliases(rrs_for_query@),""",
              "entry": BU + " let ghost idx = ita__.index@ as int; assert(*an == response.answers@[idx]); proof { lemma_in_section(response.answers@, idx); } let ghost rq_b = rrs_for_query@;"},
        "2": {"kw": "for", "iter_name": "itb__", "spec": """        invariant
            itb__.seq().len() == response.answers@.len(), forall|j: int| 0 <= j < itb__.seq().len() ==> *itb__.seq()[j] == response.answers@[j],
            forall|j: int| 0 <= j < nameserver_rrs@.len() ==> in_section(#[trigger] nameserver_rrs@[j], response.answers@) && deleg_rr_ok(nameserver_rrs@[j], match_name, ns_names@), // [C06:delegation_records_owned_by_delegation]""",
              "entry": BU + " let ghost idx = itb__.index@ as int; assert(*rr == response.answers@[idx]); proof { lemma_in_section(response.answers@, idx); } let ghost ns_b = nameserver_rrs@;"},
        "3": {"kw": "for", "iter_name": "itc__", "spec": """        invariant
            itc__.seq().len() == response.authority@.len(), forall|j: int| 0 <= j < itc__.seq().len() ==> *itc__.seq()[j] == response.authority@[j],
            forall|j: int| 0 <= j < nameserver_rrs@.len() ==> (in_section(#[trigger] nameserver_rrs@[j], response.answers@) || in_section(nameserver_rrs@[j], response.authority@)) // [C06:delegation_records_owned_by_delegation]
                && deleg_rr_ok(nameserver_rrs@[j], match_name, ns_names@),""",
              "entry": BU + " let ghost idx = itc__.index@ as int; assert(*rr == response.authority@[idx]); proof { lemma_in_section(response.authority@, idx); } let ghost ns_b = nameserver_rrs@;"},
        "4": {"kw": "for", "iter_name": "itd__", "spec": """        invariant
            itd__.seq().len() == response.additional@.len(), forall|j: int| 0 <= j < itd__.seq().len() ==> *itd__.seq()[j] == response.additional@[j],
            forall|j: int| 0 <= j < nameserver_rrs@.len() ==> (in_section(#[trigger] nameserver_rrs@[j], response.answers@) || in_section(nameserver_rrs@[j], response.authority@) || in_section(nameserver_rrs@[j], response.additional@)) // [C06:glue_only_for_named_hosts]
                && deleg_rr_ok(nameserver_rrs@[j], match_name, ns_names@),""",
              "entry": BU + " let ghost idx = itd__.index@ as int; assert(*rr == response.additional@[idx]); proof { lemma_in_section(response.additional@, idx); } let ghost ns_b = nameserver_rrs@;"},
    },
    "anchors": [
        {"after": "Some(NameserverResponse::Answer {", "nth": 0, "at": "before", "proof": "assert(answer_ok(rrs_for_query@, response.answers@, question.name, final_name, question.qtype));"},
        {"after": "let mut nameserver_rrs = Vec::<ResourceRecord>::with_capacity(ns_names.len() * 2);", "at": "before", "proof": "assert(ns_names@.len() <= 0x1fffe); assert(nonempty_set(ns_names@)); let ghost hw = choose|h: DomainName| ns_names@.contains(h); assert(ns_names@.contains(hw));"},
        {"after": "let mut path_name = &question.name;", "proof": "let ghost mut ksteps: nat = 0;"},
        {"after": "path_name = next;", "proof": """proof {
    assert(is_on_path(cname_map@, question.name, pn_b)) by { assert(reach(cname_map@, question.name, pn_b, ksteps)); }
    ksteps = ksteps + 1;
    vstd::set_lib::lemma_len_subset(on_path@, cname_map@.dom());
}"""},
    ],
}
