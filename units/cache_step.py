"""Contract, loop contracts and proof anchors for PartitionedCache::remove_expired_step."""

R23B = ("R23", r"for \(_, expiry\) in tuples(?=\s)", "for (_, expiry) in it2__: tuples.iter()")

STEP_SPEC = {
    "props": ["C15", "C05"],
    "extra_rewrites": [R23B],
    "contract": """    requires old(self).wf(),
    ensures final(self).wf(), // [C05,C15:cache_invariants_kept_by_expiry]
        final(self).desired_size == old(self).desired_size,
        r == old(self).current_size - final(self).current_size, // [C15:expiry_reports_true_count]
        r == 0 ==> clean(*final(self)), // [C15:no_expired_record_left_when_nothing_removed]
        expiry_step_ok(old(self).partitions@, final(self).partitions@), // [C05:expiry_removes_exactly_what_is_due]
        forall|k: K1| #[trigger] final(self).partitions@.contains_key(k) ==> old(self).partitions@.contains_key(k),""",
    "entry": "broadcast use vstd::std_specs::hash::group_hash_axioms, axiom_borrowed_key_updated, group_time;",
    "anchors": [
        # popped entry not yet due: everything stored expires after `now`
        {"after": "return 0;", "at": "before", "proof": """proof {
    assert(map_expires_after(self.partitions@, now)) by {
        assert forall|k1: K1, k2: K2, i: int| #![trigger self.partitions@[k1].records@[k2]@[i]]
            self.partitions@.contains_key(k1) && self.partitions@[k1].records@.contains_key(k2) && 0 <= i < self.partitions@[k1].records@[k2]@.len()
            implies inst(self.partitions@[k1].records@[k2]@[i].1) > inst(now) by {
            assert(pqv(&old(self).expiry_priority).contains_key(k1));
            assert(has_tuple(self.partitions@[k1].records@, k2, i));
        }
    }
}"""},
        {"after": "if let Some(partition) = self.partitions.get_mut(&partition_key) {",
         "proof": """let ghost p0 = *partition;
proof { lemma_map_sum_insert(old(self).partitions@, psize::<K2, V>(), partition_key, p0); }"""},
        {"after": "let mut next_expiry = None;", "proof": "let ghost rk = record_keys@;"},
        # after the whole if-let on tuples inside the outer loop body: account for the replaced vector
        {"after": "_ => (),\n                            }\n                        }\n                    }", "proof": """proof {
    let oldv = recs_b[rkey];
    let newv = partition.records@[rkey];
    oldv@.filter_lemma(unexp::<V>(now));
    lemma_map_sum_insert(recs_b, vlen::<(V, Instant)>(), rkey, newv);
    assert(rk[kdx__] == rkey);
    assert(forall|j: int| 0 <= j < rk.len() && j != kdx__ ==> rk[j] != rkey);
    assert(newv@ == tvg);
    if next_expiry is Some {
        if ne_b is Some && some_instant(next_expiry) == some_instant(ne_b) {
            let (j, i) = choose|j: int, i: int| 0 <= j < kdx__ && 0 <= i < recs_b[rk[j]]@.len() && some_instant(ne_b) == #[trigger] recs_b[rk[j]]@[i].1;
            assert(partition.records@[rk[j]] == recs_b[rk[j]]);
            assert(some_instant(next_expiry) == partition.records@[rk[j]]@[i].1);
        } else {
            let i = choose|i: int| 0 <= i < tvg.len() && some_instant(next_expiry) == #[trigger] tvg[i].1;
            assert(some_instant(next_expiry) == partition.records@[rk[kdx__]]@[i].1);
        }
    }
}"""},
        {"after": "partition.size -= pruned;", "nth": -1, "at": "before", "proof": """let ghost recs_f__ = partition.records@;
proof {
    assert forall|k: K2| p0.records@.contains_key(k) implies (#[trigger] recs_f__[k])@ == p0.records@[k]@.filter(unexp::<V>(now)) by {
        assert(rk.contains(k));
        let j = choose|j: int| 0 <= j < rk.len() && rk[j] == k;
        assert(partition.records@[rk[j]]@ == p0.records@[rk[j]]@.filter(unexp::<V>(now)));
    }
}
proof {
    // every key of the partition was visited
    assert forall|k: K2| partition.records@.contains_key(k) implies exists|j: int| 0 <= j < rk.len() && rk[j] == k by {
        assert(rk.contains(k));
    }
    assert forall|k: K2| partition.records@.contains_key(k) implies distinct_seq(#[trigger] partition.records@[k]@) by {
        assert(rk.contains(k));
        let j = choose|j: int| 0 <= j < rk.len() && rk[j] == k;
        assert(partition.records@[rk[j]]@ == p0.records@[rk[j]]@.filter(unexp::<V>(now)));
        lemma_filter_distinct(p0.records@[k]@, unexp::<V>(now));
    }
    // the tuple that attained next_expiry was due, hence removed: at least one record was pruned
    let (ka, ia) = choose|k: K2, i: int| #[trigger] has_tuple(p0.records@, k, i) && inst(p0.next_expiry) == inst(p0.records@[k]@[i].1);
    assert(rk.contains(ka));
    let ja = choose|j: int| 0 <= j < rk.len() && rk[j] == ka;
    lemma_filter_strict(p0.records@[ka]@, unexp::<V>(now), ia);
    lemma_map_sum_remove(p0.records@, vlen::<(V, Instant)>(), ka);
    lemma_map_sum_remove(partition.records@, vlen::<(V, Instant)>(), ka);
    assert forall|k: K2| p0.records@.remove(ka).contains_key(k) implies vlen::<(V, Instant)>()(#[trigger] partition.records@.remove(ka)[k]) <= vlen::<(V, Instant)>()(p0.records@.remove(ka)[k]) by {
        assert(rk.contains(k));
        let j = choose|j: int| 0 <= j < rk.len() && rk[j] == k;
        p0.records@[k]@.filter_lemma(unexp::<V>(now));
        assert(partition.records@[rk[j]]@ == p0.records@[rk[j]]@.filter(unexp::<V>(now)));
    }
    assert(partition.records@[rk[ja]]@ == p0.records@[rk[ja]]@.filter(unexp::<V>(now)));
    lemma_map_sum_le(p0.records@.remove(ka), partition.records@.remove(ka), vlen::<(V, Instant)>());
    assert(pruned >= 1);
    if next_expiry is Some {
        let ne = next_expiry->Some_0;
        assert forall|k: K2, i: int| #[trigger] has_tuple(partition.records@, k, i) implies inst(ne) <= inst(partition.records@[k]@[i].1) by {
            assert(rk.contains(k));
            let j = choose|j: int| 0 <= j < rk.len() && rk[j] == k;
            assert(inst(ne) <= inst(partition.records@[rk[j]]@[i].1));
        }
        let (jj, ii) = choose|j: int, i: int| 0 <= j < rk.len() && 0 <= i < partition.records@[rk[j]]@.len() && ne == #[trigger] partition.records@[rk[j]]@[i].1;
        assert(rk.contains(rk[jj]));
        assert(has_tuple(partition.records@, rk[jj], ii));
        lemma_map_sum_remove(partition.records@, vlen::<(V, Instant)>(), rk[jj]);
    } else {
        assert forall|k: K2| partition.records@.contains_key(k) implies vlen::<(V, Instant)>()(#[trigger] partition.records@[k]) == 0 by {
            assert(rk.contains(k));
            let j = choose|j: int| 0 <= j < rk.len() && rk[j] == k;
            assert(partition.records@[rk[j]]@.len() == 0);
        }
        lemma_map_sum_all_zero(partition.records@, vlen::<(V, Instant)>());
    }
}"""},
        {"after": "self.current_size -= pruned;", "nth": -1, "at": "before", "proof": """proof {
    assert(old(self).partitions@[partition_key] == p0);
    if self.partitions@.contains_key(partition_key) {
        assert(self.partitions@ =~= old(self).partitions@.insert(partition_key, self.partitions@[partition_key]));
    } else {
        assert(self.partitions@ =~= old(self).partitions@.remove(partition_key));
    }
    lemma_expired_only_step(old(self).partitions@, self.partitions@, partition_key, recs_f__, now);
}
proof {
    if old(self).partitions@.contains_key(partition_key) {
        if self.partitions@.contains_key(partition_key) {
            lemma_map_sum_insert(old(self).partitions@, psize::<K2, V>(), partition_key, self.partitions@[partition_key]);
        } else {
            lemma_map_sum_remove(old(self).partitions@, psize::<K2, V>(), partition_key);
            assert(self.partitions@ =~= old(self).partitions@.remove(partition_key));
        }
    }
}"""},
    ],
    "loops": {
        "0": {"kw": "for", "iter_name": "itk__", "spec": """                invariant
                    itk__.seq() == rk, rk.no_duplicates(), forall|k: K2| rk.contains(k) <==> p0.records@.contains_key(k),
                    obeys_key_model::<K2>(),
                    forall|k: K2| #[trigger] partition.records@.contains_key(k) <==> p0.records@.contains_key(k),
                    forall|j: int| 0 <= j < itk__.index@ ==> (#[trigger] partition.records@[rk[j]])@ == p0.records@[rk[j]]@.filter(unexp::<V>(now)),
                    forall|j: int| itk__.index@ <= j < rk.len() ==> #[trigger] partition.records@[rk[j]] == p0.records@[rk[j]],
                    pruned + map_sum(partition.records@, vlen::<(V, Instant)>()) == map_sum(p0.records@, vlen::<(V, Instant)>()),
                    none_instant(next_expiry) ==> forall|j: int| 0 <= j < itk__.index@ ==> (#[trigger] partition.records@[rk[j]])@.len() == 0,
                    next_expiry is Some ==> forall|j: int, i: int| 0 <= j < itk__.index@ && 0 <= i < partition.records@[rk[j]]@.len() ==> inst(some_instant(next_expiry)) <= inst(#[trigger] partition.records@[rk[j]]@[i].1),
                    next_expiry is Some ==> exists|j: int, i: int| 0 <= j < itk__.index@ && 0 <= i < partition.records@[rk[j]]@.len() && some_instant(next_expiry) == #[trigger] partition.records@[rk[j]]@[i].1,
                    partition.size == p0.size, partition.next_expiry == p0.next_expiry, partition.last_read == p0.last_read,
                    p0.size == map_sum(p0.records@, vlen::<(V, Instant)>()),""",
              "entry": "broadcast use vstd::std_specs::hash::group_hash_axioms, axiom_borrowed_key_updated, group_time; let ghost kdx__ = itk__.index@ as int; let ghost recs_b = partition.records@; let ghost ne_b = next_expiry; let ghost mut tvg = Seq::<(V, Instant)>::empty(); assert(rk[kdx__] == rkey); assert(rk.contains(rkey));"},
        "1": {"kw": "for", "spec": """                            invariant
                                it2__.seq().len() == tv__.len(), forall|j: int| 0 <= j < tv__.len() ==> *it2__.seq()[j] == tv__[j],
                                none_instant(next_expiry) ==> none_instant(ne_b) && it2__.index@ == 0,
                                next_expiry is Some ==> (ne_b is Some ==> inst(some_instant(next_expiry)) <= inst(some_instant(ne_b))),
                                next_expiry is Some ==> forall|i: int| 0 <= i < it2__.index@ ==> inst(some_instant(next_expiry)) <= inst(tv__[i].1),
                                next_expiry is Some ==> (ne_b is Some && some_instant(next_expiry) == some_instant(ne_b)) || exists|i: int| 0 <= i < it2__.index@ && some_instant(next_expiry) == #[trigger] tv__[i].1,""",
              "entry": "broadcast use group_time; let ghost idx2__ = it2__.index@ as int; assert(*it2__.seq()[idx2__] == tv__[idx2__]); assert(*expiry == tv__[idx2__].1);"},
    },
}
STEP_SPEC["anchors"].insert(3, {"after": "pruned += len - tuples.len();", "proof": "let ghost tv__ = tuples@; proof { tvg = tv__; }"})
STEP_SPEC["anchors"].insert(3, {"after": "shim_retain_unexpired(tuples, now);", "at": "after_rewrite", "proof": ""})
STEP_SPEC["anchors"] = [a for a in STEP_SPEC["anchors"] if a.get("at") != "after_rewrite"]
STEP_SPEC["anchors"].insert(3, {"after": "pruned += len - tuples.len();", "at": "before",
                                "proof": "proof { recs_b[rkey]@.filter_lemma(unexp::<V>(now)); lemma_map_sum_remove(recs_b, vlen::<(V, Instant)>(), rkey); }"})
