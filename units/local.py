"""Unit `local` (C01, C10): resolve_local, Context guards, prioritising_merge, From<LocalResolutionResult>, ResolvedRecord::rrs/soa_rr.

`SharedCache::get` is given NO postcondition (any vector may come back), so a postcondition that fixes the result as a function
of the zone lookup alone *is* the statement that cache contents are not used (C01)."""
from units.base import *

LOCAL = "crates/dns-resolver/src/local.rs"
CTX = "crates/dns-resolver/src/context.rs"
UTYPES = "crates/dns-resolver/src/util/types.rs"

TRUSTED = TRUSTED_COMMON + [
    "query_nameserver (forwarder): stand-in ASSUMED to answer with the alias chain in order (forwarding mode uses its replies unvalidated)",
    "axiom_rr_vec_len: Vec<ResourceRecord>::len() <= isize::MAX (Rust allocation limit)",
    "R32: resolve_forwarding_notimeout is verified in its synchronous reading (async / .await / #[async_recursion] removed)",
    "resolve_forwarding / resolve_recursive: stand-ins (async-recursive, network); their results are ASSUMED to satisfy the answer-chain clause that is proved for the local arm of `resolve`",
    "R30 drops `.instrument(tracing::..!(..))` (logging span around a future); R31 writes `Result::map(ResolvedRecord::from)` as the equivalent match",
    "Zones::resolve: assumed deterministic function of (zones, name, qtype) (`zones_resolve`); its lookup contract is proved in unit zone_lookup",
    "Zone::soa_rr / get_apex / is_authoritative: uninterpreted functions of the zone",
    "SharedCache::get: unconstrained on purpose except for the owner of the records (== the asked name) and, for a typed look-up, their type (both proved in unit cache)",
    "Zones::resolve stand-in additionally assumes owners_ok (answer records owned by the query name; proved for Zone::resolve in unit zone_lookup)",
    "Metrics::*: counters only (external_body, touch nothing else)",
    "Context::at_recursion_limit / push_question / pop_question: assumed against an abstract constant limit (Vec::capacity is not modelled by vstd); is_duplicate_question is proved",
    "== / != on QueryType, Question are structural (PartialEqSpec axioms)",
]

BU = "broadcast use group_eq_axioms;"

STANDINS = """
// ---- stand-ins for the callees of resolve_local that live in other units / crates (assumed contracts, listed in the evidence)
pub struct Zones { z: u8 }
pub struct Zone { y: u8 }
pub struct SharedCache { c: u8 }
pub struct Metrics { m: u64 }
pub uninterp spec fn zones_resolve(zs: Zones, name: DomainName, qtype: QueryType) -> Option<(Zone, ZoneResult)>;
pub uninterp spec fn zone_soa_rr(z: Zone) -> Option<ResourceRecord>;
pub uninterp spec fn zone_apex(z: Zone) -> DomainName;
impl Zones {
    #[verifier::external_body]
    pub fn resolve(&self, name: &DomainName, qtype: QueryType) -> (r: Option<(&Zone, ZoneResult)>)
        ensures r is Some <==> zones_resolve(*self, *name, qtype) is Some,
                r is Some ==> *r->Some_0.0 == zones_resolve(*self, *name, qtype)->Some_0.0 && r->Some_0.1 == zones_resolve(*self, *name, qtype)->Some_0.1,
                // a CNAME result carries the CNAME record of the query name and that record's target (zone_lookup: lemma_cname_result_consistent)
                r is Some && r->Some_0.1 is CNAME ==> r->Some_0.1->rr.rtype_with_data is CNAME && r->Some_0.1->rr.rtype_with_data->CNAME_cname == r->Some_0.1->cname && r->Some_0.1->rr.name == *name,
                // answer records are owned by the query name, a referral's records by one delegation point (zone_lookup: Zone::resolve/post:answer_records_owned_by_the_query_name)
                r is Some ==> owners_ok(r->Some_0.1, *name),
                // ... and, for a question about one record type, of that type (zone_lookup: Zones::resolve/post:answer_records_have_the_asked_type)
                r is Some ==> answer_typed(r->Some_0.1, qtype),
    { unimplemented!() }
}
impl Zone {
    #[verifier::external_body]
    pub fn soa_rr(&self) -> (r: Option<ResourceRecord>) ensures r == zone_soa_rr(*self) { unimplemented!() }
    #[verifier::external_body]
    pub fn get_apex(&self) -> (r: &DomainName) ensures *r == zone_apex(*self) { unimplemented!() }
    #[verifier::external_body]
    pub fn is_authoritative(&self) -> (r: bool) ensures r == (zone_soa_rr(*self) is Some) { unimplemented!() }
}
impl SharedCache {
    #[verifier::external_body]
    pub fn insert_all(&self, records: &[ResourceRecord]) { unimplemented!() }
    // the cache may return anything, but only records owned by the asked name (cache: SharedCache::get/post:lookup_returns_records_owned_by_the_asked_name)
    #[verifier::external_body]
    pub fn get(&self, name: &DomainName, qtype: QueryType) -> (r: Vec<ResourceRecord>)
        ensures all_named(r@, *name),
            // cache: SharedCache::get/post:typed_lookup_returns_records_of_the_asked_type
            forall|x: int| 0 <= x < r@.len() ==> qmatch(spec_rtype_of((#[trigger] r@[x]).rtype_with_data), qtype),
    { unimplemented!() }
}
impl Metrics {
    #[verifier::external_body] pub fn new() -> (r: Metrics) { unimplemented!() }
    #[verifier::external_body] pub fn zoneresult_answer(&mut self, rrs: &[ResourceRecord], zone: &Zone, question: &Question) { unimplemented!() }
    #[verifier::external_body] pub fn zoneresult_cname(&mut self, zone: &Zone) { unimplemented!() }
    #[verifier::external_body] pub fn zoneresult_delegation(&mut self, zone: &Zone) { unimplemented!() }
    #[verifier::external_body] pub fn zoneresult_nameerror(&mut self, zone: &Zone) { unimplemented!() }
    #[verifier::external_body] pub fn cache_hit(&mut self) { unimplemented!() }
    #[verifier::external_body] pub fn cache_miss(&mut self) { unimplemented!() }
    #[verifier::external_body] pub fn nameserver_hit(&mut self) { unimplemented!() }
    #[verifier::external_body] pub fn nameserver_miss(&mut self) { unimplemented!() }
}
// the recursion limit: the capacity the question stack was created with
pub uninterp spec fn ctx_limit<CT>(c: &Context<'_, CT>) -> nat;
#[verifier::external_type_specification]
#[verifier::external_body]
pub struct ExSocketAddr(std::net::SocketAddr);
#[verifier::external_type_specification]
pub struct ExIpAddr(std::net::IpAddr);
"""

# stand-ins for the two network resolvers called by `resolve` (async-recursive, sockets, timeouts: outside the verifier's reach).
# Their results are ASSUMED to satisfy the clause that is proved for the local resolver.
RESOLVE_STANDINS = """
#[verifier::external_body]
pub(crate) fn resolve_recursive(context: &mut Context<'_, RecursiveContextInner>, question: &Question) -> (r: Result<ResolvedRecord, ResolutionError>)
    requires old(context).r.upstream_dns_port == configured_port(), // [C18:the_context_carries_the_configured_port]
        !forwarding_mode(), // [C18:in_forwarding_mode_the_recursive_resolver_is_not_used]
    ensures question.qtype != QueryType::Wildcard && r is Ok ==> chain_ok(resolved_rrs(r->Ok_0), question.name),
            r is Ok ==> typed_ok(resolved_rrs(r->Ok_0), question.qtype),
{ unimplemented!() }
"""

SPEC_RS = """
impl<'a, CT> Context<'a, CT> {
    spec fn stack(&self) -> Seq<Question> { self.question_stack@ }
    spec fn wf(&self) -> bool { self.question_stack@.len() <= ctx_limit(self) }
}
// same request context except for the question stack / metrics
spec fn same_env<CT>(a: &Context<'_, CT>, b: &Context<'_, CT>) -> bool { a.zones == b.zones && a.cache == b.cache && ctx_limit(a) == ctx_limit(b) && a.r == b.r }
pub open spec fn key_of(rr: ResourceRecord) -> (DomainName, RecordType) { (rr.name, spec_rtype_of(rr.rtype_with_data)) }
// prioritising_merge: the first list, then the records of the second whose (name, type) does not occur in the first, in order
pub open spec fn has_key(s: Seq<ResourceRecord>, k: (DomainName, RecordType)) -> bool { exists|i: int| 0 <= i < s.len() && key_of(#[trigger] s[i]) == k }
#[verifier::opaque]
pub open spec fn merged(a: Seq<ResourceRecord>, b: Seq<ResourceRecord>) -> Seq<ResourceRecord> { a + b.filter(|rr: ResourceRecord| !has_key(a, key_of(rr))) }
pub open spec fn nsdnames(ns: Seq<ResourceRecord>) -> Seq<DomainName> {
    ns.filter(|rr: ResourceRecord| rr.rtype_with_data is NS).map_values(|rr: ResourceRecord| rr.rtype_with_data->NS_nsdname)
}
pub open spec fn result_rrs(r: LocalResolutionResult) -> Seq<ResourceRecord> {
    match r {
        LocalResolutionResult::Done { resolved } => resolved_rrs(resolved),
        LocalResolutionResult::Partial { rrs } => rrs@,
        LocalResolutionResult::Delegation { rrs, .. } => rrs@,
        LocalResolutionResult::CNAME { rrs, .. } => rrs@,
    }
}
// the records a resolution result supplies for the ANSWER section
pub open spec fn resolved_rrs(r: ResolvedRecord) -> Seq<ResourceRecord> {
    match r {
        ResolvedRecord::Authoritative { rrs, .. } => rrs@,
        ResolvedRecord::NonAuthoritative { rrs, .. } => rrs@,
        _ => Seq::<ResourceRecord>::empty(),
    }
}
"""

SPECS = {
    "Context::new": {"props": ["C10"], "ret": "res", "contract": """    ensures res.wf(), res.question_stack@.len() == 0, res.zones == zones, res.cache == cache, res.r == r,"""},
    "Context::done": {"props": ["C10"], "contract": ""},
    "Context::metrics": {"props": ["C01"], "contract": """    ensures *r == old(self).metrics, final(self).question_stack == old(self).question_stack, final(self).zones == old(self).zones,
        final(self).cache == old(self).cache, ctx_limit(final(self)) == ctx_limit(old(self)), final(self).metrics == *final(r), final(self).r == old(self).r,""", "mode": "assume"},
    "Context::at_recursion_limit": {"props": ["C10"], "mode": "assume", "contract": "    ensures r == (self.question_stack@.len() >= ctx_limit(self)),"},
    "Context::push_question": {"props": ["C10"], "mode": "assume", "contract": """    requires old(self).question_stack@.len() < ctx_limit(old(self)),
    ensures final(self).question_stack@ == old(self).question_stack@.push(*question), same_env(old(self), final(self)),"""},
    "Context::pop_question": {"props": ["C10"], "mode": "assume", "contract": """    ensures old(self).question_stack@.len() > 0 ==> final(self).question_stack@ == old(self).question_stack@.drop_last(),
        same_env(old(self), final(self)),"""},
    "Context::is_duplicate_question": {"props": ["C10"], "contract": "    ensures r == self.question_stack@.contains(*question), // [C10:duplicate_question_detected]",
        "entry": BU + """ proof {
    let s = self.question_stack@;
    if s.contains(*question) { let i = choose|i: int| 0 <= i < s.len() && s[i] == *question; assert(s[i].eq_spec(question)); }
    if exists|i: int| 0 <= i < s.len() && #[trigger] s[i].eq_spec(question) {
        let i = choose|i: int| 0 <= i < s.len() && #[trigger] s[i].eq_spec(question);
        assert(s[i] == *question);
    }
}"""},
    "prioritising_merge": {"props": ["C01"], "rewrites": [("R26", r"for rr in &\*priority", "for rr in it1__: priority.iter()")],
        "contract": """    ensures final(priority)@ == merged(old(priority)@, new@), // [C01:local_records_never_overridden_by_later_ones]""",
        "entry": "broadcast use vstd::std_specs::hash::group_hash_axioms, axiom_key_pair_model, lemma_seq_take_full;",
        "loops": {
            "0": {"kw": "for", "spec": """        invariant
            it1__.seq().len() == priority@.len(), forall|j: int| 0 <= j < priority@.len() ==> *it1__.seq()[j] == priority@[j],
            priority@ == old(priority)@,
            forall|k: (DomainName, RecordType)| seen@.contains(k) <==> exists|i: int| 0 <= i < it1__.index@ && key_of(#[trigger] priority@[i]) == k,""",
                  "entry": "broadcast use vstd::std_specs::hash::group_hash_axioms, axiom_key_pair_model; let ghost idx = it1__.index@ as int; assert(*rr == priority@[idx]);"},
            "1": {"kw": "for", "iter_name": "it2__", "spec": """        invariant
            it2__.seq() == new@,
            forall|k: (DomainName, RecordType)| seen@.contains(k) <==> has_key(old(priority)@, k),
            priority@ == merged(old(priority)@, new@.take(it2__.index@ as int)),""",
                  "entry": """broadcast use vstd::std_specs::hash::group_hash_axioms, axiom_key_pair_model; let ghost idx = it2__.index@ as int;
proof { lemma_merged_step(old(priority)@, new@, idx); }"""},
        },
        "anchors": [{"after": "for rr in new", "at": "before", "proof": "assert(new@.take(0) =~= Seq::<ResourceRecord>::empty()); assert(merged(old(priority)@, Seq::<ResourceRecord>::empty()) =~= old(priority)@) by { reveal(Seq::filter); reveal(merged); }"}]},
    "ResolvedRecord::rrs": {"props": ["C01", "C10"], "contract": "    ensures r@ == resolved_rrs(self),"},
    "From::from": {"props": ["C01", "C09"], "contract": """    ensures
        lsr is Done ==> r == lsr->resolved,
        !(lsr is Delegation) ==> resolved_rrs(r) == result_rrs(lsr), // [C01:conversion_keeps_the_records]
        lsr is Delegation ==> resolved_rrs(r).len() == 0, // [C09,C10:referral_records_are_not_answer_records]
        forall|q: QueryType| !(lsr is Delegation) && #[trigger] typed_ok(result_rrs(lsr), q) ==> typed_ok(resolved_rrs(r), q),
        r is AuthoritativeNameError ==> lsr is Done && lsr->resolved is AuthoritativeNameError, // [C01:name_error_only_from_an_authoritative_zone]"""},
}

FORWARD_STANDINS = """
// the forwarder: a recursive resolver elsewhere.  Its replies are used without validation (by design of forwarding mode); the chain
// clause below is therefore proved RELATIVE to the assumption that the forwarder itself answers with the chain in order.
// C18: the forwarder / upstream port this server process is configured with (dns_resolver::resolve puts them into the context)
pub uninterp spec fn configured_forwarder() -> SocketAddr;
pub uninterp spec fn configured_port() -> u16;
// forwarding mode: a forwarder address is configured
pub uninterp spec fn forwarding_mode() -> bool;
#[verifier::external_body]
pub fn query_nameserver(address: SocketAddr, question: Question, recursion_desired: bool) -> (r: Option<Message>)
    requires address == configured_forwarder(), // [C18:forwarding_mode_asks_only_the_configured_forwarder]
    ensures r is Some && question.qtype != QueryType::Wildcard ==> chain_ok(r->Some_0.answers@, question.name),
            r is Some ==> typed_ok(r->Some_0.answers@, question.qtype),
{ unimplemented!() }
#[verifier::external_body]
pub fn get_nxdomain_nodata_soa<'a>(question: &Question, response: &'a Message, current_match_count: usize) -> (r: Option<&'a ResourceRecord>)
{ unimplemented!() }
"""

FORWARD = {
    "props": ["C10", "C01", "C18", "C08"],
    # R32: the synchronous reading of an async fn: `async` and `.await` removed (the future owns `&mut context` for its whole life,
    # everything it shares with other tasks is behind stand-ins without postconditions on shared state); #[async_recursion] dropped
    "header_rewrites": [("R32", r"\basync fn\b", "fn")],
    "rewrites": [("R30", r"\s*\.instrument\(tracing::\w+!\((?:[^()]|\([^()]*\))*\)\)", ""),
                 ("R32", r"\s*\.await\b", "")],
    "contract": """    requires old(context).wf(), old(context).r.forward_address == configured_forwarder(),
    ensures
        final(context).question_stack@ == old(context).question_stack@, same_env(old(context), final(context)), // [C10:question_stack_restored]
        old(context).question_stack@.len() >= ctx_limit(old(context)) ==> r == Err::<ResolvedRecord, ResolutionError>(ResolutionError::RecursionLimit), // [C10:recursion_limit_ends_the_chain]
        old(context).question_stack@.len() < ctx_limit(old(context)) && old(context).question_stack@.contains(*question)
            ==> r == Err::<ResolvedRecord, ResolutionError>(ResolutionError::DuplicateQuestion { question: *question }), // [C10:alias_loop_ends_the_chain]
        // C01: what an authoritative zone (or local records of the asked name and type) says is final: the forwarder's reply is not used
        guards_pass(old(context), *question) && zr(old(context), *question) is Some && zr(old(context), *question)->Some_0.1 is Answer && zone_soa_rr(zr(old(context), *question)->Some_0.0) is Some ==>
            r == Ok::<ResolvedRecord, ResolutionError>(ResolvedRecord::Authoritative { rrs: zr(old(context), *question)->Some_0.1->rrs, soa_rr: zone_soa_rr(zr(old(context), *question)->Some_0.0)->Some_0 }), // [C01:forwarding_authoritative_answer_from_the_zone_alone]
        guards_pass(old(context), *question) && zr(old(context), *question) is Some && zr(old(context), *question)->Some_0.1 is NameError && zone_soa_rr(zr(old(context), *question)->Some_0.0) is Some ==>
            r == Ok::<ResolvedRecord, ResolutionError>(ResolvedRecord::AuthoritativeNameError { soa_rr: zone_soa_rr(zr(old(context), *question)->Some_0.0)->Some_0 }), // [C01:forwarding_authoritative_name_error_from_the_zone_alone]
        guards_pass(old(context), *question) && zr(old(context), *question) is Some && zr(old(context), *question)->Some_0.1 is Answer && zone_soa_rr(zr(old(context), *question)->Some_0.0) is None
            && question.qtype != QueryType::Wildcard && zr(old(context), *question)->Some_0.1->rrs@.len() > 0 ==>
            r == Ok::<ResolvedRecord, ResolutionError>(ResolvedRecord::NonAuthoritative { rrs: zr(old(context), *question)->Some_0.1->rrs, soa_rr: None }), // [C01:forwarding_local_records_returned_exactly]
        r is Ok && r->Ok_0 is AuthoritativeNameError ==> guards_pass(old(context), *question) ==> zr(old(context), *question) is Some && zone_soa_rr(zr(old(context), *question)->Some_0.0) is Some, // [C01:forwarding_name_error_only_from_an_authoritative_zone]
        // C01 (every question type): local records come first and nothing of their name and type is added - unless the name is an alias
        guards_pass(old(context), *question) && zr(old(context), *question) is Some && zr(old(context), *question)->Some_0.1 is Answer && zone_soa_rr(zr(old(context), *question)->Some_0.0) is None && r is Ok ==>
            local_first(zr(old(context), *question)->Some_0.1->rrs@, resolved_rrs(r->Ok_0)) || has_alias(resolved_rrs(r->Ok_0), question.name), // [C01:forwarding_local_records_first_and_nothing_of_their_name_and_type_added]
        // the local part of a chain comes first, in order, then what the forwarder supplied for the rest of the chain
        question.qtype != QueryType::Wildcard && r is Ok ==> chain_ok(resolved_rrs(r->Ok_0), question.name), // [C10:forwarded_chain_in_order_from_the_question_name]
        r is Ok ==> typed_ok(resolved_rrs(r->Ok_0), question.qtype), // [C10:forwarded_answer_holds_only_aliases_and_records_of_the_asked_type]
    decreases ctx_limit(old(context)) - old(context).question_stack@.len(),""",
    "entry": BU + " broadcast use group_chain, lemma_chain_concat_b, lemma_merged_nil_b, lemma_nil_concat_b, axiom_rr_vec_len, group_local_first, lemma_alias_concat_b, group_typed;",
}

FORWARD_WRAPPER = {
    "props": ["C08", "C10", "C18"], "depub": True,
    "header_rewrites": [("R32", r"\basync fn\b", "fn")],
    "rewrites": [("R32", r"\s*\.await\b", "")],
    "contract": """    requires old(context).wf(), old(context).r.forward_address == configured_forwarder(), // [C18:the_context_carries_the_configured_forwarder]
    ensures question.qtype != QueryType::Wildcard && r is Ok ==> chain_ok(resolved_rrs(r->Ok_0), question.name), // [C10:forwarded_chain_in_order_from_the_question_name]
        r is Ok ==> typed_ok(resolved_rrs(r->Ok_0), question.qtype),
        budgeted(r) || r == Err::<ResolvedRecord, ResolutionError>(ResolutionError::Timeout), // [C08:every_resolution_runs_under_its_budget_or_reports_a_timeout]""",
}

RESOLVE = {
    "props": ["C09", "C10", "C18"],
    "header_rewrites": [("R32", r"\basync fn\b", "fn")],
    "rewrites": [("R32", r"\s*\.await\b", ""), ("R30", r"\s*\.instrument\(tracing::\w+!\((?:[^()]|\([^()]*\))*\)\)", ""),
                 ("R31", r"resolve_local\(&mut context, question\)\.map\(ResolvedRecord::from\)",
                  "match resolve_local(&mut context, question) { Ok(lsr__) => Ok(ResolvedRecord::from(lsr__)), Err(e__) => Err(e__) }")],
    "contract": """    requires upstream_dns_port == configured_port(), forward_address is Some ==> forward_address->Some_0 == configured_forwarder(),
        forwarding_mode() == (forward_address is Some),
    ensures
        // C09: an answer section holds only records for the question name or its CNAME chain; C10: in chain order
        question.qtype != QueryType::Wildcard && r.1 is Ok ==> chain_ok(resolved_rrs(r.1->Ok_0), question.name), // [C09,C10:answer_holds_only_the_question_name_and_its_alias_chain]
        r.1 is Ok ==> typed_ok(resolved_rrs(r.1->Ok_0), question.qtype), // [C10:answer_holds_only_aliases_and_records_of_the_asked_type]""",
    "entry": BU + " broadcast use group_chain, group_typed;",
}

RESOLVE_LOCAL = {
    "props": ["C01", "C10", "C08"],
    "anchors": [{"after": "prioritising_merge(&mut rrs, rrs_from_cache);", "at": "before", "proof": "let ghost rfc__ = rrs_from_cache@; let ghost rz__ = rrs@; assert(final_cname is Some ==> rfc__.len() > 0 && rfc__[0].name == question.name && rfc__[0].rtype_with_data is CNAME); proof { assert(question.qtype != QueryType::Wildcard ==> rrs@.len() == 0); if rrs@.len() == 0 { lemma_merged_empty(rfc__); assert(rrs@ =~= Seq::<ResourceRecord>::empty()); } }"},
                {"after": "prioritising_merge(&mut rrs, rrs_from_cache);", "proof": """proof {
    if question.qtype != QueryType::Wildcard {
        assert(rrs@ == rfc__);
        assert(final_cname is Some ==> ends_at(rfc__, final_cname->Some_0));
        assert(chain_ok(rfc__, question.name));
        assert(final_cname is Some ==> chain_k(rfc__, question.name, rfc__.len() as int));
    }
    if final_cname is Some { lemma_alias_merged(rz__, rfc__, question.name); }
    assert(rz__.len() <= rrs@.len()) by { reveal(local_first); lemma_merged_local_first(rz__, rfc__); }
}"""},
                ],
    "contract": """    requires old(context).wf(),
    ensures
        final(context).question_stack@ == old(context).question_stack@, same_env(old(context), final(context)), // [C10:question_stack_restored]
        old(context).question_stack@.len() >= ctx_limit(old(context)) ==> r == Err::<LocalResolutionResult, ResolutionError>(ResolutionError::RecursionLimit), // [C10:recursion_limit_ends_the_chain]
        old(context).question_stack@.len() < ctx_limit(old(context)) && old(context).question_stack@.contains(*question)
            ==> r == Err::<LocalResolutionResult, ResolutionError>(ResolutionError::DuplicateQuestion { question: *question }), // [C10:alias_loop_ends_the_chain]
        // C01: an authoritative zone's answer, name error and referral are final: nothing from the cache is used
        guards_pass(old(context), *question) && zr(old(context), *question) is Some && zr(old(context), *question)->Some_0.1 is Answer && zone_soa_rr(zr(old(context), *question)->Some_0.0) is Some ==>
            r == Ok::<LocalResolutionResult, ResolutionError>(LocalResolutionResult::Done { resolved: ResolvedRecord::Authoritative { rrs: zr(old(context), *question)->Some_0.1->rrs, soa_rr: zone_soa_rr(zr(old(context), *question)->Some_0.0)->Some_0 } }), // [C01:authoritative_answer_from_the_zone_alone]
        guards_pass(old(context), *question) && zr(old(context), *question) is Some && zr(old(context), *question)->Some_0.1 is NameError && zone_soa_rr(zr(old(context), *question)->Some_0.0) is Some ==>
            r == Ok::<LocalResolutionResult, ResolutionError>(LocalResolutionResult::Done { resolved: ResolvedRecord::AuthoritativeNameError { soa_rr: zone_soa_rr(zr(old(context), *question)->Some_0.0)->Some_0 } }), // [C01:authoritative_name_error_from_the_zone_alone]
        guards_pass(old(context), *question) && zr(old(context), *question) is Some && zr(old(context), *question)->Some_0.1 is Delegation && zone_soa_rr(zr(old(context), *question)->Some_0.0) is Some
            && zr(old(context), *question)->Some_0.1->ns_rrs@.len() > 0 ==>
            r is Ok && r->Ok_0 is Delegation && r->Ok_0->Delegation_rrs == zr(old(context), *question)->Some_0.1->ns_rrs && r->Ok_0->Delegation_soa_rr == zone_soa_rr(zr(old(context), *question)->Some_0.0)
            && r->Ok_0->delegation.name == zr(old(context), *question)->Some_0.1->ns_rrs@[0].name, // [C01:authoritative_referral_from_the_zone_alone]
        r is Ok && r->Ok_0 is Delegation ==> is_suffix(r->Ok_0->delegation.name.labels@, question.name.labels@), // [C06,C10:local_referral_is_for_an_ancestor_of_the_question_name]
        r is Ok && r->Ok_0 is Delegation ==> zr(old(context), *question) is Some && zr(old(context), *question)->Some_0.1 is Delegation, // [C01:referral_only_when_the_zone_delegates]
        // C01: records of the asked name and type in a hosts file / non-authoritative zone: exactly those
        guards_pass(old(context), *question) && zr(old(context), *question) is Some && zr(old(context), *question)->Some_0.1 is Answer && zone_soa_rr(zr(old(context), *question)->Some_0.0) is None
            && question.qtype != QueryType::Wildcard && zr(old(context), *question)->Some_0.1->rrs@.len() > 0 ==>
            r == Ok::<LocalResolutionResult, ResolutionError>(LocalResolutionResult::Done { resolved: ResolvedRecord::NonAuthoritative { rrs: zr(old(context), *question)->Some_0.1->rrs, soa_rr: None } }), // [C01:local_records_returned_exactly]
        // C01: records a hosts file / non-authoritative zone holds come first and nothing of the same name and type is added to them (every question type)
        guards_pass(old(context), *question) && zr(old(context), *question) is Some && zr(old(context), *question)->Some_0.1 is Answer && zone_soa_rr(zr(old(context), *question)->Some_0.0) is None && r is Ok ==>
            local_first(zr(old(context), *question)->Some_0.1->rrs@, result_rrs(r->Ok_0)), // [C01:local_records_first_and_nothing_of_their_name_and_type_added]
        r is Ok && r->Ok_0 is CNAME ==> has_alias(r->Ok_0->CNAME_rrs@, question.name), // [C10:partial_chain_holds_the_alias_of_the_question_name]
        guards_pass(old(context), *question) && zr(old(context), *question) is Some && zr(old(context), *question)->Some_0.1 is Answer && r is Err ==> zr(old(context), *question)->Some_0.1->rrs@.len() == 0, // [C01:local_records_are_never_lost_to_an_error]
        // C01: a name error is only ever reported on the word of an authoritative local zone
        guards_pass(old(context), *question) && r is Ok && r->Ok_0 is Done && r->Ok_0->resolved is AuthoritativeNameError ==>
            zr(old(context), *question) is Some && zone_soa_rr(zr(old(context), *question)->Some_0.0) is Some
            && (zr(old(context), *question)->Some_0.1 is NameError || zr(old(context), *question)->Some_0.1 is CNAME), // [C01:name_error_only_from_an_authoritative_zone]
        // C10: a partial chain ends with the alias whose target is the question to continue with (nothing is followed twice, nothing skipped)
        question.qtype != QueryType::Wildcard && r is Ok && r->Ok_0 is CNAME ==> ends_at(r->Ok_0->CNAME_rrs@, r->Ok_0->cname_question.name)
            && r->Ok_0->cname_question.qtype == question.qtype, // [C10:continuation_is_the_target_of_the_last_alias]
        // C10 / C09: what is handed back is the CNAME chain from the question name in order, then records owned by the final target
        question.qtype != QueryType::Wildcard && r is Ok && !(r->Ok_0 is Delegation) ==> chain_ok(result_rrs(r->Ok_0), question.name), // [C09,C10:chain_in_order_from_the_question_name]
        question.qtype != QueryType::Wildcard && r is Ok && r->Ok_0 is CNAME ==> chain_k(r->Ok_0->CNAME_rrs@, question.name, r->Ok_0->CNAME_rrs@.len() as int), // [C10:partial_chain_holds_aliases_only]
        r is Ok && r->Ok_0 is Partial ==> question.qtype == QueryType::Wildcard, // [C10:partial_results_only_for_any_questions]
        r is Ok && !(r->Ok_0 is Delegation) ==> typed_ok(result_rrs(r->Ok_0), question.qtype), // [C10:only_aliases_and_records_of_the_asked_type]
        // C10: the chain starts with the zone's CNAME record for the question name
        guards_pass(old(context), *question) && zr(old(context), *question) is Some && zr(old(context), *question)->Some_0.1 is CNAME ==>
            r is Ok && result_rrs(r->Ok_0).len() > 0 && result_rrs(r->Ok_0)[0] == zr(old(context), *question)->Some_0.1->rr, // [C10:chain_starts_at_the_question_name]
    decreases ctx_limit(old(context)) - old(context).question_stack@.len(),""",
    "entry": BU + " broadcast use group_chain, group_local_first, group_typed;",
}

SPEC2 = """
// C10: the name reached after following the first k records of a chain that starts at q
pub open spec fn reached(rrs: Seq<ResourceRecord>, q: DomainName, k: int) -> DomainName { if k <= 0 { q } else { rrs[k - 1].rtype_with_data->CNAME_cname } }
// C10/C09: the first k records are CNAME records in chain order starting at q (each owner is the previous target), all others are owned by the final target
pub open spec fn chain_k(rrs: Seq<ResourceRecord>, q: DomainName, k: int) -> bool {
    &&& 0 <= k <= rrs.len()
    &&& forall|i: int| 0 <= i < k ==> (#[trigger] rrs[i]).rtype_with_data is CNAME && rrs[i].name == reached(rrs, q, i)
    &&& forall|i: int| k <= i < rrs.len() ==> (#[trigger] rrs[i]).name == reached(rrs, q, k)
}
pub open spec fn chain_ok(rrs: Seq<ResourceRecord>, q: DomainName) -> bool { exists|k: int| #[trigger] chain_k(rrs, q, k) }
pub proof fn lemma_chain_cons(rr: ResourceRecord, b: Seq<ResourceRecord>, q: DomainName, k: int)
    requires rr.rtype_with_data is CNAME, rr.name == q, chain_k(b, rr.rtype_with_data->CNAME_cname, k)
    ensures chain_k(seq![rr] + b, q, k + 1), chain_ok(seq![rr] + b, q)
{
    let f = seq![rr] + b; let t = rr.rtype_with_data->CNAME_cname;
    assert forall|i: int| 0 <= i < k + 1 implies (#[trigger] f[i]).rtype_with_data is CNAME && f[i].name == reached(f, q, i) by {
        if i > 0 { assert(f[i] == b[i - 1]); assert(b[i - 1].name == reached(b, t, i - 1)); if i > 1 { assert(f[i - 1] == b[i - 2]); } }
    }
    assert forall|i: int| k + 1 <= i < f.len() implies (#[trigger] f[i]).name == reached(f, q, k + 1) by {
        assert(f[i] == b[i - 1]); if k > 0 { assert(f[k] == b[k - 1]); }
    }
    assert(chain_k(f, q, k + 1));
}
// the same facts in a form the solver applies by itself wherever a one-alias list is extended or a chain is asked for
pub broadcast proof fn lemma_chain_cons_b(a: Seq<ResourceRecord>, b: Seq<ResourceRecord>, k: int)
    requires a.len() == 1, a[0].rtype_with_data is CNAME, #[trigger] chain_k(b, a[0].rtype_with_data->CNAME_cname, k)
    ensures chain_k(#[trigger] (a + b), a[0].name, k + 1), chain_ok(a + b, a[0].name)
{
    assert(a =~= seq![a[0]]);
    lemma_chain_cons(a[0], b, a[0].name, k);
}
pub broadcast proof fn lemma_chain_intro_single(a: Seq<ResourceRecord>, q: DomainName)
    requires a.len() == 1, a[0].rtype_with_data is CNAME, a[0].name == q
    ensures chain_k(a, q, 1), #[trigger] chain_ok(a, q)
{ assert(chain_k(a, q, 1)); }
pub broadcast proof fn lemma_chain_intro_named(a: Seq<ResourceRecord>, q: DomainName)
    requires all_named(a, q)
    ensures chain_k(a, q, 0), #[trigger] chain_ok(a, q)
{ assert(chain_k(a, q, 0)); }
pub broadcast proof fn lemma_concat_last(a: Seq<ResourceRecord>, b: Seq<ResourceRecord>)
    requires b.len() > 0
    ensures (#[trigger] (a + b)).last() == b.last()
{}
// a pure alias chain a (from q, ending at target t) followed by a chain b from t is a chain from q
pub proof fn lemma_chain_concat(a: Seq<ResourceRecord>, b: Seq<ResourceRecord>, q: DomainName, k: int)
    requires a.len() > 0, chain_k(a, q, a.len() as int), chain_k(b, a.last().rtype_with_data->CNAME_cname, k)
    ensures chain_k(a + b, q, a.len() + k), chain_ok(a + b, q)
{
    let f = a + b; let n = a.len() as int; let t = a.last().rtype_with_data->CNAME_cname;
    assert forall|i: int| 0 <= i < n + k implies (#[trigger] f[i]).rtype_with_data is CNAME && f[i].name == reached(f, q, i) by {
        if i < n { assert(f[i] == a[i]); if i > 0 { assert(f[i - 1] == a[i - 1]); } }
        else { assert(f[i] == b[i - n]); assert(b[i - n].name == reached(b, t, i - n)); if i > n { assert(f[i - 1] == b[i - n - 1]); } else { assert(f[i - 1] == a[n - 1]); } }
    }
    assert forall|i: int| n + k <= i < f.len() implies (#[trigger] f[i]).name == reached(f, q, n + k) by {
        assert(f[i] == b[i - n]); if k > 0 { assert(f[n + k - 1] == b[k - 1]); } else { assert(f[n - 1] == a[n - 1]); }
    }
    assert(chain_k(f, q, n + k));
}
pub broadcast proof fn lemma_chain_concat_b(a: Seq<ResourceRecord>, b: Seq<ResourceRecord>, q: DomainName, k: int)
    requires a.len() > 0, #[trigger] chain_k(a, q, a.len() as int), #[trigger] chain_k(b, a.last().rtype_with_data->CNAME_cname, k)
    ensures chain_ok(#[trigger] (a + b), q)
{ lemma_chain_concat(a, b, q, k); }
// C10: "followed only by records of the asked type": every record that is not an alias has the asked type (any type for ANY)
pub open spec fn typed_ok(rrs: Seq<ResourceRecord>, q: QueryType) -> bool {
    forall|i: int| 0 <= i < rrs.len() ==> (#[trigger] rrs[i]).rtype_with_data is CNAME || qmatch(spec_rtype_of(rrs[i].rtype_with_data), q)
}
pub broadcast proof fn lemma_typed_concat_b(a: Seq<ResourceRecord>, b: Seq<ResourceRecord>, q: QueryType)
    requires typed_ok(a, q), typed_ok(b, q)
    ensures #[trigger] typed_ok(a + b, q)
{
    assert forall|i: int| 0 <= i < (a + b).len() implies (#[trigger] (a + b)[i]).rtype_with_data is CNAME || qmatch(spec_rtype_of((a + b)[i].rtype_with_data), q) by {
        if i < a.len() { assert((a + b)[i] == a[i]); } else { assert((a + b)[i] == b[i - a.len()]); }
    }
}
pub broadcast proof fn lemma_typed_merged_b(a: Seq<ResourceRecord>, b: Seq<ResourceRecord>, q: QueryType)
    requires typed_ok(a, q), typed_ok(b, q)
    ensures #[trigger] typed_ok(merged(a, b), q)
{
    reveal(merged);
    let p = |rr: ResourceRecord| !has_key(a, key_of(rr));
    let m = a + b.filter(p);
    assert forall|i: int| 0 <= i < m.len() implies (#[trigger] m[i]).rtype_with_data is CNAME || qmatch(spec_rtype_of(m[i].rtype_with_data), q) by {
        if i < a.len() { assert(m[i] == a[i]); }
        else {
            assert(m[i] == b.filter(p)[i - a.len()]);
            lemma_filter_in(b, p, i - a.len());
            let w = choose|w: int| 0 <= w < b.len() && b[w] == b.filter(p)[i - a.len()];
        }
    }
}
pub proof fn lemma_filter_in(s: Seq<ResourceRecord>, p: spec_fn(ResourceRecord) -> bool, i: int)
    requires 0 <= i < s.filter(p).len()
    ensures s.contains(s.filter(p)[i])
    decreases s.len()
{
    reveal(Seq::filter);
    if s.len() > 0 {
        let d = s.drop_last();
        if i < d.filter(p).len() {
            lemma_filter_in(d, p, i);
            let w = choose|w: int| 0 <= w < d.len() && d[w] == d.filter(p)[i];
            assert(s[w] == d[w]);
            assert(s.filter(p)[i] == d.filter(p)[i]);
        } else {
            assert(p(s.last()) && s.filter(p)[i] == s.last());
            assert(s[s.len() - 1] == s.last());
        }
    }
}
pub broadcast group group_typed { lemma_typed_concat_b, lemma_typed_merged_b }
// C01: records found locally keep their place: the answer starts with them and no later record has the name and type of one of them
#[verifier::opaque]
pub open spec fn local_first(z: Seq<ResourceRecord>, rr: Seq<ResourceRecord>) -> bool {
    z.len() <= rr.len() && rr.subrange(0, z.len() as int) == z && forall|i: int| z.len() <= i < rr.len() ==> !has_key(z, key_of(#[trigger] rr[i]))
}
// ... unless the question name is itself an alias (its CNAME record is part of the answer and the rest belongs to the alias target)
pub open spec fn has_alias(rr: Seq<ResourceRecord>, q: DomainName) -> bool { exists|i: int| 0 <= i < rr.len() && (#[trigger] rr[i]).name == q && rr[i].rtype_with_data is CNAME }
pub proof fn lemma_merged_local_first(a: Seq<ResourceRecord>, b: Seq<ResourceRecord>)
    ensures local_first(a, merged(a, b))
{
    reveal(merged); reveal(local_first);
    let p = |rr: ResourceRecord| !has_key(a, key_of(rr));
    let m = a + b.filter(p);
    b.filter_lemma(p);
    assert(m.subrange(0, a.len() as int) =~= a);
    assert forall|i: int| a.len() <= i < m.len() implies !has_key(a, key_of(#[trigger] m[i])) by { assert(m[i] == b.filter(p)[i - a.len()]); assert(p(b.filter(p)[i - a.len()])); }
}
pub proof fn lemma_local_first_merged(z: Seq<ResourceRecord>, x: Seq<ResourceRecord>, t: Seq<ResourceRecord>)
    requires local_first(z, x)
    ensures local_first(z, merged(x, t))
{
    reveal(local_first);
    lemma_merged_local_first(x, t);
    let m = merged(x, t);
    assert(m.subrange(0, z.len() as int) =~= z) by {
        assert forall|i: int| 0 <= i < z.len() implies m[i] == z[i] by { assert(m.subrange(0, x.len() as int)[i] == x[i]); assert(x.subrange(0, z.len() as int)[i] == x[i]); }
    }
    assert forall|i: int| z.len() <= i < m.len() implies !has_key(z, key_of(#[trigger] m[i])) by {
        if i < x.len() { assert(m.subrange(0, x.len() as int)[i] == m[i]); }
        else if has_key(z, key_of(m[i])) {
            let j = choose|j: int| 0 <= j < z.len() && key_of(#[trigger] z[j]) == key_of(m[i]);
            assert(x.subrange(0, z.len() as int)[j] == x[j]);
            assert(key_of(x[j]) == key_of(m[i]));
        }
    }
}
pub broadcast proof fn lemma_local_first_merged_b(z: Seq<ResourceRecord>, x: Seq<ResourceRecord>, t: Seq<ResourceRecord>)
    requires #[trigger] local_first(z, x)
    ensures local_first(z, #[trigger] merged(x, t))
{ lemma_local_first_merged(z, x, t); }
pub broadcast proof fn lemma_merged_local_first_b(a: Seq<ResourceRecord>, b: Seq<ResourceRecord>)
    ensures local_first(a, #[trigger] merged(a, b))
{ lemma_merged_local_first(a, b); }
pub broadcast proof fn lemma_local_first_self(a: Seq<ResourceRecord>)
    ensures #[trigger] local_first(a, a)
{ reveal(local_first); assert(a.subrange(0, a.len() as int) =~= a); }
pub broadcast proof fn lemma_alias_first(rr: Seq<ResourceRecord>, q: DomainName)
    requires rr.len() > 0, rr[0].name == q, rr[0].rtype_with_data is CNAME
    ensures #[trigger] has_alias(rr, q)
{}
// merging cannot lose the alias: if the merge drops the cached CNAME of the name, the local list already holds one
pub proof fn lemma_alias_merged(a: Seq<ResourceRecord>, b: Seq<ResourceRecord>, q: DomainName)
    requires b.len() > 0, b[0].name == q, b[0].rtype_with_data is CNAME
    ensures has_alias(merged(a, b), q)
{
    reveal(merged); reveal(Seq::filter);
    let p = |rr: ResourceRecord| !has_key(a, key_of(rr));
    let m = a + b.filter(p);
    if p(b[0]) {
        lemma_filter_has(b, p, 0);
        let w = choose|w: int| 0 <= w < b.filter(p).len() && b.filter(p)[w] == b[0];
        assert(m[a.len() + w] == b[0]);
    } else {
        let j = choose|j: int| 0 <= j < a.len() && key_of(#[trigger] a[j]) == key_of(b[0]);
        assert(m[j] == a[j]);
        assert(a[j].name == q && spec_rtype_of(a[j].rtype_with_data) == RecordType::CNAME);
        assert(a[j].rtype_with_data is CNAME);
    }
}
pub proof fn lemma_filter_has(s: Seq<ResourceRecord>, p: spec_fn(ResourceRecord) -> bool, i: int)
    requires 0 <= i < s.len(), p(s[i])
    ensures s.filter(p).contains(s[i])
    decreases s.len()
{
    reveal(Seq::filter);
    if i == s.len() - 1 { assert(s.filter(p).last() == s[i]); }
    else { lemma_filter_has(s.drop_last(), p, i); assert(s.drop_last()[i] == s[i]);
           let w = choose|w: int| 0 <= w < s.drop_last().filter(p).len() && s.drop_last().filter(p)[w] == s[i];
           if p(s.last()) { assert(s.filter(p)[w] == s[i]); } else { assert(s.filter(p)[w] == s[i]); } }
}
// some alias record is part of the answer
pub open spec fn has_any_alias(rr: Seq<ResourceRecord>) -> bool { exists|i: int| 0 <= i < rr.len() && (#[trigger] rr[i]).rtype_with_data is CNAME }
pub broadcast proof fn lemma_any_alias_from_named(rr: Seq<ResourceRecord>, q: DomainName)
    requires #[trigger] has_alias(rr, q)
    ensures has_any_alias(rr)
{ let i = choose|i: int| 0 <= i < rr.len() && (#[trigger] rr[i]).name == q && rr[i].rtype_with_data is CNAME; assert(rr[i].rtype_with_data is CNAME); }
pub broadcast proof fn lemma_any_alias_concat_b(a: Seq<ResourceRecord>, b: Seq<ResourceRecord>)
    requires has_any_alias(a)
    ensures has_any_alias(#[trigger] (a + b))
{ let i = choose|i: int| 0 <= i < a.len() && (#[trigger] a[i]).rtype_with_data is CNAME; assert((a + b)[i] == a[i]); }
// merging alias records into a list cannot lose all aliases: a dropped one is dropped for an alias of the same name in the list
pub proof fn lemma_any_alias_merged(a: Seq<ResourceRecord>, b: Seq<ResourceRecord>)
    requires b.len() > 0, b[0].rtype_with_data is CNAME
    ensures has_any_alias(merged(a, b))
{
    reveal(merged);
    let p = |rr: ResourceRecord| !has_key(a, key_of(rr));
    let m = a + b.filter(p);
    if p(b[0]) {
        lemma_filter_has(b, p, 0);
        let w = choose|w: int| 0 <= w < b.filter(p).len() && b.filter(p)[w] == b[0];
        assert(m[a.len() + w] == b[0]);
    } else {
        let j = choose|j: int| 0 <= j < a.len() && key_of(#[trigger] a[j]) == key_of(b[0]);
        assert(m[j] == a[j]);
        assert(spec_rtype_of(a[j].rtype_with_data) == RecordType::CNAME);
        assert(a[j].rtype_with_data is CNAME);
    }
}
pub broadcast proof fn lemma_any_alias_merged_b(a: Seq<ResourceRecord>, b: Seq<ResourceRecord>)
    requires b.len() > 0, b[0].rtype_with_data is CNAME
    ensures has_any_alias(#[trigger] merged(a, b))
{ lemma_any_alias_merged(a, b); }
pub broadcast group group_any_alias { lemma_any_alias_from_named, lemma_any_alias_concat_b, lemma_any_alias_merged_b }
pub broadcast proof fn lemma_alias_concat_b(a: Seq<ResourceRecord>, b: Seq<ResourceRecord>, q: DomainName)
    requires #[trigger] has_alias(a, q)
    ensures has_alias(#[trigger] (a + b), q)
{
    let i = choose|i: int| 0 <= i < a.len() && (#[trigger] a[i]).name == q && a[i].rtype_with_data is CNAME;
    assert((a + b)[i] == a[i]);
}
pub broadcast proof fn lemma_local_first_nil_b(z: Seq<ResourceRecord>, x: Seq<ResourceRecord>)
    requires z.len() == 0
    ensures #[trigger] local_first(z, x)
{ reveal(local_first); assert(x.subrange(0, 0) =~= z); }
pub broadcast group group_local_first { lemma_local_first_merged_b, lemma_merged_local_first_b, lemma_local_first_self, lemma_alias_first, lemma_local_first_nil_b }
pub broadcast proof fn lemma_merged_nil_b(a: Seq<ResourceRecord>, b: Seq<ResourceRecord>)
    requires a.len() == 0
    ensures #[trigger] merged(a, b) == b
{ assert(a =~= Seq::<ResourceRecord>::empty()); lemma_merged_empty(b); }
pub broadcast proof fn lemma_nil_concat_b(a: Seq<ResourceRecord>, b: Seq<ResourceRecord>)
    requires a.len() == 0
    ensures #[trigger] (a + b) == b
{ assert(a + b =~= b); }
// Rust allocation limit: a Vec of a non-zero-sized type never holds more than isize::MAX elements (trusted)
pub broadcast axiom fn axiom_rr_vec_len(v: Vec<ResourceRecord>)
    ensures #[trigger] v@.len() <= 0x7fff_ffff_ffff_ffff;
pub broadcast group group_chain { lemma_chain_cons_b, lemma_chain_intro_single, lemma_chain_intro_named, lemma_concat_last }
pub open spec fn ends_at(rrs: Seq<ResourceRecord>, name: DomainName) -> bool {
    rrs.len() > 0 && rrs.last().rtype_with_data is CNAME && rrs.last().rtype_with_data->CNAME_cname == name
}
pub proof fn lemma_merged_empty(b: Seq<ResourceRecord>)
    ensures merged(Seq::<ResourceRecord>::empty(), b) == b
    decreases b.len()
{
    reveal(Seq::filter); reveal(merged);
    let p = |rr: ResourceRecord| !has_key(Seq::<ResourceRecord>::empty(), key_of(rr));
    if b.len() > 0 {
        lemma_merged_empty(b.drop_last());
        assert(Seq::<ResourceRecord>::empty() + b.drop_last().filter(p) =~= b.drop_last().filter(p));
        assert(b.drop_last().push(b.last()) =~= b);
    }
    assert(Seq::<ResourceRecord>::empty() + b.filter(p) =~= b.filter(p));
}
spec fn zr<CT>(c: &Context<'_, CT>, q: Question) -> Option<(Zone, ZoneResult)> { zones_resolve(*c.zones, q.name, q.qtype) }
spec fn guards_pass<CT>(c: &Context<'_, CT>, q: Question) -> bool { c.question_stack@.len() < ctx_limit(c) && !c.question_stack@.contains(q) }
pub broadcast axiom fn axiom_key_pair_model() ensures #[trigger] obeys_key_model::<(DomainName, RecordType)>();
// one step of the merge: the next record of the second list is appended iff its (name, type) does not occur in the first list
pub proof fn lemma_merged_step(a: Seq<ResourceRecord>, b: Seq<ResourceRecord>, i: int)
    requires 0 <= i < b.len()
    ensures merged(a, b.take(i + 1)) == (if has_key(a, key_of(b[i])) { merged(a, b.take(i)) } else { merged(a, b.take(i)).push(b[i]) })
{
    reveal(Seq::filter); reveal(merged);
    assert(b.take(i + 1).drop_last() =~= b.take(i));
    assert(b.take(i + 1).last() == b[i]);
    let p = |rr: ResourceRecord| !has_key(a, key_of(rr));
    if p(b[i]) { assert(a + b.take(i).filter(p).push(b[i]) =~= (a + b.take(i).filter(p)).push(b[i])); }
}
"""


def build(G):
    begin(G, preludes=("bytes.rs", "std.rs", "net.rs", "std_slices.rs"))
    name_types(G, tryfrom=False)
    wire_types(G, conv_props=[], conv_mode="assume")
    G.file(os.path.join(PRELUDE, "wire_spec.rs"))
    G.file(os.path.join(PRELUDE, "hash.rs"))
    G.file(os.path.join(PRELUDE, "eq.rs"))
    L, C, U, T, Z = G.src(LOCAL), G.src(CTX), G.src(UTYPES), G.src(TYPES), G.src(ZTYPES)
    G.item(Z, "enum", "ZoneResult", drop_derive=("Clone",))
    G.raw(STANDINS, ("spec", "local stand-ins"))
    G.file(os.path.join(PRELUDE, "sockaddr.rs"))
    for (k, n) in (("enum", "ResolvedRecord"), ("enum", "ResolutionError"), ("struct", "Nameservers")):
        G.item(U, k, n, drop_derive=("Clone",))
        G.raw(UNIMPL_CLONE % {"T": n})
    G.item(L, "enum", "LocalResolutionResult", drop_derive=("Clone",))
    G.item(C, "struct", "Context")
    G.item(L, "const", "CNAME_QTYPE")
    G.raw(ALL_NAMED_RS, ("spec", "all_named"))
    G.raw(OWNERS_OK_RS, ("spec", "owners_ok"))
    G.raw(QMATCH_RS, ("spec", "qmatch"))
    G.raw(ANSWER_TYPED_RS, ("spec", "answer_typed"))
    G.raw(SPEC_RS, ("spec", "local spec"))
    G.raw(SPEC2, ("spec", "local spec2"))
    specs = {k: dict(v, depub=True) for k, v in SPECS.items()}
    specs["resolve_local"] = dict(RESOLVE_LOCAL, depub=True)
    specs["RecordTypeWithData::rtype"] = {"mode": "assume", "props": [], "contract": "    ensures r == spec_rtype_of(*self),"}
    G.impl(T, "RecordTypeWithData", ["rtype"], "RecordTypeWithData::", specs)
    G.impl(C, "<'a, CT> Context<'a, CT>", ["new", "done", "metrics", "at_recursion_limit", "is_duplicate_question", "push_question", "pop_question"], "Context::", specs)
    G.top_fn(U, "prioritising_merge", specs)
    G.impl(U, "ResolvedRecord", ["rrs"], "ResolvedRecord::", specs)
    G.raw("""impl vstd::std_specs::convert::FromSpecImpl<LocalResolutionResult> for ResolvedRecord {
    open spec fn obeys_from_spec() -> bool { false }
    open spec fn from_spec(v: LocalResolutionResult) -> Self { arbitrary() }
}""")
    G.impl(L, "From<LocalResolutionResult> for ResolvedRecord", ["from"], "From::", specs)
    G.top_fn(L, "resolve_local", specs)
    # the entry point of the resolver library: dispatch on (recursive, forwarder); the local arm is resolve_local + From
    LIB, F, R = G.src("crates/dns-resolver/src/lib.rs"), G.src("crates/dns-resolver/src/forwarding.rs"), G.src("crates/dns-resolver/src/recursive.rs")
    G.item(U, "enum", "ProtocolMode")
    G.item(F, "struct", "ForwardingContextInner")
    G.item(R, "struct", "RecursiveContextInner")
    G.item(LIB, "const", "RECURSION_LIMIT")
    G.item(F, "type", "ForwardingContext")
    G.raw(FORWARD_STANDINS, ("spec", "forwarder stand-ins"))
    specs["ResolvedRecord::soa_rr"] = {"mode": "assume", "props": [], "contract": ""}
    G.impl(U, "ResolvedRecord", ["soa_rr"], "ResolvedRecord::", specs)
    specs["resolve_forwarding_notimeout"] = dict(FORWARD)
    G.top_fn(F, "resolve_forwarding_notimeout", specs)
    G.raw(timeout_standin(60_000_000_000, "every_resolution_has_a_60_second_budget"), ("spec", "timeout stand-in"))
    specs["resolve_forwarding"] = dict(FORWARD_WRAPPER)
    G.top_fn(F, "resolve_forwarding", specs)
    G.raw(RESOLVE_STANDINS, ("spec", "resolver stand-ins"))
    specs["resolve"] = dict(RESOLVE, depub=True)
    G.top_fn(LIB, "resolve", specs)
    end(G)


CANARIES = [
    {"name": "forwarder_ignored_unless_port_is_53", "file": "crates/dns-resolver/src/lib.rs", "old": "    match (is_recursive, forward_address) {", "new": "    let forward_address = if upstream_dns_port == 53 { forward_address } else { None };\n    match (is_recursive, forward_address) {"},
    {"name": "forwarding_budget_five_minutes", "file": "crates/dns-resolver/src/forwarding.rs", "old": "        Duration::from_mins(1),\n        resolve_forwarding_notimeout(context, question),", "new": "        Duration::from_mins(5),\n        resolve_forwarding_notimeout(context, question),"},
    {"name": "forwarding_asks_upstream_despite_local_answer", "file": "crates/dns-resolver/src/forwarding.rs", "old": "Ok(LocalResolutionResult::Done { resolved }) => return Ok(resolved),", "new": "Ok(LocalResolutionResult::Done { resolved }) => combined_rrs = resolved.rrs(),"},
    {"name": "forwarding_chain_tail_first", "file": "crates/dns-resolver/src/forwarding.rs", "old": "                    combined_rrs.append(&mut rrs);\n                    combined_rrs.append(&mut r_rrs);", "new": "                    combined_rrs.append(&mut r_rrs);\n                    combined_rrs.append(&mut rrs);"},
    {"name": "forwarding_forgets_the_loop_guard", "file": "crates/dns-resolver/src/forwarding.rs", "old": "            context.push_question(question);\n            let answer = match resolve_forwarding_notimeout", "new": "            let answer = match resolve_forwarding_notimeout"},
    {"name": "referral_records_returned_as_answer", "file": LOCAL, "old": "                ResolvedRecord::Delegation { ns_rrs: rrs }", "new": "                ResolvedRecord::NonAuthoritative { rrs, soa_rr: None }"},
    {"name": "cached_chain_put_before_its_alias", "file": LOCAL, "old": "                    Ok(LocalResolutionResult::Partial { mut rrs }) => {\n                        rrs_from_cache.append(&mut rrs);", "new": "                    Ok(LocalResolutionResult::Partial { mut rrs }) => {\n                        rrs.append(&mut rrs_from_cache);\n                        rrs_from_cache = rrs;"},
    {"name": "zone_alias_dropped_from_partial_chain", "file": LOCAL, "old": "                        tracing::trace!(\"got partial cname answer\");\n                        rrs.append(&mut cname_rrs);\n                        LocalResolutionResult::Partial { rrs }", "new": "                        tracing::trace!(\"got partial cname answer\");\n                        LocalResolutionResult::Partial { rrs: cname_rrs }"},
    {"name": "nonauth_single_record_goes_to_cache", "file": LOCAL, "old": "} else if question.qtype != QueryType::Wildcard && !rrs.is_empty() {", "new": "} else if question.qtype != QueryType::Wildcard && rrs.len() > 1 {"},
    {"name": "forget_pop", "file": LOCAL, "old": "                context.pop_question();\n                return Ok(answer);", "new": "                return Ok(answer);"},
    {"name": "no_recursion_limit", "file": LOCAL, "old": "    if context.at_recursion_limit() {", "new": "    if false && context.at_recursion_limit() {"},
    {"name": "cname_rr_dropped", "file": LOCAL, "old": "let mut rrs = vec![rr];", "new": "let mut rrs = Vec::new(); let _ = rr;"},
    {"name": "authoritative_answer_merges_cache", "file": LOCAL, "old": "                    tracing::trace!(\"got authoritative answer\");\n                    return Ok(LocalResolutionResult::Done {\n                        resolved: ResolvedRecord::Authoritative { rrs, soa_rr },\n                    });", "new": "                    let mut rrs = rrs;\n                    rrs.append(&mut context.cache.get(&question.name, question.qtype));\n                    return Ok(LocalResolutionResult::Done {\n                        resolved: ResolvedRecord::Authoritative { rrs, soa_rr },\n                    });"},
    {"name": "merge_prefers_new", "file": UTYPES, "old": "        if !seen.contains(&(rr.name.clone(), rr.rtype_with_data.rtype())) {", "new": "        if !seen.contains(&(rr.name.clone(), RecordType::A)) {"},
    {"name": "nonauth_nameerror_reported", "file": LOCAL, "old": "                context.metrics().zoneresult_nameerror(zone);\n\n                if let Some(soa_rr) = zone.soa_rr() {", "new": "                context.metrics().zoneresult_nameerror(zone);\n\n                if let Some(soa_rr) = zone.soa_rr().or_else(|| context.cache.get(&question.name, question.qtype).pop()) {"},
    {"name": "delegation_name_from_question", "file": LOCAL, "old": "let name = ns_rrs[0].name.clone();", "new": "let name = question.name.clone();"},
    {"name": "conversion_drops_rrs", "file": LOCAL, "old": "            LocalResolutionResult::Partial { rrs } => {\n                ResolvedRecord::NonAuthoritative { rrs, soa_rr: None }", "new": "            LocalResolutionResult::Partial { rrs: _ } => {\n                ResolvedRecord::NonAuthoritative { rrs: Vec::new(), soa_rr: None }"},
]
