"""Unit `names` (C16): Label / DomainName constructors and relations against DomainName::wf."""
from units.base import *
import re

TRUSTED = TRUSTED_COMMON + ["<[T]>::ends_with specified as structural suffix (prelude/std_slices.rs)",
    "text constructors: str::split / is_empty / as_bytes / starts_with / ends_with, `==` on str and format! are shims with NO postcondition (R33, R36); `for (i, x) in v.iter().enumerate()` is written as an index loop (R34); `bytes.try_into()` as `Label::try_from(bytes)` (R35); to_dotted_string is a stand-in",
    "axiom_label_vec_len: Vec<Label>::len() <= isize::MAX / 32 (Rust allocation limit)"]

SPECS = dict(NAME_SPECS)
SPECS["DomainName::root_domain"] = dict(SPECS["DomainName::root_domain"],
    entry="broadcast use lemma_labels_sum_one;")
SPECS["DomainName::is_root"] = dict(SPECS["DomainName::is_root"],
    entry="proof { lemma_labels_sum_lower(self.labels@.drop_last()); if self.labels@.len() > 1 { lemma_labels_sum_lower(self.labels@.drop_last().drop_last()); } }")
SPECS["DomainName::is_subdomain_of"] = dict(SPECS["DomainName::is_subdomain_of"],
    entry="broadcast use lemma_ends_with_is_suffix, axiom_label_obeys_eq;")
SPECS["DomainName::make_subdomain_of"] = dict(SPECS["DomainName::make_subdomain_of"],
    entry="proof { lemma_labels_sum_lower(self.labels@); lemma_labels_sum_lower(origin.labels@); }")
SPECS["DomainName::from_labels"] = dict(SPECS["DomainName::from_labels"],
    entry="broadcast use lemma_labels_sum_push, lemma_take_full;",
    rewrites=["R1"],
    loops={"0": {"kw": "for", "iter_name": "it__", "spec": """        invariant
            len == labels@.len() + labels_sum(labels@.take(it__.index@ as int)) - it__.index@,
            it__.index@ <= labels@.len(), labels@.len() <= 0x03ff_ffff_ffff_ffff,
            all_labels_wf(labels@),
            blank_label <==> exists|j: int| 0 <= j < it__.index@ && (#[trigger] labels@[j]).v().len() == 0,
            blank_label ==> it__.index@ > 0 && labels@[it__.index@ - 1].v().len() == 0 && forall|j: int| 0 <= j < it__.index@ - 1 ==> (#[trigger] labels@[j]).v().len() > 0,""",
        "entry": "broadcast use lemma_labels_sum_push; assert(labels@.take(it__.index@ as int + 1) =~= labels@.take(it__.index@ as int).push(*label)); proof { lemma_labels_sum_upper(labels@.take(it__.index@ as int)); } assert(labels@[it__.index@ as int].wf());"}})


# ---- names from text: the string operations are shims WITHOUT postconditions (whatever pieces the text is cut into, the result
# goes through Label::try_from and DomainName::from_labels), so "well-formed or rejected" holds for every input text
TEXT_SHIMS = """
// R33: str / String operations the verifier has no model for; results unconstrained
#[verifier::external_body] fn shim_str_eq(a: &str, b: &str) -> (r: bool) { a == b }
#[verifier::external_body] fn shim_split_dots<'a>(s: &'a str) -> (r: Vec<&'a str>) { s.split('.').collect::<Vec<_>>() }
#[verifier::external_body] fn shim_str_is_empty(s: &str) -> (r: bool) { s.is_empty() }
#[verifier::external_body] fn shim_str_as_bytes<'a>(s: &'a str) -> (r: &'a [u8]) { s.as_bytes() }
#[verifier::external_body] fn shim_ends_with_dot(s: &str) -> (r: bool) { s.to_string().ends_with('.') }
#[verifier::external_body] fn shim_starts_with_dot(s: &str) -> (r: bool) { s.starts_with('.') }
#[verifier::external_body] fn shim_format1<A: std::fmt::Display + ?Sized>(f: &str, a: &A) -> (r: String) { unimplemented!() }
#[verifier::external_body] fn shim_format2<A: std::fmt::Display + ?Sized, B: std::fmt::Display + ?Sized>(f: &str, a: &A, b: &B) -> (r: String) { unimplemented!() }
// Rust allocation limit: a Vec never occupies more than isize::MAX bytes and size_of::<Label>() >= 32 (trusted)
pub broadcast axiom fn axiom_label_vec_len(v: Vec<Label>)
    ensures #[trigger] v@.len() <= 0x03ff_ffff_ffff_ffff;
"""


def _r36(txt):
    """R36: `&format!("..{a}..{b}..")` with identifier placeholders only -> `shim_formatN("<fmt>", &a, &b).as_str()`."""
    def rep(m):
        fmt = m.group(1)
        args = re.findall(r"\{(\w+)\}", fmt)
        if not 1 <= len(args) <= 2 or re.search(r"\{[^}\w]", fmt):
            return m.group(0)
        return "shim_format%d(\"%s\", %s).as_str()" % (len(args), fmt.replace("{", "<").replace("}", ">"), ", ".join("&" + a for a in args))
    return re.subn(r"&format!\(\"([^\"]*)\"\)", rep, txt)


TEXT_SPECS = {
    "DomainName::from_dotted_string": {"props": ["C16"],
        "rewrites": [("R33", r's == "\."', 'shim_str_eq(s, ".")'),
                     ("R33", r"s\.split\('\.'\)\.collect::<Vec<_>>\(\)", "shim_split_dots(s)"),
                     ("R34", r"for \((\w+), (\w+)\) in (\w+)\.iter\(\)\.enumerate\(\)([^{]*)\{", r"for \1 in it__: 0..\3.len() \4{ let \2 = &\3[\1];"),
                     ("R33", r"label_chars\.is_empty\(\)", "shim_str_is_empty(label_chars)"),
                     ("R35", r"match label_chars\.as_bytes\(\)\.try_into\(\) \{", "match Label::try_from(shim_str_as_bytes(label_chars)) {")],
        "contract": """    ensures r is Some ==> r->Some_0.wf(), // [C16:name_from_text_is_well_formed_or_rejected]""",
        "entry": "broadcast use axiom_label_vec_len;",
        "loops": {"0": {"kw": "for", "spec": """        invariant all_labels_wf(labels@),""", "entry": "broadcast use axiom_label_vec_len;"}}},
    "DomainName::to_dotted_string": {"props": [], "mode": "assume", "contract": ""},
    "DomainName::from_relative_dotted_string": {"props": ["C16"],
        "rewrites": [("R33", r"s\.is_empty\(\)", "shim_str_is_empty(s)"),
                     ("R33", r"s\.to_string\(\)\.ends_with\('\.'\)", "shim_ends_with_dot(s)"),
                     ("R33", r"suffix\.starts_with\('\.'\)", "shim_starts_with_dot(suffix.as_str())"),
                     ("R36", _r36)],
        "contract": """    requires origin.wf(),
    ensures r is Some ==> r->Some_0.wf(), // [C16:name_joined_to_an_origin_is_well_formed_or_rejected]"""},
}


def build(G):
    begin(G, preludes=("bytes.rs", "std.rs", "std_slices.rs"))
    name_types(G)
    T = G.src(TYPES)
    G.impl(T, "Label", ["new", "len", "is_empty"], "Label::", SPECS)
    G.impl(T, "TryFrom<&[u8]> for Label", ["try_from"], "Label::", SPECS)
    G.impl(T, "DomainName", ["root_domain", "is_root", "from_labels", "make_subdomain_of", "is_subdomain_of"], "DomainName::", SPECS)
    G.raw(TEXT_SHIMS, ("spec", "text shims"))
    G.impl(T, "DomainName", ["to_dotted_string", "from_dotted_string", "from_relative_dotted_string"], "DomainName::", TEXT_SPECS)
    end(G)


CANARIES = [
    {"name": "text_constructor_bypasses_from_labels", "file": TYPES, "old": "        Self::from_labels(labels)\n    }\n\n    pub fn from_labels", "new": "        let len = labels.len();\n        Some(Self { labels, len })\n    }\n\n    pub fn from_labels"},
    {"name": "len_256", "file": TYPES, "old": "if blank_label && len <= DOMAINNAME_MAX_LEN {", "new": "if blank_label && len <= DOMAINNAME_MAX_LEN + 1 {"},
    {"name": "no_lowercase", "file": TYPES, "old": "Bytes::copy_from_slice(&mixed_case_octets.to_ascii_lowercase())", "new": "Bytes::copy_from_slice(mixed_case_octets)"},
    {"name": "label_64", "file": TYPES, "old": "if mixed_case_octets.len() > LABEL_MAX_LEN {", "new": "if mixed_case_octets.len() > LABEL_MAX_LEN + 1 {"},
    {"name": "blank_not_checked", "file": TYPES, "old": "            if blank_label {\n                return None;\n            }\n", "new": ""},
]
