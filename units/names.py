"""Unit `names` (C16): Label / DomainName constructors and relations against DomainName::wf."""
from units.base import *

TRUSTED = TRUSTED_COMMON + ["<[T]>::ends_with specified as structural suffix (prelude/std_slices.rs)"]

SPECS = dict(NAME_SPECS)
SPECS["DomainName::root_domain"] = dict(SPECS["DomainName::root_domain"],
    entry="broadcast use lemma_labels_sum_one;")
SPECS["DomainName::is_root"] = dict(SPECS["DomainName::is_root"],
    entry="proof { lemma_labels_sum_lower(self.labels@.drop_last()); if self.labels@.len() > 1 { lemma_labels_sum_lower(self.labels@.drop_last().drop_last()); } }")
SPECS["DomainName::is_subdomain_of"] = dict(SPECS["DomainName::is_subdomain_of"],
    entry="broadcast use lemma_ends_with_is_suffix, axiom_label_obeys_eq;")
SPECS["DomainName::make_subdomain_of"] = dict(SPECS["DomainName::make_subdomain_of"],
    entry="proof { lemma_labels_sum_lower(self.labels@); lemma_labels_sum_lower(origin.labels@); }")
SPECS["DomainName::from_labels"] = dict(SPECS["DomainName::from_labels"],
    entry="broadcast use lemma_labels_sum_push, lemma_take_full;",
    rewrites=["R1"],
    loops={"0": {"kw": "for", "iter_name": "it__", "spec": """        invariant
            len == labels@.len() + labels_sum(labels@.take(it__.index@ as int)) - it__.index@,
            it__.index@ <= labels@.len(), labels@.len() <= 0x1_0000_0000,
            all_labels_wf(labels@),
            blank_label <==> exists|j: int| 0 <= j < it__.index@ && (#[trigger] labels@[j]).v().len() == 0,
            blank_label ==> it__.index@ > 0 && labels@[it__.index@ - 1].v().len() == 0 && forall|j: int| 0 <= j < it__.index@ - 1 ==> (#[trigger] labels@[j]).v().len() > 0,""",
        "entry": "broadcast use lemma_labels_sum_push; assert(labels@.take(it__.index@ as int + 1) =~= labels@.take(it__.index@ as int).push(*label)); proof { lemma_labels_sum_upper(labels@.take(it__.index@ as int)); } assert(labels@[it__.index@ as int].wf());"}})


def build(G):
    begin(G, preludes=("bytes.rs", "std.rs", "std_slices.rs"))
    name_types(G)
    T = G.src(TYPES)
    G.impl(T, "Label", ["new", "len", "is_empty"], "Label::", SPECS)
    G.impl(T, "TryFrom<&[u8]> for Label", ["try_from"], "Label::", SPECS)
    G.impl(T, "DomainName", ["root_domain", "is_root", "from_labels", "make_subdomain_of", "is_subdomain_of"], "DomainName::", SPECS)
    end(G)


CANARIES = [
    {"name": "len_256", "file": TYPES, "old": "if blank_label && len <= DOMAINNAME_MAX_LEN {", "new": "if blank_label && len <= DOMAINNAME_MAX_LEN + 1 {"},
    {"name": "no_lowercase", "file": TYPES, "old": "Bytes::copy_from_slice(&mixed_case_octets.to_ascii_lowercase())", "new": "Bytes::copy_from_slice(mixed_case_octets)"},
    {"name": "label_64", "file": TYPES, "old": "if mixed_case_octets.len() > LABEL_MAX_LEN {", "new": "if mixed_case_octets.len() > LABEL_MAX_LEN + 1 {"},
    {"name": "blank_not_checked", "file": TYPES, "old": "            if blank_label {\n                return None;\n            }\n", "new": ""},
]
