"""Unit `hosts_write` (C14, in part): `Hosts::serialise` (hosts/serialise.rs) - what is written.  For every name that has a mapping, in
the order of the sorted name list, the IPv4 line (if the name has an IPv4 address) and then the IPv6 line (if it has an IPv6 address)
are written, each as `<address as its own type prints> <name in dotted form without the final dot, "." for the root>` and a line end,
followed by an empty line; nothing else is written.  How an address prints (`Display`) and the dotted form of a name are oracles
(the latter is decided in unit zone_names); that this text reads back as the same mappings is not composed here."""
from units.base import *
import re

HSER = "crates/dns-types/src/hosts/serialise.rs"

TRUSTED = TRUSTED_COMMON + [
    "R55: the block that collects the names of both maps into a set of references, sorts and collects them is read as shim_sorted_names(&self.v4, &self.v6): each name that has a mapping in either family, once (exact text match: a changed block is UNDECIDED)",
    "R56: `writeln!(&mut out, \"{addr} {domain_str}\")` is read as shim_write_mapping(&mut out, addr, &domain_str): appends how the address prints (Display, an oracle per address type), a space, the name text and a line end",
    "`impl Display for &T` prints the referent (axiom_display_ref); Ipv6Addr::to_canonical: an oracle; DomainName::to_dotted_string / is_root: contracts assumed (unit zone_names); String::pop removes the last character; String::push appends one",
    "HashMap::get on a `&DomainName` key: vstd specs + key model",
]

STANDINS = """
pub uninterp spec fn dotted(n: DomainName) -> Seq<char>;
pub assume_specification [String::with_capacity] (c: usize) -> (r: String) ensures r@ == Seq::<char>::empty();
// how a value prints with `{}` (std::fmt::Display): an oracle per type
pub uninterp spec fn display_text<A>(a: A) -> Seq<char>;
// std: `impl<T: Display> Display for &T` prints the referent
pub broadcast axiom fn axiom_display_ref<A>(a: &A) ensures #[trigger] display_text::<&A>(a) == display_text::<A>(*a);
#[verifier::external_body]
fn shim_write_mapping<A: std::fmt::Display>(out: &mut String, addr: A, name: &String)
    ensures final(out)@ == old(out)@ + display_text(addr) + seq![' '] + name@ + seq!['\\n'],
{ use std::fmt::Write as _; _ = writeln!(out, "{addr} {name}"); }
// std: Ipv6Addr::to_canonical - an IPv4-mapped address becomes the IPv4 address, any other stays as it is (an oracle here)
#[verifier::external_type_specification]
#[verifier::external_body]
pub struct ExIpAddr(std::net::IpAddr);
pub uninterp spec fn v6_canonical(a: Ipv6Addr) -> std::net::IpAddr;
pub assume_specification [std::net::Ipv6Addr::to_canonical] (a: &std::net::Ipv6Addr) -> (r: std::net::IpAddr) ensures r == v6_canonical(*a);
#[verifier::external_body]
fn shim_sorted_names<'a>(v4: &'a HashMap<DomainName, Ipv4Addr>, v6: &'a HashMap<DomainName, Ipv6Addr>) -> (r: Vec<&'a DomainName>)
    ensures forall|i: int| 0 <= i < r@.len() ==> v4@.contains_key(*#[trigger] r@[i]) || v6@.contains_key(*r@[i]),
        forall|n: DomainName| v4@.contains_key(n) || v6@.contains_key(n) ==> exists|i: int| 0 <= i < r@.len() && *#[trigger] r@[i] == n,
        forall|i: int, j: int| 0 <= i < j < r@.len() ==> *r@[i] != *r@[j],
{ unimplemented!() }
#[verifier::external_body]
fn shim_lit(s: &str) -> (r: String) ensures r@ == s@ { s.to_string() }
#[verifier::external_body]
fn shim_string_pop(s: &mut String) ensures final(s)@ == (if old(s)@.len() > 0 { old(s)@.drop_last() } else { old(s)@ }) { s.pop(); }

pub open spec fn is_root_spec(n: DomainName) -> bool { n.len == 1 && n.labels@[0].v().len() == 0 }
// the name as a hosts file spells it
pub open spec fn host_name_text(n: DomainName) -> Seq<char> {
    if is_root_spec(n) { seq!['.'] } else if dotted(n).len() > 0 { dotted(n).drop_last() } else { dotted(n) }
}
// what is written for one name
pub open spec fn name_block(n: DomainName, v4: Map<DomainName, Ipv4Addr>, v6: Map<DomainName, Ipv6Addr>) -> Seq<char> {
    (if v4.contains_key(n) { display_text(v4[n]) + seq![' '] + host_name_text(n) + seq!['\\n'] } else { Seq::<char>::empty() })
    + (if v6.contains_key(n) { display_text(v6[n]) + seq![' '] + host_name_text(n) + seq!['\\n'] } else { Seq::<char>::empty() })
    + seq!['\\n']
}
// what is written for the first k names of the list
pub open spec fn blocks(names: Seq<&DomainName>, k: int, v4: Map<DomainName, Ipv4Addr>, v6: Map<DomainName, Ipv6Addr>) -> Seq<char>
    decreases k
{ if k <= 0 { Seq::<char>::empty() } else { blocks(names, k - 1, v4, v6) + name_block(*names[k - 1], v4, v6) } }
"""

SPECS = {
    "Hosts::serialise": {"props": ["C14"], "ret": "r",
        "rewrites": [("R55", r"let sorted_domains = \{\s*let mut set = HashSet::new\(\);\s*for name in self\.v4\.keys\(\) \{\s*set\.insert\(name\);\s*\}\s*for name in self\.v6\.keys\(\) \{\s*set\.insert\(name\);\s*\}\s*let mut vec = set\.into_iter\(\)\.collect::<Vec<&DomainName>>\(\);\s*vec\.sort\(\);\s*vec\s*\};",
                      lambda m: "let sorted_domains = shim_sorted_names(&self.v4, &self.v6); let ghost names__ = sorted_domains@;" + "\n" * m.group(0).count("\n")),
                     ("R33", r"\"\.\"\.to_string\(\)", "shim_lit(\".\")"),
                     ("R33", r"name_without_dot\.pop\(\);", "shim_string_pop(&mut name_without_dot);"),
                     ("R56", r"_ = writeln!\(&mut out, \"\{addr\} \{domain_str\}\"\);", "shim_write_mapping(&mut out, addr, &domain_str);")],
        "contract": """    ensures
        exists|names: Seq<&DomainName>| (forall|i: int| 0 <= i < names.len() ==> self.v4@.contains_key(*#[trigger] names[i]) || self.v6@.contains_key(*names[i]))
            && (forall|n: DomainName| self.v4@.contains_key(n) || self.v6@.contains_key(n) ==> exists|i: int| 0 <= i < names.len() && *#[trigger] names[i] == n)
            && (forall|i: int, j: int| 0 <= i < j < names.len() ==> *names[i] != *names[j])
            && r@ == #[trigger] blocks(names, names.len() as int, self.v4@, self.v6@), // [C14:every_mapping_is_written_as_one_line_address_then_name_ipv4_before_ipv6_and_nothing_else]""",
        "entry": "broadcast use vstd::std_specs::hash::group_hash_axioms, axiom_dn_key_model;",
        "loops": {"2": {"kw": "for", "iter_name": "it__", "spec": """            invariant it__.seq() == names__, out@ == blocks(names__, it__.index@ as int, self.v4@, self.v6@), // [C14:every_mapping_is_written_as_one_line_address_then_name_ipv4_before_ipv6_and_nothing_else]""",
                        "entry": "broadcast use vstd::std_specs::hash::group_hash_axioms, axiom_dn_key_model, axiom_display_ref; let ghost k__ = it__.index@ as int; let ghost out0__ = out@; assert(domain == names__[k__]);"}},
        "anchors": [{"after_re": r"out\.push\('\\n'\);\s*\}\s*out\s*\}\s*$", "at": "before", "proof": ""}],
        },
}

CANARIES = [
    {"name": "ipv6_line_omitted_for_a_name_with_both_families", "file": HSER, "old": "            if let Some(addr) = self.v6.get(domain) {\n                _ = writeln!(&mut out, \"{addr} {domain_str}\");\n            }", "new": "            if let Some(addr) = self.v6.get(domain) {\n                if self.v4.get(domain).is_none() {\n                _ = writeln!(&mut out, \"{addr} {domain_str}\");\n                }\n            }"},
    {"name": "name_written_with_its_final_dot", "file": HSER, "old": "                name_without_dot.pop();\n", "new": ""},
    {"name": "ipv6_line_written_twice_and_no_ipv4_line", "file": HSER, "old": "            if let Some(addr) = self.v4.get(domain) {", "new": "            if let Some(addr) = self.v6.get(domain) {"},
    {"name": "no_empty_line_between_names", "file": HSER, "old": "            out.push('\\n');\n        }\n\n        out", "new": "        }\n\n        out"},
]


def build(G):
    begin(G, preludes=("bytes.rs", "std.rs"))
    name_types(G, tryfrom=False)
    wire_types(G, conv_props=[], conv_mode="assume")
    G.file(os.path.join(PRELUDE, "hash.rs"))
    H, S, T = G.src(HTYPES), G.src(HSER), G.src(TYPES)
    G.item(H, "struct", "Hosts", drop_derive=("Debug", "Clone", "Eq", "PartialEq"))
    G.raw(STANDINS, ("spec", "hosts_write stand-ins"))
    specs = {k: dict(v) for k, v in SPECS.items()}
    v4p = "(if self.v4@.contains_key(n__) { display_text(self.v4@[n__]) + seq![' '] + host_name_text(n__) + seq!['\\n'] } else { Seq::<char>::empty() })"
    v6p = "(if self.v6@.contains_key(n__) { display_text(self.v6@[n__]) + seq![' '] + host_name_text(n__) + seq!['\\n'] } else { Seq::<char>::empty() })"
    specs["Hosts::serialise"]["anchors"] = [
        {"after_re": r"if let Some\(addr\) = self\.v[46]\.get\(domain\) \{", "nth": 0, "at": "before", "proof": "let ghost n__ = *names__[k__]; proof { reveal_strlit(\".\"); assert(domain_str@ =~= host_name_text(n__)); } // [C14:the_name_is_written_in_dotted_form_without_the_final_dot]"},
        {"after_re": r"if let Some\(addr\) = self\.v[46]\.get\(domain\) \{", "nth": 1, "at": "before", "proof": "let ghost o1__ = out@; proof { assert(o1__ =~= out0__ + " + v4p + "); } // [C14:the_ipv4_line_is_the_address_as_it_prints_then_the_name]"},
        # where the body of the loop ends: whatever it wrote for this name is measured against the name's block
        {"after_re": r"\}\s*out\s*\}\s*$", "at": "before", "proof": """proof {
    assert(out@ =~= o1__ + """ + v6p + """ + seq!['\\n']); // [C14:the_ipv6_line_is_the_address_as_it_prints_then_the_name_and_an_empty_line_ends_the_block]
    assert(out@ =~= out0__ + name_block(n__, self.v4@, self.v6@));
    assert(blocks(names__, k__ + 1, self.v4@, self.v6@) == blocks(names__, k__, self.v4@, self.v6@) + name_block(n__, self.v4@, self.v6@));
}"""}]
    specs["DomainName::to_dotted_string"] = {"mode": "assume", "props": [], "contract": "    ensures r@ == dotted(*self),"}
    specs["DomainName::is_root"] = {"mode": "assume", "props": [], "contract": "    ensures r == is_root_spec(*self),"}
    G.impl(T, "DomainName", ["to_dotted_string", "is_root"], "DomainName::", specs)
    G.impl(S, "Hosts", ["serialise"], "Hosts::", specs)
    end(G)
