// ---- specification of zone lookup (C02), written from the property statement / RFC 1034 section 4.3.2 step 3.
pub broadcast axiom fn axiom_label_eq_structural2(a: Label, b: Label) ensures #[trigger] a.eq_spec(&b) == (a == b);

// the node reached from `zr` by walking `path` (labels below this node, leftmost first; the walk consumes them from the right)
spec fn node_at(zr: ZoneRecords, path: Seq<Label>) -> Option<ZoneRecords>
    decreases path.len()
{
    if path.len() == 0 { Some(zr) }
    else if zr.children@.contains_key(path.last()) { node_at(zr.children@[path.last()], path.drop_last()) }
    else { None }
}
pub open spec fn recs_typed(m: Map<RecordType, Vec<ZoneRecord>>) -> bool {
    forall|t: RecordType, i: int| #![trigger m[t]@[i]] m.contains_key(t) && 0 <= i < m[t]@.len() ==> spec_rtype_of(m[t]@[i].rtype_with_data) == t
}
spec fn node_ok(n: ZoneRecords, full: Seq<Label>) -> bool {
    &&& n.nsdname.labels@ == full
    &&& recs_typed(n.this@)
    &&& (n.wildcards is Some ==> recs_typed(n.wildcards->Some_0@))
}
// representation invariant of a record tree: every node is named by its path, every record is filed under its own type
spec fn tree_wf(root: ZoneRecords) -> bool {
    forall|path: Seq<Label>| (#[trigger] node_at(root, path)) is Some ==> node_ok(node_at(root, path)->Some_0, path + root.nsdname.labels@)
}
proof fn lemma_node_at_child(zr: ZoneRecords, l: Label, q: Seq<Label>)
    requires zr.children@.contains_key(l)
    ensures node_at(zr, q.push(l)) == node_at(zr.children@[l], q)
{ assert(q.push(l).drop_last() =~= q); }
proof fn lemma_tree_wf_child(zr: ZoneRecords, l: Label)
    requires tree_wf(zr), zr.children@.contains_key(l)
    ensures tree_wf(zr.children@[l]), zr.children@[l].nsdname.labels@ == seq![l] + zr.nsdname.labels@, node_ok(zr, zr.nsdname.labels@)
{
    let c = zr.children@[l];
    assert(node_at(zr, Seq::<Label>::empty()) == Some(zr));
    assert(Seq::<Label>::empty() + zr.nsdname.labels@ =~= zr.nsdname.labels@);
    lemma_node_at_child(zr, l, Seq::<Label>::empty());
    assert(node_at(c, Seq::<Label>::empty()) == Some(c));
    assert(Seq::<Label>::empty().push(l) + zr.nsdname.labels@ =~= seq![l] + zr.nsdname.labels@);
    assert forall|q: Seq<Label>| (#[trigger] node_at(c, q)) is Some implies node_ok(node_at(c, q)->Some_0, q + c.nsdname.labels@) by {
        lemma_node_at_child(zr, l, q);
        assert(q.push(l) + zr.nsdname.labels@ =~= q + (seq![l] + zr.nsdname.labels@));
    }
}

pub open spec fn to_rr_spec(zr: ZoneRecord, owner: DomainName) -> ResourceRecord {
    ResourceRecord { name: owner, rtype_with_data: zr.rtype_with_data, rclass: RecordClass::IN, ttl: zr.ttl }
}
pub open spec fn rrs_of(zrs: Seq<ZoneRecord>, owner: DomainName) -> Seq<ResourceRecord> { Seq::new(zrs.len(), |i: int| to_rr_spec(zrs[i], owner)) }
pub open spec fn has(m: Map<RecordType, Vec<ZoneRecord>>, t: RecordType) -> bool { m.contains_key(t) && m[t]@.len() > 0 }
pub open spec fn cname_of(d: RecordTypeWithData) -> DomainName { d->CNAME_cname }

// ANY: every record of every type at the node, and nothing else (order unspecified)
pub open spec fn any_answer_ok(rrs: Seq<ResourceRecord>, m: Map<RecordType, Vec<ZoneRecord>>, qname: DomainName) -> bool {
    &&& forall|t: RecordType, i: int| #![trigger m[t]@[i]] m.contains_key(t) && 0 <= i < m[t]@.len() ==> rrs.contains(to_rr_spec(m[t]@[i], qname))
    &&& forall|j: int| 0 <= j < rrs.len() ==> exists|t: RecordType, i: int| m.contains_key(t) && 0 <= i < m[t]@.len() && #[trigger] rrs[j] == to_rr_spec(#[trigger] m[t]@[i], qname)
}
// "Every record returned is one the zone holds, with its configured TTL and data", owner as stated per case.
// `delegable`: the node may act as a delegation point (any node except the zone apex).
pub open spec fn terminal_ok(r: ZoneResult, m: Map<RecordType, Vec<ZoneRecord>>, qname: DomainName, qtype: QueryType, cut: DomainName, delegable: bool) -> bool {
    if delegable && has(m, RecordType::NS) && qtype != QueryType::Record(RecordType::NS) {
        // referral carrying the delegation's NS set, owned by the delegation point
        r is Delegation && r->ns_rrs@ == rrs_of(m[RecordType::NS]@, cut)
    } else if has(m, RecordType::CNAME) && qtype != QueryType::Record(RecordType::CNAME) && qtype != QueryType::Wildcard {
        // the CNAME instead, when neither CNAME nor ANY was asked
        r is CNAME && r->rr == to_rr_spec(m[RecordType::CNAME]@[0], qname) && r->cname == cname_of(m[RecordType::CNAME]@[0].rtype_with_data)
    } else {
        match qtype {
            QueryType::Record(t) => r is Answer && r->rrs@ == (if m.contains_key(t) { rrs_of(m[t]@, qname) } else { Seq::<ResourceRecord>::empty() }),
            QueryType::Wildcard => r is Answer && any_answer_ok(r->rrs@, m, qname),
            _ => r is Answer && r->rrs@.len() == 0,
        }
    }
}
// the lookup algorithm as the statement gives it: closest encloser, then wildcard / delegation / name error
spec fn lookup_ok(r: ZoneResult, node: ZoneRecords, qname: DomainName, qtype: QueryType, rel: Seq<Label>, at_apex: bool) -> bool
    decreases rel.len()
{
    if rel.len() == 0 {
        terminal_ok(r, node.this@, qname, qtype, node.nsdname, !at_apex)
    } else {
        let l = rel.last();
        if node.children@.contains_key(l) {
            lookup_ok(r, node.children@[l], qname, qtype, rel.drop_last(), false)
        } else if node.wildcards is Some {
            // the name does not exist: synthesise from the wildcard at the closest existing ancestor (owner = query name)
            exists|cut: DomainName| cut.labels@ == seq![l] + node.nsdname.labels@ && #[trigger] terminal_ok(r, node.wildcards->Some_0@, qname, qtype, cut, true)
        } else if !at_apex && has(node.this@, RecordType::NS) {
            // beneath a delegation point other than the apex
            r is Delegation && r->ns_rrs@ == rrs_of(node.this@[RecordType::NS]@, node.nsdname)
        } else {
            r is NameError
        }
    }
}

// corollary used (as an assumption) by unit `local`: a CNAME result is the CNAME record of the query name together with its target
proof fn lemma_cname_result_consistent(r: ZoneResult, node: ZoneRecords, qname: DomainName, qtype: QueryType, rel: Seq<Label>, at_apex: bool)
    requires lookup_ok(r, node, qname, qtype, rel, at_apex), tree_wf(node), r is CNAME
    ensures r->rr.rtype_with_data is CNAME, r->rr.rtype_with_data->CNAME_cname == r->cname, r->rr.name == qname
    decreases rel.len()
{
    lemma_tree_wf_root(node);
    if rel.len() == 0 {
        assert(spec_rtype_of(node.this@[RecordType::CNAME]@[0].rtype_with_data) == RecordType::CNAME);
    } else {
        let l = rel.last();
        if node.children@.contains_key(l) {
            lemma_tree_wf_child(node, l);
            lemma_cname_result_consistent(r, node.children@[l], qname, qtype, rel.drop_last(), false);
        } else if node.wildcards is Some {
            assert(spec_rtype_of(node.wildcards->Some_0@[RecordType::CNAME]@[0].rtype_with_data) == RecordType::CNAME);
        }
    }
}

// corollary used (as an assumption) by unit `local`: owners of what a lookup returns (owners_ok: units/base.py OWNERS_OK_RS)
proof fn lemma_terminal_owners(r: ZoneResult, m: Map<RecordType, Vec<ZoneRecord>>, qname: DomainName, qtype: QueryType, cut: DomainName, delegable: bool)
    requires terminal_ok(r, m, qname, qtype, cut, delegable), is_suffix(cut.labels@, qname.labels@)
    ensures owners_ok(r, qname)
{
    if r is Answer {
        assert forall|i: int| 0 <= i < r->rrs@.len() implies (#[trigger] r->rrs@[i]).name == qname by {
            if qtype == QueryType::Wildcard {
                let (t, j) = choose|t: RecordType, j: int| m.contains_key(t) && 0 <= j < m[t]@.len() && #[trigger] r->rrs@[i] == to_rr_spec(#[trigger] m[t]@[j], qname);
            }
        }
    }
}
proof fn lemma_suffix_of_concat(a: Seq<Label>, b: Seq<Label>, full: Seq<Label>)
    requires a + b == full
    ensures is_suffix(b, full)
{ assert(full.subrange(full.len() - b.len(), full.len() as int) =~= b); }
broadcast proof fn lemma_result_owners(r: ZoneResult, node: ZoneRecords, qname: DomainName, qtype: QueryType, rel: Seq<Label>, at_apex: bool)
    requires #[trigger] lookup_ok(r, node, qname, qtype, rel, at_apex), tree_wf(node), rel + node.nsdname.labels@ == qname.labels@
    ensures owners_ok(r, qname)
    decreases rel.len()
{
    lemma_suffix_of_concat(rel, node.nsdname.labels@, qname.labels@);
    if rel.len() == 0 {
        lemma_terminal_owners(r, node.this@, qname, qtype, node.nsdname, !at_apex);
    } else {
        let l = rel.last();
        assert(rel.drop_last() + (seq![l] + node.nsdname.labels@) =~= rel + node.nsdname.labels@) by { assert(rel.drop_last().push(l) =~= rel); }
        if node.children@.contains_key(l) {
            lemma_tree_wf_child(node, l);
            lemma_result_owners(r, node.children@[l], qname, qtype, rel.drop_last(), false);
        } else if node.wildcards is Some {
            let cut = choose|cut: DomainName| cut.labels@ == seq![l] + node.nsdname.labels@ && #[trigger] terminal_ok(r, node.wildcards->Some_0@, qname, qtype, cut, true);
            lemma_suffix_of_concat(rel.drop_last(), cut.labels@, qname.labels@);
            lemma_terminal_owners(r, node.wildcards->Some_0@, qname, qtype, cut, true);
        }
    }
}

proof fn lemma_terminal_typed(r: ZoneResult, m: Map<RecordType, Vec<ZoneRecord>>, qname: DomainName, qtype: QueryType, cut: DomainName, delegable: bool)
    requires terminal_ok(r, m, qname, qtype, cut, delegable), recs_typed(m)
    ensures answer_typed(r, qtype)
{
    if r is Answer {
        assert forall|i: int| 0 <= i < r->rrs@.len() implies qmatch(spec_rtype_of((#[trigger] r->rrs@[i]).rtype_with_data), qtype) by {
            if let QueryType::Record(t) = qtype {
                assert(m.contains_key(t));
                assert(r->rrs@[i] == to_rr_spec(m[t]@[i], qname));
                assert(spec_rtype_of(m[t]@[i].rtype_with_data) == t);
            }
        }
    }
}
broadcast proof fn lemma_result_typed(r: ZoneResult, node: ZoneRecords, qname: DomainName, qtype: QueryType, rel: Seq<Label>, at_apex: bool)
    requires #[trigger] lookup_ok(r, node, qname, qtype, rel, at_apex), tree_wf(node)
    ensures answer_typed(r, qtype)
    decreases rel.len()
{
    lemma_tree_wf_root(node);
    if rel.len() == 0 {
        lemma_terminal_typed(r, node.this@, qname, qtype, node.nsdname, !at_apex);
    } else {
        let l = rel.last();
        if node.children@.contains_key(l) {
            lemma_tree_wf_child(node, l);
            lemma_result_typed(r, node.children@[l], qname, qtype, rel.drop_last(), false);
        } else if node.wildcards is Some {
            let cut = choose|cut: DomainName| cut.labels@ == seq![l] + node.nsdname.labels@ && #[trigger] terminal_ok(r, node.wildcards->Some_0@, qname, qtype, cut, true);
            lemma_terminal_typed(r, node.wildcards->Some_0@, qname, qtype, cut, true);
        }
    }
}

proof fn lemma_tree_wf_root(zr: ZoneRecords)
    requires tree_wf(zr)
    ensures node_ok(zr, zr.nsdname.labels@)
{
    assert(node_at(zr, Seq::<Label>::empty()) == Some(zr));
    assert(Seq::<Label>::empty() + zr.nsdname.labels@ =~= zr.nsdname.labels@);
}
// a proper suffix of a well-formed name's labels is the label sequence of a well-formed name
proof fn lemma_suffix_wf(full: Seq<Label>, k: int)
    requires shape_ok(full), all_labels_wf(full), labels_sum(full) <= 255, 0 <= k < full.len()
    ensures shape_ok(full.subrange(k, full.len() as int)), all_labels_wf(full.subrange(k, full.len() as int)),
            labels_sum(full.subrange(k, full.len() as int)) <= 255, full.len() <= 255
{
    let suf = full.subrange(k, full.len() as int);
    assert(full =~= full.subrange(0, k) + suf);
    lemma_labels_sum_concat(full.subrange(0, k), suf);
    lemma_labels_sum_lower(full);
    assert forall|i: int| 0 <= i < suf.len() implies (#[trigger] suf[i]).wf() by { assert(suf[i] == full[k + i]); }
    assert forall|i: int| 0 <= i < suf.len() - 1 implies (#[trigger] suf[i]).v().len() > 0 by { assert(suf[i] == full[k + i]); }
}
